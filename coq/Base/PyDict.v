(* Base/PyDict.v — insertion-ordered dictionary with Python dict semantics, keys in Z. *)
From H2 Require Import Base.Prelude.

Section Dict.
Context {V : Type}.
Definition dict := list (Z * V).

Fixpoint dget (k : Z) (d : dict) : option V :=
  match d with [] => None | (k', v) :: r => if k =? k' then Some v else dget k r end.

(* d[k] = v : keeps the position of an existing key, appends a new one *)
Fixpoint dset (k : Z) (v : V) (d : dict) : dict :=
  match d with
  | [] => [(k, v)]
  | (k', v') :: r => if k =? k' then (k, v) :: r else (k', v') :: dset k v r
  end.

Fixpoint ddel (k : Z) (d : dict) : dict :=
  match d with [] => [] | (k', v) :: r => if k =? k' then r else (k', v) :: ddel k r end.

Definition dmem (k : Z) (d : dict) : bool := match dget k d with Some _ => true | None => false end.
Definition dkeys (d : dict) : list Z := map fst d.
Definition dmapv (f : V -> V) (d : dict) : dict := map (fun kv => (fst kv, f (snd kv))) d.

(* OrderedDict.popitem(last=False) repeated while len > limit *)
Fixpoint drop_oldest (n : nat) (d : dict) : dict :=
  match n with O => d | S n' => drop_oldest n' (tl d) end.

Lemma dget_dset_same k v d : dget k (dset k v d) = Some v.
Proof.
  induction d as [|[k' v'] r IH]; cbn [dset dget]; [rewrite Z.eqb_refl; reflexivity|].
  destruct (k =? k') eqn:E; cbn [dget]; [rewrite Z.eqb_refl; reflexivity | rewrite E; exact IH].
Qed.

Lemma dget_dset_other k k' v d : k <> k' -> dget k' (dset k v d) = dget k' d.
Proof.
  intros N. induction d as [|[k2 v2] r IH]; cbn [dset dget].
  - destruct (k' =? k) eqn:E; [lia|reflexivity].
  - destruct (k =? k2) eqn:E; cbn [dget].
    + destruct (k' =? k) eqn:E1; [lia|]. destruct (k' =? k2) eqn:E2; [lia|reflexivity].
    + destruct (k' =? k2); [reflexivity|exact IH].
Qed.

Lemma dget_dmapv f k d : dget k (dmapv f d) = option_map f (dget k d).
Proof.
  induction d as [|[k' v'] r IH]; cbn [dmapv map dget fst snd]; [reflexivity|].
  destruct (k =? k'); [reflexivity|exact IH].
Qed.

Lemma length_dset_le k v d : (length (dset k v d) <= S (length d))%nat.
Proof.
  induction d as [|[k' v'] r IH]; cbn [dset length]; [lia|].
  destruct (k =? k'); cbn [length]; lia.
Qed.

Lemma length_drop_oldest n d : length (drop_oldest n d) = (length d - n)%nat.
Proof.
  revert d. induction n as [|n IH]; intros d; cbn [drop_oldest]; [lia|].
  rewrite IH. destruct d; cbn [tl length]; lia.
Qed.
End Dict.
Arguments dict V : clear implicits.
