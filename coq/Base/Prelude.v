(* Base/Prelude.v — result type shared by every layer of the model, small tactics. *)
From Coq Require Export ZArith List Bool Lia ZifyBool.
Export ListNotations.
Open Scope Z_scope.

Ltac Zify.zify_post_hook ::= Z.to_euclidean_division_equations.

(* h2 exception classes (src/h2/exceptions.py). *)
Inductive h2exn :=
| ProtocolError | FrameTooLargeError | FrameDataMissingError | TooManyStreamsError
| FlowControlError | StreamIDTooLowError | NoAvailableStreamIDError | NoSuchStreamError
| StreamClosedError | InvalidSettingsValueError | InvalidBodyLengthError
| UnsupportedFrameError | DenialOfServiceError | RFC1122Error.

(* Non-h2 exceptions a partial Python primitive can raise. *)
Inductive pyexn :=
| ValueError | TypeError | KeyError | IndexError | AssertionError
| UnicodeDecodeError | ForeignError (* an exception class of hyperframe / binascii / struct *).

(* Outcome of a call.  [Err e code sid rst]: an h2 exception of class [e] whose
   [error_code] attribute is [code]; [sid] is its [stream_id] attribute where the
   class has one (0 otherwise); [rst] says that a StreamClosedError carries the
   single StreamReset event of [reset_stream_on_error] in [_events]. *)
Inductive res (A : Type) :=
| Ok (a : A)
| Err (e : h2exn) (code : Z) (sid : Z) (rst : bool)
| Crash (e : pyexn).
Arguments Ok {A} a.
Arguments Err {A} e code sid rst.
Arguments Crash {A} e.

Definition h2exn_eqb (a b : h2exn) : bool :=
  match a, b with
  | ProtocolError, ProtocolError | FrameTooLargeError, FrameTooLargeError
  | FrameDataMissingError, FrameDataMissingError | TooManyStreamsError, TooManyStreamsError
  | FlowControlError, FlowControlError | StreamIDTooLowError, StreamIDTooLowError
  | NoAvailableStreamIDError, NoAvailableStreamIDError | NoSuchStreamError, NoSuchStreamError
  | StreamClosedError, StreamClosedError | InvalidSettingsValueError, InvalidSettingsValueError
  | InvalidBodyLengthError, InvalidBodyLengthError | UnsupportedFrameError, UnsupportedFrameError
  | DenialOfServiceError, DenialOfServiceError | RFC1122Error, RFC1122Error => true
  | _, _ => false
  end.

Lemma h2exn_eqb_eq a b : h2exn_eqb a b = true <-> a = b.
Proof. destruct a, b; cbn; split; intros H; try reflexivity; discriminate. Qed.

(* [is_protocol_error e]: e is ProtocolError or a subclass (everything except RFC1122Error). *)
Definition is_protocol_error (e : h2exn) : bool :=
  match e with RFC1122Error => false | _ => true end.

(* subclass tests used by except clauses *)
Definition is_no_such_stream (e : h2exn) : bool :=
  match e with NoSuchStreamError | StreamClosedError => true | _ => false end.

Definition is_ok {A} (r : res A) : bool := match r with Ok _ => true | _ => false end.
Definition is_crash {A} (r : res A) : bool := match r with Crash _ => true | _ => false end.

(* One case split per [if]; never [repeat destruct] over comparisons by hand. *)
Ltac case_if :=
  match goal with
  | |- context [if ?b then _ else _] => let E := fresh "E" in destruct b eqn:E
  end.
Ltac case_ifs := repeat case_if.
Ltac case_if_in H :=
  match type of H with
  | context [if ?b then _ else _] => let E := fresh "E" in destruct b eqn:E
  end.

Definition opt_default {A} (d : A) (o : option A) : A := match o with Some a => a | None => d end.

(* Python truthiness of an Optional[int] (None and 0 are falsy). *)
Definition truthy_optZ (o : option Z) : bool := match o with Some z => negb (z =? 0) | None => false end.
