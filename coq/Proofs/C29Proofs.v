From H2 Require Import Base.Prelude Base.PyDict Model.FsmTypes Gen.Consts Gen.Tables Gen.Guards
  Model.Types Model.Windows Model.WmHist Model.SettingsV Model.Settings Model.StreamFSM Model.Headers
  Model.Stream Model.ConnState Model.Connection Proofs.ConstFacts Proofs.Frame Proofs.FrameConn.

(* _get_stream_by_id: an id that is not in the stream table raises StreamClosedError when it is at or below the
   watermark of its direction (closed and forgotten), NoSuchStreamError when it is above (never used) *)
Lemma get_stream_by_id_unknown sid c : dget sid (c_streams c) = None ->
  get_stream_by_id sid c =
  (c, if sid >? highest_for c sid then Err NoSuchStreamError 1 sid false else Err StreamClosedError 5 sid false).
Proof.
  intros H. unfold get_stream_by_id, bind, get. rewrite H. unfold g_get_stream_nosuch.
  destruct (sid >? highest_for c sid); reflexivity.
Qed.

Definition unknown_stream_error (c : conn) (sid : Z) : res unit :=
  if sid >? highest_for c sid then Err NoSuchStreamError 1 sid false else Err StreamClosedError 5 sid false.

(* the stream-addressed calls report exactly that, and append nothing *)
Lemma highest_for_state c t sid : highest_for (cset_state c t) sid = highest_for c sid.
Proof. destruct c; reflexivity. Qed.

Lemma end_stream_unknown sid c t :
  conn_transition (c_state c) CI_SEND_DATA = Some t -> dget sid (c_streams c) = None ->
  api_end_stream sid c = (cset_state c t, unknown_stream_error c sid).
Proof.
  intros Ht H. unfold api_end_stream. unfold bind at 1. unfold cfsm. rewrite Ht.
  unfold bind at 1. rewrite get_stream_by_id_unknown by (destruct c; exact H).
  unfold unknown_stream_error. rewrite highest_for_state. destruct (sid >? highest_for c sid); reflexivity.
Qed.

Lemma reset_stream_unknown sid code c t :
  conn_transition (c_state c) CI_SEND_RST_STREAM = Some t -> dget sid (c_streams c) = None ->
  api_reset_stream sid code c = (cset_state c t, unknown_stream_error c sid).
Proof.
  intros Ht H. unfold api_reset_stream. unfold bind at 1. unfold cfsm. rewrite Ht.
  unfold bind at 1. rewrite get_stream_by_id_unknown by (destruct c; exact H).
  unfold unknown_stream_error. rewrite highest_for_state. destruct (sid >? highest_for c sid); reflexivity.
Qed.

Lemma increment_unknown inc sid c t :
  g_inc_range inc = false ->
  conn_transition (c_state c) CI_SEND_WINDOW_UPDATE = Some t -> dget sid (c_streams c) = None ->
  api_increment_window inc (Some sid) c = (cset_state c t, unknown_stream_error c sid).
Proof.
  intros Hr Ht H. unfold api_increment_window. rewrite Hr. unfold bind at 1. unfold ret at 1. unfold bind at 1.
  unfold cfsm. rewrite Ht. unfold bind at 1. unfold bind at 1.
  rewrite get_stream_by_id_unknown by (destruct c; exact H).
  unfold unknown_stream_error. rewrite highest_for_state. destruct (sid >? highest_for c sid); reflexivity.
Qed.

Lemma send_data_unknown sid len es pad c :
  g_send_data_pad (opt_default 0 pad) (match pad with Some _ => true | None => false end) = false ->
  dget sid (c_streams c) = None ->
  api_send_data sid len es pad c = (c, unknown_stream_error c sid).
Proof.
  intros Hp H. unfold api_send_data. rewrite Hp. unfold bind at 1. unfold ret at 1. unfold bind at 1.
  unfold local_flow_control_window. unfold bind at 1. rewrite (get_stream_by_id_unknown sid c H).
  unfold unknown_stream_error. destruct (sid >? highest_for c sid); reflexivity.
Qed.

Lemma windows_unknown sid c : dget sid (c_streams c) = None ->
  local_flow_control_window sid c = (c, match unknown_stream_error c sid with Err e a b d => Err e a b d | _ => Crash KeyError end) /\
  remote_flow_control_window sid c = (c, match unknown_stream_error c sid with Err e a b d => Err e a b d | _ => Crash KeyError end).
Proof.
  intros H. unfold local_flow_control_window, remote_flow_control_window. unfold bind.
  rewrite (get_stream_by_id_unknown sid c H). unfold unknown_stream_error.
  destruct (sid >? highest_for c sid); split; reflexivity.
Qed.

(* ---- a user call that raises adds no bytes: calls whose frames are small and built after every check ---- *)
Definition silent {A} (m : CM A) : Prop :=
  forall c c' r, 16384 <= c_max_out_frame c -> m c = (c', r) -> is_ok r = false -> c_out c' = c_out c.

Ltac ow := intros; reflexivity.

Lemma prepare_small fs c : 16384 <= c_max_out_frame c -> forallb (fun f => body_len f <=? 16384) fs = true ->
  prepare_for_sending fs c = (match fs with [] => c | _ => cset_out c (c_out c ++ fs) end, Ok tt).
Proof.
  intros Hm Hs. unfold prepare_for_sending. destruct fs as [|f fs']; [reflexivity|].
  assert (Hall : forallb (fun f0 => body_len f0 <=? c_max_out_frame c) (f :: fs') = true).
  { apply forallb_forall. intros x Hx. rewrite forallb_forall in Hs. specialize (Hs x Hx). lia. }
  rewrite Hall. reflexivity.
Qed.

Lemma silent_ping pl : silent (api_ping pl).
Proof.
  intros c c' r Hm H Hr. unfold api_ping in H. destruct (g_ping_len (zlen pl) true).
  { unfold bind, crash in H. injection H as <- _. reflexivity. }
  unfold bind at 1 in H. unfold ret at 1 in H. unfold bind at 1 in H. unfold cfsm in H.
  destruct (conn_transition (c_state c) CI_SEND_PING) as [t|]; [|injection H as <- _; reflexivity].
  rewrite prepare_small in H; [|destruct c; exact Hm|reflexivity]. injection H as _ <-. discriminate.
Qed.

Lemma silent_reset sid code : silent (api_reset_stream sid code).
Proof.
  intros c c' r Hm H Hr. unfold api_reset_stream in H. unfold bind at 1 in H. unfold cfsm in H.
  destruct (conn_transition (c_state c) CI_SEND_RST_STREAM) as [t|]; [|injection H as <- _; reflexivity].
  unfold bind at 1 in H. destruct (get_stream_by_id sid (cset_state c t)) as [c1 r1] eqn:E1.
  assert (H1 : c_out c1 = c_out c) by (rewrite (fp_get_stream_by_id c_out sid _ _ _ E1); reflexivity).
  assert (M1 : c_max_out_frame c1 = c_max_out_frame c) by (rewrite (fp_get_stream_by_id c_max_out_frame sid _ _ _ E1); reflexivity).
  destruct r1 as [s|e co i b|p]; try (injection H as <- _; exact H1).
  unfold bind at 1 in H. destruct (with_stream sid (reset_stream code) c1) as [c2 r2] eqn:E2.
  assert (H2 : c_out c2 = c_out c1) by (apply (pres_with_stream c_out ltac:(ow) _ _ _ _ _ E2)).
  assert (M2 : c_max_out_frame c2 = c_max_out_frame c1) by (apply (pres_with_stream c_max_out_frame ltac:(ow) _ _ _ _ _ E2)).
  destruct r2 as [frames|e co i b|p]; try (injection H as <- _; congruence).
  (* the only frames a stream's reset_stream returns: one RST_STREAM *)
  assert (Hf : forallb (fun f => body_len f <=? 16384) frames = true).
  { unfold with_stream in E2. destruct (dget sid (c_streams c1)) as [s0|]; [|discriminate].
    destruct (reset_stream code s0) as [s' r'] eqn:Er. injection E2 as _ Hr2. subst r'.
    unfold reset_stream in Er. unfold bind at 1 in Er. destruct (fsm SI_SEND_RST_STREAM s0) as [s1 r1]. destruct r1; try discriminate.
    unfold bind, get, ret in Er. injection Er as _ <-. reflexivity. }
  rewrite prepare_small in H; [|lia|exact Hf]. injection H as _ <-. discriminate.
Qed.

(* fix 12650a7: a server's send_headers on an id that is not in the stream table raises exactly the lookup error and
   changes nothing at all (no stream object, no connection state change, nothing encoded, nothing emitted) *)
Lemma server_send_headers_unknown sid hs L es pw pd pe c :
  client c = false -> dget sid (c_streams c) = None ->
  api_send_headers sid hs L es pw pd pe c = (c, unknown_stream_error c sid).
Proof.
  intros Hc H. unfold api_send_headers. unfold bind at 1. unfold get at 1. rewrite Hc.
  unfold bind at 1. unfold bind at 1. rewrite get_stream_by_id_unknown by exact H.
  unfold unknown_stream_error. destruct (sid >? highest_for c sid); reflexivity.
Qed.

(* so a server never opens a stream by sending headers: a successful send_headers on a server found its stream *)
Lemma server_send_headers_ok_known sid hs L es pw pd pe c c' :
  client c = false -> api_send_headers sid hs L es pw pd pe c = (c', Ok tt) -> dmem sid (c_streams c) = true.
Proof.
  intros Hc H. unfold dmem. destruct (dget sid (c_streams c)) eqn:E; [reflexivity|].
  rewrite (server_send_headers_unknown sid hs L es pw pd pe c Hc E) in H. unfold unknown_stream_error in H.
  destruct (sid >? highest_for c sid); discriminate.
Qed.
