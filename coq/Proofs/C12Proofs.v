From H2 Require Import Base.Prelude Gen.Consts Gen.Kernels Model.Windows Model.SettingsV Spec.Rfc65 Proofs.GenEq.

Lemma validate_zero_iff id v : 0 <= v -> (validate_setting id v = 0 <-> setting_ok id v).
Proof.
  intros Hv. unfold validate_setting, setting_ok, in01,
    SC_ENABLE_PUSH, SC_INITIAL_WINDOW_SIZE, SC_MAX_FRAME_SIZE, SC_MAX_HEADER_LIST_SIZE,
    SC_ENABLE_CONNECT_PROTOCOL, EC_PROTOCOL_ERROR, EC_FLOW_CONTROL_ERROR.
  change (2^31 - 1) with 2147483647. change (2^14) with 16384. change (2^24 - 1) with 16777215.
  destruct (id =? 2) eqn:E2; [destruct ((v =? 0) || (v =? 1)) eqn:B; split; intros; try lia|].
  destruct (id =? 4) eqn:E4; [destruct ((0 <=? v) && (v <=? 2147483647)) eqn:B; split; intros; try lia|].
  destruct (id =? 5) eqn:E5; [destruct ((16384 <=? v) && (v <=? 16777215)) eqn:B; split; intros; try lia|].
  destruct (id =? 6) eqn:E6; [destruct (v <? 0) eqn:B; split; intros; try lia|].
  destruct (id =? 8) eqn:E8; [destruct ((v =? 0) || (v =? 1)) eqn:B; split; intros; try lia|].
  split; intros; lia.
Qed.

Lemma validate_code id v : 0 <= v -> validate_setting id v <> 0 -> validate_setting id v = mandated_code id.
Proof.
  intros Hv. unfold validate_setting, mandated_code, in01,
    SC_ENABLE_PUSH, SC_INITIAL_WINDOW_SIZE, SC_MAX_FRAME_SIZE, SC_MAX_HEADER_LIST_SIZE,
    SC_ENABLE_CONNECT_PROTOCOL, EC_PROTOCOL_ERROR, EC_FLOW_CONTROL_ERROR.
  destruct (id =? 2) eqn:E2; [destruct ((v =? 0) || (v =? 1)); intros; destruct (id =? 4) eqn:E4; lia|].
  destruct (id =? 4) eqn:E4; [destruct ((0 <=? v) && (v <=? 2147483647)); intros; lia|].
  destruct (id =? 5) eqn:E5; [destruct ((16384 <=? v) && (v <=? 16777215)); intros; lia|].
  destruct (id =? 6) eqn:E6; [destruct (v <? 0) eqn:B; intros; lia|].
  destruct (id =? 8) eqn:E8; [destruct ((v =? 0) || (v =? 1)); intros; lia|].
  intros; lia.
Qed.

Lemma validate_unconstrained id v : 0 <= v -> ~ In id constrained_ids -> validate_setting id v = 0.
Proof.
  intros Hv Hn. apply validate_zero_iff; [exact Hv|]. unfold setting_ok. cbn in Hn.
  repeat split; intros; exfalso; apply Hn; lia.
Qed.

Lemma guard_increment_spec cur d :
  guard_increment_window cur d =
  if cur + d >? 2^31 - 1 then Err FlowControlError 3 0 false else Ok (cur + d).
Proof. reflexivity. Qed.
