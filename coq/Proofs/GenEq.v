(* Proofs/GenEq.v — the AST-translated kernels (Gen/Kernels.v, regenerated from /repo on every run)
   are extensionally equal to the hand model.  Every property theorem is stated on the hand model;
   through these lemmas it is a theorem about the code as translated today. *)
From H2 Require Import Base.Prelude Gen.Consts Gen.Kernels Model.Windows Model.WmHist Model.SettingsV.

Definition wm_tuple (w : wm) : Z * Z * Z := (wm_max w, wm_cur w, wm_bp w).

Ltac kernel_eq :=
  repeat (case_if; cbn [fst snd wm_max wm_cur wm_bp]; try reflexivity; try lia);
  repeat match goal with
  | |- (_, _) = (_, _) => f_equal
  | |- Ok _ = Ok _ => f_equal
  | |- Some _ = Some _ => f_equal
  | |- mkwm _ _ _ = mkwm _ _ _ => f_equal
  end; try reflexivity; try lia.

Lemma geneq_window_consumed w n :
  k_window_consumed (wm_max w) (wm_cur w) (wm_bp w) n =
  (wm_tuple (fst (window_consumed w n)), snd (window_consumed w n)).
Proof.
  destruct w as [mx cur bp]. unfold k_window_consumed, window_consumed, wm_tuple, fc_err.
  cbn [fst snd wm_max wm_cur wm_bp]. cbv zeta. case_if; reflexivity.
Qed.

Lemma geneq_window_opened w n :
  k_window_opened (wm_max w) (wm_cur w) (wm_bp w) n =
  (wm_tuple (fst (window_opened w n)), snd (window_opened w n)).
Proof.
  destruct w as [mx cur bp]. unfold k_window_opened, window_opened, wm_tuple, fc_err, LARGEST_FLOW_CONTROL_WINDOW.
  cbn [fst snd wm_max wm_cur wm_bp]. cbv zeta.
  destruct (cur + n >? 2147483647) eqn:E1; cbn [fst snd wm_max wm_cur wm_bp]; [reflexivity|].
  destruct (cur + n >? mx) eqn:E2; cbn [fst snd wm_max wm_cur wm_bp];
    [rewrite Z.max_r by lia | rewrite Z.max_l by lia]; reflexivity.
Qed.

Lemma geneq_maybe_update_window w :
  k_maybe_update_window (wm_max w) (wm_cur w) (wm_bp w) =
  (wm_tuple (fst (maybe_update_window w)), Ok (snd (maybe_update_window w))).
Proof.
  destruct w as [mx cur bp]. unfold k_maybe_update_window, maybe_update_window, wm_tuple.
  cbn [fst snd wm_max wm_cur wm_bp]. cbv zeta.
  destruct (bp =? 0) eqn:E0; cbn [negb fst snd wm_max wm_cur wm_bp]; [reflexivity|].
  destruct ((cur =? 0) && (bp >? Z.min 1024 (mx / 4))) eqn:E1; cbn [orb fst snd wm_max wm_cur wm_bp]; [reflexivity|].
  destruct (bp >=? mx / 2) eqn:E2; cbn [fst snd wm_max wm_cur wm_bp]; [reflexivity|].
  rewrite Z.add_0_r. reflexivity.
Qed.

Lemma geneq_process_bytes w n :
  k_process_bytes (wm_max w) (wm_cur w) (wm_bp w) n =
  (wm_tuple (fst (process_bytes w n)), Ok (snd (process_bytes w n))).
Proof.
  unfold k_process_bytes, process_bytes. cbv zeta.
  exact (geneq_maybe_update_window (mkwm (wm_max w) (wm_cur w) (wm_bp w + n))).
Qed.

Lemma geneq_stream_iws_delta w d :
  k_stream_iws_delta (wm_max w) (wm_cur w) (wm_bp w) d =
  (wm_tuple (fst (wm_delta w d)), snd (wm_delta w d)).
Proof.
  unfold k_stream_iws_delta, wm_delta. cbv zeta. rewrite geneq_window_opened.
  destruct (window_opened w d) as [w1 r]. destruct r; cbn [fst snd wm_tuple]; reflexivity.
Qed.

Lemma geneq_guard_increment_window c i :
  k_guard_increment_window c i = (tt, guard_increment_window c i).
Proof.
  unfold k_guard_increment_window, guard_increment_window, fc_err, LARGEST_FLOW_CONTROL_WINDOW. cbv zeta.
  case_if; reflexivity.
Qed.

Lemma geneq_validate_setting id v :
  k_validate_setting id v = (tt, Ok (validate_setting id v)).
Proof.
  unfold k_validate_setting, validate_setting, in01,
    SC_ENABLE_PUSH, SC_INITIAL_WINDOW_SIZE, SC_MAX_FRAME_SIZE, SC_MAX_HEADER_LIST_SIZE,
    SC_ENABLE_CONNECT_PROTOCOL, EC_PROTOCOL_ERROR, EC_FLOW_CONTROL_ERROR.
  destruct (id =? 2); [destruct ((v =? 0) || (v =? 1)); reflexivity|].
  destruct (id =? 4); [destruct ((0 <=? v) && (v <=? 2147483647)); reflexivity|].
  destruct (id =? 5); [destruct ((16384 <=? v) && (v <=? 16777215)); reflexivity|].
  destruct (id =? 6); [destruct (v <? 0); reflexivity|].
  destruct (id =? 8); [destruct ((v =? 0) || (v =? 1)); reflexivity|].
  reflexivity.
Qed.
