(* Proofs/C13Proofs.v — what the HPACK encoder consumes against what goes on the wire.
   The encoder is an external library; the model records, per call, the header list handed to Encoder.encode up to the point
   where a lazily evaluated validator raised ("consumed"): the compression context after the call is a function of the
   sequence of consumed lists, the peer's context a function of the sequence of emitted blocks. *)
From H2 Require Import Base.Prelude Base.PyDict Model.FsmTypes Gen.Consts Gen.Tables Model.Types Model.Windows Model.WmHist
  Model.StreamFSM Model.Headers Model.Stream.

Definition block_of (fs : list frame) : option (list hitem) :=
  match fs with
  | FHeaders _ _ _ _ h _ :: _ => Some h
  | FPushPromise _ _ _ h _ :: _ => Some h
  | _ => None
  end.

Lemma build_headers_frames_sync cfg f hs L first s consumed frames :
  (forall eh h c, block_of [first eh h c] = Some h) ->
  (forall eh h c r, block_of (first eh h c :: r) = Some h) ->
  build_headers_frames cfg f hs L first s = (consumed, Ok frames) ->
  block_of frames = Some consumed /\ outbound_pipeline cfg f hs = (consumed, PAll).
Proof.
  intros H1 H2. unfold build_headers_frames. destruct (outbound_pipeline cfg f hs) as [cons r] eqn:E.
  destruct r; try (unfold perr; intros H; discriminate).
  destruct (header_blocks L (s_max_out_frame s)) as [|c [|c2 rest]]; intros H; injection H as <- <-; split; auto.
Qed.

(* a send_headers call that returns normally: exactly one list was handed to the encoder, it is the list the emitted block
   carries, and it is the output of the normalisation / validation pipeline for the whole input *)
Theorem send_headers_success_is_synchronised cfg hs L es s s' frames e :
  send_headers cfg hs L es s = (s', (Ok frames, e)) ->
  exists consumed f, e = Some consumed /\ block_of frames = Some consumed /\ outbound_pipeline cfg f hs = (consumed, PAll).
Proof.
  unfold send_headers. set (info := negb (s_client s) && is_informational_response (plain hs)).
  destruct (info && es); [discriminate|].
  destruct (fsm _ s) as [s1 [evs| |]]; try discriminate.
  destruct (build_flags evs) as [f| |]; try discriminate.
  destruct (build_headers_frames cfg f hs L _ s1) as [consumed rf] eqn:B.
  destruct rf as [frames0| |]; try discriminate.
  destruct (if es then fsm SI_SEND_END_STREAM s1 else (s1, Ok [])) as [s2 [u| |]]; try discriminate.
  destruct (sm_ts (s_sm s2) && negb es); [discriminate|].
  intros H. injection H as _ <- <-.
  destruct (build_headers_frames_sync cfg f hs L (fun eh h c => FHeaders (s_id s1) false eh None h c) s1 consumed frames0 (fun _ _ _ => eq_refl) (fun _ _ _ _ => eq_refl) B) as [Hb Hp].
  exists consumed, f. split; [reflexivity|]. split; [|exact Hp].
  destruct es; [|exact Hb]. destruct frames0 as [|[] r]; cbn in *; try discriminate; exact Hb.
Qed.

Theorem push_promise_success_is_synchronised cfg promised hs L s s' frames e :
  push_stream_in_band cfg promised hs L s = (s', (Ok frames, e)) ->
  exists consumed f, e = Some consumed /\ block_of frames = Some consumed /\ outbound_pipeline cfg f hs = (consumed, PAll).
Proof.
  unfold push_stream_in_band. destruct (fsm _ s) as [s1 [evs| |]]; try discriminate.
  destruct (build_flags evs) as [f| |]; try discriminate.
  destruct (build_headers_frames cfg f hs L _ s1) as [consumed rf] eqn:B.
  intros H. injection H as _ -> <-.
  destruct (build_headers_frames_sync cfg f hs L (fun eh h c => FPushPromise (s_id s1) promised eh h c) s1 consumed frames (fun _ _ _ => eq_refl) (fun _ _ _ _ => eq_refl) B) as [Hb Hp].
  exists consumed, f. auto.
Qed.

(* calls refused by the state machine or by the message rules BEFORE encoding leave the encoder alone *)
Theorem refused_before_encoding_consumes_nothing cfg hs L es s s' r :
  send_headers cfg hs L es s = (s', (r, None)) -> forall fr, r <> Ok fr.
Proof.
  unfold send_headers. destruct (_ && es); [intros H; injection H as _ <-; discriminate|].
  destruct (fsm _ s) as [s1 [evs| |]]; try (intros H; injection H as _ <-; discriminate).
  destruct (build_flags evs) as [f| |]; try (intros H; injection H as _ <-; discriminate).
  destruct (build_headers_frames cfg f hs L _ s1) as [consumed rf].
  destruct rf as [frames0| |]; try discriminate.
  destruct (if es then fsm SI_SEND_END_STREAM s1 else (s1, Ok [])) as [s2 [u| |]]; try discriminate.
  destruct (sm_ts (s_sm s2) && negb es); discriminate.
Qed.
