From H2 Require Import Base.Prelude Base.PyDict Model.FsmTypes Gen.Consts Gen.Tables Gen.Guards
  Model.Types Model.Windows Model.WmHist Model.SettingsV Model.Settings Model.StreamFSM Model.Headers
  Model.Stream Model.ConnState Model.Connection Proofs.ConstFacts Proofs.Frame Proofs.FrameConn Proofs.Inv.

(* ---- the generated connection table ---- *)
Lemma closed_only_goaway i s :
  conn_transition C_CLOSED i = Some s -> (i = CI_SEND_GOAWAY \/ i = CI_RECV_GOAWAY) /\ s = C_CLOSED.
Proof. destruct i; cbn; intros H; try discriminate; injection H as <-; auto. Qed.

Lemma goaway_always_closes s : conn_transition s CI_SEND_GOAWAY = Some C_CLOSED /\ conn_transition s CI_RECV_GOAWAY = Some C_CLOSED.
Proof. destruct s; cbn; auto. Qed.

Definition closed (c : conn) : Prop := c_state c = C_CLOSED.

Lemma cset_state_same c : cset_state c (c_state c) = c.
Proof. destruct c; reflexivity. Qed.

(* on a closed connection the state machine refuses everything but GOAWAY, and nothing changes *)
Lemma cfsm_closed i c : closed c ->
  cfsm i c = (c, if match i with CI_SEND_GOAWAY | CI_RECV_GOAWAY => true | _ => false end then Ok tt else perr).
Proof.
  unfold closed, cfsm. intros H. rewrite H.
  destruct i; cbn; rewrite <- H; rewrite cset_state_same; reflexivity.
Qed.

(* ---- CLOSED is absorbing: a compositional invariant prover ---- *)
Definition pinv {A} (m : CM A) : Prop := pres_inv closed m.

Lemma pinv_cfsm i : pinv (cfsm i).
Proof. intros c c' r Hc H. rewrite (cfsm_closed i c Hc) in H. injection H as <- _. exact Hc. Qed.

Lemma pinv_of_pres {A} (m : CM A) : preserves c_state m -> pinv m.
Proof. intros Hp c c' r Hc H. unfold closed in *. rewrite (Hp _ _ _ H). exact Hc. Qed.

Ltac ow := intros; reflexivity.
Ltac pleaf :=
  match goal with
  | |- pres_inv _ (cfsm _) => apply pinv_cfsm
  | |- pres_inv _ (ret _) => apply pinv_of_pres; apply pres_ret
  | |- pres_inv _ (fail _ _ _ _) => apply pinv_of_pres; apply pres_fail
  | |- pres_inv _ (crash _) => apply pinv_of_pres; apply pres_crash
  | |- pres_inv _ (lift_res _) => apply pinv_of_pres; apply pres_lift_res
  | |- pres_inv _ get => apply pinv_of_pres; apply pres_get
  | |- pres_inv _ (modify _) => apply pinv_of_pres; apply pres_modify; intros ?; reflexivity
  | |- pres_inv _ (prepare_for_sending _) => apply pinv_of_pres; apply pres_prepare; ow
  | |- pres_inv _ (with_stream _ _) => apply pinv_of_pres; apply pres_with_stream; ow
  | |- pres_inv _ (for_streams _) => apply pinv_of_pres; apply pres_for_streams; ow
  | |- pres_inv _ (open_streams _) => apply pinv_of_pres; apply fp_open_streams; ow
  | |- pres_inv _ open_outbound_streams => apply pinv_of_pres; apply fp_open_outbound; ow
  | |- pres_inv _ open_inbound_streams => apply pinv_of_pres; apply fp_open_inbound; ow
  | |- pres_inv _ (begin_new_stream _ _) => apply pinv_of_pres; apply fp_begin_new_stream; ow
  | |- pres_inv _ (get_or_create_stream _ _) => apply pinv_of_pres; apply fp_get_or_create; ow
  | |- pres_inv _ (get_stream_by_id _) => apply pinv_of_pres; apply fp_get_stream_by_id
  | |- pres_inv _ (log_enc _) => apply pinv_of_pres; apply fp_log_enc; ow
  | |- pres_inv _ (lift_local _) => apply pinv_of_pres; apply fp_lift_local; ow
  | |- pres_inv _ (lift_remote _) => apply pinv_of_pres; apply fp_lift_remote; ow
  | |- pres_inv _ (lift_cwm _) => apply pinv_of_pres; apply fp_lift_cwm; ow
  | |- pres_inv _ (decode_headers _) => apply pinv_of_pres; apply fp_decode_headers; ow
  | |- pres_inv _ (flow_control_change_from_settings _ _) => apply pinv_of_pres; apply fp_flow_control_change; ow
  | |- pres_inv _ (local_settings_acked) => apply pinv_of_pres; apply fp_local_settings_acked; ow
  | |- pres_inv _ (local_flow_control_window _) => apply pinv_of_pres; apply fp_local_flow_control_window
  | |- pres_inv _ (remote_flow_control_window _) => apply pinv_of_pres; apply fp_remote_flow_control_window
  | |- pres_inv _ api_next_stream_id => apply pinv_of_pres; apply fp_api_next_stream_id
  end.
Ltac pstep :=
  match goal with
  | |- pres_inv _ (bind _ _) => apply pinv_bind; [|intros ?]
  | |- pres_inv _ (when _ _) => unfold when
  | |- pres_inv _ (if ?b then _ else _) => destruct b
  | |- pres_inv _ (match ?x with _ => _ end) => destruct x
  | |- pres_inv _ (let '(_, _) := ?x in _) => destruct x
  end.
Ltac pgo := unfold pinv; repeat first [pleaf | pstep].

Lemma pinv_initiate : pinv initiate_connection. Proof. unfold initiate_connection. pgo. Qed.
Lemma pinv_send_headers sid hs L es pw pd pe : pinv (api_send_headers sid hs L es pw pd pe).
Proof. unfold api_send_headers. pgo. Qed.
Lemma pinv_send_data sid len es pad : pinv (api_send_data sid len es pad).
Proof. unfold api_send_data. pgo. Qed.
Lemma pinv_end_stream sid : pinv (api_end_stream sid). Proof. unfold api_end_stream. pgo. Qed.
Lemma pinv_increment inc sid : pinv (api_increment_window inc sid). Proof. unfold api_increment_window. pgo. Qed.
Lemma pinv_push sid pr hs L : pinv (api_push_stream sid pr hs L). Proof. unfold api_push_stream. pgo. Qed.
Lemma pinv_ping pl : pinv (api_ping pl). Proof. unfold api_ping. pgo. Qed.
Lemma pinv_reset sid code : pinv (api_reset_stream sid code). Proof. unfold api_reset_stream. pgo. Qed.
Lemma pinv_close code last dbg : pinv (api_close_connection code last dbg). Proof. unfold api_close_connection. pgo. Qed.
Lemma pinv_update kvs : pinv (api_update_settings kvs). Proof. unfold api_update_settings. pgo. Qed.
Lemma pinv_altsvc f o s : pinv (api_advertise_alt_svc f o s). Proof. unfold api_advertise_alt_svc. pgo. Qed.
Lemma pinv_prioritize sid w d e : pinv (api_prioritize sid w d e). Proof. unfold api_prioritize. pgo. Qed.
Lemma pinv_ack n sid : pinv (api_acknowledge_received_data n sid). Proof. unfold api_acknowledge_received_data. pgo. Qed.

Lemma pinv_acknowledge_settings : pinv acknowledge_settings. Proof. unfold acknowledge_settings. pgo. Qed.
Lemma pinv_recv_priority sid p : pinv (recv_priority sid p). Proof. unfold recv_priority. pgo. Qed.
Lemma pinv_recv_headers sid es p d : pinv (recv_headers sid es p d).
Proof. unfold recv_headers. pgo; apply pinv_recv_priority. Qed.
Lemma pinv_recv_settings ack vals : pinv (recv_settings ack vals).
Proof. unfold recv_settings. pgo; apply pinv_acknowledge_settings. Qed.
Lemma pinv_recv_ping ack pl : pinv (recv_ping ack pl). Proof. unfold recv_ping. pgo. Qed.
Lemma pinv_recv_rst sid code : pinv (recv_rst_stream sid code). Proof. unfold recv_rst_stream. pgo. Qed.
Lemma pinv_recv_goaway l co d : pinv (recv_goaway l co d). Proof. unfold recv_goaway. pgo. Qed.
Lemma pinv_recv_cont sid : pinv (recv_naked_continuation sid). Proof. unfold recv_naked_continuation. pgo. Qed.
Lemma pinv_recv_altsvc sid o f : pinv (recv_alt_svc sid o f). Proof. unfold recv_alt_svc. pgo. Qed.

(* the handlers written with explicit state threading: on a closed connection they stop at the state machine *)
Lemma recv_data_closed sid len fclen es c : closed c -> recv_data sid len fclen es c = (c, perr).
Proof. intros Hc. unfold recv_data. unfold bind at 1. rewrite (cfsm_closed _ c Hc). reflexivity. Qed.
Lemma recv_wu_closed sid inc c : closed c -> recv_window_update sid inc c = (c, perr).
Proof. intros Hc. unfold recv_window_update. unfold bind at 1. rewrite (cfsm_closed _ c Hc). reflexivity. Qed.

Lemma pinv_recv_push sid pr d : pinv (recv_push_promise sid pr d).
Proof.
  intros c c' r Hc H. unfold recv_push_promise in H.
  unfold bind at 1 in H. unfold get at 1 in H. unfold bind at 1 in H.
  destruct (s_enable_push (c_local c) =? 0).
  - unfold lift_res in H. injection H as <- _. exact Hc.
  - unfold ret at 1 in H. unfold bind at 1 in H.
    destruct (decode_headers d c) as [c1 r1] eqn:E.
    assert (H1 : closed c1). { unfold closed. rewrite (fp_decode_headers c_state ltac:(ow) d c c1 r1 E). exact Hc. }
    destruct r1 as [hs|e co i b|p]; try (injection H as <- _; exact H1).
    unfold bind at 1 in H. rewrite (cfsm_closed _ c1 H1) in H. injection H as <- _. exact H1.
Qed.

Lemma pinv_dispatch f : pinv (dispatch f).
Proof.
  destruct f; cbn [dispatch];
    first [ apply pinv_recv_headers | apply pinv_recv_push | apply pinv_recv_settings | apply pinv_recv_ping
          | apply pinv_recv_rst | apply pinv_recv_goaway | apply pinv_recv_cont | apply pinv_recv_altsvc | idtac ].
  - intros c c' r Hc H. rewrite (recv_data_closed _ _ _ _ c Hc) in H. injection H as <- _. exact Hc.
  - intros c c' r Hc H. rewrite (recv_wu_closed _ _ c Hc) in H. injection H as <- _. exact Hc.
  - apply pinv_bind; [apply pinv_recv_priority | intros; pgo].
  - pgo.
  - pgo.
  - pgo.
Qed.

Lemma pinv_receive_frame f : pinv (receive_frame f).
Proof.
  intros c c' r Hc H.
  destruct (receive_frame_decomp c_state ltac:(ow) f c c' r H) as (c1 & r1 & Hd & He).
  unfold closed. rewrite He. exact (pinv_dispatch f c c1 r1 Hc Hd).
Qed.

Lemma pinv_terminate code : pinv (terminate_connection code).
Proof. unfold terminate_connection. pgo. Qed.

Lemma pinv_receive fs : pinv (api_receive fs).
Proof.
  intros c c' r Hc H.
  refine (api_receive_inv closed (fun _ => True) _ _ (fun f _ => pinv_receive_frame f) pinv_terminate fs c c' r Hc _ H).
  - intros c0 _. unfold wf_buf. clear. induction (c_inbuf c0); constructor; auto.
  - intros c0 v H0 _. exact H0.
  - clear. induction fs; constructor; auto.
Qed.

Lemma pinv_initiate_upgrade hdr : pinv (api_initiate_upgrade hdr).
Proof.
  unfold api_initiate_upgrade. pgo; first [apply pinv_initiate | apply pinv_recv_settings].
Qed.

Lemma as_none_pinv (m : CM unit) : pinv m -> pinv (as_none m).
Proof. intros H. unfold as_none. apply pinv_bind; [exact H | intros; pgo]. Qed.
Lemma as_z_pinv (m : CM Z) : pinv m -> pinv (as_z m).
Proof. intros H. unfold as_z. apply pinv_bind; [exact H | intros; pgo]. Qed.

Theorem step_closed c o c' r : closed c -> step c o = (c', r) -> closed c'.
Proof.
  intros Hc H.
  destruct o as [|hdr|sid hs L es pw pd pe|sid len es pad|sid|inc sid|sid pr hs L|pl|sid code|code last dbg|kvs
                |fl og sid|sid w d e|n sid| |sid|sid| | | |fs]; cbn [step] in H.
  - revert H; revert Hc. apply as_none_pinv. apply pinv_initiate.
  - revert H; revert Hc. apply pinv_bind; [apply pinv_initiate_upgrade | intros; pgo].
  - revert H; revert Hc. apply as_none_pinv. apply pinv_send_headers.
  - revert H; revert Hc. apply as_none_pinv. apply pinv_send_data.
  - revert H; revert Hc. apply as_none_pinv. apply pinv_end_stream.
  - revert H; revert Hc. apply as_none_pinv. apply pinv_increment.
  - revert H; revert Hc. apply as_none_pinv. apply pinv_push.
  - revert H; revert Hc. apply as_none_pinv. apply pinv_ping.
  - revert H; revert Hc. apply as_none_pinv. apply pinv_reset.
  - revert H; revert Hc. apply as_none_pinv. apply pinv_close.
  - revert H; revert Hc. apply as_none_pinv. apply pinv_update.
  - revert H; revert Hc. apply as_none_pinv. apply pinv_altsvc.
  - revert H; revert Hc. apply as_none_pinv. apply pinv_prioritize.
  - revert H; revert Hc. apply as_none_pinv. apply pinv_ack.
  - revert H; revert Hc. apply as_z_pinv. pgo.
  - revert H; revert Hc. apply as_z_pinv. pgo.
  - revert H; revert Hc. apply as_z_pinv. pgo.
  - revert H; revert Hc. apply as_z_pinv. pgo.
  - revert H; revert Hc. apply as_z_pinv. pgo.
  - injection H as <- _. exact Hc.
  - revert H; revert Hc. apply pinv_bind; [apply pinv_receive | intros; pgo].
Qed.

Theorem run_closed os : forall c, closed c -> closed (run c os).
Proof.
  induction os as [|o os IH]; intros c Hc; cbn [run fold_left]; [exact Hc|].
  apply IH. destruct (step c o) as [c' r] eqn:E. exact (step_closed _ _ _ _ Hc E).
Qed.

(* ---- a closed connection stays quiet: the emitting calls raise and append nothing ---- *)
Definition quiet {A} (m : CM A) : Prop :=
  forall c c' r, closed c -> m c = (c', r) -> c_out c' = c_out c /\ is_ok r = false.
(* a prefix that keeps both the output and closedness *)
Definition keeps {A} (m : CM A) : Prop := preserves c_out m /\ pinv m.

Lemma quiet_cfsm i : match i with CI_SEND_GOAWAY | CI_RECV_GOAWAY => False | _ => True end -> quiet (cfsm i).
Proof.
  intros Hi c c' r Hc H. rewrite (cfsm_closed i c Hc) in H.
  destruct i; try contradiction; injection H as <- <-; split; reflexivity.
Qed.
Lemma quiet_bind_l {A B} (m : CM A) (k : A -> CM B) : quiet m -> quiet (bind m k).
Proof.
  intros Hm c c' r Hc H. unfold bind in H. destruct (m c) as [c1 r1] eqn:E.
  destruct (Hm _ _ _ Hc E) as [Ho Hr]. destruct r1; [discriminate| |]; injection H as <- <-; split; auto.
Qed.
Lemma quiet_bind_r {A B} (m : CM A) (k : A -> CM B) : keeps m -> (forall a, quiet (k a)) -> quiet (bind m k).
Proof.
  intros [Hp Hi] Hk c c' r Hc H. unfold bind in H. destruct (m c) as [c1 r1] eqn:E.
  pose proof (Hp _ _ _ E) as Ho. pose proof (Hi _ _ _ Hc E) as Hc1.
  destruct r1 as [a| |].
  - destruct (Hk a _ _ _ Hc1 H) as [H1 H2]. split; [congruence|exact H2].
  - injection H as <- <-. split; [exact Ho|reflexivity].
  - injection H as <- <-. split; [exact Ho|reflexivity].
Qed.
Lemma quiet_fail {A} e co sid rst : quiet (@fail conn A e co sid rst).
Proof. intros c c' r _ H. unfold fail in H. injection H as <- <-. split; reflexivity. Qed.
Lemma quiet_crash {A} p : quiet (@crash conn A p).
Proof. intros c c' r _ H. unfold crash in H. injection H as <- <-. split; reflexivity. Qed.
Lemma quiet_perr {A} : quiet (@lift_res conn A perr).
Proof. intros c c' r _ H. unfold lift_res in H. injection H as <- <-. split; reflexivity. Qed.

Ltac keep_leaf := split; [first
   [ apply pres_ret | apply pres_get | apply fp_get_stream_by_id | apply fp_local_flow_control_window
   | apply fp_open_outbound; ow | apply fp_begin_new_stream; ow | apply pres_lift_res ]
   | pgo ].

Lemma quiet_send_data sid len es pad : quiet (api_send_data sid len es pad).
Proof.
  unfold api_send_data.
  apply quiet_bind_r; [|intros _].
  { destruct (g_send_data_pad _ _); split; first [apply pres_crash | apply pres_ret | pgo]. }
  apply quiet_bind_r; [keep_leaf|intros w]. apply quiet_bind_r; [keep_leaf|intros c0].
  apply quiet_bind_r; [|intros _].
  { destruct (g_send_data_flow _ _); [split; [apply pres_fail|pgo]|].
    destruct (g_send_data_frame _ _ _); split; first [apply pres_fail | apply pres_ret | pgo]. }
  apply quiet_bind_l. apply quiet_cfsm. exact I.
Qed.

Lemma quiet_end_stream sid : quiet (api_end_stream sid).
Proof. unfold api_end_stream. apply quiet_bind_l. apply quiet_cfsm. exact I. Qed.

Lemma quiet_ping pl : quiet (api_ping pl).
Proof.
  unfold api_ping. destruct (g_ping_len _ _).
  - apply quiet_bind_l. apply quiet_crash.
  - apply quiet_bind_r; [split; [apply pres_ret|pgo]|intros _]. apply quiet_bind_l. apply quiet_cfsm. exact I.
Qed.

Lemma quiet_reset sid code : quiet (api_reset_stream sid code).
Proof. unfold api_reset_stream. apply quiet_bind_l. apply quiet_cfsm. exact I. Qed.

Lemma quiet_update_settings kvs : quiet (api_update_settings kvs).
Proof. unfold api_update_settings. apply quiet_bind_l. apply quiet_cfsm. exact I. Qed.

Lemma quiet_increment inc sid : quiet (api_increment_window inc sid).
Proof.
  unfold api_increment_window. destruct (g_inc_range inc).
  - apply quiet_bind_l. apply quiet_crash.
  - apply quiet_bind_r; [split; [apply pres_ret|pgo]|intros _]. apply quiet_bind_l. apply quiet_cfsm. exact I.
Qed.

Lemma quiet_prioritize sid w d e : quiet (api_prioritize sid w d e).
Proof.
  unfold api_prioritize. apply quiet_bind_r; [keep_leaf|intros c0].
  destruct (negb (client c0)); [apply quiet_fail|]. apply quiet_bind_l. apply quiet_cfsm. exact I.
Qed.

Lemma quiet_push sid pr hs L : quiet (api_push_stream sid pr hs L).
Proof.
  unfold api_push_stream. apply quiet_bind_r; [keep_leaf|intros c0].
  apply quiet_bind_r; [|intros _].
  { destruct (s_enable_push (c_remote c0) =? 0); split; first [apply pres_lift_res | apply pres_ret | pgo]. }
  apply quiet_bind_l. apply quiet_cfsm. exact I.
Qed.

Lemma quiet_altsvc f o s : quiet (api_advertise_alt_svc f o s).
Proof.
  unfold api_advertise_alt_svc. destruct o as [og|]; destruct s as [sid|]; try apply quiet_crash;
    (apply quiet_bind_r; [keep_leaf|intros c0]; apply quiet_bind_r; [|intros _];
     [destruct (client c0); split; first [apply pres_lift_res | apply pres_ret | pgo]|];
     apply quiet_bind_l; apply quiet_cfsm; exact I).
Qed.

Lemma quiet_send_headers sid hs L es pw pd pe : quiet (api_send_headers sid hs L es pw pd pe).
Proof.
  unfold api_send_headers. apply quiet_bind_r; [keep_leaf|intros c0].
  apply quiet_bind_r; [|intros _].
  { destruct (client c0); [split; [apply pres_ret|pgo]|]. split; [|pgo].
    apply pres_bind; [apply fp_get_stream_by_id|intros ?; apply pres_ret]. }
  apply quiet_bind_r; [|intros _].
  { destruct (dmem sid (c_streams c0)); [split; [apply pres_ret|pgo]|].
    split; [|pgo].
    apply pres_bind; [apply fp_open_outbound; ow|intros n]. apply pres_bind; [apply pres_get|intros c1].
    destruct (g_send_headers_mcs _ _ _); [apply pres_fail | apply pres_ret]. }
  apply quiet_bind_l. apply quiet_cfsm. exact I.
Qed.

(* receive_data on a closed connection: every frame that reaches a handler with a state-machine
   input other than GOAWAY raises; the only frame ever appended is the GOAWAY of the error path *)
Lemma quiet_recv_ping ack pl : quiet (recv_ping ack pl).
Proof. unfold recv_ping. apply quiet_bind_l. apply quiet_cfsm. exact I. Qed.
Lemma quiet_recv_settings ack vals : quiet (recv_settings ack vals).
Proof. unfold recv_settings. apply quiet_bind_l. apply quiet_cfsm. exact I. Qed.
Lemma quiet_recv_priority sid p : quiet (recv_priority sid p).
Proof. unfold recv_priority. apply quiet_bind_l. apply quiet_cfsm. exact I. Qed.
Lemma quiet_recv_rst sid code : quiet (recv_rst_stream sid code).
Proof. unfold recv_rst_stream. apply quiet_bind_l. apply quiet_cfsm. exact I. Qed.
Lemma quiet_recv_altsvc sid o f : quiet (recv_alt_svc sid o f).
Proof. unfold recv_alt_svc. apply quiet_bind_l. apply quiet_cfsm. exact I. Qed.

(* acknowledge_received_data on a closed connection: nothing happens at all *)
Lemma ack_closed_noop n sid c : closed c -> 0 < sid -> 0 <= n ->
  api_acknowledge_received_data n sid c = (c, Ok tt).
Proof.
  intros Hc Hs Hn. unfold api_acknowledge_received_data, g_ack_sid, g_ack_size.
  destruct (sid <=? 0) eqn:E1; [lia|]. destruct (n <? 0) eqn:E2; [lia|].
  unfold bind, ret, get. unfold closed in Hc. rewrite Hc. reflexivity.
Qed.
