(* Proofs/FrameConn.v — footprints of the connection handlers.  Every lemma is proved inside one
   section whose hypotheses say "P does not read field x"; Coq generalises each lemma over exactly the
   hypotheses its proof used, so the statement of a lemma (after the section) lists the handler's
   footprint: the fields it may change. *)
From H2 Require Import Base.Prelude Base.PyDict Model.FsmTypes Gen.Consts Gen.Tables Gen.Guards
  Model.Types Model.Windows Model.WmHist Model.SettingsV Model.Settings Model.StreamFSM Model.Headers
  Model.Stream Model.ConnState Model.Connection Proofs.Frame.

Section Footprints.
Context {T : Type} (P : conn -> T).
Hypothesis P_state : forall c v, P (cset_state c v) = P c.
Hypothesis P_streams : forall c v, P (cset_streams c v) = P c.
Hypothesis P_closed : forall c v, P (cset_closed c v) = P c.
Hypothesis P_hi_in : forall c v, P (cset_hi_in c v) = P c.
Hypothesis P_hi_out : forall c v, P (cset_hi_out c v) = P c.
Hypothesis P_local : forall c v, P (cset_local c v) = P c.
Hypothesis P_remote : forall c v, P (cset_remote c v) = P c.
Hypothesis P_out_win : forall c v, P (cset_out_win c v) = P c.
Hypothesis P_in_wm : forall c v, P (cset_in_wm c v) = P c.
Hypothesis P_max_out_frame : forall c v, P (cset_max_out_frame c v) = P c.
Hypothesis P_max_in_frame : forall c v, P (cset_max_in_frame c v) = P c.
Hypothesis P_out : forall c v, P (cset_out c v) = P c.
Hypothesis P_dec_max_hls : forall c v, P (cset_dec_max_hls c v) = P c.
Hypothesis P_enc_log : forall c v, P (cset_enc_log c v) = P c.
Hypothesis P_dec_log : forall c v, P (cset_dec_log c v) = P c.
Hypothesis P_enc_table_size : forall c v, P (cset_enc_table_size c v) = P c.
Hypothesis P_inbuf : forall c v, P (cset_inbuf c v) = P c.

Ltac rw := repeat first
  [ rewrite P_state | rewrite P_streams | rewrite P_closed | rewrite P_hi_in | rewrite P_hi_out | rewrite P_local
  | rewrite P_remote | rewrite P_out_win | rewrite P_in_wm | rewrite P_max_out_frame | rewrite P_max_in_frame
  | rewrite P_out | rewrite P_dec_max_hls | rewrite P_enc_log | rewrite P_dec_log | rewrite P_enc_table_size | rewrite P_inbuf ].

Lemma fp_open_streams r : preserves P (open_streams r).
Proof. intros c c' res H. unfold open_streams in H. injection H as <- _. rw. reflexivity. Qed.
Lemma fp_open_outbound : preserves P open_outbound_streams.
Proof. unfold open_outbound_streams. apply pres_bind; [apply pres_get|intros; apply fp_open_streams]. Qed.
Lemma fp_open_inbound : preserves P open_inbound_streams.
Proof. unfold open_inbound_streams. apply pres_bind; [apply pres_get|intros; apply fp_open_streams]. Qed.

Lemma fp_begin_new_stream sid allowed : preserves P (begin_new_stream sid allowed).
Proof.
  unfold begin_new_stream. apply pres_bind; [apply pres_get|]. intros c0.
  destruct (g_begin_low sid (highest_for c0 sid)); [apply pres_fail|].
  destruct (g_begin_parity sid allowed); [apply pres_lift_res|].
  apply pres_modify. intros c. cbv zeta. destruct (is_outbound c sid); rw; reflexivity.
Qed.

Lemma fp_get_or_create sid allowed : preserves P (get_or_create_stream sid allowed).
Proof.
  unfold get_or_create_stream. apply pres_bind; [apply pres_get|]. intros c0.
  destruct (dmem sid (c_streams c0)); [apply pres_ret | apply fp_begin_new_stream].
Qed.

Lemma fp_get_stream_by_id sid : preserves P (get_stream_by_id sid).
Proof.
  unfold get_stream_by_id. apply pres_bind; [apply pres_get|]. intros c0.
  destruct (dget sid (c_streams c0)); [apply pres_ret|].
  destruct (g_get_stream_nosuch _ _); [apply pres_fail | apply pres_lift_res].
Qed.

Lemma fp_log_enc e : preserves P (log_enc e).
Proof. unfold log_enc. destruct e; [apply pres_modify; intros; rw; reflexivity | apply pres_ret]. Qed.

Lemma fp_lift_local {A} (f : settings -> settings * res A) : preserves P (lift_local f).
Proof. intros c c' r H. unfold lift_local in H. destruct (f (c_local c)). injection H as <- _. rw. reflexivity. Qed.
Lemma fp_lift_remote {A} (f : settings -> settings * res A) : preserves P (lift_remote f).
Proof. intros c c' r H. unfold lift_remote in H. destruct (f (c_remote c)). injection H as <- _. rw. reflexivity. Qed.
Lemma fp_lift_cwm {A} (f : wm -> wm * res A) : preserves P (lift_cwm f).
Proof. intros c c' r H. unfold lift_cwm in H. destruct (f (c_in_wm c)). injection H as <- _. rw. reflexivity. Qed.

Ltac prim :=
  match goal with
  | |- preserves _ (cfsm _) => apply pres_cfsm; exact P_state
  | |- preserves _ (prepare_for_sending _) => apply pres_prepare; exact P_out
  | |- preserves _ (with_stream _ _) => apply pres_with_stream; exact P_streams
  | |- preserves _ (for_streams _) => apply pres_for_streams; exact P_streams
  | |- preserves _ (open_streams _) => apply fp_open_streams
  | |- preserves _ open_outbound_streams => apply fp_open_outbound
  | |- preserves _ open_inbound_streams => apply fp_open_inbound
  | |- preserves _ (begin_new_stream _ _) => apply fp_begin_new_stream
  | |- preserves _ (get_or_create_stream _ _) => apply fp_get_or_create
  | |- preserves _ (get_stream_by_id _) => apply fp_get_stream_by_id
  | |- preserves _ (log_enc _) => apply fp_log_enc
  | |- preserves _ (lift_local _) => apply fp_lift_local
  | |- preserves _ (lift_remote _) => apply fp_lift_remote
  | |- preserves _ (lift_cwm _) => apply fp_lift_cwm
  | |- preserves _ (modify _) => apply pres_modify; intros ?; rw; reflexivity
  end.
Ltac go := repeat first [prim | pres_step].
Ltac by_pres H :=
  match type of H with
  | ?m ?c = (?c', ?r) => let X := fresh "X" in assert (X : preserves P m) by go; exact (X _ _ _ H)
  end.

(* ---------------- public API ---------------- *)
Lemma fp_initiate_connection : preserves P initiate_connection.
Proof. unfold initiate_connection. go. Qed.

Lemma fp_api_send_headers sid hs L es pw pd pe : preserves P (api_send_headers sid hs L es pw pd pe).
Proof. unfold api_send_headers. go. Qed.

Lemma fp_local_flow_control_window sid : preserves P (local_flow_control_window sid).
Proof. unfold local_flow_control_window. go. Qed.
Lemma fp_remote_flow_control_window sid : preserves P (remote_flow_control_window sid).
Proof. unfold remote_flow_control_window. go. Qed.

Lemma fp_api_send_data sid len es pad : preserves P (api_send_data sid len es pad).
Proof. unfold api_send_data. go; apply fp_local_flow_control_window. Qed.

Lemma fp_api_end_stream sid : preserves P (api_end_stream sid).
Proof. unfold api_end_stream. go. Qed.

Lemma fp_api_increment_window inc sid : preserves P (api_increment_window inc sid).
Proof. unfold api_increment_window. go. Qed.

Lemma fp_api_push_stream sid pr hs L : preserves P (api_push_stream sid pr hs L).
Proof. unfold api_push_stream. go. Qed.

Lemma fp_api_ping pl : preserves P (api_ping pl).
Proof. unfold api_ping. go. Qed.

Lemma fp_api_reset_stream sid code : preserves P (api_reset_stream sid code).
Proof. unfold api_reset_stream. go. Qed.

Lemma fp_api_close_connection code last dbg : preserves P (api_close_connection code last dbg).
Proof. unfold api_close_connection. go. Qed.

Lemma fp_api_update_settings kvs : preserves P (api_update_settings kvs).
Proof. unfold api_update_settings. go. Qed.

Lemma fp_api_advertise_alt_svc f o s : preserves P (api_advertise_alt_svc f o s).
Proof. unfold api_advertise_alt_svc. go. Qed.

Lemma fp_api_prioritize sid w d e : preserves P (api_prioritize sid w d e).
Proof. unfold api_prioritize. go. Qed.

Lemma fp_api_acknowledge n sid : preserves P (api_acknowledge_received_data n sid).
Proof. unfold api_acknowledge_received_data. go. Qed.

Lemma fp_api_next_stream_id : preserves P api_next_stream_id.
Proof. unfold api_next_stream_id. go. Qed.

(* ---------------- receiving ---------------- *)
Lemma fp_flow_control_change o n : preserves P (flow_control_change_from_settings o n).
Proof. unfold flow_control_change_from_settings. go. Qed.

Lemma fp_acknowledge_settings : preserves P acknowledge_settings.
Proof. unfold acknowledge_settings. go; apply fp_flow_control_change. Qed.

Lemma fp_local_settings_acked : preserves P local_settings_acked.
Proof. unfold local_settings_acked. go. Qed.

Lemma fp_decode_headers d : preserves P (decode_headers d).
Proof. unfold decode_headers. go. Qed.

Lemma fp_recv_priority sid p : preserves P (recv_priority sid p).
Proof. unfold recv_priority. go. Qed.

Lemma fp_recv_headers sid es p d : preserves P (recv_headers sid es p d).
Proof. unfold recv_headers. go; first [apply fp_decode_headers | apply fp_recv_priority]. Qed.

Lemma fp_recv_push_promise sid pr d : preserves P (recv_push_promise sid pr d).
Proof.
  unfold recv_push_promise. apply pres_bind; [apply pres_get|]. intros c0.
  apply pres_bind; [go|]. intros _. apply pres_bind; [apply fp_decode_headers|]. intros hs.
  apply pres_bind; [go|]. intros _. apply pres_bind; [apply pres_get|]. intros c1.
  destruct (dget sid (c_streams c1)).
  - destruct (g_recv_push_recursive sid); [apply pres_lift_res|].
    intros c c' r H.
    destruct (with_stream sid (receive_push_promise_in_band (c_cfg c1) pr hs) c) as [c2 r2] eqn:E.
    assert (H2 : P c2 = P c) by (eapply (pres_with_stream P P_streams); exact E).
    destruct r2 as [evs|e co i b|q].
    + rewrite <- H2. by_pres H.
    + destruct e; injection H as <- _; exact H2.
    + injection H as <- _; exact H2.
  - go.
Qed.

Lemma fp_recv_data sid len fclen es : preserves P (recv_data sid len fclen es).
Proof.
  unfold recv_data. apply pres_bind; [go|]. intros _. apply pres_bind; [go|]. intros _.
  intros c c' r H.
  destruct ((get_stream_by_id sid;;; with_stream sid (receive_data len fclen es)) c) as [c1 r1] eqn:E.
  assert (H1 : P c1 = P c) by (by_pres E).
  destruct r1 as [evs|e co i b|q]; try (injection H as <- _; exact H1).
  destruct e; try (injection H as <- _; exact H1).
  destruct (process_bytes (c_in_wm c1) fclen). injection H as <- _. rw. exact H1.
Qed.

Lemma fp_recv_settings ack vals : preserves P (recv_settings ack vals).
Proof. unfold recv_settings. go; first [apply fp_local_settings_acked | apply fp_acknowledge_settings]. Qed.

Lemma fp_recv_window_update sid inc : preserves P (recv_window_update sid inc).
Proof.
  unfold recv_window_update. apply pres_bind; [go|]. intros _.
  destruct (negb (sid =? 0)).
  - intros c c' r H.
    destruct ((get_stream_by_id sid;;; with_stream sid (receive_window_update inc)) c) as [c1 r1] eqn:E.
    assert (H1 : P c1 = P c) by (by_pres E).
    destruct r1 as [x|e co i b|q]; try (injection H as <- _; exact H1).
    destruct e; injection H as <- _; exact H1.
  - go.
Qed.

Lemma fp_recv_ping ack pl : preserves P (recv_ping ack pl).
Proof. unfold recv_ping. go. Qed.
Lemma fp_recv_rst_stream sid code : preserves P (recv_rst_stream sid code).
Proof. unfold recv_rst_stream. go. Qed.
Lemma fp_recv_goaway l co d : preserves P (recv_goaway l co d).
Proof. unfold recv_goaway. go. Qed.
Lemma fp_recv_naked_continuation sid : preserves P (recv_naked_continuation sid).
Proof. unfold recv_naked_continuation. go. Qed.
Lemma fp_recv_alt_svc sid o f : preserves P (recv_alt_svc sid o f).
Proof. unfold recv_alt_svc. go. Qed.

Lemma fp_dispatch f : preserves P (dispatch f).
Proof.
  destruct f; cbn [dispatch];
    first [ apply fp_recv_headers | apply fp_recv_push_promise | apply fp_recv_data | apply fp_recv_settings
          | apply fp_recv_window_update | apply fp_recv_ping | apply fp_recv_rst_stream | apply fp_recv_goaway
          | apply fp_recv_naked_continuation | apply fp_recv_alt_svc | idtac ].
  - apply pres_bind; [apply fp_recv_priority | intros; apply pres_ret].
  - apply pres_ret.
  - apply pres_fail.
  - go.
Qed.

Lemma fp_receive_frame f : preserves P (receive_frame f).
Proof.
  intros c c' r H. unfold receive_frame in H.
  destruct (dispatch f c) as [c1 r1] eqn:E. pose proof (fp_dispatch f _ _ _ E) as H1.
  destruct r1 as [[frames evs]|e code sid rst|p].
  - rewrite <- H1. by_pres H.
  - destruct e; try (injection H as <- _; exact H1).
    + destruct (closed_by_reset c1 sid); [|destruct (closed_by_end c1 sid); injection H as <- _; exact H1].
      rewrite <- H1. by_pres H.
    + destruct (closed_by_reset c1 sid); [|injection H as <- _; exact H1].
      rewrite <- H1. by_pres H.
  - injection H as <- _; exact H1.
Qed.

(* receive_frame = dispatch, then only the output buffer changes *)
Lemma receive_frame_decomp f c c' r :
  receive_frame f c = (c', r) -> exists c1 r1, dispatch f c = (c1, r1) /\ P c' = P c1.
Proof.
  intros H. unfold receive_frame in H.
  destruct (dispatch f c) as [c1 r1] eqn:E. exists c1, r1. split; [reflexivity|].
  destruct r1 as [[frames evs]|e code sid rst|p].
  - by_pres H.
  - destruct e; try (injection H as <- _; reflexivity).
    + destruct (closed_by_reset c1 sid); [|destruct (closed_by_end c1 sid); injection H as <- _; reflexivity].
      by_pres H.
    + destruct (closed_by_reset c1 sid); [|injection H as <- _; reflexivity].
      by_pres H.
  - injection H as <- _; reflexivity.
Qed.

Lemma fp_terminate_connection code : preserves P (terminate_connection code).
Proof. unfold terminate_connection. go. Qed.
End Footprints.
