(* Proofs/C22Full.v — the "only when" half of the push rule, for EVERY connection state and every argument:
   a push_stream call that succeeds was made on a server-open connection whose peer allows push, on an odd
   (client-initiated) parent that is open or half-closed (remote) and does not play the client role, with an even
   promised id above the watermark. *)
From H2 Require Import Base.Prelude Base.PyDict Model.FsmTypes Gen.Consts Gen.Tables Gen.Guards
  Model.Types Model.Windows Model.WmHist Model.SettingsV Model.Settings Model.StreamFSM Model.Headers
  Model.Stream Model.ConnState Model.Connection Proofs.ConstFacts Proofs.Frame Proofs.FrameConn Proofs.C0708Proofs.

Definition push_rules (sid promised : Z) (c : conn) : Prop :=
  s_enable_push (c_remote c) <> 0 /\
  c_state c = C_SERVER_OPEN /\
  sid mod 2 = 1 /\
  promised mod 2 = 0 /\ promised > highest_for c promised /\
  exists s, dget sid (c_streams c) = Some s /\
            (sm_state (s_sm s) = S_OPEN \/ sm_state (s_sm s) = S_HALF_CLOSED_REMOTE) /\
            client_is (s_sm s) true = false.

Lemma fsm_push_ok s s1 evs : fsm SI_SEND_PUSH_PROMISE s = (s1, Ok evs) -> build_flags evs <> Crash IndexError ->
  (sm_state (s_sm s) = S_OPEN \/ sm_state (s_sm s) = S_HALF_CLOSED_REMOTE) /\ client_is (s_sm s) true = false.
Proof.
  unfold fsm, process_input. intros H Hb.
  destruct (sm_state (s_sm s)) eqn:Es; cbn [stream_transition] in H.
  - (* idle: no event, so build_flags would raise *)
    unfold run_effect in H. destruct (client_none _); cbn in H.
    + injection H as _ <-. exfalso. apply Hb. reflexivity.
    + discriminate.
  - discriminate.
  - discriminate.
  - unfold run_effect in H. destruct (client_is (set_state (s_sm s) S_OPEN) true) eqn:Ec; cbn in H; [discriminate|].
    split; [left; reflexivity|]. destruct (s_sm s); exact Ec.
  - unfold run_effect in H. destruct (client_is (set_state (s_sm s) S_HALF_CLOSED_REMOTE) true) eqn:Ec; cbn in H; [discriminate|].
    split; [right; reflexivity|]. destruct (s_sm s); exact Ec.
  - discriminate.
  - unfold run_effect in H. cbn in H. discriminate.
Qed.

Lemma cfsm_push_ok c c1 u : cfsm CI_SEND_PUSH_PROMISE c = (c1, Ok u) -> c_state c = C_SERVER_OPEN /\ c1 = cset_state c C_SERVER_OPEN.
Proof.
  unfold cfsm. destruct (c_state c) eqn:E; cbn [conn_transition]; intros H; try discriminate.
  injection H as <- _. split; reflexivity.
Qed.

Lemma dget_other_parity {V} sid promised (v : V) (d : @dict V) : sid mod 2 = 1 -> promised mod 2 = 0 ->
  dget sid (dset promised v d) = dget sid d.
Proof. intros H1 H2. apply dget_dset_other. intros ->. lia. Qed.

Theorem push_stream_only_when_the_rules_hold sid promised hs L c c' :
  api_push_stream sid promised hs L c = (c', Ok tt) -> push_rules sid promised c.
Proof.
  intros H. unfold api_push_stream in H.
  apply bind_ok in H as (c0 & c0' & Eg & H). unfold get in Eg. injection Eg as <- <-.
  apply bind_ok in H as (c1 & u1 & E1 & H).
  assert (Hp : s_enable_push (c_remote c) <> 0 /\ c1 = c).
  { destruct (s_enable_push (c_remote c) =? 0) eqn:E; [discriminate|]. unfold ret in E1. injection E1 as <-. split; [lia|reflexivity]. }
  destruct Hp as [Hp ->].
  apply bind_ok in H as (c2 & u2 & E2 & H). apply cfsm_push_ok in E2 as [Hs ->].
  apply bind_ok in H as (c3 & s & E3 & H).
  assert (Hg : dget sid (c_streams c) = Some s /\ c3 = cset_state c C_SERVER_OPEN).
  { unfold get_stream_by_id in E3. apply bind_ok in E3 as (x & x' & Eg & E3). unfold get in Eg. injection Eg as <- <-.
    replace (c_streams (cset_state c C_SERVER_OPEN)) with (c_streams c) in E3 by (destruct c; reflexivity).
    destruct (dget sid (c_streams c)) as [s0|]; [unfold ret in E3; injection E3 as <- <-; auto|].
    destruct (g_get_stream_nosuch _ _); discriminate. }
  destruct Hg as [Hd ->].
  apply bind_ok in H as (c4 & u4 & E4 & H).
  assert (Hodd : sid mod 2 = 1 /\ c4 = cset_state c C_SERVER_OPEN).
  { unfold g_push_recursive in E4. destruct (sid mod 2 =? 0) eqn:E; [discriminate|]. unfold ret in E4. injection E4 as <-.
    split; [|reflexivity]. assert (0 <= sid mod 2 < 2) by (apply Z.mod_pos_bound; lia). lia. }
  destruct Hodd as [Hodd ->].
  apply bind_ok in H as (c5 & u5 & E5 & H).
  set (cs := cset_state c C_SERVER_OPEN) in *.
  assert (Hb : promised mod 2 = 0 /\ promised > highest_for cs promised /\
               exists sn, c5 = (if is_outbound cs promised then cset_hi_out (cset_streams cs (dset promised sn (c_streams cs))) promised
                                else cset_hi_in (cset_streams cs (dset promised sn (c_streams cs))) promised)).
  { unfold begin_new_stream in E5. apply bind_ok in E5 as (x & x' & Eg & E5). unfold get in Eg. injection Eg as <- <-.
    unfold g_begin_low, g_begin_parity in E5.
    destruct (promised <=? highest_for cs promised) eqn:El; [discriminate|].
    destruct (promised mod 2 =? 0) eqn:Ep; cbn [negb] in E5; [|discriminate].
    unfold modify in E5. injection E5 as <-. split; [lia|]. split; [lia|]. eexists. reflexivity. }
  destruct Hb as (Heven & Hhigh & sn & ->).
  assert (Hh : highest_for cs promised = highest_for c promised) by (destruct c; reflexivity).
  apply bind_ok in H as (c6 & c6' & Eg & H). unfold get in Eg. injection Eg as <- <-.
  apply bind_ok in H as (c7 & r & E7 & H).
  apply bind_ok in H as (c8 & u8 & E8 & H).
  apply bind_ok in H as (c9 & frames & E9 & H).
  (* the parent is still where it was: the new stream has the other parity *)
  set (c5 := if is_outbound cs promised then _ else _) in *.
  assert (Hd5 : dget sid (c_streams c5) = Some s).
  { subst c5. destruct (is_outbound cs promised); cbn [c_streams cset_hi_out cset_hi_in cset_streams];
      replace (c_streams (cset_hi_out (cset_streams cs (dset promised sn (c_streams cs))) promised)) with (dset promised sn (c_streams cs)) by (destruct c; reflexivity) ||
      replace (c_streams (cset_hi_in (cset_streams cs (dset promised sn (c_streams cs))) promised)) with (dset promised sn (c_streams cs)) by (destruct c; reflexivity);
      rewrite dget_other_parity by assumption; subst cs; destruct c; exact Hd. }
  unfold with_stream in E7. rewrite Hd5 in E7.
  destruct (push_stream_in_band (c_cfg c5) promised hs L s) as [s' [r0 e0]] eqn:Ep. injection E7 as _ <-.
  cbn [fst snd] in E9. unfold lift_res in E9.
  unfold push_stream_in_band in Ep.
  destruct (fsm SI_SEND_PUSH_PROMISE s) as [s1 r1] eqn:Ef.
  destruct r1 as [evs| |]; [|injection Ep as _ <- _; discriminate|injection Ep as _ <- _; discriminate].
  assert (Hnb : build_flags evs <> Crash IndexError).
  { intros Hc. rewrite Hc in Ep. injection Ep as _ <- _. discriminate. }
  destruct (fsm_push_ok _ _ _ Ef Hnb) as [Hst Hcl].
  unfold push_rules. repeat split; auto; try lia.
  exists s. auto.
Qed.
