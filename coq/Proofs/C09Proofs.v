From H2 Require Import Base.Prelude Base.PyDict Model.FsmTypes Gen.Consts Gen.Tables Gen.Guards Gen.Kernels
  Model.Types Model.Windows Model.WmHist Model.SettingsV Model.Settings Model.StreamFSM Model.Headers
  Model.Stream Model.ConnState Model.Connection Proofs.ConstFacts Proofs.Frame Proofs.FrameConn Proofs.Inv Proofs.InvTac.

(* ---------------------------------------------------------------------------------------------- *)
(* get_next_available_stream_id: the model function is the translated code, and it is the least unused id *)
Lemma next_id_is_the_code c :
  snd (api_next_stream_id c) = snd (k_get_next_available_stream_id (c_hi_out c) (cfg_client (c_cfg c))).
Proof.
  unfold api_next_stream_id, k_get_next_available_stream_id, bind, get, client, g_next_id_exhausted.
  destruct (c_hi_out c =? 0) eqn:E; cbn [negb].
  - destruct (cfg_client (c_cfg c)); cbn; reflexivity.
  - destruct (c_hi_out c + 2 >? 2147483647); reflexivity.
Qed.

Definition parity_of (client : bool) : Z := if client then 1 else 0.

(* for every watermark (0, or an id of our parity) up to 2^31-1: the answer is the least id of our parity
   above it, or NoAvailableStreamIDError exactly when that id exceeds 2^31-1 *)
Lemma next_id_spec hi client :
  0 <= hi -> (hi = 0 \/ hi mod 2 = parity_of client) ->
  let n := if hi =? 0 then (if client then 1 else 2) else hi + 2 in
  snd (k_get_next_available_stream_id hi client) =
    (if n >? 2147483647 then Err NoAvailableStreamIDError 1 0 false else Ok n)
  /\ n mod 2 = parity_of client /\ hi < n
  /\ (forall m, hi < m -> m mod 2 = parity_of client -> 0 < m -> n <= m).
Proof.
  intros Hh Hp n. subst n. unfold k_get_next_available_stream_id, parity_of in *.
  destruct (hi =? 0) eqn:E; cbn [negb].
  - assert (hi = 0) by lia. subst hi. destruct client; cbn; repeat split; try lia; intros m H1 H2 H3; lia.
  - destruct Hp as [Hp|Hp]; [lia|].
    split; [destruct (hi + 2 >? 2147483647); reflexivity|].
    split; [destruct client; lia|]. split; [lia|].
    intros m H1 H2 H3. destruct client; lia.
Qed.

(* ---------------------------------------------------------------------------------------------- *)
(* _begin_new_stream: the two checks, and what a refused call leaves behind *)
Lemma begin_new_stream_refused sid allowed c c' r :
  begin_new_stream sid allowed c = (c', r) -> is_ok r = false -> c' = c.
Proof.
  unfold begin_new_stream, bind, get. intros H Hr.
  destruct (g_begin_low sid (highest_for c sid)); [unfold fail in H; injection H as <- _; reflexivity|].
  destruct (g_begin_parity sid allowed); [unfold lift_res in H; injection H as <- _; reflexivity|].
  unfold modify in H. injection H as _ <-. discriminate.
Qed.

Lemma begin_new_stream_ok sid allowed c c' :
  begin_new_stream sid allowed c = (c', Ok tt) ->
  sid > highest_for c sid /\ sid mod 2 = allowed /\
  (if is_outbound c sid then c_hi_out c' = sid /\ c_hi_in c' = c_hi_in c else c_hi_in c' = sid /\ c_hi_out c' = c_hi_out c) /\
  dmem sid (c_streams c') = true.
Proof.
  unfold begin_new_stream, bind, get, g_begin_low, g_begin_parity. intros H.
  destruct (sid <=? highest_for c sid) eqn:E1; [unfold fail in H; discriminate|].
  destruct (sid mod 2 =? allowed) eqn:E2; cbn [negb] in H; [|unfold lift_res in H; discriminate].
  unfold modify in H. injection H as <-. cbv zeta.
  repeat split; try lia.
  - destruct (is_outbound c sid); cbn; split; reflexivity.
  - unfold dmem. destruct (is_outbound c sid); cbn [c_streams cset_hi_out cset_hi_in cset_streams]; rewrite dget_dset_same; reflexivity.
Qed.

(* which error a too-low / wrong-parity id gets *)
Lemma begin_new_stream_errors sid allowed c :
  snd (begin_new_stream sid allowed c) =
  if sid <=? highest_for c sid then Err StreamIDTooLowError 1 sid false
  else if negb (sid mod 2 =? allowed) then perr else Ok tt.
Proof.
  unfold begin_new_stream, bind, get, g_begin_low, g_begin_parity.
  destruct (sid <=? highest_for c sid); [reflexivity|].
  destruct (sid mod 2 =? allowed); reflexivity.
Qed.

(* ---------------------------------------------------------------------------------------------- *)
(* the watermarks never decrease, whatever the history *)
Section Mono.
Variable k : Z.
Definition Iout (c : conn) : Prop := k <= c_hi_out c.
Definition Iin (c : conn) : Prop := k <= c_hi_in c.

Lemma begin_out sid a : pres_inv (fun c => k <= c_hi_out c) (begin_new_stream sid a).
Proof.
  intros c c' r Hc H. destruct r as [[]|e co i b|p].
  - destruct (begin_new_stream_ok _ _ _ _ H) as (Hgt & _ & Hh & _). unfold highest_for in Hgt.
    destruct (is_outbound c sid); destruct Hh as [A B]; lia.
  - rewrite (begin_new_stream_refused _ _ _ _ _ H eq_refl). exact Hc.
  - rewrite (begin_new_stream_refused _ _ _ _ _ H eq_refl). exact Hc.
Qed.
Lemma begin_in sid a : pres_inv (fun c => k <= c_hi_in c) (begin_new_stream sid a).
Proof.
  intros c c' r Hc H. destruct r as [[]|e co i b|p].
  - destruct (begin_new_stream_ok _ _ _ _ H) as (Hgt & _ & Hh & _). unfold highest_for in Hgt.
    destruct (is_outbound c sid); destruct Hh as [A B]; lia.
  - rewrite (begin_new_stream_refused _ _ _ _ _ H eq_refl). exact Hc.
  - rewrite (begin_new_stream_refused _ _ _ _ _ H eq_refl). exact Hc.
Qed.
End Mono.

Ltac sp_out k := first [ apply (begin_out k) | progress unfold get_or_create_stream ].
Ltac sp_in k := first [ apply (begin_in k) | progress unfold get_or_create_stream ].

(* one generic proof script for both watermarks *)
Ltac handlers P sp :=
  match goal with
  | |- pres_inv _ (recv_push_promise ?sid ?pr ?d) =>
      let c := fresh "c" in let c' := fresh "c'" in let r := fresh "r" in let Hc := fresh "Hc" in let H := fresh "H" in
      intros c c' r Hc H; unfold recv_push_promise in H;
      unfold bind at 1 in H; unfold get at 1 in H; unfold bind at 1 in H
  | _ => idtac
  end.

Section Watermarks.
Variable k : Z.

Ltac go_out := inv_go c_hi_out ltac:(sp_out k).
Ltac go_in := inv_go c_hi_in ltac:(sp_in k).

(* outbound watermark *)
Lemma o_send_headers sid hs L es pw pd pe : pres_inv (fun c => k <= c_hi_out c) (api_send_headers sid hs L es pw pd pe).
Proof. unfold api_send_headers. go_out. Qed.
Lemma o_push sid pr hs L : pres_inv (fun c => k <= c_hi_out c) (api_push_stream sid pr hs L).
Proof. unfold api_push_stream. go_out. Qed.
Lemma o_upgrade hdr : pres_inv (fun c => k <= c_hi_out c) (api_initiate_upgrade hdr).
Proof. unfold api_initiate_upgrade. go_out. Qed.
Lemma o_recv_headers sid es p d : pres_inv (fun c => k <= c_hi_out c) (recv_headers sid es p d).
Proof. unfold recv_headers. go_out. Qed.

Lemma recv_push_promise_inv (Q : Z -> Prop) (P : conn -> Z)
      (P_state : forall c v, P (cset_state c v) = P c) (P_streams : forall c v, P (cset_streams c v) = P c)
      (P_dec_log : forall c v, P (cset_dec_log c v) = P c)
      (Hb : forall sid a, pres_inv (fun c => Q (P c)) (begin_new_stream sid a)) sid pr d :
  pres_inv (fun c => Q (P c)) (recv_push_promise sid pr d).
Proof.
  intros c c' r Hc H. unfold recv_push_promise in H.
  unfold bind at 1 in H. unfold get at 1 in H. unfold bind at 1 in H.
  destruct (s_enable_push (c_local c) =? 0).
  { unfold lift_res in H. injection H as <- _. exact Hc. }
  unfold ret at 1 in H. unfold bind at 1 in H.
  destruct (decode_headers d c) as [c1 r1] eqn:E1.
  assert (H1 : Q (P c1)) by (rewrite (fp_decode_headers P P_dec_log d c c1 r1 E1); exact Hc).
  destruct r1 as [hs|e co i b|p]; try (injection H as <- _; exact H1).
  unfold bind at 1 in H. destruct (cfsm CI_RECV_PUSH_PROMISE c1) as [c2 r2] eqn:E2.
  assert (H2 : Q (P c2)) by (rewrite (pres_cfsm P P_state _ _ _ _ E2); exact H1).
  destruct r2 as [x|e co i b|p]; try (injection H as <- _; exact H2).
  unfold bind at 1 in H. unfold get at 1 in H.
  destruct (dget sid (c_streams c2)).
  - destruct (g_recv_push_recursive sid). { unfold lift_res in H. injection H as <- _. exact H2. }
    destruct (with_stream sid (receive_push_promise_in_band (c_cfg c2) pr hs) c2) as [c3 r3] eqn:E3.
    assert (H3 : Q (P c3)) by (rewrite (pres_with_stream P P_streams _ _ _ _ _ E3); exact H2).
    destruct r3 as [evs|e co i b|p].
    + assert (X : pres_inv (fun c => Q (P c))
                    (begin_new_stream pr 0 ;;; with_stream pr (remotely_pushed hs) ;;; ret (([] : list frame), evs))).
      { apply pinv_bind; [apply Hb|intros _]. apply pinv_bind; [|intros _; apply pinv_ret].
        apply (pinv_of_pres_gen P). apply pres_with_stream. exact P_streams. }
      exact (X _ _ _ H3 H).
    + destruct e; injection H as <- _; exact H3.
    + injection H as <- _; exact H3.
  - destruct (stream_closed_by c2 sid) as [[]|]; unfold ret, lift_res in H; injection H as <- _; exact H2.
Qed.

Lemma o_recv_push sid pr d : pres_inv (fun c => k <= c_hi_out c) (recv_push_promise sid pr d).
Proof. apply (recv_push_promise_inv (fun z => k <= z) c_hi_out); try ow. apply begin_out. Qed.

Lemma o_dispatch f : pres_inv (fun c => k <= c_hi_out c) (dispatch f).
Proof.
  destruct f; cbn [dispatch]; first [ apply o_recv_headers | apply o_recv_push | go_out ].
Qed.

Lemma o_receive_frame f : pres_inv (fun c => k <= c_hi_out c) (receive_frame f).
Proof.
  intros c c' r Hc H. destruct (receive_frame_decomp c_hi_out ltac:(ow) f c c' r H) as (c1 & r1 & Hd & He).
  cbv beta. rewrite He. exact (o_dispatch f c c1 r1 Hc Hd).
Qed.

Theorem hi_out_lower_bound os : forall c, k <= c_hi_out c -> k <= c_hi_out (run c os).
Proof.
  intros c Hc.
  assert (Hw : Forall (wf_op (fun _ => True)) os).
  { clear. induction os as [|o os IH]; constructor; [|exact IH]. destruct o; cbn; auto. induction fs; constructor; auto. }
  refine (run_inv (fun c => k <= c_hi_out c) (fun _ => True) _ _ _ _ o_upgrade o_send_headers _ _ _ o_push
            _ _ _ _ _ _ _ _ _ _ _ _ (fun f _ => o_receive_frame f) _ os c Hc Hw).
  - intros c0 _. induction (c_inbuf c0); constructor; auto.
  - intros c0 v H0 _. exact H0.
  - intros c0 v H0. exact H0.
  - unfold initiate_connection; go_out.
  - intros; unfold api_send_data; go_out.
  - intros; unfold api_end_stream; go_out.
  - intros; unfold api_increment_window; go_out.
  - intros; unfold api_ping; go_out.
  - intros; unfold api_reset_stream; go_out.
  - intros; unfold api_close_connection; go_out.
  - intros; unfold api_update_settings; go_out.
  - intros; unfold api_advertise_alt_svc; go_out.
  - intros; unfold api_prioritize; go_out.
  - intros; unfold api_acknowledge_received_data; go_out.
  - go_out.
  - intros; go_out.
  - intros; go_out.
  - go_out.
  - go_out.
  - intros; unfold terminate_connection; go_out.
Qed.

(* inbound watermark: the same script *)
Lemma i_send_headers sid hs L es pw pd pe : pres_inv (fun c => k <= c_hi_in c) (api_send_headers sid hs L es pw pd pe).
Proof. unfold api_send_headers. go_in. Qed.
Lemma i_push sid pr hs L : pres_inv (fun c => k <= c_hi_in c) (api_push_stream sid pr hs L).
Proof. unfold api_push_stream. go_in. Qed.
Lemma i_upgrade hdr : pres_inv (fun c => k <= c_hi_in c) (api_initiate_upgrade hdr).
Proof. unfold api_initiate_upgrade. go_in. Qed.
Lemma i_recv_headers sid es p d : pres_inv (fun c => k <= c_hi_in c) (recv_headers sid es p d).
Proof. unfold recv_headers. go_in. Qed.
Lemma i_recv_push sid pr d : pres_inv (fun c => k <= c_hi_in c) (recv_push_promise sid pr d).
Proof. apply (recv_push_promise_inv (fun z => k <= z) c_hi_in); try ow. apply begin_in. Qed.
Lemma i_dispatch f : pres_inv (fun c => k <= c_hi_in c) (dispatch f).
Proof. destruct f; cbn [dispatch]; first [ apply i_recv_headers | apply i_recv_push | go_in ]. Qed.
Lemma i_receive_frame f : pres_inv (fun c => k <= c_hi_in c) (receive_frame f).
Proof.
  intros c c' r Hc H. destruct (receive_frame_decomp c_hi_in ltac:(ow) f c c' r H) as (c1 & r1 & Hd & He).
  cbv beta. rewrite He. exact (i_dispatch f c c1 r1 Hc Hd).
Qed.

Theorem hi_in_lower_bound os : forall c, k <= c_hi_in c -> k <= c_hi_in (run c os).
Proof.
  intros c Hc.
  assert (Hw : Forall (wf_op (fun _ => True)) os).
  { clear. induction os as [|o os IH]; constructor; [|exact IH]. destruct o; cbn; auto. induction fs; constructor; auto. }
  refine (run_inv (fun c => k <= c_hi_in c) (fun _ => True) _ _ _ _ i_upgrade i_send_headers _ _ _ i_push
            _ _ _ _ _ _ _ _ _ _ _ _ (fun f _ => i_receive_frame f) _ os c Hc Hw).
  - intros c0 _. induction (c_inbuf c0); constructor; auto.
  - intros c0 v H0 _. exact H0.
  - intros c0 v H0. exact H0.
  - unfold initiate_connection; go_in.
  - intros; unfold api_send_data; go_in.
  - intros; unfold api_end_stream; go_in.
  - intros; unfold api_increment_window; go_in.
  - intros; unfold api_ping; go_in.
  - intros; unfold api_reset_stream; go_in.
  - intros; unfold api_close_connection; go_in.
  - intros; unfold api_update_settings; go_in.
  - intros; unfold api_advertise_alt_svc; go_in.
  - intros; unfold api_prioritize; go_in.
  - intros; unfold api_acknowledge_received_data; go_in.
  - go_in.
  - intros; go_in.
  - intros; go_in.
  - go_in.
  - go_in.
  - intros; unfold terminate_connection; go_in.
Qed.
End Watermarks.

(* PRIORITY frames neither open nor implicitly close streams: they change nothing at all (C23 proves c' = c);
   restated here for the watermarks and the stream tables *)
Lemma priority_keeps_tables sid p c c' r :
  recv_priority sid p c = (c', r) ->
  c_hi_in c' = c_hi_in c /\ c_hi_out c' = c_hi_out c /\ c_streams c' = c_streams c /\ c_closed c' = c_closed c.
Proof.
  intros H. repeat split;
    [ apply (fp_recv_priority c_hi_in) with (sid := sid) (p := p) (r := r)
    | apply (fp_recv_priority c_hi_out) with (sid := sid) (p := p) (r := r)
    | apply (fp_recv_priority c_streams) with (sid := sid) (p := p) (r := r)
    | apply (fp_recv_priority c_closed) with (sid := sid) (p := p) (r := r) ]; try ow; exact H.
Qed.
