From H2 Require Import Base.Prelude Gen.Consts Model.Windows Model.WmHist Proofs.ConstFacts.

(* ------------------------------------------------------------------------------------------ *)
(* one invariant, preserved by every successful operation whatever its kind *)
Definition InvAll (g : gh) : Prop :=
  wm_cur (g_w g) <= wm_max (g_w g) /\
  0 <= wm_bp (g_w g) /\
  0 <= wm_max (g_w g) /\
  g_A g <= g_C g /\
  g_K g + wm_bp (g_w g) <= g_A g /\                       (* never credits more than was acknowledged *)
  wm_max (g_w g) <= wm_cur (g_w g) + wm_bp (g_w g) + (g_C g - g_A g) /\   (* nothing is lost while room is left *)
  Forall (fun i => 0 < i) (g_incs g).

Ltac unf := unfold wstep in *; unfold wm_delta, process_bytes in *; unfold window_consumed, window_opened, maybe_update_window,
   wm_increment, fc_err, is_ok, InvAll in *.
Ltac fin := repeat split; try lia; try assumption.
Ltac projs := cbn [g_w g_C g_A g_K g_incs wm_max wm_cur wm_bp fst snd] in *.

Lemma wstep_InvAll g o g' : InvAll g -> wf_wop g o -> wstep g o = Some g' -> InvAll g'.
Proof.
  destruct g as [[mx cur bp] C A K incs]. intros Hinv Hwf Hs. consts.
  destruct o as [n|n|n|d]; unf; projs; cbn [wf_wop] in Hwf; projs;
    destruct Hinv as (H1 & H2 & H3 & H4 & H5 & H6 & H7).
  - destruct (cur - n <? 0) eqn:E; [discriminate|]. (injection Hs as Hs; subst g'). projs. fin.
  - destruct (bp + n =? 0) eqn:E0; projs.
    + (injection Hs as Hs; subst g'). projs. fin.
    + destruct (((cur =? 0) && (bp + n >? Z.min 1024 (mx / 4))) || (bp + n >=? mx / 2)) eqn:E1; projs; clear E1.
      * destruct (Z.min (bp + n) (mx - cur) =? 0) eqn:E2; (injection Hs as Hs; subst g'); projs.
        -- fin.
        -- fin. constructor; [lia|exact H7].
      * (injection Hs as Hs; subst g'). projs. fin.
  - destruct (cur + n >? LARGEST_FLOW_CONTROL_WINDOW) eqn:E; projs; [discriminate|]. (injection Hs as Hs; subst g'). projs. fin.
  - destruct (cur + d >? LARGEST_FLOW_CONTROL_WINDOW) eqn:E; projs; [discriminate|]. (injection Hs as Hs; subst g'). projs. fin.
Qed.

Lemma InvAll_init m : 0 <= m -> InvAll (gh_init m).
Proof. intros H. unfold InvAll, gh_init, wm_new. projs. repeat split; try lia. constructor. Qed.

Lemma wrun_InvAll os : forall g g', InvAll g -> wf_hist g os -> wrun g os = Some g' -> InvAll g'.
Proof.
  induction os as [|o os IH]; intros g g' Hi Hw Hr; cbn [wrun wf_hist] in *.
  - injection Hr as <-. exact Hi.
  - destruct Hw as [Hwo Hw]. destruct (wstep g o) as [g1|] eqn:S; [|discriminate].
    apply (IH g1 g'); [eapply wstep_InvAll; eassumption | exact Hw | exact Hr].
Qed.

(* ------------------------------------------------------------------------------------------ *)
(* the 2^31-1 ceiling: holds when manual increments and INITIAL_WINDOW_SIZE changes are not mixed *)
Definition InvCeil (g : gh) : Prop := wm_max (g_w g) <= 2147483647.

Lemma wstep_InvCeil_no_delta g o g' :
  InvAll g -> InvCeil g -> (match o with Delta _ => False | _ => True end) -> wstep g o = Some g' -> InvCeil g'.
Proof.
  destruct g as [[mx cur bp] C A K incs]. intros Hinv Hc Hnd Hs. consts. unfold InvCeil in *.
  destruct o as [n|n|n|d]; unf; projs; [| | |contradiction].
  - destruct (cur - n <? 0); [discriminate|]. (injection Hs as Hs; subst g'). projs. lia.
  - destruct (bp + n =? 0); projs; [(injection Hs as Hs; subst g'); projs; lia|].
    destruct (((cur =? 0) && (bp + n >? Z.min 1024 (mx / 4))) || (bp + n >=? mx / 2)); projs.
    + destruct (Z.min (bp + n) (mx - cur) =? 0) eqn:E2; (injection Hs as Hs; subst g'); projs; lia.
    + (injection Hs as Hs; subst g'); projs; lia.
  - destruct (cur + n >? LARGEST_FLOW_CONTROL_WINDOW) eqn:E; projs; [discriminate|]. (injection Hs as Hs; subst g'). projs. lia.
Qed.

Lemma wrun_InvCeil_no_delta os : forall g g',
  InvAll g -> InvCeil g -> wf_hist g os -> no_delta os -> wrun g os = Some g' -> InvCeil g'.
Proof.
  induction os as [|o os IH]; intros g g' Hi Hc Hw Hn Hr; cbn [wrun wf_hist] in *.
  - injection Hr as <-. exact Hc.
  - destruct Hw as [Hwo Hw]. inversion Hn as [|? ? Hno Hns]; subst.
    destruct (wstep g o) as [g1|] eqn:S; [|discriminate].
    apply (IH g1 g'); try assumption.
    + eapply wstep_InvAll; eassumption.
    + eapply wstep_InvCeil_no_delta; eassumption.
Qed.

(* without manual increments the maximum is always the current INITIAL_WINDOW_SIZE *)
Definition InvTrack (iws : Z) (g : gh) : Prop := wm_max (g_w g) = iws.

Definition iws_after (iws : Z) (o : wop) : Z := match o with Delta d => iws + d | _ => iws end.

Lemma wstep_InvTrack g o g' iws :
  InvAll g -> InvTrack iws g -> (match o with Open _ => False | _ => True end) -> wstep g o = Some g' ->
  InvTrack (iws_after iws o) g'.
Proof.
  destruct g as [[mx cur bp] C A K incs]. intros Hinv Hc Hnd Hs. consts. unfold InvTrack in *. projs.
  destruct o as [n|n|n|d]; unf; projs; cbn [iws_after]; [| |contradiction|].
  - destruct (cur - n <? 0); [discriminate|]. (injection Hs as Hs; subst g'). projs. lia.
  - destruct (bp + n =? 0); projs; [(injection Hs as Hs; subst g'); projs; lia|].
    destruct (((cur =? 0) && (bp + n >? Z.min 1024 (mx / 4))) || (bp + n >=? mx / 2)); projs.
    + destruct (Z.min (bp + n) (mx - cur) =? 0) eqn:E2; (injection Hs as Hs; subst g'); projs; lia.
    + (injection Hs as Hs; subst g'); projs; lia.
  - destruct (cur + d >? LARGEST_FLOW_CONTROL_WINDOW) eqn:E; projs; [discriminate|]. (injection Hs as Hs; subst g'). projs. lia.
Qed.

(* ------------------------------------------------------------------------------------------ *)
(* no stall *)
Definition InvLive (g : gh) : Prop :=
  0 <= wm_cur (g_w g) /\ (g_A g = g_C g -> 0 < wm_max (g_w g) -> 0 < wm_cur (g_w g)).

Lemma wstep_InvLive g o g' :
  InvAll g -> InvLive g -> wf_wop g o -> (match o with Delta d => 0 <= d | _ => True end) ->
  wstep g o = Some g' -> InvLive g'.
Proof.
  destruct g as [[mx cur bp] C A K incs]. intros Hinv [Hc Hl] Hwf Hnd Hs. consts. unfold InvLive in *.
  destruct o as [n|n|n|d]; unf; projs; cbn [wf_wop] in Hwf; projs;
    destruct Hinv as (H1 & H2 & H3 & H4 & H5 & H6 & H7).
  - destruct (cur - n <? 0) eqn:E; [discriminate|]. (injection Hs as Hs; subst g'). projs. split; [lia|]. intros. assert (n = 0) by lia. subst n. lia.
  - destruct (bp + n =? 0) eqn:E0; projs.
    + (injection Hs as Hs; subst g'). projs. split; [lia|]. intros. lia.
    + destruct (((cur =? 0) && (bp + n >? Z.min 1024 (mx / 4))) || (bp + n >=? mx / 2)) eqn:E1; projs.
      * clear E1. destruct (Z.min (bp + n) (mx - cur) =? 0) eqn:E2; (injection Hs as Hs; subst g'); projs; split; try lia; intros; lia.
      * (injection Hs as Hs; subst g'). projs. split; [lia|]. intros HA Hm.
        (* all acknowledged, no update emitted: the window cannot be zero *)
        destruct (cur =? 0) eqn:Ec; [|lia]. exfalso.
        apply orb_false_iff in E1. destruct E1 as [E1a E1b]. cbn [andb] in E1a.
        assert (Hq : mx / 4 < mx) by (apply Z.div_lt; lia).
        clear E1b. revert E1a Hq. generalize (mx / 4). intros q E1a Hq. lia.
  - destruct (cur + n >? LARGEST_FLOW_CONTROL_WINDOW) eqn:E; projs; [discriminate|]. (injection Hs as Hs; subst g'). projs. split; intros; lia.
  - destruct (cur + d >? LARGEST_FLOW_CONTROL_WINDOW) eqn:E; projs; [discriminate|]. (injection Hs as Hs; subst g'). projs. split; [lia|]. intros HA Hm.
    destruct (Z.eq_dec d 0) as [->|]; [assert (0 < cur) by (apply Hl; lia); lia|].
    destruct (Z.eq_dec cur 0); lia.
Qed.

Lemma InvLive_init m : 0 <= m -> InvLive (gh_init m).
Proof. intros. unfold InvLive, gh_init, wm_new. projs. split; intros; lia. Qed.

Lemma wrun_InvLive os : forall g g',
  InvAll g -> InvLive g -> wf_hist g os -> no_negative_delta os -> wrun g os = Some g' -> InvLive g'.
Proof.
  induction os as [|o os IH]; intros g g' Hi Hl Hw Hn Hr; cbn [wrun wf_hist] in *.
  - injection Hr as <-. exact Hl.
  - destruct Hw as [Hwo Hw]. inversion Hn as [|? ? Hno Hns]; subst.
    destruct (wstep g o) as [g1|] eqn:S; [|discriminate].
    apply (IH g1 g'); try assumption.
    + eapply wstep_InvAll; eassumption.
    + eapply wstep_InvLive; eassumption.
Qed.
