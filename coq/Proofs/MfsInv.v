(* Proofs/MfsInv.v — over EVERY history of calls and received frames: the peer's MAX_FRAME_SIZE in force is at least 2^14, and every
   value ever queued for the peer's settings passed validation.  Consequence: the size assertion of _prepare_for_sending can never
   fire for the fixed-size frames the library emits on its own (SETTINGS ACK, PING ACK, WINDOW_UPDATE, RST_STREAM, GOAWAY). *)
From H2 Require Import Base.Prelude Base.PyDict Model.FsmTypes Gen.Consts Gen.Tables Gen.Guards
  Model.Types Model.Windows Model.WmHist Model.SettingsV Model.Settings Model.StreamFSM Model.Headers
  Model.Stream Model.ConnState Model.Connection Proofs.ConstFacts Proofs.Frame Proofs.FrameConn Proofs.Inv Proofs.InvTac.

Definition entry_ok (k : Z) (q : list (option Z)) : Prop :=
  Forall (fun o => match o with Some v => validate_setting k v = 0 | None => True end) q.
Definition sval_ok (s : settings) : Prop := forall k q, In (k, q) s -> entry_ok k q.

Lemma In_dset {V} k (v : V) d k' v' : In (k', v') (dset k v d) -> (k' = k /\ v' = v) \/ In (k', v') d.
Proof.
  induction d as [|[k0 v0] d IH]; cbn [dset].
  - intros [H|[]]. injection H as <- <-. left; auto.
  - destruct (k =? k0) eqn:E.
    + intros [H|H]; [injection H as <- <-; left; auto | right; right; exact H].
    + intros [H|H]; [right; left; exact H|]. destruct (IH H) as [A|A]; [left; exact A | right; right; exact A].
Qed.
Lemma dget_In {V} k (d : @dict V) q : dget k d = Some q -> In (k, q) d.
Proof.
  induction d as [|[k0 v0] d IH]; cbn [dget]; [discriminate|]. destruct (k =? k0) eqn:E.
  - intros H. injection H as <-. apply Z.eqb_eq in E. subst. left. reflexivity.
  - intros H. right. exact (IH H).
Qed.

Lemma ssetitem_ok k v s s' r : sval_ok s -> ssetitem k v s = (s', r) -> sval_ok s'.
Proof.
  intros Hs. unfold ssetitem. destruct (negb (validate_setting k v =? 0)) eqn:E; intros H; injection H as <- _; [exact Hs|].
  apply negb_false_iff, Z.eqb_eq in E. intros k' q' Hin. apply In_dset in Hin as [[-> ->]|Hin]; [|exact (Hs _ _ Hin)].
  apply Forall_app. split; [|repeat constructor; exact E].
  destruct (dget k s) as [q|] eqn:Eg; [exact (Hs _ _ (dget_In _ _ _ Eg)) | repeat constructor].
Qed.
Lemma supdate_ok kvs : forall s s' r, sval_ok s -> supdate kvs s = (s', r) -> sval_ok s'.
Proof.
  induction kvs as [|[k v] kvs IH]; intros s s' r Hs; cbn [supdate]; [intros H; injection H as <- _; exact Hs|].
  destruct (ssetitem k v s) as [s1 r1] eqn:E. pose proof (ssetitem_ok _ _ _ _ _ Hs E) as H1.
  destruct r1; [apply IH; exact H1 | intros H; injection H as <- _; exact H1 | intros H; injection H as <- _; exact H1].
Qed.

Lemma sacknowledge_ok s : sval_ok s ->
  sval_ok (fst (sacknowledge s)) /\ (forall k old new, In (k, old, new) (snd (sacknowledge s)) -> validate_setting k new = 0).
Proof.
  induction s as [|[k q] r IH]; intros Hs; cbn [sacknowledge]; [split; [intros ? ? []| intros ? ? ? []]|].
  assert (Hr : sval_ok r) by (intros k' q' Hin; apply (Hs k' q'); right; exact Hin).
  destruct (IH Hr) as [A B]. destruct (sacknowledge r) as [r' ch]. cbn [fst snd] in *.
  pose proof (Hs k q (or_introl eq_refl)) as Hq. unfold entry_ok in Hq.
  destruct q as [|old [|[new|] q2]].
  - split; [intros k' q' [H|H]; [injection H as <- <-; constructor | exact (A _ _ H)] | exact B].
  - split; [intros k' q' [H|H]; [injection H as <- <-; exact Hq | exact (A _ _ H)] | exact B].
  - inversion Hq as [|? ? _ Hq2]; subst. split.
    + intros k' q' [H|H]; [injection H as <- <-; exact Hq2 | exact (A _ _ H)].
    + intros k' o n [H|H]; [injection H as <- _ <-; inversion Hq2; assumption | exact (B _ _ _ H)].
  - inversion Hq as [|? ? _ Hq2]; subst. split; [intros k' q' [H|H]; [injection H as <- <-; exact Hq2 | exact (A _ _ H)] | exact B].
Qed.

Lemma changed_lookup_In k ch o n : changed_lookup k ch = Some (o, n) -> In (k, o, n) ch.
Proof.
  unfold changed_lookup. destruct (find _ ch) as [[[k0 o0] n0]|] eqn:E; [|discriminate].
  apply find_some in E as [Hin Hk]. cbn in Hk. apply Z.eqb_eq in Hk. subst. intros H. injection H as <- <-. exact Hin.
Qed.

Lemma defaults_ok b : sval_ok (settings_defaults b).
Proof. destruct b; intros k q Hin; cbn in Hin; repeat (destruct Hin as [Hin|Hin]; [injection Hin as <- <-; repeat constructor|]); destruct Hin. Qed.

(* ---- the invariant ---- *)
Definition P (c : conn) : Z * settings := (c_max_out_frame c, c_remote c).
Definition Q (x : Z * settings) : Prop := 16384 <= fst x /\ sval_ok (snd x).
Definition mfs_inv (c : conn) : Prop := Q (P c).

Lemma mfs_init cfg : mfs_inv (conn_new cfg).
Proof.
  unfold mfs_inv, Q, P, conn_new. cbn [c_max_out_frame c_remote fst snd]. unfold settings_new. cbn [settings_init_values fst].
  split; [destruct (cfg_client cfg); vm_compute; discriminate | apply defaults_ok].
Qed.

Lemma inv_lift_remote_update kvs : pres_inv mfs_inv (lift_remote (supdate kvs)).
Proof.
  intros c c' r [Hm Hs] H. unfold lift_remote in H. destruct (supdate kvs (c_remote c)) as [s' r'] eqn:E. injection H as <- _.
  split; [exact Hm | exact (supdate_ok _ _ _ _ Hs E)].
Qed.

Lemma inv_acknowledge_settings : pres_inv mfs_inv acknowledge_settings.
Proof.
  intros c c' r Hi H. unfold acknowledge_settings in H.
  unfold bind at 1 in H. destruct (cfsm CI_SEND_SETTINGS c) as [c1 r1] eqn:E1.
  assert (H1 : mfs_inv c1). { unfold cfsm in E1. destruct (conn_transition _ _); injection E1 as <- _; exact Hi. }
  destruct r1; try (injection H as <- _; exact H1).
  unfold bind at 1 in H. unfold lift_remote at 1 in H.
  destruct H1 as [Hm Hs]. unfold P in Hm, Hs. cbn [fst snd] in Hm, Hs. destruct (sacknowledge_ok _ Hs) as [Hs' Hch].
  destruct (sacknowledge (c_remote c1)) as [s' ch]. cbn [fst snd] in *.
  set (c2 := cset_remote c1 s') in *.
  assert (H2 : mfs_inv c2) by (split; [exact Hm | exact Hs']).
  (* the two steps that do not touch the projection *)
  unfold bind at 1 in H.
  match type of H with (match ?X with (_, _) => _ end) = _ => destruct X as [c3 r3] eqn:E3 end.
  assert (H3 : mfs_inv c3).
  { destruct (changed_lookup SC_INITIAL_WINDOW_SIZE ch) as [[o n]|].
    - unfold mfs_inv. rewrite (fp_flow_control_change P ltac:(ow) _ _ _ _ _ E3). exact H2.
    - injection E3 as <- _. exact H2. }
  destruct r3; try (injection H as <- _; exact H3).
  unfold bind at 1 in H.
  match type of H with (match ?X with (_, _) => _ end) = _ => destruct X as [c4 r4] eqn:E4 end.
  assert (H4 : mfs_inv c4).
  { destruct (changed_lookup SC_HEADER_TABLE_SIZE ch) as [[o n]|]; injection E4 as <- _; exact H3. }
  destruct r4; try (injection H as <- _; exact H4).
  unfold bind at 1 in H.
  match type of H with (match ?X with (_, _) => _ end) = _ => destruct X as [c5 r5] eqn:E5 end.
  assert (H5 : mfs_inv c5).
  { destruct (changed_lookup SC_MAX_FRAME_SIZE ch) as [[o n]|] eqn:El.
    - unfold modify in E5. injection E5 as <- _.
      pose proof (Hch _ _ _ (changed_lookup_In _ _ _ _ El)) as Hv.
      destruct H4 as [_ Hs4]. split; [|exact Hs4]. cbn [P fst c_max_out_frame cset_streams cset_max_out_frame].
      unfold validate_setting in Hv. change (SC_MAX_FRAME_SIZE =? SC_ENABLE_PUSH) with false in Hv.
      change (SC_MAX_FRAME_SIZE =? SC_INITIAL_WINDOW_SIZE) with false in Hv. change (SC_MAX_FRAME_SIZE =? SC_MAX_FRAME_SIZE) with true in Hv.
      cbv iota in Hv. destruct ((16384 <=? n) && (n <=? 16777215)) eqn:B; [lia | vm_compute in Hv; discriminate].
    - injection E5 as <- _. exact H4. }
  destruct r5; injection H as <- _; exact H5.
Qed.

Ltac spm := first [ apply inv_lift_remote_update | apply inv_acknowledge_settings ].
Ltac gom := inv_goQ P Q ltac:(spm).

Lemma inv_recv_settings ack vals : pres_inv mfs_inv (recv_settings ack vals).
Proof. unfold mfs_inv, recv_settings. gom. Qed.

Lemma inv_dispatch f : pres_inv mfs_inv (dispatch f).
Proof. destruct f; cbn [dispatch]; first [ apply inv_recv_settings | unfold mfs_inv; gom ]. Qed.

Lemma inv_receive_frame f : pres_inv mfs_inv (receive_frame f).
Proof.
  intros c c' r Hc H. destruct (receive_frame_decomp P ltac:(ow) f c c' r H) as (c1 & r1 & Hd & He).
  unfold mfs_inv. rewrite He. exact (inv_dispatch f c c1 r1 Hc Hd).
Qed.

Theorem peer_frame_size_limit_is_never_below_the_minimum os : forall c, mfs_inv c -> mfs_inv (run c os).
Proof.
  intros c Hc.
  assert (Hw : Forall (wf_op (fun _ => True)) os).
  { clear. induction os as [|o os IH]; constructor; [|exact IH]. destruct o; cbn; auto. induction fs; constructor; auto. }
  refine (run_inv mfs_inv (fun _ => True) _ _ _ _ _ _ _ _ _ _
            _ _ _ _ _ _ _ _ _ _ _ _ (fun f _ => inv_receive_frame f) _ os c Hc Hw).
  - intros c0 _. induction (c_inbuf c0); constructor; auto.
  - intros c0 v H0 _. exact H0.
  - intros c0 v H0. exact H0.
  - unfold mfs_inv, initiate_connection; gom.
  - intros; unfold mfs_inv, api_initiate_upgrade; inv_goQ P Q ltac:(first [ apply inv_recv_settings | spm ]).
  - intros; unfold mfs_inv, api_send_headers; gom.
  - intros; unfold mfs_inv, api_send_data; gom.
  - intros; unfold mfs_inv, api_end_stream; gom.
  - intros; unfold mfs_inv, api_increment_window; gom.
  - intros; unfold mfs_inv, api_push_stream; gom.
  - intros; unfold mfs_inv, api_ping; gom.
  - intros; unfold mfs_inv, api_reset_stream; gom.
  - intros; unfold mfs_inv, api_close_connection; gom.
  - intros; unfold mfs_inv, api_update_settings; gom.
  - intros; unfold mfs_inv, api_advertise_alt_svc; gom.
  - intros; unfold mfs_inv, api_prioritize; gom.
  - intros; unfold mfs_inv, api_acknowledge_received_data; gom.
  - unfold mfs_inv; gom.
  - intros; unfold mfs_inv; gom.
  - intros; unfold mfs_inv; gom.
  - unfold mfs_inv; gom.
  - unfold mfs_inv; gom.
  - intros; unfold mfs_inv, terminate_connection; gom.
Qed.

Corollary frame_size_limit_after_any_history cfg os : 16384 <= c_max_out_frame (run (conn_new cfg) os).
Proof. exact (proj1 (peer_frame_size_limit_is_never_below_the_minimum os _ (mfs_init cfg))). Qed.
