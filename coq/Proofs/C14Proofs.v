(* Proofs/C14Proofs.v — outbound header blocks: what normalisation guarantees for every input, and what a block that passed the
   outbound validation satisfies (the whole-list predicate of Spec/Rfc812.v). *)
From H2 Require Import Base.Prelude Model.Types Gen.Consts Gen.Guards Model.StreamFSM Model.Headers Model.Stream Spec.Rfc812 Proofs.C15Proofs.

(* the part of field_ok that is about the meaning of a field, not its spelling *)
Definition sem_ok (k : block) (n v : bytes) : bool :=
  negb (is_in n connection_specific) &&
  negb (bytes_eqb n s_te && negb (bytes_eqb (map low v) s_trailers)) &&
  negb (match k with Request => bytes_eqb n s_path && (match v with [] => true | _ => false end) | _ => false end).
Definition spelled_ok (n v : bytes) : bool :=
  negb (match n with [] => true | _ => false end) && negb (existsb upper n) && no_surrounding_ws n && no_surrounding_ws v.
Lemma field_ok_split k n v : field_ok k n v = spelled_ok n v && sem_ok k n v.
Proof.
  unfold field_ok, spelled_ok, sem_ok.
  generalize (negb (match n with [] => true | _ => false end)) (negb (existsb upper n)) (no_surrounding_ws n) (no_surrounding_ws v)
    (negb (is_in n connection_specific)) (negb (bytes_eqb n s_te && negb (bytes_eqb (map low v) s_trailers))).
  intros [] [] [] [] [] []; reflexivity.
Qed.

Definition cond_out (f : hflags) (p : list hitem) (n v : bytes) : bool :=
  sem_ok (blk f) n v &&
  (negb (pseudo n) || (negb (is_in n (pseudo_names p)) && negb (has_regular p) && is_in n known_pseudo)).

Lemma step_common_spec f p n v ni : hf_trailer f && hf_response f = false ->
  step_common f (abs f p) n v = if cond_out f p n v then VOk (abs f (p ++ [(n, v, ni)])) else VProtocolError.
Proof.
  intros Hf. unfold cond_out, sem_ok, abs. unfold step_common.
  change (check_te n v) with (bytes_eqb n s_te && negb (bytes_eqb (map low v) s_trailers)).
  change (check_conn n) with (is_in n connection_specific).
  destruct (bytes_eqb n s_te && negb (bytes_eqb (map low v) s_trailers)); [rewrite andb_false_r; reflexivity|].
  destruct (is_in n connection_specific); [reflexivity|]. cbn [negb andb].
  assert (Hpath : check_path f n v = match blk f with Request => bytes_eqb n s_path && match v with [] => true | _ => false end | _ => false end).
  { unfold check_path. rewrite (flags_block f Hf). destruct (blk f); reflexivity. }
  unfold step_pseudo. change (starts_colon n) with (pseudo n). cbn [vs_pseudo vs_regular vs_method vs_authority vs_host].
  destruct (pseudo n) eqn:Ep.
  - change (mem_bytes n (rev (pseudo_names p))) with (is_in n (rev (pseudo_names p))). rewrite is_in_rev.
    destruct (is_in n (pseudo_names p)); [cbn; destruct (match blk f with Request => _ | _ => false end); reflexivity|].
    destruct (has_regular p) eqn:Er; [cbn; destruct (match blk f with Request => _ | _ => false end); reflexivity|].
    change (mem_bytes n ALLOWED_PSEUDO_HEADER_FIELDS) with (is_in n known_pseudo).
    destruct (is_in n known_pseudo); [|cbn; destruct (match blk f with Request => _ | _ => false end); reflexivity].
    cbn [negb andb orb]. rewrite Hpath.
    destruct (match blk f with Request => bytes_eqb n s_path && match v with [] => true | _ => false end | _ => false end); [reflexivity|].
    cbn [negb andb]. f_equal. unfold step_host. cbn [vs_pseudo vs_regular vs_method vs_authority vs_host].
    rewrite pseudo_names_snoc, has_regular_snoc, Ep, Er. rewrite rev_app_distr. cbn [rev app negb orb].
    rewrite !value_of_snoc.
    change b_method with s_method. change b_authority with s_authority. change b_host with s_host.
    destruct (skip_req_checks f); [reflexivity|].
    destruct (bytes_eqb n s_authority) eqn:Ea; [apply bytes_eqb_eq in Ea; subst n; first [discriminate Ep | reflexivity]|].
    destruct (bytes_eqb n s_host) eqn:Eh; reflexivity.
  - cbn [negb orb andb]. rewrite Hpath.
    destruct (match blk f with Request => bytes_eqb n s_path && match v with [] => true | _ => false end | _ => false end); [reflexivity|].
    cbn [negb andb]. f_equal. unfold step_host. cbn [vs_pseudo vs_regular vs_method vs_authority vs_host].
    rewrite pseudo_names_snoc, has_regular_snoc, Ep. rewrite app_nil_r. cbn [negb]. rewrite orb_true_r.
    rewrite !value_of_snoc.
    change b_authority with s_authority. change b_host with s_host.
    assert (Hm : bytes_eqb n s_method = false).
    { destruct (bytes_eqb n s_method) eqn:E; [|reflexivity]. apply bytes_eqb_eq in E. subst n. discriminate Ep. }
    rewrite Hm.
    destruct (skip_req_checks f); [reflexivity|].
    destruct (bytes_eqb n s_authority) eqn:Ea; [apply bytes_eqb_eq in Ea; subst n; first [discriminate Ep | reflexivity]|].
    destruct (bytes_eqb n s_host) eqn:Eh; reflexivity.
Qed.

Fixpoint chk_out (f : hflags) (p q : list hitem) : bool :=
  match q with
  | [] => true
  | (n, v, ni) :: r => cond_out f p n v && chk_out f (p ++ [(n, v, ni)]) r
  end.

Lemma run_steps_out_spec f : hf_trailer f && hf_response f = false ->
  forall q p passed,
    let '(out, r, s) := run_steps (step_common f) (abs f p) q passed in
    if chk_out f p q then r = PAll /\ out = rev passed ++ q /\ s = abs f (p ++ q)
    else r = PProtocolError /\ exists done rest, q = done ++ rest /\ out = rev passed ++ done /\ rest <> [].
Proof.
  intros Hf. induction q as [|[[n v] ni] q IH]; intros p passed; cbn [run_steps chk_out].
  - cbn. rewrite !app_nil_r. auto.
  - rewrite (step_common_spec f p n v ni Hf). destruct (cond_out f p n v); cbn [andb].
    + specialize (IH (p ++ [(n, v, ni)]) ((n, v, ni) :: passed)). destruct (run_steps _ _ q _) as [[out r] s].
      destruct (chk_out f (p ++ [(n, v, ni)]) q).
      * destruct IH as (A & B & C). split; [exact A|]. split; [rewrite B; cbn [rev]; rewrite <- app_assoc; reflexivity|].
        rewrite C, <- app_assoc. reflexivity.
      * destruct IH as (A & done & rest & Hq & Ho & Hr). split; [exact A|]. exists ((n, v, ni) :: done), rest.
        split; [rewrite Hq; reflexivity|]. split; [rewrite Ho; cbn [rev]; rewrite <- app_assoc; reflexivity | exact Hr].
    + split; [reflexivity|]. exists [], ((n, v, ni) :: q). split; [reflexivity|]. split; [rewrite app_nil_r; reflexivity | discriminate].
Qed.

Definition sems_ok (f : hflags) (q : list hitem) : bool := forallb (fun h => sem_ok (blk f) (fst (fst h)) (snd (fst h))) q.

Lemma chk_out_spec f : forall q p,
  chk_out f p q = sems_ok f q && known_ok q &&
              (if has_regular p then negb (existsb pseudo (names q)) else pseudo_first (names q)) &&
              no_dup (pseudo_names q) && forallb (fun x => negb (is_in x (pseudo_names p))) (pseudo_names q).
Proof.
  induction q as [|[[n v] ni] q IH]; intros p.
  - cbn. destruct (has_regular p); reflexivity.
  - cbn [chk_out]. rewrite IH. unfold cond_out, sems_ok, known_ok. cbn [forallb fst snd].
    rewrite has_regular_snoc, pseudo_names_snoc.
    change (pseudo_names ((n, v, ni) :: q)) with (if pseudo n then n :: pseudo_names q else pseudo_names q).
    change (names ((n, v, ni) :: q)) with (n :: names q). cbn [existsb pseudo_first].
    destruct (sem_ok (blk f) n v); [|reflexivity]. cbn [andb].
    destruct (pseudo n) eqn:Ep; cbn [negb orb andb].
    + rewrite orb_false_r, app_nil_r || rewrite orb_false_r. cbn [forallb no_dup].
      pose proof (forallb_not_in_snoc n (pseudo_names p) (pseudo_names q)) as E.
      rewrite E.
      destruct (is_in n (pseudo_names p)), (has_regular p), (is_in n known_pseudo), (forallb (fun h => sem_ok (blk f) (fst (fst h)) (snd (fst h))) q),
        (forallb (fun x => is_in x known_pseudo) (pseudo_names q)), (pseudo_first (names q)), (negb (existsb pseudo (names q))), (no_dup (pseudo_names q)),
        (forallb (fun x => negb (is_in x (pseudo_names p))) (pseudo_names q)), (negb (is_in n (pseudo_names q))); reflexivity.
    + rewrite orb_true_r, app_nil_r.
      destruct (has_regular p), (forallb (fun h => sem_ok (blk f) (fst (fst h)) (snd (fst h))) q),
        (forallb (fun x => is_in x known_pseudo) (pseudo_names q)), (negb (existsb pseudo (names q))), (no_dup (pseudo_names q)),
        (forallb (fun x => negb (is_in x (pseudo_names p))) (pseudo_names q)); reflexivity.
Qed.

(* the whole-list predicate without the spelling conditions *)
Definition conformant_sem (k : block) (hs : list hitem) : bool :=
  forallb (fun h => sem_ok k (fst (fst h)) (snd (fst h))) hs &&
  pseudo_first (names hs) && no_dup (pseudo_names hs) && forallb (fun p => is_in p known_pseudo) (pseudo_names hs) && role_ok k hs.

(* what the outbound validation lets through: exactly the lists that satisfy the predicate; on refusal, the encoder has only
   consumed a proper prefix *)
Theorem outbound_validation_accepts_exactly cfg f hs :
  cfg_validate_out cfg = true -> hf_trailer f && hf_response f = false ->
  let hs1 := if cfg_normalize_out cfg then normalize_outbound hs else hs in
  outbound_pipeline cfg f hs = (if conformant_sem (blk f) hs1 then (hs1, PAll) else (fst (outbound_pipeline cfg f hs), PProtocolError)).
Proof.
  intros Hv Hf hs1. unfold outbound_pipeline. fold hs1. rewrite Hv.
  pose proof (run_steps_out_spec f Hf hs1 [] []) as H. rewrite abs_nil in H.
  destruct (run_steps (step_common f) vs0 hs1 []) as [[out r] s].
  rewrite chk_out_spec in H. cbn [has_regular names map existsb pseudo_names filter] in H. rewrite forallb_not_in_nil, andb_true_r in H.
  unfold conformant_sem. unfold sems_ok, known_ok in H.
  set (A := forallb (fun h => sem_ok (blk f) (fst (fst h)) (snd (fst h))) hs1) in *.
  set (P := pseudo_first (names hs1)) in *. set (N := no_dup (pseudo_names hs1)) in *.
  set (K := forallb (fun x => is_in x known_pseudo) (pseudo_names hs1)) in *.
  destruct (A && K && P && N) eqn:E.
  - destruct H as (-> & -> & ->). cbn [app]. rewrite (end_checks_spec f hs1 Hf).
    destruct A, K, P, N; try discriminate. cbn [andb]. destruct (role_ok (blk f) hs1); reflexivity.
  - destruct H as (-> & _). assert (X : A && P && N && K && role_ok (blk f) hs1 = false) by (destruct A, K, P, N; try discriminate; reflexivity).
    rewrite X. reflexivity.
Qed.

(* ---- normalisation, for EVERY input ---- *)
Lemma low_not_upper c : upper (low c) = false.
Proof. unfold low, upper. destruct ((65 <=? c) && (c <=? 90)) eqn:E; [|exact E]. lia. Qed.
Lemma lower_has_no_upper b : existsb upper (lower b) = false.
Proof. unfold lower. induction b as [|c b IH]; [reflexivity|]. cbn [map existsb]. change (lower_byte c) with (low c). rewrite low_not_upper, IH. reflexivity. Qed.

Lemma lstrip_head b : match lstrip b with [] => True | c :: _ => ws c = false end.
Proof. induction b as [|c b IH]; cbn [lstrip]; [exact I|]. change (is_ws c) with (ws c). destruct (ws c) eqn:E; [exact IH | exact E]. Qed.
Lemma lstrip_suffix b : exists pre, b = pre ++ lstrip b.
Proof. induction b as [|c b [pre IH]]; [exists []; reflexivity|]. cbn [lstrip]. destruct (is_ws c); [exists (c :: pre); cbn; rewrite <- IH; reflexivity | exists []; reflexivity]. Qed.
Lemma last_app_nonempty {A} (a b : list A) d : b <> [] -> last (a ++ b) d = last b d.
Proof. intros Hb. induction a as [|x a IH]; [reflexivity|]. cbn [app]. destruct (a ++ b) eqn:E; [destruct a; [contradiction | discriminate]|]. rewrite <- E in *. cbn [last]. rewrite E. rewrite <- E. exact IH. Qed.
Lemma last_rev_head {A} (x : A) l d : last (rev (x :: l)) d = x.
Proof. cbn [rev]. apply last_last. Qed.

Lemma strip_no_surrounding_ws b : no_surrounding_ws (strip b) = true.
Proof.
  unfold strip, no_surrounding_ws.
  set (m := lstrip b). set (r := lstrip (rev m)).
  destruct (rev r) as [|c t] eqn:Er; [reflexivity|].
  (* last of rev r = head of r: not whitespace *)
  assert (Hlast : ws (last (c :: t) 0) = false).
  { rewrite <- Er. pose proof (lstrip_head (rev m)) as Hh. fold r in Hh. destruct r as [|x r0]; [discriminate|]. rewrite last_rev_head. exact Hh. }
  (* head of rev r: r is a suffix of rev m, so rev r is a prefix of m, whose head is not whitespace *)
  assert (Hhead : ws c = false).
  { destruct (lstrip_suffix (rev m)) as [pre Hp]. fold r in Hp.
    assert (Hm : m = rev r ++ rev pre) by (rewrite <- rev_app_distr, <- Hp, rev_involutive; reflexivity).
    pose proof (lstrip_head b) as Hb. fold m in Hb. rewrite Hm, Er in Hb. exact Hb. }
  rewrite Hhead, Hlast. reflexivity.
Qed.

(* every field of a normalised list is spelled right except that it may be empty; no connection-specific field survives *)
Theorem normalised_fields_are_lowercase_and_trimmed hs n v ni :
  In (n, v, ni) (normalize_outbound hs) ->
  existsb upper n = false /\ no_surrounding_ws n = true /\ no_surrounding_ws v = true /\ is_in n connection_specific = false.
Proof.
  unfold normalize_outbound. intros H. apply in_map_iff in H as ([[n1 v1] ni1] & Hs & H).
  apply filter_In in H as [H Hc]. apply in_map_iff in H as ([[n0 v0] ni0] & He & _). injection He as <- <- <-.
  assert (Hn : n = strip (lower n0) /\ v = strip v0).
  { unfold secure in Hs. destruct (mem_bytes (strip (lower n0)) SECURE_HEADERS); [injection Hs as <- <- _; auto|].
    destruct (g_secure_cookie _ _); injection Hs as <- <- _; auto. }
  destruct Hn as [-> ->]. cbn [fst] in Hc.
  split; [|split; [apply strip_no_surrounding_ws | split; [apply strip_no_surrounding_ws|]]].
  - (* strip keeps a sublist of lower n0 *)
    assert (S : forall b, existsb upper b = false -> existsb upper (strip b) = false).
    { intros b Hb. unfold strip.
      assert (L : forall x, existsb upper x = false -> existsb upper (lstrip x) = false).
      { induction x as [|c x IH]; [auto|]. cbn [lstrip existsb]. intros Hx. apply orb_false_iff in Hx as [Hc1 Hx]. destruct (is_ws c); [exact (IH Hx)|]. cbn [existsb]. rewrite Hc1, Hx. reflexivity. }
      rewrite existsb_rev. apply L. rewrite existsb_rev. apply L. exact Hb. }
    apply S. apply lower_has_no_upper.
  - change (mem_bytes (strip (lower n0)) CONNECTION_HEADERS) with (is_in (strip (lower n0)) connection_specific) in Hc.
    destruct (is_in (strip (lower n0)) connection_specific); [discriminate|reflexivity].
Qed.

(* authorization, proxy-authorization and short cookies leave never-indexed *)
Definition sensitive (n v : bytes) : bool :=
  is_in n [[97;117;116;104;111;114;105;122;97;116;105;111;110]; [112;114;111;120;121;45;97;117;116;104;111;114;105;122;97;116;105;111;110]] ||
  (bytes_eqb n [99;111;111;107;105;101] && (zlen v <? 20)).
Theorem sensitive_fields_are_never_indexed hs n v ni :
  In (n, v, ni) (normalize_outbound hs) -> sensitive n v = true -> ni = true.
Proof.
  unfold normalize_outbound. intros H Hs. apply in_map_iff in H as ([[n1 v1] ni1] & Hsec & _).
  unfold secure in Hsec. unfold sensitive in Hs.
  change (mem_bytes n1 SECURE_HEADERS) with (is_in n1 [[97;117;116;104;111;114;105;122;97;116;105;111;110]; [112;114;111;120;121;45;97;117;116;104;111;114;105;122;97;116;105;111;110]]) in Hsec.
  destruct (is_in n1 _) eqn:E1; [injection Hsec as _ _ <-; reflexivity|].
  unfold g_secure_cookie in Hsec. change b_cookie with [99;111;111;107;105;101] in Hsec.
  destruct (bytes_eqb n1 [99;111;111;107;105;101] && (zlen v1 <? 20)) eqn:E2; [injection Hsec as _ _ <-; reflexivity|].
  injection Hsec as <- <- <-. rewrite E1 in Hs. cbn [orb] in Hs. rewrite E2 in Hs. discriminate.
Qed.
