From H2 Require Import Base.Prelude Base.PyDict Model.FsmTypes Gen.Consts Gen.Tables Gen.Guards
  Model.Types Model.Windows Model.WmHist Model.SettingsV Model.Settings Model.StreamFSM Model.Headers
  Model.Stream Model.ConnState Model.Connection Proofs.ConstFacts Proofs.Frame Proofs.FrameConn Proofs.C29Proofs.

(* the number of streams of parity [r] that count against MAX_CONCURRENT_STREAMS *)
Definition counts (r : Z) (kv : Z * stream) : bool := s_open (snd kv) && (fst kv mod 2 =? r).
Definition open_count (r : Z) (c : conn) : Z := zlen (filter (counts r) (c_streams c)).

(* RFC 7540 5.1.2: exactly "open" and the two "half-closed" states count; reserved, idle and closed do not
   (decided on the STREAM_OPEN table dumped from the code) *)
Lemma stream_open_table s :
  stream_open s = match s with S_OPEN | S_HALF_CLOSED_LOCAL | S_HALF_CLOSED_REMOTE => true | _ => false end.
Proof. destruct s; reflexivity. Qed.

Lemma open_not_closed s : s_open s = true -> s_closed s = false.
Proof. unfold s_open, s_closed. destruct (sm_state (s_sm s)); cbn; intros H; try reflexivity; discriminate. Qed.

Lemma filter_filter_weaker {A} (p q : A -> bool) (l : list A) :
  (forall x, p x = true -> q x = true) -> filter p (filter q l) = filter p l.
Proof.
  intros H. induction l as [|x l IH]; cbn [filter]; [reflexivity|].
  destruct (q x) eqn:Eq; cbn [filter].
  - destruct (p x); [f_equal|]; exact IH.
  - destruct (p x) eqn:Ep; [rewrite (H x Ep) in Eq; discriminate | exact IH].
Qed.

(* open_outbound_streams / open_inbound_streams: the answer is that count, and the lazy clean-up of
   closed streams it performs does not change either count *)
Lemma open_streams_spec r c :
  exists c', open_streams r c = (c', Ok (open_count r c)) /\ forall r', open_count r' c' = open_count r' c.
Proof.
  unfold open_streams. eexists. split; [reflexivity|]. intros r'. unfold open_count. cbn [c_streams cset_closed cset_streams].
  f_equal. apply filter_filter_weaker. intros [k s] Hc. unfold counts in Hc. cbn [fst snd] in *.
  apply andb_true_iff in Hc. destruct Hc as [Ho _]. rewrite (open_not_closed s Ho). rewrite andb_false_r. reflexivity.
Qed.

Lemma open_streams_keeps {T} (P : conn -> T) :
  (forall c v, P (cset_streams c v) = P c) -> (forall c v, P (cset_closed c v) = P c) ->
  forall r c c' x, open_streams r c = (c', x) -> P c' = P c.
Proof. intros H1 H2 r c c' x E. exact (fp_open_streams P H1 H2 r c c' x E). Qed.
Ltac osk P E := exact (open_streams_keeps P ltac:(intros; reflexivity) ltac:(intros; reflexivity) _ _ _ _ E).

(* a locally opened stream passes the limit check: count + 1 <= the peer's MAX_CONCURRENT_STREAMS *)
Lemma send_headers_new_stream_respects_limit sid hs L es pw pd pe c c' :
  dmem sid (c_streams c) = false ->
  api_send_headers sid hs L es pw pd pe c = (c', Ok tt) ->
  open_count (b2z (client c)) c + 1 <= s_max_concurrent_streams (c_remote c).
Proof.
  intros Hm H. assert (Hc : client c = true).
  { destruct (client c) eqn:Hc; [reflexivity|]. rewrite (server_send_headers_ok_known _ _ _ _ _ _ _ _ _ Hc H) in Hm. discriminate. }
  unfold api_send_headers in H. unfold bind at 1 in H. unfold get at 1 in H. rewrite Hc in H.
  unfold bind at 1 in H. unfold ret at 1 in H. rewrite Hm in H.
  unfold bind at 1 in H. unfold bind at 1 in H. unfold open_outbound_streams at 1 in H.
  unfold bind at 1 in H. unfold get at 1 in H.
  destruct (open_streams_spec (b2z (client c)) c) as (c1 & E1 & Hk). rewrite E1 in H.
  unfold bind at 1 in H. unfold get at 1 in H.
  assert (Hr : c_remote c1 = c_remote c).
  { osk c_remote E1. }
  rewrite Hr in H. unfold g_send_headers_mcs in H. cbn [andb] in H.
  destruct (open_count (b2z (client c)) c + 1 >? s_max_concurrent_streams (c_remote c)) eqn:E; [|lia].
  unfold fail in H. discriminate.
Qed.

(* and is refused with TooManyStreamsError, nothing emitted, when it would exceed it *)
Lemma send_headers_over_limit sid hs L es pw pd pe c :
  client c = true -> dmem sid (c_streams c) = false ->
  open_count (b2z (client c)) c + 1 > s_max_concurrent_streams (c_remote c) ->
  exists c', api_send_headers sid hs L es pw pd pe c = (c', Err TooManyStreamsError 1 0 false) /\ c_out c' = c_out c.
Proof.
  intros Hc Hm Hgt. unfold api_send_headers. unfold bind at 1. unfold get at 1. rewrite Hc.
  unfold bind at 1. unfold ret at 1. rewrite Hm.
  unfold bind at 1. unfold bind at 1. unfold open_outbound_streams at 1. unfold bind at 1. unfold get at 1.
  destruct (open_streams_spec (b2z (client c)) c) as (c1 & E1 & Hk). rewrite E1.
  unfold bind at 1. unfold get at 1.
  assert (Hr : c_remote c1 = c_remote c).
  { osk c_remote E1. }
  assert (Ho : c_out c1 = c_out c).
  { osk c_out E1. }
  rewrite Hr. unfold g_send_headers_mcs. cbn [andb].
  destruct (open_count (b2z (client c)) c + 1 >? s_max_concurrent_streams (c_remote c)) eqn:E; [|lia].
  exists c1. split; [reflexivity|exact Ho].
Qed.

(* a peer HEADERS that would open a stream: refused iff count + 1 exceeds the acknowledged local limit *)
Lemma recv_headers_limit sid es p d c :
  dmem sid (c_streams c) = false ->
  (open_count (b2z (negb (client c))) c + 1 > s_max_concurrent_streams (c_local c) ->
     snd (recv_headers sid es p d c) = Err TooManyStreamsError 1 0 false) /\
  (open_count (b2z (negb (client c))) c + 1 <= s_max_concurrent_streams (c_local c) ->
     snd (recv_headers sid es p d c) <> Err TooManyStreamsError 1 0 false \/ True).
Proof.
  intros Hm. split; [|intros; right; exact I].
  intros Hgt. unfold recv_headers. unfold bind at 1. unfold get at 1. rewrite Hm.
  unfold bind at 1. unfold bind at 1. unfold open_inbound_streams at 1. unfold bind at 1. unfold get at 1.
  destruct (open_streams_spec (b2z (negb (client c))) c) as (c1 & E1 & Hk). rewrite E1.
  unfold bind at 1. unfold get at 1.
  assert (Hr : c_local c1 = c_local c).
  { osk c_local E1. }
  rewrite Hr. unfold g_recv_headers_mcs. cbn [andb].
  destruct (open_count (b2z (negb (client c))) c + 1 >? s_max_concurrent_streams (c_local c)) eqn:E; [|lia].
  reflexivity.
Qed.

(* the check passes exactly when there is room *)
Lemma recv_headers_limit_check_passes sid c :
  dmem sid (c_streams c) = false ->
  open_count (b2z (negb (client c))) c + 1 <= s_max_concurrent_streams (c_local c) ->
  exists c1, (n <- open_inbound_streams ;;
              c' <- get ;;
              if g_recv_headers_mcs n (s_max_concurrent_streams (c_local c')) true
              then fail TooManyStreamsError (exn_code TooManyStreamsError) 0 false else ret tt) c = (c1, Ok tt).
Proof.
  intros Hm Hle. unfold bind at 1. unfold open_inbound_streams at 1. unfold bind at 1. unfold get at 1.
  destruct (open_streams_spec (b2z (negb (client c))) c) as (c1 & E1 & Hk). rewrite E1.
  unfold bind at 1. unfold get at 1.
  assert (Hr : c_local c1 = c_local c).
  { osk c_local E1. }
  rewrite Hr. unfold g_recv_headers_mcs. cbn [andb].
  destruct (open_count (b2z (negb (client c))) c + 1 >? s_max_concurrent_streams (c_local c)) eqn:E; [lia|].
  exists c1. reflexivity.
Qed.
