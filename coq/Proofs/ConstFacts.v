(* Values of the constants dumped from the code, as equations for lia.  Never [unfold] these
   constants in hypotheses: with 2^31-sized literals the kernel's re-check at Qed takes minutes. *)
From H2 Require Import Base.Prelude Gen.Consts.
Lemma LARGEST_val : LARGEST_FLOW_CONTROL_WINDOW = 2147483647. Proof. reflexivity. Qed.
Lemma MWI_val : MAX_WINDOW_INCREMENT = 2147483647. Proof. reflexivity. Qed.
Lemma HIGHEST_ID_val : HIGHEST_ALLOWED_STREAM_ID = 2147483647. Proof. reflexivity. Qed.
Lemma FC_code_val : exn_code FlowControlError = 3. Proof. reflexivity. Qed.
Ltac consts := pose proof LARGEST_val as Lv; pose proof MWI_val as Mv; pose proof HIGHEST_ID_val as Hv.
