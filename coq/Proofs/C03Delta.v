(* C03: a change of the peer's INITIAL_WINDOW_SIZE is added to the send window of EVERY stream in the
   table, whatever its state (reserved, open, half-closed, closed and not yet reaped), and to nothing
   else; when it fails (a window would exceed 2^31-1) the streams before the offending one have moved
   and the others have not (the loop of H2Connection._flow_control_change_from_settings). *)
From H2 Require Import Base.Prelude Base.PyDict Gen.Consts Model.Types Model.Windows Model.Stream Model.ConnState
  Model.Connection Proofs.ConstFacts.

Section Go.
  Variable d : Z.
  Let f := (fun s : stream => match guard_increment_window (s_out_win s) d with
                              | Ok w => (set_out_win s w, Ok tt)
                              | Err e c i b => (s, Err e c i b)
                              | Crash p => (s, Crash p)
                              end).
  Fixpoint go (l : dict stream) : dict stream * res unit :=
    match l with
    | [] => ([], Ok tt)
    | (k, s) :: r =>
        let '(s', res1) := f s in
        match res1 with
        | Ok _ => let '(r', res2) := go r in ((k, s') :: r', res2)
        | _ => ((k, s') :: r, res1)
        end
    end.

  Lemma f_ok s s' : f s = (s', Ok tt) -> s' = set_out_win s (s_out_win s + d) /\ s_out_win s + d <= LARGEST_FLOW_CONTROL_WINDOW.
  Proof.
    unfold f, guard_increment_window, fc_err.
    destruct (s_out_win s + d >? LARGEST_FLOW_CONTROL_WINDOW) eqn:E; intros H; [discriminate|].
    injection H as <-. split; [reflexivity | lia].
  Qed.

  Lemma go_ok l : forall l', go l = (l', Ok tt) ->
    map fst l' = map fst l /\
    forall sid s, dget sid l = Some s ->
      dget sid l' = Some (set_out_win s (s_out_win s + d)) /\ s_out_win s + d <= LARGEST_FLOW_CONTROL_WINDOW.
  Proof.
    induction l as [|[k s] r IH]; intros l' H; cbn [go] in H.
    - injection H as <-. split; [reflexivity|]. intros sid s Hs. discriminate.
    - destruct (f s) as [s1 res1] eqn:Ef. destruct res1 as [u|e c i b|p].
      + destruct (go r) as [r' res2] eqn:Er. injection H as <- ->. destruct u.
        destruct (IH r' eq_refl) as [Hk Hv]. destruct (f_ok _ _ Ef) as [-> Hle].
        split; [cbn [map fst]; rewrite Hk; reflexivity|].
        intros sid s0 Hs. cbn [dget] in *. destruct (sid =? k); [injection Hs as <-; split; [reflexivity | exact Hle] | exact (Hv _ _ Hs)].
      + injection H as _ H; discriminate.
      + injection H as _ H; discriminate.
  Qed.
End Go.

Lemma flow_change_unfold old new c :
  flow_control_change_from_settings old new c =
  let '(ss, r) := go (new - old) (c_streams c) in (cset_streams c ss, r).
Proof. reflexivity. Qed.

(* success: same stream ids in the same order; every stream of the table gained exactly new - old;
   nothing but the stream table changed *)
Theorem iws_delta_reaches_every_stream old new c c' :
  flow_control_change_from_settings old new c = (c', Ok tt) ->
  c' = cset_streams c (c_streams c') /\
  map fst (c_streams c') = map fst (c_streams c) /\
  forall sid s, dget sid (c_streams c) = Some s ->
    dget sid (c_streams c') = Some (set_out_win s (s_out_win s + (new - old))) /\
    s_out_win s + (new - old) <= LARGEST_FLOW_CONTROL_WINDOW.
Proof.
  rewrite flow_change_unfold. destruct (go (new - old) (c_streams c)) as [ss r] eqn:E. intros H. injection H as <- ->.
  destruct (go_ok _ _ _ E) as [Hk Hv].
  replace (c_streams (cset_streams c ss)) with ss by (destruct c; reflexivity).
  split; [reflexivity|]. split; assumption.
Qed.

(* the stream keeps everything else: state machine, inbound window manager, content-length counters *)
Lemma set_out_win_only s w :
  s_out_win (set_out_win s w) = w /\ s_sm (set_out_win s w) = s_sm s /\ s_id (set_out_win s w) = s_id s /\
  s_in_wm (set_out_win s w) = s_in_wm s /\ s_exp_cl (set_out_win s w) = s_exp_cl s /\ s_act_cl (set_out_win s w) = s_act_cl s.
Proof. destruct s; repeat split. Qed.
