(* Proofs/C06Proofs.v — h2's stream transition table + side effects (regenerated from stream._transitions on every run)
   against the RFC 7540 section 5.1 reference machine (Spec/Rfc51.v), for every state of the stream object
   (RFC state x role x four message flags x closed_by) and every input.  Finite, decided by vm_compute, no sampling. *)
From H2 Require Import Base.Prelude Model.FsmTypes Gen.Consts Gen.Tables Model.Types Model.StreamFSM Spec.Rfc51.

Fixpoint zl_eqb (a b : list Z) : bool :=
  match a, b with [], [] => true | x :: a', y :: b' => (x =? y) && zl_eqb a' b' | _, _ => false end.

(* the library's reaction, as the peer / application sees it: [0; state] accepted; [1] local action refused (ProtocolError /
   StreamClosedError raised to the caller); [2; code] stream error (RST_STREAM); [3; code] connection error (GOAWAY);
   the choice between 2 and 3 for a StreamClosedError is H2Connection._receive_frame's: by closed_by; for DATA it is
   _handle_data_on_closed_stream's: always RST_STREAM (and the flow-control credit is returned) *)
Definition lib_class (m : sm) (i : sinput) : list Z :=
  let '(m', r) := process_input 7 m i in
  match r with
  | Ok _ => [0; sstate_code (sm_state m')]
  | Err e c s b =>
      if is_send i then [1]
      else if b then [2; c]
      else if sinput_eqb i SI_RECV_DATA then match e with StreamClosedError => [2; c] | _ => [3; c] end
      else match e with
           | StreamClosedError =>
               match sm_cb m' with Some CB_SEND_RST_STREAM | Some CB_RECV_RST_STREAM => [2; c] | _ => [3; c] end
           | _ => [3; c]
           end
  | Crash _ => [9]
  end.

(* a refusal the message rules (C07 / C08) may add where section 5.1 alone would accept *)
Definition message_rule_refusal (i : sinput) : list Z := if is_send i then [1] else [3; PROTOCOL_ERROR].

Definition agrees (want : reaction) (i : sinput) (s : sstate) (got : list Z) : bool :=
  match want with
  | Accept s' => zl_eqb got [0; sstate_code s'] || zl_eqb got (message_rule_refusal i)
  | Refuse => zl_eqb got [1]
  | StreamError c => zl_eqb got [2; c]
  | ConnError c => zl_eqb got [3; c]
  | Ignore => zl_eqb got [0; sstate_code s]
  | Neutral => zl_eqb got [0; sstate_code s] || zl_eqb got [1]
  end.

(* states the stream object can be in on a live connection: closed_by is set exactly when the stream is closed
   (a stream closed without closed_by only exists after a ProtocolError, when the connection is dead) *)
Definition consistent (m : sm) : bool :=
  match sm_state m, sm_cb m with
  | S_CLOSED, Some _ => true
  | S_CLOSED, None => false
  | _, None => true
  | _, Some _ => false
  end.

Fixpoint idx (i : sinput) (l : list sinput) (n : Z) : Z :=
  match l with [] => -1 | x :: r => if sinput_eqb i x then n else idx i r (n + 1) end.
Definition icode (i : sinput) : Z := idx i all_sinput 0.

(* ---- the complete list of (state, closed_by, input) where h2 does not do what section 5.1 says ----
   columns: state code, closed_by code, input code (position in StreamInputs), category
   category 1: documented leniency of h2 (comment in stream.py / connection.py)
   category 2: input that H2Stream only feeds after the frame carrying it was accepted in the same state (END_STREAM after
               HEADERS / DATA), or that H2Connection never routes to a stream in this state (frames on idle streams are
               refused by _get_stream_by_id: NoSuchStreamError, PROTOCOL_ERROR, as the RFC demands)
   category 3: divergence from the RFC that is not documented: recorded as known findings F-C06-* *)
Definition divergences : list (list Z) := [
  (* idle: DATA never reaches an idle stream object *)
  [0; 0; 9; 2];
  (* reserved (remote): DATA answered with a stream error instead of a connection error; WINDOW_UPDATE accepted *)
  [1; 0; 9; 3]; [1; 0; 10; 3];
  (* reserved (local): the application may send WINDOW_UPDATE; DATA answered with a stream error *)
  [2; 0; 4; 3]; [2; 0; 9; 3];
  (* half-closed (remote): END_STREAM only follows an accepted HEADERS / DATA; 1xx headers: connection error PROTOCOL_ERROR instead of
     a stream error STREAM_CLOSED (pinned by test_state_machines.py::test_state_transitions) *)
  [4; 0; 11; 2]; [4; 0; 14; 3];
  (* DATA on any closed stream is answered with RST_STREAM(STREAM_CLOSED) and the credit returned (documented in _handle_data_on_closed_stream) *)
  (* closed after we sent END_STREAM last: PUSH_PROMISE gives PROTOCOL_ERROR instead of STREAM_CLOSED; END_STREAM internal *)
  [6; 1; 7; 3]; [6; 1; 9; 1]; [6; 1; 11; 2];
  (* closed after the peer sent END_STREAM last: late RST_STREAM / WINDOW_UPDATE are ignored (documented); same codes as above *)
  [6; 2; 7; 3]; [6; 2; 8; 1]; [6; 2; 9; 1]; [6; 2; 10; 1]; [6; 2; 11; 2];
  (* closed by our RST_STREAM: frames are answered with RST_STREAM again instead of being ignored (documented) *)
  [6; 3; 6; 1]; [6; 3; 7; 1]; [6; 3; 9; 1]; [6; 3; 14; 1];
  (* closed by the peer's RST_STREAM: PUSH_PROMISE is a connection error; RST_STREAM / WINDOW_UPDATE ignored (documented) *)
  [6; 4; 7; 3]; [6; 4; 8; 1]; [6; 4; 10; 1]; [6; 4; 11; 2]
].

Definition listed (m : sm) (i : sinput) : bool :=
  existsb (fun d => match d with [a; b; c; _] => (a =? sstate_code (sm_state m)) && (b =? cb_code (sm_cb m)) && (c =? icode i) | _ => false end) divergences.

Definition pointwise_ok (m : sm) (i : sinput) : bool :=
  negb (consistent m) || listed m i || agrees (rfc (sm_state m) (sm_cb m) i) i (sm_state m) (lib_class m i).

Lemma all_sm_complete m : In m all_sm.
Proof.
  destruct m as [s c hs ts hr tr cb]. unfold all_sm.
  apply in_flat_map. exists s. split; [apply all_sstate_complete|].
  apply in_flat_map. exists c. split; [destruct c as [[|]|]; cbn; tauto|].
  apply in_flat_map. exists hs. split; [destruct hs; cbn; tauto|].
  apply in_flat_map. exists ts. split; [destruct ts; cbn; tauto|].
  apply in_flat_map. exists hr. split; [destruct hr; cbn; tauto|].
  apply in_flat_map. exists tr. split; [destruct tr; cbn; tauto|].
  apply in_map. destruct cb as [[| | |]|]; cbn; tauto.
Qed.

Lemma table_checked : forallb (fun m => forallb (pointwise_ok m) all_sinput) all_sm = true.
Proof. vm_compute. reflexivity. Qed.

(* every state of the stream object, every input: the reaction is the RFC's, or the pair is in the list above *)
Theorem stream_reactions_follow_rfc m i : pointwise_ok m i = true.
Proof.
  pose proof table_checked as H. rewrite forallb_forall in H. specialize (H m (all_sm_complete m)).
  rewrite forallb_forall in H. exact (H i (all_sinput_complete i)).
Qed.

(* the list is tight: each listed pair really deviates for some flags (so a table change that removes a deviation, or adds one,
   breaks a proof) *)
Definition deviates (m : sm) (i : sinput) : bool :=
  consistent m && negb (agrees (rfc (sm_state m) (sm_cb m) i) i (sm_state m) (lib_class m i)).
Lemma divergences_tight :
  forallb (fun d => existsb (fun m => existsb (fun i =>
     match d with [a; b; c; _] => (a =? sstate_code (sm_state m)) && (b =? cb_code (sm_cb m)) && (c =? icode i) && deviates m i | _ => false end)
     all_sinput) all_sm) divergences = true.
Proof. vm_compute. reflexivity. Qed.

(* where the RFC permits an action, some message context makes h2 carry it out, with the RFC's target state *)
Definition permitted_somewhere (s : sstate) (cb : option closedby) (i : sinput) : bool :=
  match rfc s cb i with
  | Accept s' => existsb (fun m => sstate_eqb (sm_state m) s && (cb_code (sm_cb m) =? cb_code cb) && zl_eqb (lib_class m i) [0; sstate_code s']) all_sm
  | _ => true
  end.
Lemma permitted_actions_possible :
  forallb (fun s => forallb (fun i => permitted_somewhere s None i || listed (mksm s None false false false false None) i) all_sinput)
          [S_IDLE; S_RESERVED_REMOTE; S_RESERVED_LOCAL; S_OPEN; S_HALF_CLOSED_REMOTE; S_HALF_CLOSED_LOCAL] = true.
Proof. vm_compute. reflexivity. Qed.

(* lockstep: along any sequence of inputs, as long as h2 accepts and no listed pair is met, the stream object is in the
   state the RFC machine is in *)
Fixpoint rfc_run (s : sstate) (cb : option closedby) (is : list sinput) : option sstate :=
  match is with
  | [] => Some s
  | i :: r => match rfc s cb i with
              | Accept s' => rfc_run s' cb r
              | Ignore | Neutral => rfc_run s cb r
              | _ => None
              end
  end.

Lemma accepted_step_matches m i m' evs :
  consistent m = true -> listed m i = false -> process_input 7 m i = (m', Ok evs) ->
  match rfc (sm_state m) (sm_cb m) i with
  | Accept s' => sm_state m' = s'
  | Ignore | Neutral => sm_state m' = sm_state m
  | _ => False
  end.
Proof.
  intros Hc Hl Hp. pose proof (stream_reactions_follow_rfc m i) as H. unfold pointwise_ok in H.
  rewrite Hc, Hl in H. cbn [negb orb] in H. unfold lib_class in H. rewrite Hp in H.
  assert (E : forall a b, zl_eqb [0; sstate_code a] [0; sstate_code b] = true -> a = b).
  { intros a b. destruct a, b; cbn; intros X; try reflexivity; discriminate. }
  destruct (rfc (sm_state m) (sm_cb m) i) as [s'| | | | |]; cbn [agrees] in H.
  - apply orb_true_iff in H as [H|H]; [exact (E _ _ H)|].
    unfold message_rule_refusal in H. destruct (is_send i); cbn in H; discriminate.
  - cbn in H. discriminate.
  - cbn in H. discriminate.
  - cbn in H. discriminate.
  - exact (E _ _ H).
  - apply orb_true_iff in H as [H|H]; [exact (E _ _ H)|cbn in H; discriminate].
Qed.
