From H2 Require Import Base.Prelude Base.PyDict Model.FsmTypes Gen.Consts Gen.Tables Gen.Guards
  Model.Types Model.Windows Model.Settings Model.StreamFSM Model.Headers
  Model.Stream Model.ConnState Model.Connection Proofs.ConstFacts Proofs.Frame Proofs.FrameConn.

(* PING is accepted by the connection state machine in every state but CLOSED (table fact) *)
Lemma ping_allowed_unless_closed s :
  (conn_transition s CI_RECV_PING = None <-> s = C_CLOSED) /\ (conn_transition s CI_SEND_PING = None <-> s = C_CLOSED) /\
  (forall t, conn_transition s CI_RECV_PING = Some t -> t = s) /\ (forall t, conn_transition s CI_SEND_PING = Some t -> t = s).
Proof. destruct s; cbn; repeat split; intros; try discriminate; try congruence. Qed.

(* the frame handler, in closed form *)
Lemma recv_ping_closed_form ack pl c :
  recv_ping ack pl c =
  match conn_transition (c_state c) CI_RECV_PING with
  | Some t => (cset_state c t, Ok (if ack then ([], [EPingAckReceived pl]) else ([FPing true pl], [EPingReceived pl])))
  | None => (cset_state c C_CLOSED, perr)
  end.
Proof.
  unfold recv_ping, bind, cfsm. destruct (conn_transition (c_state c) CI_RECV_PING); [|reflexivity].
  destruct ack; reflexivity.
Qed.

Definition state_open (c : conn) : Prop := c_state c <> C_CLOSED.

(* one received PING on a connection that is not closed: exactly one ACK with the same payload is
   appended (none for an ACK), exactly one event, and nothing else in the state changes *)
Lemma receive_ping_frame ack pl c :
  state_open c -> 8 <= c_max_out_frame c ->
  receive_frame (RPing ack pl) c =
  (cset_out c (c_out c ++ (if ack then [] else [FPing true pl])),
   Ok [if ack then EPingAckReceived pl else EPingReceived pl]).
Proof.
  intros Ho Hm. unfold receive_frame. cbn [dispatch]. rewrite recv_ping_closed_form.
  destruct (ping_allowed_unless_closed (c_state c)) as (H1 & _ & H3 & _).
  destruct (conn_transition (c_state c) CI_RECV_PING) as [t|] eqn:E.
  - rewrite (H3 t eq_refl). destruct ack.
    + unfold bind, prepare_for_sending, ret. destruct c; cbn. rewrite app_nil_r. reflexivity.
    + unfold bind, prepare_for_sending, ret. cbn [forallb body_len andb].
      replace (8 <=? c_max_out_frame (cset_state c (c_state c))) with true by (symmetry; destruct c; cbn in *; lia).
      destruct c; reflexivity.
  - exfalso. apply Ho. apply H1. reflexivity.
Qed.

(* ping(): exactly 8 bytes, otherwise ValueError and nothing changes *)
Lemma api_ping_ok pl c :
  zlen pl = 8 -> state_open c -> 8 <= c_max_out_frame c ->
  api_ping pl c = (cset_out c (c_out c ++ [FPing false pl]), Ok tt).
Proof.
  intros Hl Ho Hm. unfold api_ping. unfold g_ping_len. rewrite Hl. cbn [negb orb Z.eqb Pos.eqb].
  destruct (ping_allowed_unless_closed (c_state c)) as (_ & H2 & _ & H4).
  unfold bind, ret, cfsm. destruct (conn_transition (c_state c) CI_SEND_PING) as [t|] eqn:E.
  - rewrite (H4 t eq_refl). unfold prepare_for_sending. cbn [forallb body_len andb].
    replace (8 <=? c_max_out_frame (cset_state c (c_state c))) with true by (symmetry; destruct c; cbn in *; lia).
    destruct c; reflexivity.
  - exfalso. apply Ho. apply H2. reflexivity.
Qed.

Lemma api_ping_bad_length pl c : zlen pl <> 8 -> api_ping pl c = (c, Crash ValueError).
Proof.
  intros Hl. unfold api_ping, g_ping_len. cbn [negb orb].
  destruct (zlen pl =? 8) eqn:E; [lia|]. reflexivity.
Qed.
