From H2 Require Import Base.Prelude Base.PyDict Model.FsmTypes Gen.Consts Gen.Tables Gen.Guards
  Model.Types Model.Windows Model.Settings Model.StreamFSM Model.Headers
  Model.Stream Model.ConnState Model.Connection Proofs.ConstFacts Proofs.Frame Proofs.FrameConn.

(* _add_frame_priority: accepted iff weight (when given) is in 1..256 and the stream does not depend on itself *)
Definition prio_args_ok (sid : Z) (w d : option Z) : Prop :=
  (match w with Some x => 1 <= x <= 256 | None => True end) /\ (match d with Some dep => dep <> sid | None => True end).

Lemma add_frame_priority_accepts sid w d e :
  prio_args_ok sid w d ->
  add_frame_priority sid w d e =
  Ok (match d with Some dep => dep | None => 0 end, match w with Some x => x - 1 | None => 15 end,
      match e with Some b => b | None => false end).
Proof.
  intros [Hw Hd]. unfold add_frame_priority, g_prio_self, g_prio_weight.
  destruct d as [dep|]; destruct w as [x|]; cbn [opt_default];
    repeat match goal with |- context [if ?b then _ else _] => let E := fresh in destruct b eqn:E; try lia end;
    reflexivity.
Qed.

Lemma add_frame_priority_rejects sid w d e :
  ~ prio_args_ok sid w d -> add_frame_priority sid w d e = perr.
Proof.
  intros Hn. unfold add_frame_priority, g_prio_self, g_prio_weight, prio_args_ok in *.
  destruct d as [dep|]; destruct w as [x|]; cbn [opt_default];
    repeat match goal with |- context [if ?b then _ else _] => let E := fresh in destruct b eqn:E end;
    try reflexivity; exfalso; apply Hn; split; try exact Logic.I; lia.
Qed.

(* what the peer reports for the wire fields (depends_on, weight byte, exclusive): round trip *)
Lemma priority_round_trip sid w d e c :
  prio_args_ok sid w d -> sid <> 0 -> conn_transition (c_state c) CI_RECV_PRIORITY <> None ->
  forall p, add_frame_priority sid w d e = Ok p ->
  snd (recv_priority sid p c) =
  Ok [EPriorityUpdated sid (match w with Some x => x | None => 16 end) (match d with Some dep => dep | None => 0 end)
                       (match e with Some b => b | None => false end)].
Proof.
  intros Hok Hs0 Ht p Hp. rewrite (add_frame_priority_accepts sid w d e Hok) in Hp. injection Hp as <-.
  unfold recv_priority, bind, cfsm. destruct (conn_transition (c_state c) CI_RECV_PRIORITY); [|contradiction].
  unfold g_recv_prio_self. destruct Hok as [Hw Hd].
  destruct d as [dep|].
  - destruct (dep =? sid) eqn:E; [lia|]. cbn [snd ret]. destruct w as [x|]; cbn [snd ret].
    + replace (x - 1 + 1) with x by lia. reflexivity.
    + reflexivity.
  - destruct (0 =? sid) eqn:E; [lia|]. cbn [snd ret]. destruct w as [x|]; cbn [snd ret].
    + replace (x - 1 + 1) with x by lia. reflexivity.
    + reflexivity.
Qed.

(* a received PRIORITY frame changes nothing but the connection state machine's state *)
Lemma recv_priority_only_state sid p c c' r :
  recv_priority sid p c = (c', r) -> c' = cset_state c (c_state c').
Proof.
  unfold recv_priority, bind, cfsm. destruct p as [[dep w] ex].
  destruct (conn_transition (c_state c) CI_RECV_PRIORITY) as [t|].
  - destruct (g_recv_prio_self dep sid); unfold lift_res, ret; intros H; injection H as <- _; destruct c; reflexivity.
  - intros H; injection H as <- _; destruct c; reflexivity.
Qed.

Lemma recv_priority_result sid dep w ex c :
  conn_transition (c_state c) CI_RECV_PRIORITY <> None ->
  snd (recv_priority sid (dep, w, ex) c) = if dep =? sid then perr else Ok [EPriorityUpdated sid (w + 1) dep ex].
Proof.
  intros Ht. unfold recv_priority, bind, cfsm, g_recv_prio_self.
  destruct (conn_transition (c_state c) CI_RECV_PRIORITY); [|contradiction].
  destruct (dep =? sid); reflexivity.
Qed.

(* PRIORITY is accepted in every connection state except CLOSED and never changes that state *)
Lemma priority_table s :
  (conn_transition s CI_RECV_PRIORITY = None <-> s = C_CLOSED) /\
  (forall t, conn_transition s CI_RECV_PRIORITY = Some t -> t = s).
Proof. destruct s; cbn; repeat split; intros; try discriminate; try congruence. Qed.

(* hence: whole-state equality before / after a PRIORITY frame on an open connection *)
Lemma recv_priority_state_unchanged sid p c c' r :
  c_state c <> C_CLOSED -> recv_priority sid p c = (c', r) -> c' = c.
Proof.
  intros Ho H. pose proof (recv_priority_only_state _ _ _ _ _ H) as E.
  assert (Hs : c_state c' = c_state c).
  { unfold recv_priority, bind, cfsm in H. destruct p as [[dep w] ex].
    destruct (priority_table (c_state c)) as [H1 H2].
    destruct (conn_transition (c_state c) CI_RECV_PRIORITY) as [t|] eqn:Et.
    - rewrite (H2 t eq_refl) in H. destruct (g_recv_prio_self dep sid); unfold lift_res, ret in H; injection H as <- _; destruct c; reflexivity.
    - exfalso. apply Ho. apply H1. reflexivity. }
  rewrite E, Hs. destruct c; reflexivity.
Qed.

(* prioritize(): servers are refused; clients emit exactly one PRIORITY frame with the encoded fields *)
Lemma api_prioritize_server sid w d e c : cfg_client (c_cfg c) = false ->
  api_prioritize sid w d e c = (c, Err RFC1122Error 0 0 false).
Proof. intros H. unfold api_prioritize, bind, get, client. rewrite H. reflexivity. Qed.
