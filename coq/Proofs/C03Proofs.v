From H2 Require Import Base.Prelude Base.PyDict Model.FsmTypes Gen.Consts Gen.Tables Gen.Guards
  Model.Types Model.Windows Model.WmHist Model.SettingsV Model.Settings Model.StreamFSM Model.Headers
  Model.Stream Model.ConnState Model.Connection Proofs.ConstFacts Proofs.Frame Proofs.FrameConn Proofs.Inv.

Definition fs_of (len : Z) (pad : option Z) : Z := len + match pad with Some p => p + 1 | None => 0 end.
Definition pad_ok (pad : option Z) : Prop := match pad with Some p => 0 <= p <= 255 | None => True end.

Lemma pad_guard_false pad : pad_ok pad ->
  g_send_data_pad (opt_default 0 pad) (match pad with Some _ => true | None => false end) = false.
Proof. unfold g_send_data_pad, pad_ok. destruct pad as [p|]; cbn [opt_default]; intros H; [|reflexivity]. lia. Qed.

Lemma pad_guard_true pad : ~ pad_ok pad ->
  g_send_data_pad (opt_default 0 pad) (match pad with Some _ => true | None => false end) = true.
Proof. unfold g_send_data_pad, pad_ok. destruct pad as [p|]; cbn [opt_default]; intros H; [lia|tauto]. Qed.

(* local_flow_control_window on a live stream *)
Lemma lfcw_live sid c s : dget sid (c_streams c) = Some s ->
  local_flow_control_window sid c = (c, Ok (Z.min (c_out_win c) (s_out_win s))).
Proof.
  intros H. unfold local_flow_control_window, get_stream_by_id, bind, get. rewrite H. reflexivity.
Qed.

(* one byte more than the smaller window: FlowControlError, nothing changes *)
Lemma send_data_one_more sid len es pad c s :
  dget sid (c_streams c) = Some s -> pad_ok pad ->
  fs_of len pad > Z.min (c_out_win c) (s_out_win s) ->
  api_send_data sid len es pad c = (c, Err FlowControlError (exn_code FlowControlError) 0 false).
Proof.
  intros Hs Hp Hgt. unfold api_send_data. rewrite (pad_guard_false pad Hp).
  unfold bind at 1. unfold ret at 1. unfold bind at 1. rewrite (lfcw_live sid c s Hs).
  unfold bind at 1. unfold get at 1. unfold bind at 1.
  unfold g_send_data_flow. unfold fs_of in Hgt.
  destruct (len + match pad with Some p => p + 1 | None => 0 end >? Z.min (c_out_win c) (s_out_win s)) eqn:E; [|lia].
  reflexivity.
Qed.

(* a successful send_data: it fitted both windows and the frame-size limit before the call *)
Lemma send_data_ok_fits sid len es pad c c' :
  api_send_data sid len es pad c = (c', Ok tt) ->
  exists s, dget sid (c_streams c) = Some s /\
            fs_of len pad <= c_out_win c /\ fs_of len pad <= s_out_win s /\ fs_of len pad <= c_max_out_frame c.
Proof.
  unfold api_send_data. intros H.
  destruct (g_send_data_pad (opt_default 0 pad) match pad with Some _ => true | None => false end) eqn:Ep.
  { unfold bind at 1 in H. unfold crash in H. discriminate. }
  unfold bind at 1 in H. unfold ret at 1 in H. unfold bind at 1 in H.
  unfold local_flow_control_window, get_stream_by_id in H. unfold bind at 1 in H. unfold bind at 1 in H. unfold get at 1 in H.
  destruct (dget sid (c_streams c)) as [s|] eqn:Hs.
  - exists s. split; [reflexivity|]. unfold ret at 1 in H. unfold bind at 1 in H. unfold get at 1 in H. unfold ret at 1 in H.
    unfold bind at 1 in H. unfold get at 1 in H. unfold bind at 1 in H.
    unfold g_send_data_flow, g_send_data_frame in H. unfold fs_of.
    destruct (len + match pad with Some p => p + 1 | None => 0 end >? Z.min (c_out_win c) (s_out_win s)) eqn:E1.
    { unfold fail in H. discriminate. }
    cbn [negb andb] in H.
    destruct (len + match pad with Some p => p + 1 | None => 0 end >? c_max_out_frame c) eqn:E2.
    { unfold fail in H. discriminate. }
    lia.
  - destruct (g_get_stream_nosuch sid (highest_for c sid)); unfold fail, lift_res, scerr in H; discriminate.
Qed.

(* ------------------------------------------------------------------------------------------ *)
(* the connection window over all histories *)
Definition wf_rframe (f : rframe) : Prop :=
  match f with RWindowUpdate _ inc => 0 <= inc | _ => True end.

Ltac ow := intros; reflexivity.

(* frame conditions for a concrete projection: every independence hypothesis is closed by computation *)
Ltac cprim :=
  match goal with
  | |- preserves _ (cfsm _) => apply pres_cfsm; ow
  | |- preserves _ (prepare_for_sending _) => apply pres_prepare; ow
  | |- preserves _ (with_stream _ _) => apply pres_with_stream; ow
  | |- preserves _ (for_streams _) => apply pres_for_streams; ow
  | |- preserves _ (get_stream_by_id _) => apply fp_get_stream_by_id
  | |- preserves _ (local_flow_control_window _) => apply fp_local_flow_control_window
  | |- preserves _ (modify _) => apply pres_modify; intros ?; reflexivity
  end.
Ltac cgo := repeat first [cprim | pres_step].

Lemma recv_wu_out_win sid inc c c' r :
  recv_window_update sid inc c = (c', r) ->
  c_out_win c' = c_out_win c \/ (c_out_win c' = c_out_win c + inc /\ c_out_win c + inc <= 2147483647).
Proof.
  intros H. unfold recv_window_update in H. unfold bind at 1 in H.
  destruct (cfsm CI_RECV_WINDOW_UPDATE c) as [c1 r1] eqn:E.
  assert (H1 : c_out_win c1 = c_out_win c) by (apply (pres_cfsm c_out_win) with (i := CI_RECV_WINDOW_UPDATE) (r := r1); [ow|exact E]).
  destruct r1 as [x|e co i b|p]; try (injection H as <- _; left; exact H1).
  destruct (negb (sid =? 0)).
  - left. rewrite <- H1.
    destruct ((get_stream_by_id sid;;; with_stream sid (receive_window_update inc)) c1) as [c2 r2] eqn:E2.
    assert (H2 : c_out_win c2 = c_out_win c1).
    { assert (X : preserves c_out_win (get_stream_by_id sid;;; with_stream sid (receive_window_update inc))) by cgo.
      exact (X _ _ _ E2). }
    destruct r2 as [y|e co i b|p]; try (injection H as <- _; exact H2).
    destruct e; injection H as <- _; exact H2.
  - unfold bind at 1 in H. unfold get at 1 in H. unfold bind at 1 in H.
    unfold lift_res at 1 in H. unfold guard_increment_window in H.
    pose proof LARGEST_val as Lv.
    destruct (c_out_win c1 + inc >? LARGEST_FLOW_CONTROL_WINDOW) eqn:Eg.
    + unfold fc_err in H. injection H as <- _. left. exact H1.
    + unfold bind at 1 in H. unfold modify at 1 in H. unfold ret in H. injection H as <- _.
      right. cbn [cset_out_win c_out_win]. lia.
Qed.

(* every other frame handler leaves the connection window alone *)
Lemma dispatch_out_win f c c' r :
  dispatch f c = (c', r) ->
  c_out_win c' = c_out_win c \/
  (exists sid inc, f = RWindowUpdate sid inc /\ c_out_win c' = c_out_win c + inc /\ c_out_win c + inc <= 2147483647).
Proof.
  intros H. destruct f; cbn [dispatch] in H;
    try (left; revert H;
         first [ apply (fp_recv_headers c_out_win) | apply (fp_recv_push_promise c_out_win) | apply (fp_recv_data c_out_win)
               | apply (fp_recv_settings c_out_win) | apply (fp_recv_ping c_out_win) | apply (fp_recv_rst_stream c_out_win)
               | apply (fp_recv_goaway c_out_win) | apply (fp_recv_naked_continuation c_out_win) | apply (fp_recv_alt_svc c_out_win) ];
         ow).
  - destruct (recv_wu_out_win _ _ _ _ _ H) as [E|E]; [left; exact E | right; exists sid, inc; split; [reflexivity|exact E]].
  - left.
    assert (X : preserves c_out_win (evs <- recv_priority sid p;; ret (([] : list frame), evs))).
    { apply pres_bind; [apply (fp_recv_priority c_out_win); ow | intros; apply pres_ret]. }
    exact (X _ _ _ H).
  - left. unfold ret in H. injection H as <- _. reflexivity.
  - left. unfold fail in H. injection H as <- _. reflexivity.
  - left.
    match type of H with ?m _ = _ => assert (X : preserves c_out_win m) by cgo end.
    exact (X _ _ _ H).
Qed.

Definition Inv03 (c : conn) : Prop := 0 <= c_out_win c.

Lemma receive_frame_inv03 f : wf_rframe f -> pres_inv Inv03 (receive_frame f).
Proof.
  intros Hwf c c' r Hi H. unfold Inv03 in *.
  destruct (receive_frame_decomp c_out_win ltac:(ow) f c c' r H) as (c1 & r1 & Hd & He).
  rewrite He. destruct (dispatch_out_win _ _ _ _ Hd) as [E|(sid & inc & -> & E & _)]; [lia|].
  cbn [wf_rframe] in Hwf. lia.
Qed.

Lemma terminate_inv03 code : pres_inv Inv03 (terminate_connection code).
Proof.
  intros c c' r Hi H. unfold Inv03 in *.
  rewrite (fp_terminate_connection c_out_win ltac:(ow) ltac:(ow) code c c' r H). exact Hi.
Qed.

(* send_data: the window shrinks by exactly the flow-controlled size, and only when it fitted *)
Lemma send_data_out_win sid len es pad c c' r :
  api_send_data sid len es pad c = (c', r) ->
  c_out_win c' = c_out_win c \/ (c_out_win c' = c_out_win c - fs_of len pad /\ fs_of len pad <= c_out_win c).
Proof.
  unfold api_send_data. intros H.
  destruct (g_send_data_pad (opt_default 0 pad) match pad with Some _ => true | None => false end).
  { unfold bind at 1 in H. unfold crash in H. injection H as <- _. left; reflexivity. }
  unfold bind at 1 in H. unfold ret at 1 in H. unfold bind at 1 in H.
  destruct (local_flow_control_window sid c) as [c1 r1] eqn:E1.
  assert (H1 : c_out_win c1 = c_out_win c) by (apply (fp_local_flow_control_window c_out_win) with (r := r1) (sid := sid); exact E1).
  assert (Hw : forall w, r1 = Ok w -> w <= c_out_win c).
  { intros w ->. unfold local_flow_control_window, get_stream_by_id in E1. unfold bind at 1 in E1. unfold bind at 1 in E1. unfold get at 1 in E1.
    destruct (dget sid (c_streams c)).
    - unfold ret at 1 in E1. unfold bind at 1 in E1. unfold get at 1 in E1. unfold ret in E1. injection E1 as _ <-. lia.
    - destruct (g_get_stream_nosuch sid (highest_for c sid)); unfold fail, lift_res, scerr in E1; discriminate. }
  destruct r1 as [w|e co i b|p]; try (injection H as <- _; left; exact H1).
  specialize (Hw w eq_refl).
  unfold bind at 1 in H. unfold get at 1 in H. unfold bind at 1 in H.
  unfold g_send_data_flow, g_send_data_frame in H. fold (fs_of len pad) in H.
  destruct (fs_of len pad >? w) eqn:Ef. { unfold fail in H. injection H as <- _. left; exact H1. }
  cbn [negb andb] in H.
  destruct (fs_of len pad >? c_max_out_frame c1). { unfold fail in H. injection H as <- _. left; exact H1. }
  unfold ret at 1 in H. unfold bind at 1 in H.
  destruct (cfsm CI_SEND_DATA c1) as [c2 r2] eqn:E2.
  assert (H2 : c_out_win c2 = c_out_win c1) by (apply (pres_cfsm c_out_win) with (i := CI_SEND_DATA) (r := r2); [ow|exact E2]).
  destruct r2 as [x|e co i b|p]; try (injection H as <- _; left; lia).
  unfold bind at 1 in H.
  destruct (with_stream sid (send_data len es pad) c2) as [c3 r3] eqn:E3.
  assert (H3 : c_out_win c3 = c_out_win c2) by (apply (pres_with_stream c_out_win) with (r := r3) (sid := sid) (f := send_data len es pad); [ow|exact E3]).
  destruct r3 as [frames|e co i b|p]; try (injection H as <- _; left; lia).
  unfold bind at 1 in H.
  destruct (prepare_for_sending frames c3) as [c4 r4] eqn:E4.
  assert (H4 : c_out_win c4 = c_out_win c3) by (apply (pres_prepare c_out_win) with (r := r4) (fs := frames); [ow|exact E4]).
  destruct r4 as [x2|e co i b|p]; try (injection H as <- _; left; lia).
  unfold bind at 1 in H. unfold modify at 1 in H. unfold bind at 1 in H. unfold get at 1 in H.
  cbn [cset_out_win c_out_win] in H. fold (fs_of len pad) in H.
  destruct (c_out_win c4 - fs_of len pad <? 0); [unfold crash in H | unfold ret in H];
    injection H as <- _; right; cbn [cset_out_win c_out_win]; lia.
Qed.

(* ------------------------------------------------------------------------------------------ *)
(* every operation, every history *)
Definition wf_op (o : op) : Prop :=
  match o with OReceive fs => Forall (fun e => wf_rframe (fst e)) fs | _ => True end.

Definition Inv03b (c : conn) : Prop := 0 <= c_out_win c /\ Forall (fun e => wf_rframe (fst e)) (c_inbuf c).

Lemma receive_frame_inv03b f : wf_rframe f -> pres_inv Inv03b (receive_frame f).
Proof.
  intros Hwf c c' r [Hi Hb] H. split.
  - exact (receive_frame_inv03 f Hwf c c' r Hi H).
  - rewrite (receive_frame_keeps_inbuf _ _ _ _ H). exact Hb.
Qed.

Lemma terminate_inv03b code : pres_inv Inv03b (terminate_connection code).
Proof.
  intros c c' r [Hi Hb] H. split.
  - exact (terminate_inv03 code c c' r Hi H).
  - rewrite (fp_terminate_connection c_inbuf ltac:(ow) ltac:(ow) code c c' r H). exact Hb.
Qed.

(* an operation whose footprint contains neither the connection window nor the input buffer *)
Lemma inv03b_of_footprint {A} (m : CM A) :
  preserves c_out_win m -> preserves c_inbuf m -> forall c c' r, Inv03b c -> m c = (c', r) -> Inv03b c'.
Proof. intros H1 H2 c c' r [Hi Hb] H. split; [rewrite (H1 _ _ _ H); exact Hi | rewrite (H2 _ _ _ H); exact Hb]. Qed.

Lemma as_none_pres {T} (P : conn -> T) (m : CM unit) : preserves P m -> preserves P (as_none m).
Proof. intros H. unfold as_none. apply pres_bind; [exact H | intros; apply pres_ret]. Qed.
Lemma as_z_pres {T} (P : conn -> T) (m : CM Z) : preserves P m -> preserves P (as_z m).
Proof. intros H. unfold as_z. apply pres_bind; [exact H | intros; apply pres_ret]. Qed.

Lemma step_inv03b c o c' r : Inv03b c -> wf_op o -> step c o = (c', r) -> Inv03b c'.
Proof.
  intros Hinv Hwf H.
  destruct o as [|hdr|sid hs L es pw pd pe|sid len end_stream0 pad|sid|inc sid|sid pr hs L|pl|sid code|code last dbg|kvs
                |fl og sid|sid w d e|n sid| |sid|sid| | | |fs]; cbn [step] in H;
  try (revert H; revert Hinv; apply inv03b_of_footprint;
       first [ apply as_none_pres | apply as_z_pres | idtac ];
       first [ apply fp_initiate_connection | apply fp_api_send_headers | apply fp_api_end_stream
             | apply fp_api_increment_window | apply fp_api_push_stream | apply fp_api_ping | apply fp_api_reset_stream
             | apply fp_api_close_connection | apply fp_api_update_settings | apply fp_api_advertise_alt_svc
             | apply fp_api_prioritize | apply fp_api_acknowledge | apply fp_api_next_stream_id
             | apply fp_local_flow_control_window | apply fp_remote_flow_control_window
             | apply fp_open_outbound | apply fp_open_inbound ]; ow).
  - (* initiate_upgrade_connection *)
    destruct Hinv as [Hi Hb].
    assert (X : forall {T} (P : conn -> T), (forall c v, P (cset_state c v) = P c) -> (forall c v, P (cset_streams c v) = P c) ->
                (forall c v, P (cset_closed c v) = P c) -> (forall c v, P (cset_hi_in c v) = P c) -> (forall c v, P (cset_hi_out c v) = P c) ->
                (forall c v, P (cset_remote c v) = P c) -> (forall c v, P (cset_max_out_frame c v) = P c) -> (forall c v, P (cset_out c v) = P c) ->
                (forall c v, P (cset_enc_table_size c v) = P c) -> (forall c v, P (cset_local c v) = P c) ->
                (forall c v, P (cset_dec_max_hls c v) = P c) -> (forall c v, P (cset_max_in_frame c v) = P c) ->
                preserves P (v <- api_initiate_upgrade hdr ;; ret (ASettings v))).
    { intros T P p1 p2 p3 p4 p5 p6 p7 p8 p9 p10 p11 p12. unfold api_initiate_upgrade.
      repeat first
        [ apply (fp_initiate_connection P); assumption
        | apply (fp_recv_settings P); assumption
        | apply (pres_cfsm P); assumption | apply (fp_begin_new_stream P); assumption
        | apply (pres_with_stream P); assumption
        | apply pres_ret | apply pres_get | apply pres_bind; [|intros ?]
        | match goal with |- preserves _ (if ?b then _ else _) => destruct b end
        | match goal with |- preserves _ (match ?x with _ => _ end) => destruct x end ]. }
    split; [rewrite (X _ c_out_win ltac:(ow) ltac:(ow) ltac:(ow) ltac:(ow) ltac:(ow) ltac:(ow) ltac:(ow) ltac:(ow) ltac:(ow) ltac:(ow) ltac:(ow) ltac:(ow) _ _ _ H); exact Hi
           | rewrite (X _ c_inbuf ltac:(ow) ltac:(ow) ltac:(ow) ltac:(ow) ltac:(ow) ltac:(ow) ltac:(ow) ltac:(ow) ltac:(ow) ltac:(ow) ltac:(ow) ltac:(ow) _ _ _ H); exact Hb].
  - (* send_data *)
    destruct Hinv as [Hi Hb]. unfold as_none in H. unfold bind in H.
    destruct (api_send_data sid len end_stream0 pad c) as [c1 r1] eqn:E.
    assert (Hc : c' = c1) by (destruct r1; unfold ret in H; injection H as <- _; reflexivity). subst c'.
    split.
    + destruct (send_data_out_win _ _ _ _ _ _ _ E) as [Eq|[Eq Hle]]; lia.
    + assert (X : preserves c_inbuf (api_send_data sid len end_stream0 pad)) by (apply fp_api_send_data; ow).
      rewrite (X _ _ _ E). exact Hb.
  - (* drain *)
    injection H as <- _. exact Hinv.
  - (* receive_data *)
    unfold bind in H. destruct (api_receive fs c) as [c1 r1] eqn:E.
    assert (Hc : c' = c1) by (destruct r1; unfold ret in H; injection H as <- _; reflexivity). subst c'.
    cbn [wf_op] in Hwf.
    refine (api_receive_inv Inv03b wf_rframe _ _ receive_frame_inv03b terminate_inv03b fs c c1 r1 Hinv Hwf E).
    + intros c0 [_ Hb0]. exact Hb0.
    + intros c0 v [Hi0 _] Hv. split; [exact Hi0 | exact Hv].
Qed.

Theorem run_inv03b os : forall c, Inv03b c -> Forall wf_op os -> Inv03b (run c os).
Proof.
  induction os as [|o os IH]; intros c Hi Hw; cbn [run fold_left]; [exact Hi|].
  inversion Hw as [|? ? Ho Hos]; subst.
  apply IH; [|exact Hos]. destruct (step c o) as [c' r] eqn:E. cbn [fst].
  exact (step_inv03b _ _ _ _ Hi Ho E).
Qed.

Lemma inv03b_init cfg : Inv03b (conn_new cfg).
Proof.
  split; [|constructor]. unfold conn_new. cbn [c_out_win].
  destruct (cfg_client cfg); vm_compute; intros H; discriminate.
Qed.
