(* C11, "one frame per ACK, in order", for any number of frames in flight on one identifier: after n
   update_settings calls that each carry identifier k (values v_1 .. v_n, repeated values allowed) nothing
   changes the value in force; the j-th acknowledgement puts exactly v_j in force.  Induction over the list
   of values and over the number of acknowledgements: no bound on either.  (With several identifiers the
   per-key queues of the library do NOT have this property: Properties/C11_refuted.v, finding F-C11-1.) *)
From H2 Require Import Base.Prelude Base.PyDict Gen.Consts Model.SettingsV Model.Settings Proofs.C11Proofs.

Definition queue_sends (k : Z) (vs : list Z) (s : settings) : settings :=
  fold_left (fun s v => fst (ssetitem k v s)) vs s.
Definition acks (n : nat) (s : settings) : settings := Nat.iter n (fun s => fst (sacknowledge s)) s.

Lemma queue_sends_queue k vs : forall s q, dget k s = Some q -> Forall (fun v => validate_setting k v = 0) vs ->
  dget k (queue_sends k vs s) = Some (q ++ map Some vs).
Proof.
  induction vs as [|v vs IH]; intros s q Hq Hv; unfold queue_sends; cbn [fold_left map].
  - rewrite app_nil_r. exact Hq.
  - inversion Hv as [|? ? Hv1 Hv2]; subst. rewrite (ssetitem_ok k v s Hv1). cbn [fst]. rewrite Hq.
    fold (queue_sends k vs (dset k (q ++ [Some v]) s)).
    rewrite (IH _ (q ++ [Some v])); [rewrite <- app_assoc; reflexivity | apply dget_dset_same | exact Hv2].
Qed.

Lemma queue_sends_other k k' vs : k <> k' -> forall s, Forall (fun v => validate_setting k v = 0) vs ->
  dget k' (queue_sends k vs s) = dget k' s.
Proof.
  intros Hk. induction vs as [|v vs IH]; intros s Hv; unfold queue_sends; cbn [fold_left]; [reflexivity|].
  inversion Hv as [|? ? Hv1 Hv2]; subst. rewrite (ssetitem_ok k v s Hv1). cbn [fst].
  fold (queue_sends k vs (dset k (match dget k s with Some q => q | None => [None] end ++ [Some v]) s)).
  rewrite (IH _ Hv2). apply dget_dset_other. exact Hk.
Qed.

Lemma ackq_skipn (l : list (option Z)) : forall n, (S n < length l)%nat -> ackq (skipn n l) = skipn (S n) l.
Proof.
  induction l as [|a l IH]; intros n H; [cbn in H; lia|].
  destruct n as [|n].
  - destruct l as [|b l]; [cbn in H; lia|]. reflexivity.
  - cbn [skipn]. rewrite IH; [reflexivity | cbn [length] in H; lia].
Qed.

Lemma acks_S n s : acks (S n) s = fst (sacknowledge (acks n s)).
Proof. reflexivity. Qed.

Lemma acks_queue k l : forall n s, dget k s = Some l -> (n < length l)%nat ->
  dget k (acks n s) = Some (skipn n l).
Proof.
  induction n as [|n IH]; intros s Hs Hn; [exact Hs|].
  rewrite acks_S, sacknowledge_effect, (IH s Hs) by lia. cbn [option_map]. rewrite ackq_skipn by lia. reflexivity.
Qed.

Lemma skipn_nth_error {A} (l : list A) : forall j x, nth_error l j = Some x -> exists r, skipn j l = x :: r.
Proof.
  induction l as [|a l IH]; intros j x H; destruct j as [|j]; cbn in H; try discriminate.
  - injection H as <-. exists l. reflexivity.
  - cbn [skipn]. exact (IH j x H).
Qed.

(* nothing is in force before its acknowledgement ... *)
Theorem pending_values_are_not_in_force k vs s o :
  dget k s = Some [o] -> Forall (fun v => validate_setting k v = 0) vs ->
  sget k (queue_sends k vs s) = sget k s.
Proof.
  intros Hs Hv. unfold sget. rewrite (queue_sends_queue k vs s [o] Hs Hv), Hs. reflexivity.
Qed.

(* ... and the (j+1)-th acknowledgement puts exactly the (j+1)-th value sent in force *)
Theorem same_identifier_fifo k vs s o j v :
  dget k s = Some [o] -> Forall (fun v => validate_setting k v = 0) vs ->
  nth_error vs j = Some v ->
  sget k (acks (S j) (queue_sends k vs s)) = Some v.
Proof.
  intros Hs Hv Hj. pose proof (queue_sends_queue k vs s [o] Hs Hv) as Hq. cbn [app] in Hq.
  assert (Hlen : (j < length vs)%nat) by (apply nth_error_Some; congruence).
  unfold sget. rewrite (acks_queue k _ (S j) _ Hq) by (cbn [length]; rewrite map_length; lia).
  cbn [skipn]. destruct (skipn_nth_error (map Some vs) j (Some v) (map_nth_error Some j vs Hj)) as [r ->]. reflexivity.
Qed.

(* after the last acknowledgement the identifier is settled again on the last value *)
Theorem same_identifier_settles k vs s o v :
  dget k s = Some [o] -> Forall (fun v => validate_setting k v = 0) vs -> last (map Some vs) None = Some v ->
  dget k (acks (length vs) (queue_sends k vs s)) = Some [Some v].
Proof.
  intros Hs Hv Hl. pose proof (queue_sends_queue k vs s [o] Hs Hv) as Hq. cbn [app] in Hq.
  rewrite (acks_queue k _ (length vs) _ Hq) by (cbn [length]; rewrite map_length; lia).
  f_equal. clear Hq Hs Hv. revert o Hl. induction vs as [|a vs IH]; intros o Hl; [discriminate|].
  cbn [length skipn map]. destruct vs as [|b vs].
  - cbn in Hl. cbn. congruence.
  - apply (IH (Some a)). exact Hl.
Qed.
