(* Proofs/PushProofs.v — server push rules (C22) and frames racing a local reset (C20), on the connection model. *)
From H2 Require Import Base.Prelude Base.PyDict Model.FsmTypes Gen.Consts Gen.Tables Gen.Guards
  Model.Types Model.Windows Model.WmHist Model.SettingsV Model.Settings Model.StreamFSM Model.Headers
  Model.Stream Model.ConnState Model.Connection Proofs.C18Proofs.

Definition is_ok {A} (r : res A) : bool := match r with Ok _ => true | _ => false end.

Lemma bind_err {S A B} (m : M S A) (k : A -> M S B) s : is_ok (snd (m s)) = false -> is_ok (snd (bind m k s)) = false.
Proof. unfold bind. destruct (m s) as [s1 [a| |]]; cbn; intros H; [discriminate|reflexivity|reflexivity]. Qed.

(* ---------- C22: local push ---------- *)
Theorem push_refused_when_peer_disabled_push sid promised hs L c :
  s_enable_push (c_remote c) = 0 -> api_push_stream sid promised hs L c = (c, perr).
Proof. intros H. unfold api_push_stream, bind, get. rewrite H. reflexivity. Qed.

Theorem client_cannot_push sid promised hs L c :
  c_state c = C_CLIENT_OPEN -> is_ok (snd (api_push_stream sid promised hs L c)) = false.
Proof.
  intros Hs. unfold api_push_stream. unfold bind at 1. unfold get at 1.
  unfold bind at 1. destruct (s_enable_push (c_remote c) =? 0); [reflexivity|]. unfold ret at 1.
  apply bind_err. unfold cfsm. rewrite Hs. reflexivity.
Qed.

Theorem push_on_pushed_stream_refused sid promised hs L c :
  sid mod 2 = 0 -> is_ok (snd (api_push_stream sid promised hs L c)) = false.
Proof.
  intros He. unfold api_push_stream. unfold bind at 1. unfold get at 1.
  unfold bind at 1. destruct (s_enable_push (c_remote c) =? 0); [reflexivity|]. unfold ret at 1.
  unfold bind at 1. destruct (cfsm CI_SEND_PUSH_PROMISE c) as [c1 [u| |]]; try reflexivity.
  unfold bind at 1. destruct (get_stream_by_id sid c1) as [c2 [s| |]]; try reflexivity.
  apply bind_err. unfold g_push_recursive. rewrite He. reflexivity.
Qed.

(* ---------- C22: remote push ---------- *)
Theorem push_promise_is_connection_error_when_push_disabled sid promised d c :
  s_enable_push (c_local c) = 0 -> recv_push_promise sid promised d c = (c, perr).
Proof. intros H. unfold recv_push_promise, bind, get. rewrite H. reflexivity. Qed.

Theorem push_promise_on_pushed_stream_refused sid promised d hs c c2 c3 s :
  sid mod 2 = 0 -> s_enable_push (c_local c) <> 0 -> decode_headers d c = (c2, Ok hs) -> cfsm CI_RECV_PUSH_PROMISE c2 = (c3, Ok tt) ->
  dget sid (c_streams c3) = Some s -> recv_push_promise sid promised d c = (c3, perr).
Proof.
  intros He Hp Hd Hc Hs. unfold recv_push_promise. unfold bind at 1. unfold get at 1.
  unfold bind at 1. destruct (s_enable_push (c_local c) =? 0) eqn:E; [apply Z.eqb_eq in E; contradiction|]. unfold ret at 1.
  unfold bind at 1. rewrite Hd. unfold bind at 1. rewrite Hc. unfold bind at 1. unfold get at 1. rewrite Hs.
  unfold g_recv_push_recursive. rewrite He. reflexivity.
Qed.

(* what a client reports for an accepted PUSH_PROMISE: parent id, promised id, validated headers *)
Theorem pushed_stream_event_shape cfg promised hs s s' evs :
  receive_push_promise_in_band cfg promised hs s = (s', Ok evs) ->
  exists f h, evs = [EPushedStreamReceived promised (s_id s) h] /\ process_received_headers cfg f hs = Ok h.
Proof.
  unfold receive_push_promise_in_band. unfold bind at 1. unfold fsm at 1.
  destruct (process_input (s_id s) (s_sm s) SI_RECV_PUSH_PROMISE) as [m [e1| |]]; try discriminate.
  unfold bind at 1. destruct e1 as [|e0 e1]; [unfold lift_res, perr; discriminate|]. unfold ret at 1.
  unfold bind at 1. unfold lift_res at 1. destruct (build_flags (e0 :: e1)) as [f| |]; try discriminate.
  unfold bind at 1. unfold lift_res at 1. destruct (process_received_headers cfg f hs) as [h| |] eqn:Ep; try discriminate.
  unfold bind, get, ret. intros H. injection H as _ <-. exists f, h. split; [reflexivity|exact Ep].
Qed.

(* ---------- C20: frames racing our RST_STREAM ---------- *)
(* whatever the handler did, a StreamClosedError for a stream closed by a reset leaves receive_data with an RST_STREAM and no
   connection error; the only event possible is the StreamReset of the reset itself *)
Theorem closed_by_reset_is_a_stream_error f c c1 code sid rst :
  dispatch f c = (c1, Err StreamClosedError code sid rst) -> closed_by_reset c1 sid = true -> 4 <= c_max_out_frame c1 ->
  receive_frame f c = (cset_out c1 (c_out c1 ++ [FRstStream sid code]), Ok (if rst then [EStreamReset sid EC_STREAM_CLOSED false] else [])).
Proof.
  intros Hd Hr Hm. unfold receive_frame. rewrite Hd, Hr. unfold bind, prepare_for_sending. cbn [forallb body_len andb].
  destruct (4 <=? c_max_out_frame c1) eqn:E; [reflexivity|lia].
Qed.

(* PUSH_PROMISE on a stream we reset and already forgot: the promised stream is refused, nothing is reported *)
Theorem push_promise_on_forgotten_reset_stream sid promised hs c c2 c3 :
  s_enable_push (c_local c) <> 0 -> decode_headers (HDecoded hs) c = (c2, Ok hs) -> cfsm CI_RECV_PUSH_PROMISE c2 = (c3, Ok tt) ->
  dget sid (c_streams c3) = None -> stream_closed_by c3 sid = Some CB_SEND_RST_STREAM ->
  recv_push_promise sid promised (HDecoded hs) c = (c3, Ok ([FRstStream promised EC_REFUSED_STREAM], [])).
Proof.
  intros Hp Hd Hc Hn Hcb. unfold recv_push_promise. unfold bind at 1. unfold get at 1.
  unfold bind at 1. destruct (s_enable_push (c_local c) =? 0) eqn:E; [apply Z.eqb_eq in E; contradiction|]. unfold ret at 1.
  unfold bind at 1. rewrite Hd. unfold bind at 1. rewrite Hc. unfold bind at 1. unfold get at 1. rewrite Hn, Hcb. reflexivity.
Qed.

(* DATA on a closed stream: never a connection error; the connection window gets the credit back (process_bytes), and the
   stream is answered with RST_STREAM *)
Theorem data_on_closed_stream_refills_the_connection_window sid len fclen es c c0 cw c1 code esid rst :
  cfsm CI_RECV_DATA c = (c0, Ok tt) ->
  lift_cwm (fun w => window_consumed w fclen) c0 = (cw, Ok tt) ->
  (get_stream_by_id sid ;;; with_stream sid (receive_data len fclen es)) cw = (c1, Err StreamClosedError code esid rst) ->
  recv_data sid len fclen es c =
  (cset_in_wm c1 (fst (process_bytes (c_in_wm c1) fclen)),
   Ok ((match wm_increment (snd (process_bytes (c_in_wm c1) fclen)) with Some inc => [FWindowUpdate 0 inc] | None => [] end) ++ [FRstStream esid code],
       if rst then [EStreamReset esid EC_STREAM_CLOSED false] else [])).
Proof.
  intros Hc Hw Hs. unfold recv_data. unfold bind at 1. rewrite Hc. unfold bind at 1. rewrite Hw. rewrite Hs.
  destruct (process_bytes (c_in_wm c1) fclen) as [w' o]. reflexivity.
Qed.
