(* Proofs/C21Proofs.v — byte-stream chunking does not matter (inbound), and data_to_send partitions the
   output buffer (outbound).  The parsers are arbitrary (Section variables of Model/FrameBuffer.v). *)
From H2 Require Import Base.Prelude Gen.Consts Gen.Guards Model.Types Model.FrameBuffer.
From Coq Require Import Arith.

Section FBProofs.
Variable parse_hdr : bytes -> option (nat * Z * Z * Z).
Variable parse_body : Z -> Z -> Z -> bytes -> bres.
Variables (S E : Type).
Variable limit : S -> Z.
Variable consume : S -> wframe -> S * option E.

Notation step1 := (step1 parse_hdr parse_body).
Notation drain := (drain parse_hdr parse_body S E limit consume).
Notation drain_all := (drain_all parse_hdr parse_body S E limit consume).
Notation feed := (feed parse_hdr parse_body S E limit consume).

Lemma hdr_guard (n : nat) : g_fb_hdr (Z.of_nat n) = (n <? 9)%nat.
Proof. unfold g_fb_hdr. destruct (Nat.ltb_spec n 9); lia. Qed.
Lemma body_guard (n : nat) len : g_fb_body (Z.of_nat n) (Z.of_nat len) = (n <? len + 9)%nat.
Proof. unfold g_fb_body. destruct (Nat.ltb_spec n (len + 9)); lia. Qed.

Lemma step1_adv_shorter mx h d o h' r : step1 mx h d = Adv o h' r -> (length r + 9 <= length d)%nat.
Proof.
  unfold FrameBuffer.step1. rewrite hdr_guard. destruct (length d <? 9)%nat eqn:E0; [discriminate|].
  destruct (parse_hdr (firstn 9 d)) as [[[[len ty] fl] sid]|]; [|discriminate].
  rewrite body_guard. destruct (length d <? len + 9)%nat eqn:E2; [discriminate|]. destruct (g_fb_len _ _); [discriminate|].
  destruct (parse_body _ _ _ _); try discriminate.
  destruct (update_header_buffer _ _) as [[e he]|[h1 o1]]; [discriminate|].
  intros H; injection H as _ _ Hr; subst r. rewrite skipn_length. apply Nat.ltb_ge in E2. lia.
Qed.

Lemma step1_app_adv mx h d m o h' r : step1 mx h d = Adv o h' r -> step1 mx h (d ++ m) = Adv o h' (r ++ m).
Proof.
  unfold FrameBuffer.step1. rewrite !hdr_guard. destruct (length d <? 9)%nat eqn:E0; [discriminate|]. apply Nat.ltb_ge in E0.
  rewrite app_length. replace (length d + length m <? 9)%nat with false by (symmetry; apply Nat.ltb_ge; lia).
  rewrite firstn_app. replace (9 - length d)%nat with 0%nat by lia. rewrite firstn_O, app_nil_r.
  destruct (parse_hdr (firstn 9 d)) as [[[[len ty] fl] sid]|]; [|discriminate].
  rewrite !body_guard. destruct (length d <? len + 9)%nat eqn:E2; [discriminate|]. apply Nat.ltb_ge in E2.
  replace (length d + length m <? len + 9)%nat with false by (symmetry; apply Nat.ltb_ge; lia).
  destruct (g_fb_len _ _); [discriminate|].
  rewrite skipn_app, firstn_app, skipn_length. replace (len - (length d - 9))%nat with 0%nat by lia. rewrite firstn_O, app_nil_r.
  destruct (parse_body _ _ _ _); try discriminate.
  destruct (update_header_buffer _ _) as [[e he]|[h1 o1]]; [discriminate|].
  intros H; injection H as <- <- <-. f_equal.
  rewrite skipn_app. f_equal. replace (len + 9 - length d)%nat with 0%nat by lia. reflexivity.
Qed.

Lemma step1_app_fail mx h d m e h' r : step1 mx h d = Fail e h' r -> step1 mx h (d ++ m) = Fail e h' (r ++ m).
Proof.
  unfold FrameBuffer.step1. rewrite !hdr_guard. destruct (length d <? 9)%nat eqn:E0; [discriminate|]. apply Nat.ltb_ge in E0.
  rewrite app_length. replace (length d + length m <? 9)%nat with false by (symmetry; apply Nat.ltb_ge; lia).
  rewrite firstn_app. replace (9 - length d)%nat with 0%nat by lia. rewrite firstn_O, app_nil_r.
  destruct (parse_hdr (firstn 9 d)) as [[[[len ty] fl] sid]|]; [|intros H; injection H as <- <- <-; reflexivity].
  rewrite !body_guard. destruct (length d <? len + 9)%nat eqn:E2; [discriminate|]. apply Nat.ltb_ge in E2.
  replace (length d + length m <? len + 9)%nat with false by (symmetry; apply Nat.ltb_ge; lia).
  destruct (g_fb_len _ _); [intros H; injection H as <- <- <-; reflexivity|].
  rewrite skipn_app, firstn_app, skipn_length. replace (len - (length d - 9))%nat with 0%nat by lia. rewrite firstn_O, app_nil_r.
  destruct (parse_body _ _ _ _); try (intros H; injection H as <- <- <-; reflexivity).
  destruct (update_header_buffer _ _) as [[e' he]|[h1 o1]]; [|discriminate].
  intros H; injection H as <- <- <-. f_equal.
  rewrite skipn_app. f_equal. replace (len + 9 - length d)%nat with 0%nat by lia. reflexivity.
Qed.

Lemma drain_S n s h d : drain (Datatypes.S n) s h d =
  match step1 (limit s) h d with
  | Stop => (s, None, (h, d))
  | Fail e h' r => (s, Some (inl e), (h', r))
  | Adv None h' r => drain n s h' r
  | Adv (Some f) h' r =>
      let '(s', x) := consume s f in
      match x with None => drain n s' h' r | Some e => (s', Some (inr e), (h', r)) end
  end.
Proof. reflexivity. Qed.

Lemma drain_fuel n1 : forall n2 s h d, (length d < n1)%nat -> (length d < n2)%nat -> drain n1 s h d = drain n2 s h d.
Proof.
  induction n1 as [|n1 IH]; intros n2 s h d H1 H2; [lia|]. destruct n2 as [|n2]; [lia|]. rewrite !drain_S.
  destruct (step1 (limit s) h d) as [|e he re|o h' r] eqn:N; auto. pose proof (step1_adv_shorter _ _ _ _ _ _ N).
  destruct o as [f|].
  - destruct (consume s f) as [s' [e|]]; [reflexivity|]. apply IH; lia.
  - apply IH; lia.
Qed.

(* appending more bytes to a drained buffer *)
Lemma drain_app n : forall s h d m s1 e h1 r, (length d < n)%nat -> drain n s h d = (s1, e, (h1, r)) ->
  match e with
  | Some x => drain_all s h (d ++ m) = (s1, Some x, (h1, r ++ m))
  | None => drain_all s h (d ++ m) = drain_all s1 h1 (r ++ m)
  end.
Proof.
  unfold FrameBuffer.drain_all.
  induction n as [|n IH]; intros s h d m s1 e h1 r Hn H; [lia|]. rewrite drain_S in H.
  destruct (step1 (limit s) h d) as [|x hx rx|o h' r0] eqn:N.
  - injection H as <- <- <- <-. reflexivity.
  - injection H as <- <- <- <-. rewrite drain_S, (step1_app_fail _ h d m x hx rx N). reflexivity.
  - pose proof (step1_adv_shorter _ _ _ _ _ _ N) as Hl.
    assert (F: forall s', drain (length (d ++ m)) s' h' (r0 ++ m) = drain (Datatypes.S (length (r0 ++ m))) s' h' (r0 ++ m)).
    { intros s'. apply drain_fuel; rewrite !app_length; lia. }
    rewrite drain_S, (step1_app_adv _ h d m o h' r0 N).
    destruct o as [f|].
    + destruct (consume s f) as [s' [x|]].
      * injection H as <- <- <- <-. reflexivity.
      * rewrite F. exact (IH s' h' r0 m s1 e h1 r ltac:(lia) H).
    + rewrite F. exact (IH s h' r0 m s1 e h1 r ltac:(lia) H).
Qed.

Lemma drain_rest_clean n : forall s h d s1 h1 r, (length d < n)%nat -> drain n s h d = (s1, None, (h1, r)) ->
  drain_all s1 h1 r = (s1, None, (h1, r)).
Proof.
  unfold FrameBuffer.drain_all.
  induction n as [|n IH]; intros s h d s1 h1 r Hn H; [lia|]. rewrite drain_S in H.
  destruct (step1 (limit s) h d) as [|x hx rx|o h' r0] eqn:N.
  - injection H as <- <- <-. rewrite drain_S, N. reflexivity.
  - discriminate.
  - pose proof (step1_adv_shorter _ _ _ _ _ _ N). destruct o as [f|].
    + destruct (consume s f) as [s' [x|]]; [discriminate|]. apply (IH s' h' r0); [lia|exact H].
    + apply (IH s h' r0); [lia|exact H].
Qed.

(* The chunking theorem: feeding any split of the bytes, calling the receiver on every frame as soon as it is
   complete, is the same as handing over the whole byte string at once — the receiver ends in the same state
   (so it saw the same frames in the same order and emitted the same bytes and events), the same first
   exception is raised at the same frame, and the same undelivered bytes and header-block frames remain.
   The receiver's state may change the frame-size limit between any two frames. *)
Theorem chunking_irrelevant cs : forall s h buf,
  drain_all s h buf = (s, None, (h, buf)) ->
  feed s h buf cs = drain_all s h (buf ++ concat cs).
Proof.
  induction cs as [|c cs IH]; intros s h buf Hb; cbn [FrameBuffer.feed concat].
  - rewrite app_nil_r. symmetry; exact Hb.
  - destruct (drain_all s h (buf ++ c)) as [[s1 e] [h1 r]] eqn:D.
    pose proof (drain_app _ s h (buf ++ c) (concat cs) s1 e h1 r (Nat.lt_succ_diag_r _) D) as A.
    rewrite <- app_assoc in A. destruct e as [x|].
    + rewrite A. reflexivity.
    + pose proof (drain_rest_clean _ _ _ _ _ _ _ (Nat.lt_succ_diag_r _) D) as Hr.
      rewrite (IH s1 h1 r Hr). symmetry. exact A.
Qed.

Corollary any_two_chunkings s cs1 cs2 : concat cs1 = concat cs2 -> feed s [] [] cs1 = feed s [] [] cs2.
Proof. intros Eq. rewrite !chunking_irrelevant by reflexivity. cbn [app]. rewrite Eq. reflexivity. Qed.

(* from any quiescent state (what a previous call left behind), too *)
Corollary any_two_chunkings_from s h buf cs1 cs2 :
  drain_all s h buf = (s, None, (h, buf)) -> concat cs1 = concat cs2 -> feed s h buf cs1 = feed s h buf cs2.
Proof. intros Hq Eq. rewrite !chunking_irrelevant by exact Hq. rewrite Eq. reflexivity. Qed.

(* the header-block buffer never holds more than CONTINUATION_BACKLOG frames while no exception is raised *)
Lemma uhb_bounded h f h' o : zlen h <= CONTINUATION_BACKLOG -> update_header_buffer h f = inr (h', o) -> zlen h' <= CONTINUATION_BACKLOG.
Proof.
  intros Hh. unfold update_header_buffer. destruct h as [|first h0].
  - destruct (_ && _); intros H; injection H as <- _; unfold zlen; cbn [length]; vm_compute; discriminate.
  - destruct (negb _); [discriminate|]. unfold g_fb_backlog.
    destruct (andb _ _) eqn:E0.
    + discriminate.
    + destruct (has_flag _ _); intros H; injection H as <- _.
      * vm_compute; discriminate.
      * cbn [andb] in E0. unfold CONTINUATION_BACKLOG. rewrite Z.gtb_ltb in E0. apply Z.ltb_ge in E0. exact E0.
Qed.

(* a header block that already has CONTINUATION_BACKLOG frames is refused whatever comes next, END_HEADERS or not *)
Lemma long_block_refused h f : h <> [] -> zlen h >= CONTINUATION_BACKLOG -> exists h', update_header_buffer h f = inl (EProtocol, h').
Proof.
  intros Hne Hlen. unfold update_header_buffer. destruct h as [|first h0]; [contradiction|].
  destruct (negb _); [eexists; reflexivity|]. unfold g_fb_backlog.
  replace (zlen ((first :: h0) ++ [f]) >? 64) with true; [eexists; reflexivity|].
  symmetry. unfold zlen in *. rewrite app_length. cbn [length] in *. unfold CONTINUATION_BACKLOG in Hlen. lia.
Qed.

Lemma step1_header_buffer_bounded mx h d o h' r :
  zlen h <= CONTINUATION_BACKLOG -> step1 mx h d = Adv o h' r -> zlen h' <= CONTINUATION_BACKLOG.
Proof.
  intros Hh. unfold FrameBuffer.step1. destruct (g_fb_hdr _); [discriminate|].
  destruct (parse_hdr (firstn 9 d)) as [[[[len ty] fl] sid]|]; [|discriminate].
  destruct (g_fb_body _ _); [discriminate|]. destruct (g_fb_len _ _); [discriminate|].
  destruct (parse_body _ _ _ _); try discriminate.
  destruct (update_header_buffer _ _) as [[e he]|[h1 o1]] eqn:U; [discriminate|].
  intros H; injection H as _ <- _. exact (uhb_bounded _ _ _ _ Hh U).
Qed.

Theorem header_buffer_bounded n : forall s h d s1 e h1 r,
  zlen h <= CONTINUATION_BACKLOG -> drain n s h d = (s1, e, (h1, r)) ->
  (forall x, e <> Some (inl x)) -> zlen h1 <= CONTINUATION_BACKLOG.
Proof.
  induction n as [|n IH]; intros s h d s1 e h1 r Hh H He.
  - injection H as _ _ <- _. exact Hh.
  - rewrite drain_S in H. destruct (step1 (limit s) h d) as [|y hy ry|o h' r0] eqn:N.
    + injection H as _ _ <- _. exact Hh.
    + injection H as _ <- _ _. exfalso. exact (He y eq_refl).
    + pose proof (step1_header_buffer_bounded _ _ _ _ _ _ Hh N) as Hh'. destruct o as [f|].
      * destruct (consume s f) as [s' [y|]]; [injection H as _ _ <- _; exact Hh'|]. exact (IH _ _ _ _ _ _ _ Hh' H He).
      * exact (IH _ _ _ _ _ _ _ Hh' H He).
Qed.
End FBProofs.

(* ---- preface: checking it piecewise is checking it on the concatenation ---- *)
Lemma firstn_firstn_min {A} n m (l : list A) : firstn n (firstn m l) = firstn (Nat.min n m) l.
Proof. apply firstn_firstn. Qed.

Lemma bytes_eqb_refl b : bytes_eqb b b = true.
Proof. apply bytes_eqb_eq. reflexivity. Qed.

Lemma adp_nil d : add_data_preface [] d = Some ([], d).
Proof. reflexivity. Qed.
Lemma adp_cons_nil x pre : add_data_preface (x :: pre) [] = Some (x :: pre, []).
Proof. reflexivity. Qed.
Lemma adp_cons_cons x pre y d : add_data_preface (x :: pre) (y :: d) = if x =? y then add_data_preface pre d else None.
Proof.
  unfold add_data_preface. cbn [length Nat.min firstn skipn bytes_eqb].
  destruct (x =? y); cbn [andb]; reflexivity.
Qed.

Lemma add_data_preface_app pre c1 c2 :
  add_data_preface pre (c1 ++ c2) =
  match add_data_preface pre c1 with
  | None => None
  | Some (pre', p1) => match add_data_preface pre' c2 with
                       | None => None
                       | Some (pre'', p2) => Some (pre'', p1 ++ p2)
                       end
  end.
Proof.
  revert c1. induction pre as [|x pre IH]; intros c1.
  - rewrite !adp_nil. reflexivity.
  - destruct c1 as [|y c1].
    + cbn [app]. rewrite adp_cons_nil. destruct (add_data_preface (x :: pre) c2) as [[a b]|]; reflexivity.
    + cbn [app]. rewrite !adp_cons_cons. destruct (x =? y); [apply IH|reflexivity].
Qed.

Theorem preface_chunking cs : forall pre, add_all_preface pre cs = add_data_preface pre (concat cs).
Proof.
  induction cs as [|c cs IH]; intros pre; cbn [add_all_preface concat].
  - destruct pre; reflexivity.
  - rewrite add_data_preface_app. destruct (add_data_preface pre c) as [[pre' p1]|]; [|reflexivity].
    rewrite IH. reflexivity.
Qed.

(* ---- outbound: any sequence of data_to_send(amount) calls returns pieces that partition the buffer ---- *)
Lemma data_to_send_partition a buf : let '(x, rest) := data_to_send a buf in x ++ rest = buf.
Proof.
  destruct a as [a|]; cbn [data_to_send]; [|apply app_nil_r].
  unfold py_slice_to, py_slice_from. destruct (0 <=? a); apply firstn_skipn.
Qed.

Theorem reads_partition amounts : forall buf, let '(xs, rest) := reads amounts buf in concat xs ++ rest = buf.
Proof.
  induction amounts as [|a r IH]; intros buf; cbn [reads]; [reflexivity|].
  pose proof (data_to_send_partition a buf) as P. destruct (data_to_send a buf) as [x buf'].
  specialize (IH buf'). destruct (reads r buf') as [xs rest]. cbn [concat]. rewrite <- app_assoc, IH. exact P.
Qed.

Corollary reads_then_all amounts buf :
  let '(xs, rest) := reads amounts buf in concat xs ++ fst (data_to_send None rest) = buf.
Proof. pose proof (reads_partition amounts buf) as P. destruct (reads amounts buf) as [xs rest]. exact P. Qed.
