(* C27 / C11: the limits a peer is held to are in force as soon as the acknowledgement that carries them
   has been processed, whatever else that acknowledgement changes.  If the changes applied by a SETTINGS
   ACK contain MAX_HEADER_LIST_SIZE, the decoder's cap IS the new value; if they contain MAX_FRAME_SIZE,
   the frame buffer's limit IS the new value; otherwise each is untouched — independently of whether the
   same acknowledgement also changes INITIAL_WINDOW_SIZE (whose per-stream loop may even fail). *)
From H2 Require Import Base.Prelude Base.PyDict Model.FsmTypes Gen.Consts Gen.Tables Gen.Guards
  Model.Types Model.Windows Model.WmHist Model.SettingsV Model.Settings Model.StreamFSM Model.Headers
  Model.Stream Model.ConnState Model.Connection Proofs.Frame.

Definition limit_after (ch : list (Z * option Z * Z)) (key old : Z) : Z :=
  match changed_lookup key ch with Some (_, new) => new | None => old end.

Lemma for_streams_keeps_limits f c c' r :
  for_streams f c = (c', r) -> c_dec_max_hls c' = c_dec_max_hls c /\ c_max_in_frame c' = c_max_in_frame c.
Proof.
  intros H. split.
  - exact (pres_for_streams c_dec_max_hls (fun c v => ltac:(destruct c; reflexivity)) f c c' r H).
  - exact (pres_for_streams c_max_in_frame (fun c v => ltac:(destruct c; reflexivity)) f c c' r H).
Qed.

Theorem acked_limits_in_force c c' ch :
  local_settings_acked c = (c', Ok ch) ->
  c_dec_max_hls c' = limit_after ch SC_MAX_HEADER_LIST_SIZE (c_dec_max_hls c) /\
  c_max_in_frame c' = limit_after ch SC_MAX_FRAME_SIZE (c_max_in_frame c).
Proof.
  unfold local_settings_acked, limit_after, bind, lift_local, ret, modify.
  destruct (sacknowledge (c_local c)) as [s1 ch1].
  set (c1 := cset_local c s1).
  assert (H1 : c_dec_max_hls c1 = c_dec_max_hls c /\ c_max_in_frame c1 = c_max_in_frame c) by (destruct c; split; reflexivity).
  destruct H1 as [Ha Hb]. clearbody c1.
  destruct (changed_lookup SC_INITIAL_WINDOW_SIZE ch1) as [[old new]|].
  - destruct (for_streams (inbound_iws_change (new - opt_default 0 old)) c1) as [c2 r2] eqn:E.
    destruct (for_streams_keeps_limits _ _ _ _ E) as [X Y].
    destruct r2 as [u|e co i b|p]; cbv beta iota; [|intros H; discriminate H|intros H; discriminate H].
    destruct (changed_lookup SC_MAX_HEADER_LIST_SIZE ch1) as [[o1 n1]|] eqn:E1;
    destruct (changed_lookup SC_MAX_FRAME_SIZE ch1) as [[o2 n2]|] eqn:E2;
    cbv beta iota; intros H; injection H as <- <-; rewrite ?E1, ?E2; rewrite <- ?Ha, <- ?Hb, <- ?X, <- ?Y; clear; split; destruct c2; reflexivity.
  - destruct (changed_lookup SC_MAX_HEADER_LIST_SIZE ch1) as [[o1 n1]|] eqn:E1;
    destruct (changed_lookup SC_MAX_FRAME_SIZE ch1) as [[o2 n2]|] eqn:E2;
    cbv beta iota; intros H; injection H as <- <-; rewrite ?E1, ?E2; rewrite <- ?Ha, <- ?Hb; clear; split; destruct c1; reflexivity.
Qed.
