(* Proofs/AltSvcUpgradeProofs.v — RFC 7838 advertisement rules (C24) and the h2c upgrade hand-over (C25) on the model. *)
From H2 Require Import Base.Prelude Base.PyDict Model.FsmTypes Gen.Consts Gen.Tables Gen.Guards
  Model.Types Model.Windows Model.WmHist Model.SettingsV Model.Settings Model.StreamFSM Model.Headers
  Model.Stream Model.ConnState Model.Connection Proofs.FsmReach Proofs.C0708Proofs Proofs.PushProofs.

(* ---------- C24: sending ---------- *)
Theorem altsvc_never_names_both field o i c : api_advertise_alt_svc field (Some o) (Some i) c = (c, Crash ValueError).
Proof. reflexivity. Qed.

(* only servers advertise (fix 4e7b916): on a client-side connection, in EVERY state, the call fails and changes nothing *)
Theorem client_cannot_advertise field origin sid c :
  client c = true -> exists r, api_advertise_alt_svc field origin sid c = (c, r) /\ is_ok r = false.
Proof.
  intros Hc. unfold api_advertise_alt_svc. destruct origin as [o|], sid as [i|];
    try (eexists; split; reflexivity);
    (unfold bind at 1; unfold get at 1; rewrite Hc; unfold bind at 1; unfold lift_res at 1; unfold perr at 1;
     eexists; split; reflexivity).
Qed.
(* an advertisement names an origin or a stream (fix c0a4c40: ValueError, nothing changed, when it names neither) *)
Theorem altsvc_names_one field c : api_advertise_alt_svc field None None c = (c, Crash ValueError).
Proof. reflexivity. Qed.

Theorem open_client_cannot_advertise field origin sid c :
  c_state c = C_CLIENT_OPEN -> is_ok (snd (api_advertise_alt_svc field origin sid c)) = false.
Proof.
  intros Hs. unfold api_advertise_alt_svc. destruct origin as [o|], sid as [i|]; try reflexivity;
    (unfold bind at 1; unfold get at 1; destruct (client c); [reflexivity|];
     unfold bind at 1; unfold ret at 1; apply bind_err; unfold cfsm; rewrite Hs; reflexivity).
Qed.

(* a stream advertisement needs the request received and no response headers sent yet: over every reachable state of the
   stream state machine, SEND_ALTERNATIVE_SERVICE is accepted only on a server-side stream in a state that follows the request,
   and never once headers were sent *)
Definition c24_send_rule (m : sm) : bool :=
  negb (accepted m SI_SEND_ALTERNATIVE_SERVICE) || (negb (sm_hs m) && sm_hr m && negb (client_side m)).
Lemma c24_send_rule_checked : forallb c24_send_rule reach = true.
Proof. vm_compute. reflexivity. Qed.
Theorem stream_advertisement_only_between_request_and_response is : c24_send_rule (run_inputs sm_new is) = true.
Proof. exact (reach_forall c24_send_rule c24_send_rule_checked is). Qed.

(* ---------- C24: receiving ---------- *)
Theorem server_ignores_altsvc_on_stream_zero origin field c c1 :
  cfsm CI_RECV_ALTERNATIVE_SERVICE c = (c1, Ok tt) -> client c1 = false -> recv_alt_svc 0 origin field c = (c1, Ok ([], [])).
Proof.
  intros Hc Hcl. unfold recv_alt_svc. unfold bind at 1. rewrite Hc. unfold bind, get. cbn [Z.eqb negb].
  destruct origin; [reflexivity|]. rewrite Hcl. reflexivity.
Qed.
Theorem altsvc_on_stream_zero_needs_origin field c c1 :
  cfsm CI_RECV_ALTERNATIVE_SERVICE c = (c1, Ok tt) -> recv_alt_svc 0 [] field c = (c1, Ok ([], [])).
Proof. intros Hc. unfold recv_alt_svc. unfold bind at 1. rewrite Hc. reflexivity. Qed.
Theorem client_reports_origin_advertisement o origin field c c1 :
  cfsm CI_RECV_ALTERNATIVE_SERVICE c = (c1, Ok tt) -> client c1 = true ->
  recv_alt_svc 0 (o :: origin) field c = (c1, Ok ([], [EAltSvcAvailable (Some (o :: origin)) field])).
Proof. intros Hc Hcl. unfold recv_alt_svc. unfold bind at 1. rewrite Hc. unfold bind, get. cbn [Z.eqb negb]. rewrite Hcl. reflexivity. Qed.

(* stream-bound frames: an origin in the frame conflicts with the stream's and is ignored; otherwise the event carries the
   :authority of our own request; unknown streams are ignored *)
Theorem stream_altsvc_with_origin_ignored o origin field s : receive_alt_svc (o :: origin) field s = (s, Ok []).
Proof. reflexivity. Qed.
Theorem stream_altsvc_event_carries_request_authority field s s' evs :
  receive_alt_svc [] field s = (s', Ok evs) -> evs = [] \/ evs = [EAltSvcAvailable (s_authority s') field].
Proof.
  unfold receive_alt_svc. unfold bind at 1. unfold fsm. destruct (process_input (s_id s) (s_sm s) SI_RECV_ALTERNATIVE_SERVICE) as [m [e| |]]; try discriminate.
  unfold bind, get, ret. destruct e; intros H; injection H as <- <-; [left|right]; reflexivity.
Qed.
Theorem altsvc_on_unknown_stream_ignored sid origin field c c1 :
  sid <> 0 -> cfsm CI_RECV_ALTERNATIVE_SERVICE c = (c1, Ok tt) -> dget sid (c_streams c1) = None ->
  recv_alt_svc sid origin field c = (c1, Ok ([], [])).
Proof.
  intros Hz Hc Hn. unfold recv_alt_svc. unfold bind at 1. rewrite Hc. unfold bind, get.
  destruct (sid =? 0) eqn:E; [apply Z.eqb_eq in E; contradiction|]. cbn [negb]. rewrite Hn. reflexivity.
Qed.
(* the event is produced only by a client-side stream that has not received response headers yet (all reachable states) *)
Definition c24_recv_rule (m : sm) : bool :=
  negb (has_ev SE_AltSvc m SI_RECV_ALTERNATIVE_SERVICE) || (client_side m && negb (sm_hr m)).
Lemma c24_recv_rule_checked : forallb c24_recv_rule reach = true.
Proof. vm_compute. reflexivity. Qed.
Theorem altsvc_event_only_before_response_headers is : c24_recv_rule (run_inputs sm_new is) = true.
Proof. exact (reach_forall c24_recv_rule c24_recv_rule_checked is). Qed.
(* ... and ALTSVC never moves a stream nor raises *)
Definition c24_neutral (m : sm) : bool :=
  match process_input 7 m SI_RECV_ALTERNATIVE_SERVICE with (m', Ok _) => sstate_eqb (sm_state m') (sm_state m) | _ => sstate_eqb (sm_state m) S_IDLE end.
Lemma c24_neutral_checked : forallb c24_neutral reach = true.
Proof. vm_compute. reflexivity. Qed.

(* ---------- C25: upgrade ---------- *)
(* stream 1 after the upgrade: half-closed (local) on the client, half-closed (remote) on the server; the client's role flags
   are those of a stream whose request was sent, the server's those of a received request *)
Theorem upgrade_states :
  let c := fst (process_input 1 sm_new SI_UPGRADE_CLIENT) in let s := fst (process_input 1 sm_new SI_UPGRADE_SERVER) in
  sm_state c = S_HALF_CLOSED_LOCAL /\ sm_client c = Some true /\ sm_hs c = true /\
  sm_state s = S_HALF_CLOSED_REMOTE /\ sm_client s = Some false /\ sm_hr s = true.
Proof. vm_compute. repeat split; reflexivity. Qed.

(* neither side can send a request body on it; the server can answer, the client can receive the answer *)
Theorem upgraded_stream_capabilities :
  let c := fst (process_input 1 sm_new SI_UPGRADE_CLIENT) in let s := fst (process_input 1 sm_new SI_UPGRADE_SERVER) in
  accepted c SI_SEND_DATA = false /\ accepted c SI_SEND_HEADERS = false /\ accepted c SI_SEND_END_STREAM = false /\
  accepted c SI_RECV_HEADERS = true /\ accepted c SI_RECV_DATA = false /\
  accepted (fst (process_input 1 c SI_RECV_HEADERS)) SI_RECV_DATA = true /\
  accepted s SI_SEND_HEADERS = true /\ accepted s SI_RECV_DATA = false /\ accepted s SI_RECV_HEADERS = false.
Proof. vm_compute. repeat split; reflexivity. Qed.

(* the server's view of the client's settings: the HTTP2-Settings payload is applied through the same path as a SETTINGS frame *)
Theorem upgrade_applies_client_settings_like_a_settings_frame vals c :
  client (fst (initiate_connection c)) = false ->
  api_initiate_upgrade (Some vals) c =
  (initiate_connection ;;; (recv_settings false vals ;;; ret tt) ;;; cfsm CI_RECV_HEADERS ;;; begin_new_stream 1 1 ;;;
   with_stream 1 (upgrade false) ;;; ret []) c.
Proof.
  intros Hc. unfold api_initiate_upgrade, bind, get. destruct (initiate_connection c) as [c1 [u| |]]; try reflexivity.
  cbn [fst] in Hc. rewrite Hc. cbn [negb]. unfold ret.
  repeat match goal with |- context [match ?X with (_, _) => _ end] => destruct X as [? [?| |]] end; reflexivity.
Qed.
