(* Proofs/C15Proofs.v — h2's one-pass, stateful inbound header validation (Model/Headers.v: the generator chain of
   utilities.validate_headers) accepts EXACTLY the header lists that satisfy the whole-list RFC 7540 8.1.2 predicate of
   Spec/Rfc812.v, and delivers them unchanged (after cookie joining when normalisation is on). *)
From H2 Require Import Base.Prelude Model.Types Gen.Consts Gen.Guards Model.StreamFSM Model.Headers Model.Stream Spec.Rfc812.

Definition blk (f : hflags) : block := if hf_trailer f then Trailers else if hf_response f then Response else Request.

(* ---- list helpers ---- *)
Lemma is_in_app x a b : is_in x (a ++ b) = is_in x a || is_in x b.
Proof. unfold is_in. apply existsb_app. Qed.
Lemma is_in_rev x l : is_in x (rev l) = is_in x l.
Proof.
  induction l as [|y l IH]; [reflexivity|]. cbn [rev]. rewrite is_in_app, IH. cbn [is_in existsb]. rewrite orb_false_r. apply orb_comm.
Qed.
Lemma existsb_rev {A} (p : A -> bool) l : existsb p (rev l) = existsb p l.
Proof. induction l as [|y l IH]; [reflexivity|]. cbn [rev]. rewrite existsb_app, IH. cbn. rewrite orb_false_r. apply orb_comm. Qed.
Lemma bytes_eqb_sym a b : bytes_eqb a b = bytes_eqb b a.
Proof.
  destruct (bytes_eqb a b) eqn:E1, (bytes_eqb b a) eqn:E2; try reflexivity.
  - apply bytes_eqb_eq in E1. subst. rewrite (proj2 (bytes_eqb_eq b b) eq_refl) in E2. discriminate.
  - apply bytes_eqb_eq in E2. subst. rewrite (proj2 (bytes_eqb_eq a a) eq_refl) in E1. discriminate.
Qed.
Lemma bytes_eqb_refl' a : bytes_eqb a a = true.
Proof. apply bytes_eqb_eq. reflexivity. Qed.

Lemma names_app a b : names (a ++ b) = names a ++ names b.
Proof. unfold names. apply map_app. Qed.
Lemma pseudo_names_app a b : pseudo_names (a ++ b) = pseudo_names a ++ pseudo_names b.
Proof. unfold pseudo_names. rewrite names_app. apply filter_app. Qed.

Lemma value_of_snoc n p n' v ni : value_of n (p ++ [(n', v, ni)]) = if bytes_eqb n' n then Some v else value_of n p.
Proof.
  induction p as [|[[a b] c] p IH]; cbn [app value_of]; [destruct (bytes_eqb n' n); reflexivity|].
  rewrite IH. destruct (bytes_eqb n' n); [reflexivity|]. reflexivity.
Qed.

Lemma pseudo_names_snoc p n v ni : pseudo_names (p ++ [(n, v, ni)]) = pseudo_names p ++ (if pseudo n then [n] else []).
Proof. rewrite pseudo_names_app. reflexivity. Qed.

(* ---- the validator's state after a prefix, as a function of the prefix ---- *)
Definition has_regular (p : list hitem) : bool := existsb (fun n => negb (pseudo n)) (names p).
Definition abs (f : hflags) (p : list hitem) : vstate :=
  mkvs (rev (pseudo_names p)) (has_regular p) (value_of s_method p)
       (if skip_req_checks f then None else value_of s_authority p)
       (if skip_req_checks f then None else value_of s_host p).

Lemma has_regular_snoc p n v ni : has_regular (p ++ [(n, v, ni)]) = has_regular p || negb (pseudo n).
Proof. unfold has_regular. rewrite names_app, existsb_app. cbn. rewrite orb_false_r. reflexivity. Qed.

Lemma abs_nil f : abs f [] = vs0.
Proof. unfold abs, vs0. cbn. destruct (skip_req_checks f); reflexivity. Qed.

(* the condition one more field has to meet, given what came before *)
Definition cond (f : hflags) (p : list hitem) (n v : bytes) : bool :=
  field_ok (blk f) n v &&
  (negb (pseudo n) || (negb (is_in n (pseudo_names p)) && negb (has_regular p) && is_in n known_pseudo)).

Lemma check_ws_spec n v :
  check_ws n v = if negb (match n with [] => true | _ => false end) && no_surrounding_ws n && no_surrounding_ws v then VOk vs0 else VProtocolError.
Proof.
  unfold check_ws, no_surrounding_ws. destruct n as [|c n0]; [reflexivity|]. cbn [negb andb].
  change (is_ws c) with (ws c). change (is_ws (last (c :: n0) 0)) with (ws (last (c :: n0) 0)).
  destruct (ws c); [reflexivity|]. destruct (ws (last (c :: n0) 0)); [reflexivity|]. cbn [orb negb andb].
  destruct v as [|d v0]; [reflexivity|].
  change (is_ws d) with (ws d). change (is_ws (last (d :: v0) 0)) with (ws (last (d :: v0) 0)).
  destruct (ws d); [reflexivity|]. destruct (ws (last (d :: v0) 0)); reflexivity.
Qed.

Lemma flags_block f : hf_trailer f && hf_response f = false ->
  skip_req_checks f = match blk f with Request => false | _ => true end.
Proof. unfold skip_req_checks, blk. destruct (hf_trailer f), (hf_response f); cbn; intros H; try reflexivity; discriminate. Qed.

Lemma step_inbound_spec f p n v ni : hf_trailer f && hf_response f = false ->
  step_inbound f (abs f p) n v = if cond f p n v then VOk (abs f (p ++ [(n, v, ni)])) else VProtocolError.
Proof.
  intros Hf. unfold step_inbound, cond, field_ok, abs.
  change (check_upper n) with (existsb upper n). destruct (existsb upper n) eqn:Eu.
  { destruct n; reflexivity. }
  rewrite check_ws_spec.
  destruct (match n with [] => true | _ :: _ => false end) eqn:Hne.
  { destruct n; [reflexivity|discriminate]. }
  cbn [negb andb].
  destruct (no_surrounding_ws n); [|reflexivity]. destruct (no_surrounding_ws v); [|reflexivity]. cbn [andb].
  unfold step_common.
  change (check_te n v) with (bytes_eqb n s_te && negb (bytes_eqb (map low v) s_trailers)).
  destruct (bytes_eqb n s_te && negb (bytes_eqb (map low v) s_trailers)); [rewrite andb_false_r; reflexivity|].
  change (check_conn n) with (is_in n connection_specific).
  destruct (is_in n connection_specific); [reflexivity|]. cbn [negb andb].
  assert (Hpath : check_path f n v = match blk f with Request => bytes_eqb n s_path && match v with [] => true | _ => false end | _ => false end).
  { unfold check_path. rewrite (flags_block f Hf). destruct (blk f); reflexivity. }
  unfold step_pseudo. change (starts_colon n) with (pseudo n). cbn [vs_pseudo vs_regular vs_method vs_authority vs_host abs].
  destruct (pseudo n) eqn:Ep.
  - change (mem_bytes n (rev (pseudo_names p))) with (is_in n (rev (pseudo_names p))). rewrite is_in_rev.
    destruct (is_in n (pseudo_names p)); [cbn; destruct (match blk f with Request => _ | _ => false end); reflexivity|].
    destruct (has_regular p) eqn:Er; [cbn; destruct (match blk f with Request => _ | _ => false end); reflexivity|].
    change (mem_bytes n ALLOWED_PSEUDO_HEADER_FIELDS) with (is_in n known_pseudo).
    destruct (is_in n known_pseudo); [|cbn; destruct (match blk f with Request => _ | _ => false end); reflexivity].
    cbn [negb andb orb]. rewrite Hpath.
    destruct (match blk f with Request => bytes_eqb n s_path && match v with [] => true | _ => false end | _ => false end); [reflexivity|].
    cbn [negb andb]. f_equal. unfold step_host. cbn [vs_pseudo vs_regular vs_method vs_authority vs_host].
    rewrite pseudo_names_snoc, has_regular_snoc, Ep, Er. rewrite rev_app_distr. cbn [rev app negb orb].
    rewrite !value_of_snoc.
    change b_method with s_method. change b_authority with s_authority. change b_host with s_host.
    destruct (skip_req_checks f); [reflexivity|].
    destruct (bytes_eqb n s_authority) eqn:Ea; [apply bytes_eqb_eq in Ea; subst n; first [discriminate Ep | reflexivity]|].
    destruct (bytes_eqb n s_host) eqn:Eh; reflexivity.
  - cbn [negb orb andb]. rewrite Hpath.
    destruct (match blk f with Request => bytes_eqb n s_path && match v with [] => true | _ => false end | _ => false end); [reflexivity|].
    cbn [negb andb]. f_equal. unfold step_host. cbn [vs_pseudo vs_regular vs_method vs_authority vs_host].
    rewrite pseudo_names_snoc, has_regular_snoc, Ep. rewrite app_nil_r. cbn [negb]. rewrite orb_true_r.
    rewrite !value_of_snoc.
    change b_authority with s_authority. change b_host with s_host.
    assert (Hm : bytes_eqb n s_method = false).
    { destruct (bytes_eqb n s_method) eqn:E; [|reflexivity]. apply bytes_eqb_eq in E. subst n. discriminate Ep. }
    rewrite Hm.
    destruct (skip_req_checks f); [reflexivity|].
    destruct (bytes_eqb n s_authority) eqn:Ea; [apply bytes_eqb_eq in Ea; subst n; first [discriminate Ep | reflexivity]|].
    destruct (bytes_eqb n s_host) eqn:Eh; reflexivity.
Qed.

(* ---- the whole pass ---- *)
Definition decodable (cfg : config) (h : hitem) : bool :=
  negb (cfg_header_encoding cfg && (undecodable (fst (fst h)) || undecodable (snd (fst h)))).

Fixpoint chk (f : hflags) (p q : list hitem) : bool :=
  match q with
  | [] => true
  | (n, v, ni) :: r => cond f p n v && chk f (p ++ [(n, v, ni)]) r
  end.

Lemma step_full_spec cfg f p n v ni : cfg_validate_in cfg = true -> hf_trailer f && hf_response f = false ->
  step_inbound_full cfg f (abs f p) n v =
  if cond f p n v then (if decodable cfg (n, v, ni) then VOk (abs f (p ++ [(n, v, ni)])) else VUnicodeError) else VProtocolError.
Proof.
  intros Hv Hf. unfold step_inbound_full. rewrite Hv, (step_inbound_spec f p n v ni Hf).
  destruct (cond f p n v); [|reflexivity]. unfold decodable. cbn [fst snd].
  destruct (cfg_header_encoding cfg && (undecodable n || undecodable v)); reflexivity.
Qed.

(* the pass ends with PAll exactly when every field meets its condition and can be decoded; it then delivered the whole list and
   its state is the abstract state of the whole list; otherwise it ends with ProtocolError or UnicodeDecodeError, never IndexError *)
Lemma run_steps_spec cfg f : cfg_validate_in cfg = true -> hf_trailer f && hf_response f = false ->
  forall q p passed,
    let '(out, r, s) := run_steps (step_inbound_full cfg f) (abs f p) q passed in
    if chk f p q && forallb (decodable cfg) q then r = PAll /\ out = rev passed ++ q /\ s = abs f (p ++ q)
    else r = PProtocolError \/ r = PUnicodeError.
Proof.
  intros Hv Hf. induction q as [|[[n v] ni] q IH]; intros p passed; cbn [run_steps chk forallb].
  - cbn. rewrite !app_nil_r. auto.
  - rewrite (step_full_spec cfg f p n v ni Hv Hf). destruct (cond f p n v); cbn [andb]; [|left; reflexivity].
    destruct (decodable cfg (n, v, ni)) eqn:Ed.
    + specialize (IH (p ++ [(n, v, ni)]) ((n, v, ni) :: passed)).
      destruct (run_steps _ _ q _) as [[out r] s]. cbn [andb].
      destruct (chk f (p ++ [(n, v, ni)]) q && forallb (decodable cfg) q).
      * destruct IH as (A & B & C). split; [exact A|]. split; [rewrite B; cbn [rev]; rewrite <- app_assoc; reflexivity|].
        rewrite C, <- app_assoc. reflexivity.
      * exact IH.
    + cbn [andb]. rewrite andb_false_r. right. reflexivity.
Qed.

(* ---- the accumulated conditions are the whole-list predicates ---- *)
Lemma is_in_cons x y l : is_in x (y :: l) = bytes_eqb x y || is_in x l.
Proof. reflexivity. Qed.

Lemma forallb_not_in_cons x a b :
  forallb (fun y => negb (is_in y (x :: a))) b = forallb (fun y => negb (bytes_eqb x y)) b && forallb (fun y => negb (is_in y a)) b.
Proof.
  induction b as [|y b IHb]; [reflexivity|]. cbn [forallb]. rewrite IHb, is_in_cons, (bytes_eqb_sym y x).
  generalize (forallb (fun y0 => negb (bytes_eqb x y0)) b) (forallb (fun y0 => negb (is_in y0 a)) b) (bytes_eqb x y) (is_in y a).
  intros [] [] [] []; reflexivity.
Qed.
Lemma not_in_forallb x b : negb (is_in x b) = forallb (fun y => negb (bytes_eqb x y)) b.
Proof. unfold is_in. induction b as [|y b IHb]; [reflexivity|]. cbn. rewrite negb_orb, IHb. reflexivity. Qed.
Lemma forallb_not_in_nil b : forallb (fun x => negb (is_in x [])) b = true.
Proof. induction b; cbn; auto. Qed.

Lemma forallb_not_in_snoc n ps l :
  forallb (fun x => negb (is_in x (ps ++ [n]))) l = forallb (fun x => negb (is_in x ps)) l && negb (is_in n l).
Proof.
  induction l as [|y l IHl]; [reflexivity|]. cbn [forallb]. rewrite IHl, is_in_app, (is_in_cons n y l). cbn [is_in existsb]. rewrite orb_false_r.
  rewrite (bytes_eqb_sym n y).
  generalize (is_in y ps) (bytes_eqb y n) (forallb (fun x => negb (is_in x ps)) l) (existsb (bytes_eqb n) l).
  intros [] [] [] []; reflexivity.
Qed.

Lemma no_dup_app a b : no_dup (a ++ b) = no_dup a && no_dup b && forallb (fun x => negb (is_in x a)) b.
Proof.
  induction a as [|x a IH]; cbn [app no_dup].
  - cbn [andb]. rewrite forallb_not_in_nil, andb_true_r. reflexivity.
  - rewrite IH, is_in_app, forallb_not_in_cons, negb_orb, (not_in_forallb x b).
    generalize (is_in x a) (no_dup a) (no_dup b) (forallb (fun y => negb (bytes_eqb x y)) b) (forallb (fun y => negb (is_in y a)) b).
    intros [] [] [] [] []; reflexivity.
Qed.

Definition fields_ok (f : hflags) (q : list hitem) : bool := forallb (fun h => field_ok (blk f) (fst (fst h)) (snd (fst h))) q.
Definition known_ok (q : list hitem) : bool := forallb (fun x => is_in x known_pseudo) (pseudo_names q).

Lemma pseudo_first_app a b : pseudo_first (a ++ b) = pseudo_first a && (if existsb (fun n => negb (pseudo n)) a then negb (existsb pseudo b) else pseudo_first b).
Proof.
  induction a as [|n a IH]; cbn [app pseudo_first existsb]; [reflexivity|].
  destruct (pseudo n) eqn:Ep; cbn [negb orb].
  - exact IH.
  - rewrite existsb_app, negb_orb. destruct (negb (existsb pseudo a)); reflexivity.
Qed.

Lemma chk_spec f : forall q p,
  chk f p q = fields_ok f q && known_ok q &&
              (if has_regular p then negb (existsb pseudo (names q)) else pseudo_first (names q)) &&
              no_dup (pseudo_names q) && forallb (fun x => negb (is_in x (pseudo_names p))) (pseudo_names q).
Proof.
  induction q as [|[[n v] ni] q IH]; intros p.
  - cbn. destruct (has_regular p); reflexivity.
  - cbn [chk]. rewrite IH. unfold cond, fields_ok, known_ok. cbn [forallb fst snd].
    rewrite has_regular_snoc, pseudo_names_snoc.
    change (pseudo_names ((n, v, ni) :: q)) with (if pseudo n then n :: pseudo_names q else pseudo_names q).
    change (names ((n, v, ni) :: q)) with (n :: names q). cbn [existsb pseudo_first].
    destruct (field_ok (blk f) n v); [|reflexivity]. cbn [andb].
    destruct (pseudo n) eqn:Ep; cbn [negb orb andb].
    + rewrite orb_false_r, app_nil_r || rewrite orb_false_r. cbn [forallb no_dup].
      pose proof (forallb_not_in_snoc n (pseudo_names p) (pseudo_names q)) as E.
      rewrite E.
      destruct (is_in n (pseudo_names p)), (has_regular p), (is_in n known_pseudo), (forallb (fun h => field_ok (blk f) (fst (fst h)) (snd (fst h))) q),
        (forallb (fun x => is_in x known_pseudo) (pseudo_names q)), (pseudo_first (names q)), (negb (existsb pseudo (names q))), (no_dup (pseudo_names q)),
        (forallb (fun x => negb (is_in x (pseudo_names p))) (pseudo_names q)), (negb (is_in n (pseudo_names q))); reflexivity.
    + rewrite orb_true_r, app_nil_r.
      destruct (has_regular p), (forallb (fun h => field_ok (blk f) (fst (fst h)) (snd (fst h))) q),
        (forallb (fun x => is_in x known_pseudo) (pseudo_names q)), (negb (existsb pseudo (names q))), (no_dup (pseudo_names q)),
        (forallb (fun x => negb (is_in x (pseudo_names p))) (pseudo_names q)); reflexivity.
Qed.

Lemma chk_from_nothing f hs :
  chk f [] hs = fields_ok f hs && pseudo_first (names hs) && no_dup (pseudo_names hs) && known_ok hs.
Proof.
  rewrite chk_spec. cbn [has_regular names map existsb pseudo_names filter].
  assert (E : forallb (fun x => negb (is_in x [])) (pseudo_names hs) = true) by (induction (pseudo_names hs); cbn; auto).
  rewrite E, andb_true_r.
  destruct (fields_ok f hs), (known_ok hs), (pseudo_first (names hs)), (no_dup (pseudo_names hs)); reflexivity.
Qed.

(* ---- the end-of-block checks are the role conditions ---- *)
Lemma existsb_single x ps : existsb (fun p => mem_bytes p [x]) ps = is_in x ps.
Proof.
  induction ps as [|y ps IH]; [reflexivity|]. cbn [existsb]. rewrite IH. unfold mem_bytes, is_in. cbn [existsb]. rewrite orb_false_r, (bytes_eqb_sym y x). reflexivity.
Qed.
Lemma rev_nil_iff {A} (l : list A) : (match rev l with [] => true | _ => false end) = (match l with [] => true | _ => false end).
Proof. destruct l as [|x l]; [reflexivity|]. cbn [rev]. destruct (rev l); reflexivity. Qed.

Lemma end_checks_spec f hs : hf_trailer f && hf_response f = false ->
  end_checks f (abs f hs) = negb (role_ok (blk f) hs).
Proof.
  intros Hf. unfold end_checks, role_ok, has, abs. cbn [vs_pseudo vs_method vs_authority vs_host].
  rewrite (flags_block f Hf). unfold blk in *.
  destruct (hf_trailer f) eqn:Et; cbn [andb negb].
  - destruct (hf_response f); [discriminate|]. rewrite rev_nil_iff. destruct (pseudo_names hs); reflexivity.
  - destruct (hf_response f) eqn:Er.
    + change (mem_bytes b_status (rev (pseudo_names hs))) with (is_in s_status (rev (pseudo_names hs))). rewrite is_in_rev, existsb_rev.
      change REQUEST_ONLY_HEADERS with request_pseudo. unfold mem_bytes, is_in.
      generalize (existsb (bytes_eqb s_status) (pseudo_names hs)) (existsb (fun p => existsb (bytes_eqb p) request_pseudo) (pseudo_names hs)).
      intros [] []; reflexivity.
    + cbn [negb].
      change (mem_bytes b_path (rev (pseudo_names hs))) with (is_in s_path (rev (pseudo_names hs))).
      change (mem_bytes b_method (rev (pseudo_names hs))) with (is_in s_method (rev (pseudo_names hs))).
      change (mem_bytes b_scheme (rev (pseudo_names hs))) with (is_in s_scheme (rev (pseudo_names hs))).
      rewrite !is_in_rev, !existsb_rev.
      change RESPONSE_ONLY_HEADERS with [s_status]. change CONNECT_REQUEST_ONLY_HEADERS with [s_protocol]. rewrite !existsb_single.
      change b_CONNECT with s_CONNECT.
      destruct (value_of s_authority hs) as [a|], (value_of s_host hs) as [h|];
        generalize (is_in s_path (pseudo_names hs)) (is_in s_method (pseudo_names hs)) (is_in s_scheme (pseudo_names hs)) (is_in s_status (pseudo_names hs))
                   (is_in s_protocol (pseudo_names hs)) (match value_of s_method hs with Some m => bytes_eqb m s_CONNECT | None => false end);
        try (generalize (bytes_eqb a h)); intros; repeat match goal with b : bool |- _ => destruct b end; reflexivity.
Qed.

(* ---- the theorem ---- *)
Definition delivered (cfg : config) (hs : list hitem) : list hitem := if cfg_normalize_in cfg then combine_cookies hs else hs.

Theorem inbound_validation_accepts_exactly_the_conformant_blocks cfg f hs :
  cfg_validate_in cfg = true -> hf_trailer f && hf_response f = false ->
  process_received_headers cfg f hs =
  if conformant (blk f) (delivered cfg hs) && forallb (decodable cfg) (delivered cfg hs) then Ok (delivered cfg hs) else perr.
Proof.
  intros Hv Hf. unfold process_received_headers, inbound_pipeline, delivered.
  set (hs1 := if cfg_normalize_in cfg then combine_cookies hs else hs).
  pose proof (run_steps_spec cfg f Hv Hf hs1 [] []) as H. rewrite abs_nil in H.
  destruct (run_steps (step_inbound_full cfg f) vs0 hs1 []) as [[out r] s].
  unfold conformant. rewrite chk_from_nothing in H. unfold fields_ok, known_ok in H.
  set (A := forallb (fun h => field_ok (blk f) (fst (fst h)) (snd (fst h))) hs1) in *.
  set (P := pseudo_first (names hs1)) in *. set (N := no_dup (pseudo_names hs1)) in *.
  set (K := forallb (fun x => is_in x known_pseudo) (pseudo_names hs1)) in *.
  set (D := forallb (decodable cfg) hs1) in *.
  destruct (A && P && N && K && D) eqn:E.
  - destruct H as (-> & _ & ->). cbn [app] in *. rewrite Hv. cbn [andb]. rewrite (end_checks_spec f hs1 Hf).
    destruct A, P, N, K, D; try discriminate. cbn [andb]. destruct (role_ok (blk f) hs1); reflexivity.
  - assert (X : A && P && N && K && role_ok (blk f) hs1 && D = false).
    { destruct A, P, N, K, D; try discriminate; cbn; try reflexivity; rewrite andb_false_r; reflexivity. }
    rewrite X. destruct H as [-> | ->]; reflexivity.
Qed.

(* with validation on, nothing but ProtocolError can come out, and what is delivered is the decoded block itself
   (cookie fields joined into one trailing never-indexed field when normalisation is on) *)
Corollary inbound_refusal_is_protocol_error cfg f hs :
  cfg_validate_in cfg = true -> hf_trailer f && hf_response f = false ->
  conformant (blk f) (delivered cfg hs) = false -> process_received_headers cfg f hs = perr.
Proof. intros Hv Hf Hc. rewrite (inbound_validation_accepts_exactly_the_conformant_blocks cfg f hs Hv Hf), Hc. reflexivity. Qed.

Corollary inbound_delivery_is_the_decoded_block cfg f hs :
  cfg_validate_in cfg = true -> hf_trailer f && hf_response f = false -> cfg_header_encoding cfg = false ->
  conformant (blk f) (delivered cfg hs) = true -> process_received_headers cfg f hs = Ok (delivered cfg hs).
Proof.
  intros Hv Hf He Hc. rewrite (inbound_validation_accepts_exactly_the_conformant_blocks cfg f hs Hv Hf), Hc.
  assert (D : forallb (decodable cfg) (delivered cfg hs) = true).
  { unfold decodable. rewrite He. clear. induction (delivered cfg hs) as [|h l IH]; [reflexivity|]. cbn [forallb andb negb]. exact IH. }
  rewrite D. reflexivity.
Qed.

(* the flags H2Stream builds from the first event are never both set *)
Lemma build_flags_exclusive evs f : build_flags evs = Ok f -> hf_trailer f && hf_response f = false.
Proof. destruct evs as [|e evs]; [discriminate|]. cbn. intros H. injection H as <-. destruct e; reflexivity. Qed.
