(* Proofs/Frame.v — frame conditions: which computations leave which projection of the connection
   state unchanged.  Generic in the projection, compositional over the monad, with a tactic that
   walks a handler's syntax. *)
From H2 Require Import Base.Prelude Base.PyDict Model.FsmTypes Gen.Consts Gen.Tables Gen.Guards
  Model.Types Model.Windows Model.WmHist Model.SettingsV Model.Settings Model.StreamFSM Model.Headers
  Model.Stream Model.ConnState Model.Connection.

Section Preserves.
Context {T : Type} (P : conn -> T).

Definition preserves {A} (m : CM A) : Prop := forall c c' r, m c = (c', r) -> P c' = P c.

Lemma pres_ret {A} (a : A) : preserves (ret a).
Proof. intros c c' r H. unfold ret in H. injection H as <- _. reflexivity. Qed.
Lemma pres_fail {A} e code sid rst : preserves (@fail conn A e code sid rst).
Proof. intros c c' r H. unfold fail in H. injection H as <- _. reflexivity. Qed.
Lemma pres_crash {A} p : preserves (@crash conn A p).
Proof. intros c c' r H. unfold crash in H. injection H as <- _. reflexivity. Qed.
Lemma pres_lift_res {A} (x : res A) : preserves (lift_res x).
Proof. intros c c' r H. unfold lift_res in H. injection H as <- _. reflexivity. Qed.
Lemma pres_get : preserves get.
Proof. intros c c' r H. unfold get in H. injection H as <- _. reflexivity. Qed.

Lemma pres_bind {A B} (m : CM A) (k : A -> CM B) :
  preserves m -> (forall a, preserves (k a)) -> preserves (bind m k).
Proof.
  intros Hm Hk c c' r H. unfold bind in H. destruct (m c) as [c1 r1] eqn:E.
  pose proof (Hm _ _ _ E) as H1. destruct r1 as [a|e co i b|p].
  - rewrite (Hk a _ _ _ H). exact H1.
  - injection H as <- _. exact H1.
  - injection H as <- _. exact H1.
Qed.

Lemma pres_modify (f : conn -> conn) : (forall c, P (f c) = P c) -> preserves (modify f).
Proof. intros Hf c c' r H. unfold modify in H. injection H as <- _. apply Hf. Qed.
Lemma pres_put_eq c0 : forall c, P c0 = P c -> forall c' r, put c0 c = (c', r) -> P c' = P c.
Proof. intros c He c' r H. unfold put in H. injection H as <- _. exact He. Qed.

Lemma pres_when b (m : CM unit) : preserves m -> preserves (when b m).
Proof. intros H. destruct b; [exact H | apply pres_ret]. Qed.

Lemma pres_if {A} (b : bool) (m1 m2 : CM A) : preserves m1 -> preserves m2 -> preserves (if b then m1 else m2).
Proof. destruct b; auto. Qed.
End Preserves.

(* projections untouched by the setters of other fields *)
Ltac setters := unfold cset_cfg, cset_state, cset_streams, cset_closed, cset_hi_in, cset_hi_out, cset_local, cset_remote,
  cset_out_win, cset_in_wm, cset_max_out_frame, cset_max_in_frame, cset_out, cset_dec_max_hls, cset_enc_log,
  cset_dec_log, cset_enc_table_size, cset_inbuf.
Ltac cprojs := cbn [c_cfg c_state c_streams c_closed c_hi_in c_hi_out c_local c_remote c_out_win c_in_wm
  c_max_out_frame c_max_in_frame c_out c_dec_max_hls c_enc_log c_dec_log c_enc_table_size c_inbuf].

(* A projection P is [independent of] a setter when P (cset_x c v) = P c; the tactic below proves
   [preserves P m] for handlers built from the monad, by walking the syntax. *)
Ltac pres_step :=
  match goal with
  | |- preserves _ (bind _ _) => apply pres_bind; [|intros ?]
  | |- preserves _ (ret _) => apply pres_ret
  | |- preserves _ (fail _ _ _ _) => apply pres_fail
  | |- preserves _ (crash _) => apply pres_crash
  | |- preserves _ (lift_res _) => apply pres_lift_res
  | |- preserves _ get => apply pres_get
  | |- preserves _ (when _ _) => apply pres_when
  | |- preserves _ (modify _) => apply pres_modify; intros ?; setters; cprojs; reflexivity
  | |- preserves _ (if ?b then _ else _) => destruct b
  | |- preserves _ (match ?x with _ => _ end) => destruct x
  | |- preserves _ (let '(_, _) := ?x in _) => destruct x
  end.
Ltac pres := repeat pres_step.

Section Basic.
Context {T : Type} (P : conn -> T).
(* the hypotheses say which fields P does not read *)
Variable P_state : forall c v, P (cset_state c v) = P c.

Lemma pres_cfsm i : preserves P (cfsm i).
Proof. intros c c' r H. unfold cfsm in H. destruct (conn_transition (c_state c) i); injection H as <- _; apply P_state. Qed.
End Basic.

Section Out.
Context {T : Type} (P : conn -> T).
Variable P_out : forall c v, P (cset_out c v) = P c.
Lemma pres_prepare fs : preserves P (prepare_for_sending fs).
Proof.
  intros c c' r H. unfold prepare_for_sending in H. destruct fs as [|f fs']; [injection H as <- _; reflexivity|].
  destruct (forallb _ _); injection H as <- _; apply P_out.
Qed.
End Out.

Section Streams.
Context {T : Type} (P : conn -> T).
Variable P_streams : forall c v, P (cset_streams c v) = P c.
Lemma pres_with_stream {A} sid (f : SM A) : preserves P (with_stream sid f).
Proof.
  intros c c' r H. unfold with_stream in H. destruct (dget sid (c_streams c)); [|injection H as <- _; reflexivity].
  destruct (f s). injection H as <- _. apply P_streams.
Qed.
Lemma pres_for_streams f : preserves P (for_streams f).
Proof.
  intros c c' r H. unfold for_streams in H.
  match type of H with (let '(_, _) := ?g in _) = _ => destruct g end. injection H as <- _. apply P_streams.
Qed.
End Streams.
