From H2 Require Import Base.Prelude Base.PyDict Model.FsmTypes Gen.Consts Gen.Tables Gen.Guards
  Model.Types Model.Windows Model.WmHist Model.SettingsV Model.Settings Model.StreamFSM Model.Headers
  Model.Stream Model.ConnState Model.Connection Proofs.ConstFacts Proofs.Frame Proofs.FrameConn Proofs.Inv Proofs.InvTac
  Proofs.C29Proofs.

(* ---- the memory of closed streams is capped ---- *)
Definition closed_bounded (c : conn) : Prop := zlen (c_closed c) <= MAX_CLOSED_STREAMS.

Lemma MAX_CLOSED_pos : 0 <= MAX_CLOSED_STREAMS. Proof. vm_compute. discriminate. Qed.

Lemma closed_insert_bounded sid cb d : zlen d <= MAX_CLOSED_STREAMS -> zlen (closed_insert sid cb d) <= MAX_CLOSED_STREAMS.
Proof.
  intros H. unfold closed_insert, g_closed_limit. pose proof (length_dset_le sid cb d) as Hl. pose proof MAX_CLOSED_pos as Hp.
  destruct (zlen (dset sid cb d) >? MAX_CLOSED_STREAMS) eqn:E; [|lia].
  unfold zlen in *. rewrite length_drop_oldest. lia.
Qed.

Lemma fold_closed_insert_bounded (dead : dict stream) : forall d,
  zlen d <= MAX_CLOSED_STREAMS ->
  zlen (fold_left (fun d kv => closed_insert (fst kv) (s_closed_by (snd kv)) d) dead d) <= MAX_CLOSED_STREAMS.
Proof.
  induction dead as [|kv dead IH]; intros d H; cbn [fold_left]; [exact H|].
  apply IH. apply closed_insert_bounded. exact H.
Qed.

Lemma open_streams_bounded r : pres_inv closed_bounded (open_streams r).
Proof.
  intros c c' res Hc H. unfold open_streams in H. injection H as <- _.
  unfold closed_bounded in *. cbn [c_closed cset_closed cset_streams]. apply fold_closed_insert_bounded. exact Hc.
Qed.

Lemma open_streams_bounded' r : pres_inv (fun c => zlen (c_closed c) <= MAX_CLOSED_STREAMS) (open_streams r).
Proof. exact (open_streams_bounded r). Qed.

Ltac sp27 := first [ apply open_streams_bounded'
                   | progress unfold open_outbound_streams | progress unfold open_inbound_streams ].
Ltac go27 := inv_goQ c_closed (fun l : dict (option closedby) => zlen l <= MAX_CLOSED_STREAMS) ltac:(sp27).

Lemma b_send_headers sid hs L es pw pd pe : pres_inv closed_bounded (api_send_headers sid hs L es pw pd pe).
Proof. unfold closed_bounded, api_send_headers. go27. Qed.
Lemma b_recv_headers sid es p d : pres_inv closed_bounded (recv_headers sid es p d).
Proof. unfold closed_bounded, recv_headers. go27. Qed.

Lemma b_dispatch f : pres_inv closed_bounded (dispatch f).
Proof. destruct f; cbn [dispatch]; first [ apply b_recv_headers | unfold closed_bounded; go27 ]. Qed.

Lemma b_receive_frame f : pres_inv closed_bounded (receive_frame f).
Proof.
  intros c c' r Hc H. destruct (receive_frame_decomp c_closed ltac:(ow) f c c' r H) as (c1 & r1 & Hd & He).
  unfold closed_bounded. rewrite He. exact (b_dispatch f c c1 r1 Hc Hd).
Qed.

Theorem closed_streams_memory_bounded os : forall c, closed_bounded c -> closed_bounded (run c os).
Proof.
  intros c Hc.
  assert (Hw : Forall (wf_op (fun _ => True)) os).
  { clear. induction os as [|o os IH]; constructor; [|exact IH]. destruct o; cbn; auto. induction fs; constructor; auto. }
  refine (run_inv closed_bounded (fun _ => True) _ _ _ _ _ b_send_headers _ _ _ _
            _ _ _ _ _ _ _ _ _ _ _ _ (fun f _ => b_receive_frame f) _ os c Hc Hw).
  - intros c0 _. induction (c_inbuf c0); constructor; auto.
  - intros c0 v H0 _. exact H0.
  - intros c0 v H0. exact H0.
  - unfold closed_bounded, initiate_connection; go27.
  - intros; unfold closed_bounded, api_initiate_upgrade; go27.
  - intros; unfold closed_bounded, api_send_data; go27.
  - intros; unfold closed_bounded, api_end_stream; go27.
  - intros; unfold closed_bounded, api_increment_window; go27.
  - intros; unfold closed_bounded, api_push_stream; go27.
  - intros; unfold closed_bounded, api_ping; go27.
  - intros; unfold closed_bounded, api_reset_stream; go27.
  - intros; unfold closed_bounded, api_close_connection; go27.
  - intros; unfold closed_bounded, api_update_settings; go27.
  - intros; unfold closed_bounded, api_advertise_alt_svc; go27.
  - intros; unfold closed_bounded, api_prioritize; go27.
  - intros; unfold closed_bounded, api_acknowledge_received_data; go27.
  - unfold closed_bounded; go27.
  - intros; unfold closed_bounded; go27.
  - intros; unfold closed_bounded; go27.
  - unfold closed_bounded; go27.
  - unfold closed_bounded; go27.
  - intros; unfold closed_bounded, terminate_connection; go27.
Qed.

Lemma closed_bounded_init cfg : closed_bounded (conn_new cfg).
Proof. unfold closed_bounded, conn_new. cbn [c_closed]. vm_compute. discriminate. Qed.

(* ---- frames that do not open streams allocate no stream state ---- *)
Lemma rst_on_unknown_stream_allocates_nothing sid code c c' r :
  dget sid (c_streams c) = None -> recv_rst_stream sid code c = (c', r) ->
  c_streams c' = c_streams c /\ c_closed c' = c_closed c.
Proof.
  intros Hn H. unfold recv_rst_stream in H. unfold bind at 1 in H. unfold cfsm in H.
  destruct (conn_transition (c_state c) CI_RECV_RST_STREAM) as [t|].
  - unfold bind at 1 in H. unfold get at 1 in H. cbn [c_streams cset_state] in H. rewrite Hn in H.
    unfold ret in H. injection H as <- _. split; reflexivity.
  - injection H as <- _. split; reflexivity.
Qed.

Lemma window_update_on_unknown_stream_allocates_nothing sid inc c c' r :
  sid <> 0 -> dget sid (c_streams c) = None -> recv_window_update sid inc c = (c', r) ->
  c_streams c' = c_streams c /\ c_closed c' = c_closed c.
Proof.
  intros Hz Hn H. unfold recv_window_update in H. unfold bind at 1 in H. unfold cfsm in H.
  destruct (conn_transition (c_state c) CI_RECV_WINDOW_UPDATE) as [t|].
  - destruct (sid =? 0) eqn:E; [lia|]. cbn [negb] in H.
    unfold bind at 1 in H. rewrite (get_stream_by_id_unknown sid (cset_state c t)) in H by (destruct c; exact Hn).
    destruct (sid >? highest_for (cset_state c t) sid); injection H as <- _; split; reflexivity.
  - injection H as <- _. split; reflexivity.
Qed.

Lemma unknown_frame_changes_nothing ft sid c : dispatch (RUnknown ft sid) c = (c, Ok ([], [EUnknownFrameReceived ft])).
Proof. reflexivity. Qed.
