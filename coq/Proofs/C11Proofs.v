From H2 Require Import Base.Prelude Base.PyDict Gen.Consts Model.SettingsV Model.Settings.

(* ---- __setitem__ ---- *)
Lemma ssetitem_ok k v s : validate_setting k v = 0 ->
  ssetitem k v s = (dset k ((match dget k s with Some q => q | None => [None] end) ++ [Some v]) s, Ok tt).
Proof. intros H. unfold ssetitem. rewrite H. reflexivity. Qed.

Lemma ssetitem_invalid k v s : validate_setting k v <> 0 ->
  ssetitem k v s = (s, Err InvalidSettingsValueError (validate_setting k v) 0 false).
Proof. intros H. unfold ssetitem. destruct (validate_setting k v =? 0) eqn:E; [lia|]. reflexivity. Qed.

(* ---- update(): effect on every key, for a dict argument (distinct keys) ---- *)
Fixpoint lookup (k : Z) (kvs : list (Z * Z)) : option Z :=
  match kvs with [] => None | (k', v) :: r => if k =? k' then Some v else lookup k r end.

Definition queue_of (k : Z) (s : settings) : list (option Z) := match dget k s with Some q => q | None => [None] end.

Lemma supdate_effect kvs : forall s s1,
  NoDup (map fst kvs) -> supdate kvs s = (s1, Ok tt) ->
  forall k, dget k s1 = match lookup k kvs with
                        | Some v => Some (queue_of k s ++ [Some v])
                        | None => dget k s
                        end.
Proof.
  induction kvs as [|[k0 v0] r IH]; intros s s1 Hnd H k; cbn [supdate lookup] in *.
  - injection H as <-. reflexivity.
  - unfold ssetitem in H. destruct (negb (validate_setting k0 v0 =? 0)); [discriminate|].
    inversion Hnd as [|? ? Hnotin Hnd']; subst.
    rewrite (IH _ _ Hnd' H k).
    destruct (k =? k0) eqn:E.
    + apply Z.eqb_eq in E. subst k0.
      assert (Hl : lookup k r = None).
      { clear -Hnotin. induction r as [|[k1 v1] r IH]; cbn [lookup map fst] in *; [reflexivity|].
        destruct (k =? k1) eqn:E; [apply Z.eqb_eq in E; subst; exfalso; apply Hnotin; left; reflexivity|].
        apply IH. intros Hin. apply Hnotin. right. exact Hin. }
      rewrite Hl. rewrite dget_dset_same. reflexivity.
    + assert (Hne : k0 <> k) by lia.
      destruct (lookup k r) as [v|].
      * unfold queue_of. rewrite (dget_dset_other k0 k _ _ Hne). reflexivity.
      * rewrite (dget_dset_other k0 k _ _ Hne). reflexivity.
Qed.

(* ---- acknowledge(): every queue moves one step if it has a pending value ---- *)
Definition ackq (q : list (option Z)) : list (option Z) :=
  match q with old :: ((_ :: _) as q') => q' | _ => q end.

Lemma sacknowledge_effect s k : dget k (fst (sacknowledge s)) = option_map ackq (dget k s).
Proof.
  induction s as [|[k0 q] r IH]; cbn [sacknowledge dget option_map fst]; [reflexivity|].
  destruct (sacknowledge r) as [r' ch] eqn:E. cbn [fst] in IH.
  destruct q as [|old [|[new|] q2]]; cbn [fst dget ackq];
    (destruct (k =? k0); [reflexivity | exact IH]).
Qed.

(* ---- one SETTINGS frame applied in full by one acknowledgement ---- *)
Definition settled (s : settings) : Prop := forall k q, dget k s = Some q -> exists o, q = [o].

Theorem one_frame_one_ack kvs s s1 :
  settled s -> NoDup (map fst kvs) -> supdate kvs s = (s1, Ok tt) ->
  let s2 := fst (sacknowledge s1) in
  (forall k v, lookup k kvs = Some v -> sget k s2 = Some v) /\
  (forall k, lookup k kvs = None -> dget k s2 = dget k s) /\
  settled s2.
Proof.
  intros Hs Hnd Hu s2. subst s2. pose proof (supdate_effect kvs s s1 Hnd Hu) as He.
  split; [|split].
  - intros k v Hl. unfold sget. rewrite sacknowledge_effect, (He k), Hl. cbn [option_map].
    unfold queue_of. destruct (dget k s) as [q|] eqn:Eq.
    + destruct (Hs k q Eq) as [o ->]. reflexivity.
    + reflexivity.
  - intros k Hl. rewrite sacknowledge_effect, (He k), Hl.
    destruct (dget k s) as [q|] eqn:Eq; [|reflexivity]. destruct (Hs k q Eq) as [o ->]. reflexivity.
  - intros k q Hq. rewrite sacknowledge_effect, (He k) in Hq.
    destruct (lookup k kvs) as [v|] eqn:Hl; cbn [option_map] in Hq.
    + unfold queue_of in Hq. destruct (dget k s) as [q0|] eqn:Eq.
      * destruct (Hs k q0 Eq) as [o ->]. injection Hq as <-. eexists. reflexivity.
      * injection Hq as <-. eexists. reflexivity.
    + destruct (dget k s) as [q0|] eqn:Eq; [|discriminate]. destruct (Hs k q0 Eq) as [o ->].
      injection Hq as <-. eexists. reflexivity.
Qed.

(* a fresh Settings object is settled *)
Lemma settled_defaults client : settled (settings_defaults client).
Proof.
  unfold settled, settings_defaults. intros k q H.
  destruct client; cbn in H;
    repeat match type of H with
           | (if ?b then _ else _) = _ => destruct b; [injection H as <-; eexists; reflexivity|]
           end; discriminate.
Qed.
