(* Proofs/RoleInv.v — the connection state machine agrees with the configured role, after EVERY history:
   a client-side connection is never SERVER_OPEN and a server-side one never CLIENT_OPEN (between two operations),
   and an IDLE connection has no stream objects.  This is what fixes 12650a7, 09dbf89, 4e7b916 and 1fed9f8 restore:
   before them each of send_headers on a server, HEADERS received by a client, advertise_alternative_service on a
   client and ALTSVC received by a server drove the state machine to the other role's state.

   Inside receive_data the invariant is broken transiently (a client that receives HEADERS in IDLE is SERVER_OPEN
   until the ProtocolError it raises closes the connection), so the lifting to histories is done here rather than
   with InvTac.run_inv. *)
From H2 Require Import Base.Prelude Base.PyDict Model.FsmTypes Gen.Consts Gen.Tables Gen.Guards
  Model.Types Model.Windows Model.WmHist Model.SettingsV Model.Settings Model.StreamFSM Model.Headers
  Model.Stream Model.ConnState Model.Connection Proofs.ConstFacts Proofs.Frame Proofs.FrameConn Proofs.Inv Proofs.InvTac
  Proofs.C0708Proofs Proofs.RoleOpen Proofs.C22Full.

(* ---------- the invariant family ---------- *)
Definition PR (c : conn) : bool * cstate * dict stream * dict (option closedby) :=
  (cfg_client (c_cfg c), c_state c, c_streams c, c_closed c).
Definition QX (X : bool -> cstate -> Prop) (p : bool * cstate * dict stream * dict (option closedby)) : Prop :=
  let '(b, s, ss, cl) := p in (s = C_IDLE -> ss = [] /\ cl = []) /\ X b s.
Definition Inv (X : bool -> cstate -> Prop) (c : conn) : Prop := QX X (PR c).

Definition Rv (b : bool) (s : cstate) : Prop := (b = true -> s <> C_SERVER_OPEN) /\ (b = false -> s <> C_CLIENT_OPEN).
Definition Nv (b : bool) (s : cstate) : Prop := Rv b s /\ s <> C_IDLE.
Definition role_inv : conn -> Prop := Inv Rv.      (* the invariant *)
Definition role_nonidle : conn -> Prop := Inv Nv.  (* ... on a connection that has left IDLE *)

Lemma inv_weaken (X Y : bool -> cstate -> Prop) c : (forall b s, X b s -> Y b s) -> Inv X c -> Inv Y c.
Proof. unfold Inv, QX, PR. intros H [H1 H2]. split; [exact H1 | exact (H _ _ H2)]. Qed.
Lemma nonidle_role c : role_nonidle c -> role_inv c.
Proof. apply inv_weaken. intros b s [H _]. exact H. Qed.
Lemma closed_role c v : c_state c = C_CLOSED -> role_inv (cset_out c v) /\ role_inv c.
Proof. intros H. unfold role_inv, Inv, QX, PR, Rv. destruct c; cbn in *. subst. repeat split; intros; discriminate. Qed.

(* ---------- table facts (by computation on the regenerated table) ---------- *)
Lemma tr_into_idle s i : conn_transition s i = Some C_IDLE -> s = C_IDLE.
Proof. destruct s, i; cbn; intros H; try discriminate; reflexivity. Qed.
Lemma tr_from_open s i t : s <> C_IDLE -> conn_transition s i = Some t -> t = s \/ t = C_CLOSED.
Proof. destruct s, i; cbn; intros Hn H; try discriminate; try contradiction; injection H as <-; auto. Qed.
Definition neutral (i : cinput) : bool :=
  match i with CI_SEND_HEADERS | CI_RECV_HEADERS | CI_SEND_ALTERNATIVE_SERVICE => false | _ => true end.
Lemma tr_neutral s i t : neutral i = true -> conn_transition s i = Some t -> t = s \/ t = C_CLOSED.
Proof. destruct s, i; cbn; intros Hn H; try discriminate; injection H as <-; auto. Qed.

(* ---------- primitives ---------- *)
(* a computation that keeps role and state, and keeps an empty stream table empty *)
Definition emp_keep {A} (m : CM A) : Prop :=
  forall c c' r, m c = (c', r) ->
    c_cfg c' = c_cfg c /\ c_state c' = c_state c /\ (c_streams c = [] -> c_closed c = [] -> c_streams c' = [] /\ c_closed c' = []).
Lemma inv_emp_keep {A} (X : bool -> cstate -> Prop) (m : CM A) : emp_keep m -> pres_inv (Inv X) m.
Proof.
  intros Hk c c' r Hi H. destruct (Hk _ _ _ H) as (H1 & H2 & H3). unfold Inv, QX, PR in *. rewrite H1, H2.
  destruct Hi as [HJ HX]. split; [|exact HX]. intros Hs. destruct (HJ Hs) as [Ha Hb]. exact (H3 Ha Hb).
Qed.

Lemma ek_with_stream {A} sid (f : SM A) : emp_keep (with_stream sid f).
Proof.
  intros c c' r H. unfold with_stream in H. destruct (dget sid (c_streams c)) eqn:E.
  - destruct (f s). injection H as <- _. destruct c; cbn in *. split; [reflexivity|]. split; [reflexivity|].
    intros Hs. rewrite Hs in E. discriminate.
  - injection H as <- _. auto.
Qed.
Lemma ek_for_streams f : emp_keep (for_streams f).
Proof.
  intros c c' r H. unfold for_streams in H.
  match type of H with (let '(_, _) := ?g in _) = _ => destruct g as [ss rr] eqn:Eg end. injection H as <- _.
  destruct c; cbn in *. split; [reflexivity|]. split; [reflexivity|].
  intros Hs Hc. rewrite Hs in Eg. injection Eg as <- _. auto.
Qed.
Lemma ek_open_streams r : emp_keep (open_streams r).
Proof.
  intros c c' x H. unfold open_streams in H. injection H as <- _. destruct c; cbn in *.
  split; [reflexivity|]. split; [reflexivity|]. intros -> ->. cbn. auto.
Qed.
Lemma ek_open_outbound : emp_keep open_outbound_streams.
Proof. intros c c' x H. unfold open_outbound_streams, bind, get in H. exact (ek_open_streams _ _ _ _ H). Qed.
Lemma ek_open_inbound : emp_keep open_inbound_streams.
Proof. intros c c' x H. unfold open_inbound_streams, bind, get in H. exact (ek_open_streams _ _ _ _ H). Qed.

Lemma ek_modify_frame_size new g :
  emp_keep (modify (fun c => cset_streams (cset_max_out_frame c new) (dmapv g (c_streams c)))).
Proof.
  intros c c' r H. unfold modify in H. injection H as <- _. destruct c; cbn in *.
  split; [reflexivity|]. split; [reflexivity|]. intros -> ->. cbn. auto.
Qed.

(* the state machine: from a state that is not IDLE every input keeps the role; from any state a neutral input does *)
Lemma cfsm_nonidle i : pres_inv role_nonidle (cfsm i).
Proof.
  intros c c' r Hi H. unfold cfsm in H. unfold role_nonidle, Inv, QX, PR, Nv, Rv in *.
  destruct c; cbn in *. destruct Hi as [HJ [[Ha Hb] Hn]].
  destruct (conn_transition c_state i) as [t|] eqn:Et; injection H as <- _; cbn.
  - destruct (tr_from_open _ _ _ Hn Et) as [-> | ->].
    + split; [exact HJ|]. split; [split; assumption|exact Hn].
    + split; [intros; discriminate|]. split; [split; intros; discriminate|discriminate].
  - split; [intros; discriminate|]. split; [split; intros; discriminate|discriminate].
Qed.
Lemma cfsm_neutral (X : bool -> cstate -> Prop) i :
  neutral i = true -> (forall b s, X b s -> X b C_CLOSED) -> pres_inv (Inv X) (cfsm i).
Proof.
  intros Hn HC c c' r Hi H. unfold cfsm in H. unfold Inv, QX, PR in *.
  destruct c; cbn in *. destruct Hi as [HJ HX].
  destruct (conn_transition c_state i) as [t|] eqn:Et; injection H as <- _; cbn.
  - destruct (tr_neutral _ _ _ Hn Et) as [-> | ->]; [split; auto|]. split; [intros; discriminate|exact (HC _ _ HX)].
  - split; [intros; discriminate|exact (HC _ _ HX)].
Qed.
Lemma Rv_closed b : Rv b C_CLOSED. Proof. split; intros; discriminate. Qed.

(* creating a stream object is fine once the connection has left IDLE *)
Lemma nonidle_begin_new_stream sid a : pres_inv role_nonidle (begin_new_stream sid a).
Proof.
  intros c c' r Hi H. unfold begin_new_stream, bind, get in H.
  destruct (g_begin_low _ _); [injection H as <- _; exact Hi|].
  destruct (g_begin_parity _ _); [unfold lift_res in H; injection H as <- _; exact Hi|].
  unfold modify in H. injection H as <- _.
  unfold role_nonidle, Inv, QX, PR, Nv in *. destruct c; cbn in *. destruct (is_outbound _ _); cbn;
    (destruct Hi as [HJ [HR Hn]]; split; [intros; contradiction | split; assumption]).
Qed.
Lemma nonidle_get_or_create sid a : pres_inv role_nonidle (get_or_create_stream sid a).
Proof.
  intros c c' r Hi H. unfold get_or_create_stream, bind, get in H.
  destruct (dmem sid (c_streams c)); [injection H as <- _; exact Hi|]. exact (nonidle_begin_new_stream sid a _ _ _ Hi H).
Qed.

(* ---------- operations that neither create stream objects nor use a role-changing input ---------- *)
Lemma Nv_closed b : Nv b C_CLOSED. Proof. split; [apply Rv_closed|discriminate]. Qed.
Ltac rsp :=
  first
  [ apply inv_emp_keep; first [ apply ek_with_stream | apply ek_for_streams | apply ek_open_streams
                              | apply ek_open_outbound | apply ek_open_inbound | apply ek_modify_frame_size ]
  | apply cfsm_nonidle
  | apply nonidle_begin_new_stream | apply nonidle_get_or_create
  | apply cfsm_neutral;
      [ reflexivity
      | first [ intros ? ? _; apply Rv_closed | intros ? ? _; apply Nv_closed
              | intros ? ? [? ?]; split; [apply Rv_closed | assumption] ] ]
  | progress unfold flow_control_change_from_settings
  | progress unfold acknowledge_settings | progress unfold local_settings_acked
  | progress unfold recv_priority | progress unfold terminate_connection ].
Ltac rgo X := unfold role_inv, role_nonidle, Inv; inv_goQ PR (QX X) ltac:(rsp).

Lemma ri_initiate : pres_inv role_inv initiate_connection. Proof. unfold initiate_connection. rgo Rv. Qed.
Lemma ri_send_data sid len es pad : pres_inv role_inv (api_send_data sid len es pad). Proof. unfold api_send_data. rgo Rv. Qed.
Lemma ri_end_stream sid : pres_inv role_inv (api_end_stream sid). Proof. unfold api_end_stream. rgo Rv. Qed.
Lemma ri_increment inc sid : pres_inv role_inv (api_increment_window inc sid). Proof. unfold api_increment_window. rgo Rv. Qed.
Lemma ri_ping pl : pres_inv role_inv (api_ping pl). Proof. unfold api_ping. rgo Rv. Qed.
Lemma ri_reset sid code : pres_inv role_inv (api_reset_stream sid code). Proof. unfold api_reset_stream. rgo Rv. Qed.
Lemma ri_close code last dbg : pres_inv role_inv (api_close_connection code last dbg). Proof. unfold api_close_connection. rgo Rv. Qed.
Lemma ri_update kvs : pres_inv role_inv (api_update_settings kvs). Proof. unfold api_update_settings. rgo Rv. Qed.
Lemma ri_prioritize sid w d e : pres_inv role_inv (api_prioritize sid w d e). Proof. unfold api_prioritize. rgo Rv. Qed.
Lemma ri_ack n sid : pres_inv role_inv (api_acknowledge_received_data n sid). Proof. unfold api_acknowledge_received_data. rgo Rv. Qed.
Lemma ri_next : pres_inv role_inv api_next_stream_id. Proof. rgo Rv. Qed.
Lemma ri_lw sid : pres_inv role_inv (local_flow_control_window sid). Proof. rgo Rv. Qed.
Lemma ri_rw sid : pres_inv role_inv (remote_flow_control_window sid). Proof. rgo Rv. Qed.
Lemma ri_oo : pres_inv role_inv open_outbound_streams. Proof. rgo Rv. Qed.
Lemma ri_oi : pres_inv role_inv open_inbound_streams. Proof. rgo Rv. Qed.
Lemma ri_terminate code : pres_inv role_inv (terminate_connection code). Proof. rgo Rv. Qed.

Lemma ri_recv_data sid len fclen es : pres_inv role_inv (recv_data sid len fclen es).
Proof.
  unfold recv_data. unfold role_inv, Inv. apply pinv_bind; [rgo Rv|intros _]. apply pinv_bind; [rgo Rv|intros _].
  intros c c' r Hi H.
  destruct ((get_stream_by_id sid;;; with_stream sid (receive_data len fclen es)) c) as [c1 r1] eqn:E.
  assert (H1 : QX Rv (PR c1)).
  { assert (X : pres_inv (fun c => QX Rv (PR c)) (get_stream_by_id sid;;; with_stream sid (receive_data len fclen es))) by rgo Rv.
    exact (X _ _ _ Hi E). }
  destruct r1 as [evs|e co i b|q]; try (injection H as <- _; exact H1).
  destruct e; try (injection H as <- _; exact H1).
  destruct (process_bytes (c_in_wm c1) fclen). injection H as <- _. destruct c1; exact H1.
Qed.
Lemma ri_recv_settings ack vals : pres_inv role_inv (recv_settings ack vals). Proof. unfold recv_settings. rgo Rv. Qed.
Lemma ri_recv_window_update sid inc : pres_inv role_inv (recv_window_update sid inc).
Proof.
  unfold recv_window_update. unfold role_inv, Inv. apply pinv_bind; [rgo Rv|intros _].
  destruct (negb (sid =? 0)); [|rgo Rv].
  intros c c' r Hi H.
  destruct ((get_stream_by_id sid;;; with_stream sid (receive_window_update inc)) c) as [c1 r1] eqn:E.
  assert (H1 : QX Rv (PR c1)).
  { assert (X : pres_inv (fun c => QX Rv (PR c)) (get_stream_by_id sid;;; with_stream sid (receive_window_update inc))) by rgo Rv.
    exact (X _ _ _ Hi E). }
  destruct r1 as [x|e co i b|q]; try (injection H as <- _; exact H1).
  destruct e; injection H as <- _; exact H1.
Qed.
Lemma ri_recv_ping ack pl : pres_inv role_inv (recv_ping ack pl). Proof. unfold recv_ping. rgo Rv. Qed.
Lemma ri_recv_rst sid code : pres_inv role_inv (recv_rst_stream sid code). Proof. unfold recv_rst_stream. rgo Rv. Qed.
Lemma ri_recv_priority sid p : pres_inv role_inv (recv_priority sid p). Proof. rgo Rv. Qed.
Lemma ri_recv_goaway l co d : pres_inv role_inv (recv_goaway l co d). Proof. unfold recv_goaway. rgo Rv. Qed.
Lemma ri_recv_cont sid : pres_inv role_inv (recv_naked_continuation sid). Proof. unfold recv_naked_continuation. rgo Rv. Qed.
Lemma ri_recv_alt_svc sid o f : pres_inv role_inv (recv_alt_svc sid o f). Proof. unfold recv_alt_svc. rgo Rv. Qed.

(* ---------- operations that create stream objects or use a role-changing input ---------- *)
(* [hoare I1 m I2]: from I1, a normal return satisfies I2 and an exceptional one the role invariant *)
Definition hoare {A} (I1 : conn -> Prop) (m : CM A) (I2 : A -> conn -> Prop) : Prop :=
  forall c c' r, I1 c -> m c = (c', r) -> match r with Ok a => I2 a c' | _ => role_inv c' end.
Lemma hoare_bind {A B} I1 (m : CM A) I2 (k : A -> CM B) I3 :
  hoare I1 m I2 -> (forall a, hoare (I2 a) (k a) I3) -> hoare I1 (bind m k) I3.
Proof.
  intros Hm Hk c c' r Hi H. unfold bind in H. destruct (m c) as [c1 r1] eqn:E. pose proof (Hm _ _ _ Hi E) as H1.
  destruct r1 as [a|e co i b|p]; [exact (Hk a _ _ _ H1 H) | injection H as <- <-; exact H1 | injection H as <- <-; exact H1].
Qed.
Lemma hoare_pinv {A} (I : conn -> Prop) (m : CM A) : (forall c, I c -> role_inv c) -> pres_inv I m -> hoare I m (fun _ => I).
Proof. intros Hw Hp c c' r Hi H. pose proof (Hp _ _ _ Hi H) as H1. destruct r; auto. Qed.
Lemma hoare_get (I : conn -> Prop) : (forall c, I c -> role_inv c) -> hoare I get (fun a c => I c /\ a = c).
Proof. intros Hw c c' r Hi H. unfold get in H. injection H as <- <-. auto. Qed.
Lemma hoare_pre {A} (I1 I1' : conn -> Prop) (m : CM A) I2 : (forall c, I1' c -> I1 c) -> hoare I1 m I2 -> hoare I1' m I2.
Proof. intros Hw Hh c c' r Hi H. exact (Hh _ _ _ (Hw _ Hi) H). Qed.
Lemma hoare_post {A} I1 (m : CM A) (I2 I2' : A -> conn -> Prop) : (forall a c, I2 a c -> I2' a c) -> hoare I1 m I2 -> hoare I1 m I2'.
Proof. intros Hw Hh c c' r Hi H. pose proof (Hh _ _ _ Hi H) as H1. destruct r; auto. Qed.
Lemma hoare_done {A} (m : CM A) : hoare role_inv m (fun _ => role_inv) -> pres_inv role_inv m.
Proof. intros Hh c c' r Hi H. pose proof (Hh _ _ _ Hi H) as H1. destruct r; exact H1. Qed.

(* an input after which the connection is open in the configured role (or the call fails and the connection closes) *)
Lemma cfsm_to_nonidle i (X : bool -> cstate -> Prop) :
  (forall b s t, X b s -> conn_transition s i = Some t -> Nv b t) -> hoare (Inv X) (cfsm i) (fun _ => role_nonidle).
Proof.
  intros HX c c' r Hi H. unfold cfsm in H. unfold Inv, QX, PR in Hi. destruct c; cbn in *. destruct Hi as [HJ Hx].
  destruct (conn_transition c_state i) as [t|] eqn:Et; injection H as <- <-.
  - pose proof (HX _ _ _ Hx Et) as [Hr Hn]. unfold role_nonidle, Inv, QX, PR, Nv; cbn. split; [intros; contradiction|auto].
  - unfold role_inv, Inv, QX, PR; cbn. split; [intros; discriminate|apply Rv_closed].
Qed.
Lemma nonidle_rest {A} (m : CM A) : pres_inv role_nonidle m -> hoare role_nonidle m (fun _ => role_inv).
Proof. intros Hp. apply hoare_post with (I2 := fun _ => role_nonidle); [intros _; apply nonidle_role|]. apply hoare_pinv; [apply nonidle_role|exact Hp]. Qed.

(* push_stream *)
Lemma ri_push sid pr hs L : pres_inv role_inv (api_push_stream sid pr hs L).
Proof.
  apply hoare_done. unfold api_push_stream.
  apply hoare_bind with (I2 := fun _ => role_inv); [apply hoare_pinv; [auto|rgo Rv]|intros c0].
  apply hoare_bind with (I2 := fun _ => role_inv); [apply hoare_pinv; [auto|rgo Rv]|intros _].
  apply hoare_bind with (I2 := fun _ => role_nonidle).
  - apply (cfsm_to_nonidle CI_SEND_PUSH_PROMISE Rv). intros b s t [Ha Hb] Ht. destruct s; cbn in Ht; try discriminate.
    injection Ht as <-. split; [split; assumption|discriminate].
  - intros _. apply nonidle_rest. rgo Nv.
Qed.

(* send_headers: a server first looks the stream up (fix 12650a7); an IDLE connection has no streams, so a server that
   gets past the lookup has left IDLE *)
Definition Sv (b : bool) (s : cstate) : Prop := Rv b s /\ (b = true \/ s <> C_IDLE).
Lemma Sv_closed b s : Sv b s -> Sv b C_CLOSED.
Proof. intros _. split; [apply Rv_closed|right; discriminate]. Qed.
Lemma ri_send_headers sid hs L es pw pd pe : pres_inv role_inv (api_send_headers sid hs L es pw pd pe).
Proof.
  apply hoare_done. unfold api_send_headers.
  apply hoare_bind with (I2 := fun a c => role_inv c /\ a = c); [apply hoare_get; auto|intros c0].
  apply hoare_bind with (I2 := fun _ => Inv Sv).
  { intros c c' r [Hi ->] H. destruct (client c) eqn:Ec.
    - unfold ret in H. injection H as <- <-. unfold role_inv, Inv, QX, PR, Sv in *. unfold client in Ec. rewrite Ec in *.
      destruct Hi as [HJ HR]. split; [exact HJ|]. split; [exact HR|left; reflexivity].
    - unfold bind in H. destruct (get_stream_by_id sid c) as [c1 r1] eqn:E.
      assert (c1 = c) as -> by (unfold get_stream_by_id, bind, get in E; destruct (dget sid (c_streams c));
                                [unfold ret in E|destruct (g_get_stream_nosuch _ _); unfold fail, lift_res in E]; injection E as <- _; reflexivity).
      destruct r1 as [s|e co i b|p]; [|injection H as <- <-; exact Hi|injection H as <- <-; exact Hi].
      unfold ret in H. injection H as <- <-.
      assert (Hs : dget sid (c_streams c) <> None).
      { unfold get_stream_by_id, bind, get in E. destruct (dget sid (c_streams c)); [discriminate|].
        destruct (g_get_stream_nosuch _ _); discriminate. }
      unfold role_inv, Inv, QX, PR, Sv in *. destruct Hi as [HJ HR]. split; [exact HJ|]. split; [exact HR|]. right.
      intros Hidle. destruct (HJ Hidle) as [He _]. rewrite He in Hs. apply Hs. reflexivity. }
  intros _.
  apply hoare_bind with (I2 := fun _ => Inv Sv).
  { apply hoare_pinv; [intros c; apply inv_weaken; intros b s [H _]; exact H|].
    unfold Inv. inv_goQ PR (QX Sv) ltac:(rsp). }
  intros _.
  apply hoare_bind with (I2 := fun _ => role_nonidle).
  - apply (cfsm_to_nonidle CI_SEND_HEADERS Sv). intros b s t [[Ha Hb] Hc] Ht. destruct s; cbn in Ht; try discriminate; injection Ht as <-.
    + destruct Hc as [-> | Hc]; [|contradiction]. split; [split; [discriminate|discriminate]|discriminate].
    + split; [split; assumption|discriminate].
    + split; [split; assumption|discriminate].
  - intros _. apply nonidle_rest. rgo Nv.
Qed.

(* advertise_alternative_service: only servers get as far as the state machine (fix 4e7b916) *)
Definition Fv (b : bool) (s : cstate) : Prop := Rv b s /\ b = false.
Lemma ri_altsvc f o s : pres_inv role_inv (api_advertise_alt_svc f o s).
Proof.
  unfold api_advertise_alt_svc. destruct o as [og|], s as [i|];
    try (intros c c' r Hi H; unfold crash in H; injection H as <- _; exact Hi);
    (apply hoare_done;
     apply hoare_bind with (I2 := fun a c => role_inv c /\ a = c); [apply hoare_get; auto|intros c0];
     apply hoare_bind with (I2 := fun _ => Inv Fv);
     [ intros c c' r [Hi ->] H; destruct (client c) eqn:Ec;
       [ unfold lift_res, perr in H; injection H as <- <-; exact Hi
       | unfold ret in H; injection H as <- <-; unfold role_inv, Inv, QX, PR, Fv in *; unfold client in Ec; rewrite Ec in *;
         destruct Hi as [HJ HR]; split; [exact HJ|split; [exact HR|reflexivity]] ]
     | intros _ ];
     apply hoare_bind with (I2 := fun _ => role_nonidle);
     [ apply (cfsm_to_nonidle CI_SEND_ALTERNATIVE_SERVICE Fv); intros b st t [[Ha Hb] ->] Ht;
       destruct st; cbn in Ht; try discriminate; injection Ht as <-; (split; [split; [discriminate|discriminate]|discriminate])
     | intros _; apply nonidle_rest; rgo Nv ]).
Qed.

(* PUSH_PROMISE: accepted by the state machine only on an open client connection *)
Lemma ri_recv_push_promise sid pr d : pres_inv role_inv (recv_push_promise sid pr d).
Proof.
  apply hoare_done. unfold recv_push_promise.
  apply hoare_bind with (I2 := fun _ => role_inv); [apply hoare_pinv; [auto|rgo Rv]|intros c0].
  apply hoare_bind with (I2 := fun _ => role_inv); [apply hoare_pinv; [auto|rgo Rv]|intros _].
  apply hoare_bind with (I2 := fun _ => role_inv); [apply hoare_pinv; [auto|rgo Rv]|intros hs].
  apply hoare_bind with (I2 := fun _ => role_nonidle).
  - apply (cfsm_to_nonidle CI_RECV_PUSH_PROMISE Rv). intros b s t [Ha Hb] Ht. destruct s; cbn in Ht; try discriminate.
    injection Ht as <-. split; [split; assumption|discriminate].
  - intros _. apply nonidle_rest. rgo Nv.
    intros c c' r Hi H.
    match type of H with (match ?m c with _ => _ end) = _ => destruct (m c) as [c2 r2] eqn:E end.
    assert (H2 : QX Nv (PR c2)).
    { assert (X : pres_inv (fun c => QX Nv (PR c)) (with_stream sid (receive_push_promise_in_band (c_cfg a) pr hs))) by rgo Nv.
      exact (X _ _ _ Hi E). }
    destruct r2 as [evs|e co i b|q]; [|destruct e; injection H as <- _; exact H2|injection H as <- _; exact H2].
    assert (X : pres_inv (fun c => QX Nv (PR c)) (begin_new_stream pr 0;;; with_stream pr (remotely_pushed hs);;; ret (([] : list frame), evs))) by rgo Nv.
    exact (X _ _ _ H2 H).
Qed.

(* h2c upgrade: the input fed to the state machine is the one of the configured role *)
Definition Uv (b0 b : bool) (s : cstate) : Prop := Rv b s /\ b = b0.
Lemma ri_upgrade hdr : pres_inv role_inv (api_initiate_upgrade hdr).
Proof.
  apply hoare_done. unfold api_initiate_upgrade.
  apply hoare_bind with (I2 := fun _ => role_inv); [apply hoare_pinv; [auto|apply ri_initiate]|intros _].
  apply hoare_bind with (I2 := fun a c => role_inv c /\ a = c); [apply hoare_get; auto|intros c0].
  apply hoare_bind with (I2 := fun _ => Inv (Uv (client c0))).
  { apply hoare_pre with (I1 := Inv (Uv (client c0))).
    - intros c [Hi ->]. unfold role_inv, Inv, QX, PR, Uv, client in *. destruct Hi as [HJ HR]. auto.
    - apply hoare_pinv; [intros c; apply inv_weaken; intros b s [H _]; exact H|].
      destruct (client c0); [unfold Inv; inv_goQ PR (QX (Uv true)) ltac:(rsp)|].
      destruct hdr as [vals|]; [|unfold Inv; inv_goQ PR (QX (Uv false)) ltac:(rsp)].
      unfold recv_settings. unfold Inv. inv_goQ PR (QX (Uv false)) ltac:(rsp). }
  intros _.
  apply hoare_bind with (I2 := fun _ => role_nonidle).
  - apply (cfsm_to_nonidle _ (Uv (client c0))). intros b s t [[Ha Hb] ->] Ht.
    destruct (client c0), s; cbn in Ht; try discriminate; injection Ht as <-;
      (split; [split; first [assumption | discriminate]|discriminate]).
  - intros _. apply nonidle_rest. rgo Nv.
Qed.

(* ---------- HEADERS received ---------- *)
Lemma rn_recv_headers sid es p d : pres_inv role_nonidle (recv_headers sid es p d).
Proof. unfold recv_headers. rgo Nv. Qed.

(* the one place where the invariant is broken for a moment: a client in IDLE that receives HEADERS has fed RECV_HEADERS to
   the state machine (now SERVER_OPEN) when it finds out that the frame would open a stream; it then raises a
   ProtocolError (fix 09dbf89) or StreamIDTooLowError, with still no stream object and nothing remembered as closed *)
Definition transient {A} (c1 : conn) (r : res A) : Prop :=
  c_streams c1 = [] /\ c_closed c1 = [] /\
  exists co i b, r = Err ProtocolError co i b \/ r = Err StreamIDTooLowError co i b.

Definition Iv (b : bool) (s : cstate) : Prop := b = true /\ s = C_IDLE.
Lemma Iv_role c : Inv Iv c -> role_inv c.
Proof. apply inv_weaken. intros b s [-> ->]. split; [discriminate|discriminate]. Qed.

Lemma recv_headers_role sid es p d c c1 r :
  role_inv c -> recv_headers sid es p d c = (c1, r) -> role_inv c1 \/ transient c1 r.
Proof.
  intros Hi H. destruct (client c) eqn:Ec.
  2:{ (* a server *)
    left. revert c c1 r Hi Ec H.
    assert (X : hoare (Inv Fv) (recv_headers sid es p d) (fun _ => role_inv)).
    { unfold recv_headers.
      apply hoare_bind with (I2 := fun _ => Inv Fv); [apply hoare_pinv; [intros c; apply inv_weaken; intros b s [H _]; exact H|unfold Inv; inv_goQ PR (QX Fv) ltac:(rsp)]|intros c0].
      apply hoare_bind with (I2 := fun _ => Inv Fv); [apply hoare_pinv; [intros c; apply inv_weaken; intros b s [H _]; exact H|unfold Inv; inv_goQ PR (QX Fv) ltac:(rsp)]|intros _].
      apply hoare_bind with (I2 := fun _ => Inv Fv); [apply hoare_pinv; [intros c; apply inv_weaken; intros b s [H _]; exact H|unfold Inv; inv_goQ PR (QX Fv) ltac:(rsp)]|intros hs].
      apply hoare_bind with (I2 := fun _ => role_nonidle).
      - apply (cfsm_to_nonidle CI_RECV_HEADERS Fv). intros b st t [[Ha Hb] ->] Ht.
        destruct st; cbn in Ht; try discriminate; injection Ht as <-;
          (split; [split; first [assumption | discriminate]|discriminate]).
      - intros _. apply nonidle_rest. rgo Nv. }
    intros c c1 r Hi Ec H.
    assert (Hf : Inv Fv c).
    { unfold role_inv, Inv, QX, PR, Fv, client in *. destruct Hi as [HJ HR]. auto. }
    pose proof (X _ _ _ Hf H) as H1. destruct r; exact H1. }
  destruct (c_state c) eqn:Es.
  2,3,4: left; apply nonidle_role; apply (rn_recv_headers sid es p d c c1 r); [|exact H];
         unfold role_inv, role_nonidle, Inv, QX, PR, Nv in *; rewrite Es in *; destruct Hi as [HJ HR];
         (split; [exact HJ|split; [exact HR|discriminate]]).
  (* a client in IDLE *)
  assert (Hv : Inv Iv c).
  { unfold role_inv, Inv, QX, PR, Iv, client in *. rewrite Es, Ec in *. destruct Hi as [HJ HR]. auto. }
  unfold recv_headers in H. unfold bind at 1 in H. unfold get at 1 in H.
  unfold bind at 1 in H.
  match type of H with (let '(_, _) := ?m c in _) = _ => destruct (m c) as [c2 r2] eqn:E2;
    assert (Xm : pres_inv (Inv Iv) m) by (unfold Inv; inv_goQ PR (QX Iv) ltac:(rsp)) end.
  pose proof (Xm _ _ _ Hv E2) as I2. clear Xm.
  destruct r2 as [u2|e co i b|q]; [|injection H as <- _; left; exact (Iv_role _ I2)|injection H as <- _; left; exact (Iv_role _ I2)].
  unfold bind at 1 in H. destruct (decode_headers d c2) as [c3 r3] eqn:E3.
  assert (Xd : pres_inv (Inv Iv) (decode_headers d)) by (unfold Inv; inv_goQ PR (QX Iv) ltac:(rsp)).
  pose proof (Xd _ _ _ I2 E3) as I3. clear Xd.
  destruct r3 as [hs|e co i b|q]; [|injection H as <- _; left; exact (Iv_role _ I3)|injection H as <- _; left; exact (Iv_role _ I3)].
  (* from here the state machine has moved *)
  right. unfold Inv, QX, PR, Iv in I3. destruct c3 as [cfg st ss cl hin hout loc rem ow iw mof mif out dmh el dl ets ib]. cbn in I3.
  destruct I3 as [HJ [Hb Hs]]. subst st. destruct (HJ eq_refl) as [-> ->].
  unfold bind at 1 in H. unfold cfsm at 1 in H. cbn [c_state conn_transition] in H. cbv beta iota in H.
  unfold bind at 1 in H. unfold get at 1 in H.
  unfold bind at 1 in H. unfold g_recv_headers_unpromised, client, dmem in H. cbn [c_cfg cset_state c_streams c_hi_in dget negb] in H.
  rewrite Hb in H. cbn [andb] in H.
  destruct ((sid mod 2 =? 0) && (sid >? hin)) eqn:Eg.
  { unfold lift_res at 1, perr at 1 in H. cbv beta iota in H. injection H as <- <-. cbn. split; [reflexivity|]. split; [reflexivity|].
    eexists _, _, _. left. reflexivity. }
  unfold ret at 1 in H. cbv beta iota in H.
  unfold bind at 1 in H. unfold get_or_create_stream at 1 in H. unfold bind at 1 in H. unfold get at 1 in H.
  unfold dmem in H. cbn [c_streams cset_state dget] in H.
  unfold begin_new_stream at 1 in H. unfold bind at 1 in H. unfold get at 1 in H.
  unfold g_begin_low, g_begin_parity, highest_for, is_outbound, client in H. cbn [c_cfg cset_state c_hi_in c_hi_out] in H.
  rewrite Hb in H. cbn [b2z negb] in H.
  destruct (sid mod 2 =? 1) eqn:Eo.
  - destruct (sid <=? hout) eqn:El.
    + unfold fail in H. cbv beta iota in H. injection H as <- <-. cbn. split; [reflexivity|]. split; [reflexivity|].
      eexists _, _, _. right. reflexivity.
    + assert (Ez : sid mod 2 =? 0 = false) by lia. rewrite Ez in H. cbn [negb] in H.
      unfold lift_res, perr in H. cbv beta iota in H. injection H as <- <-. cbn. split; [reflexivity|]. split; [reflexivity|].
      eexists _, _, _. left. reflexivity.
  - destruct (sid <=? hin) eqn:El.
    + unfold fail in H. cbv beta iota in H. injection H as <- <-. cbn. split; [reflexivity|]. split; [reflexivity|].
      eexists _, _, _. right. reflexivity.
    + destruct (sid mod 2 =? 0) eqn:Ez.
      * exfalso. assert (sid >? hin = true) by lia. rewrite H0 in Eg. discriminate.
      * cbn [negb] in H. unfold lift_res, perr in H. cbv beta iota in H. injection H as <- <-. cbn.
        split; [reflexivity|]. split; [reflexivity|]. eexists _, _, _. left. reflexivity.
Qed.

(* ---------- one frame, the loop of receive_data, one operation, every history ---------- *)
Lemma ri_prepare fs : pres_inv role_inv (prepare_for_sending fs). Proof. rgo Rv. Qed.

Lemma dispatch_role f c c1 r : role_inv c -> dispatch f c = (c1, r) -> role_inv c1 \/ transient c1 r.
Proof.
  intros Hi H. destruct f; cbn [dispatch] in H.
  - exact (recv_headers_role _ _ _ _ _ _ _ Hi H).
  - left. exact (ri_recv_push_promise _ _ _ _ _ _ Hi H).
  - left. exact (ri_recv_data _ _ _ _ _ _ _ Hi H).
  - left. exact (ri_recv_settings _ _ _ _ _ Hi H).
  - left. exact (ri_recv_window_update _ _ _ _ _ Hi H).
  - left. exact (ri_recv_ping _ _ _ _ _ Hi H).
  - left. exact (ri_recv_rst _ _ _ _ _ Hi H).
  - left. revert H; revert Hi. apply pinv_bind; [apply ri_recv_priority|intros; apply pinv_ret].
  - left. exact (ri_recv_goaway _ _ _ _ _ _ Hi H).
  - left. exact (ri_recv_cont _ _ _ _ Hi H).
  - left. exact (ri_recv_alt_svc _ _ _ _ _ _ Hi H).
  - left. unfold ret in H. injection H as <- _. exact Hi.
  - left. unfold fail in H. injection H as <- _. exact Hi.
  - left. destruct (kind =? 0); [unfold lift_res in H; injection H as <- _; exact Hi|].
    destruct (kind =? 1); [unfold fail in H|unfold crash in H]; injection H as <- _; exact Hi.
Qed.

Lemma frame_role f c c1 r : role_inv c -> receive_frame f c = (c1, r) -> role_inv c1 \/ transient c1 r.
Proof.
  intros Hi H. unfold receive_frame in H. destruct (dispatch f c) as [c0 r0] eqn:Ed.
  destruct (dispatch_role f c c0 r0 Hi Ed) as [H0 | (Hs & Hc & co & i & b & Hr)].
  - left. destruct r0 as [[frames evs]|e code sid rst|p].
    + assert (X : pres_inv role_inv (prepare_for_sending frames;;; ret evs)) by (apply pinv_bind; [apply ri_prepare|intros; apply pinv_ret]).
      exact (X _ _ _ H0 H).
    + destruct e; try (injection H as <- _; exact H0);
        (destruct (closed_by_reset c0 sid);
         [ match type of H with ?m c0 = _ =>
             assert (X : pres_inv role_inv m) by (apply pinv_bind; [apply ri_prepare|intros; apply pinv_ret]) end;
           exact (X _ _ _ H0 H)
         | try (destruct (closed_by_end c0 sid)); injection H as <- _; exact H0 ]).
    + injection H as <- _. exact H0.
  - right. assert (Hnr : closed_by_reset c0 i = false /\ closed_by_end c0 i = false).
    { unfold closed_by_reset, closed_by_end, stream_closed_by. rewrite Hs, Hc. cbn. auto. }
    destruct Hnr as [Hn1 Hn2].
    destruct Hr as [-> | ->].
    + injection H as <- <-. split; [exact Hs|]. split; [exact Hc|]. eexists _, _, _. left. reflexivity.
    + rewrite Hn1, Hn2 in H. injection H as <- <-. split; [exact Hs|]. split; [exact Hc|]. eexists _, _, _. right. reflexivity.
Qed.

Lemma terminate_closes code c c' r : terminate_connection code c = (c', r) -> c_state c' = C_CLOSED.
Proof.
  intros H. unfold terminate_connection in H. unfold bind at 1 in H. unfold get at 1 in H.
  unfold bind at 1 in H. unfold cfsm at 1 in H.
  assert (Ht : forall s, conn_transition s CI_SEND_GOAWAY = Some C_CLOSED) by (intros []; reflexivity).
  rewrite Ht in H. cbv beta iota in H.
  rewrite (pres_prepare c_state ltac:(intros; reflexivity) _ _ _ _ H). destruct c; reflexivity.
Qed.
Lemma closed_is_role c : c_state c = C_CLOSED -> role_inv c.
Proof. intros H. exact (proj2 (closed_role c [] H)). Qed.

Lemma except_role c1 (r1 : res (list event)) c2 r2 :
  role_inv c1 \/ transient c1 r1 -> recv_except c1 r1 = (c2, r2) -> role_inv c2.
Proof.
  intros [Hi | (_ & _ & co & i & b & Hr)] H.
  - exact (recv_except_inv role_inv ri_terminate _ _ _ _ Hi H).
  - unfold recv_except in H.
    assert (Ht : forall e, (e = ProtocolError \/ e = StreamIDTooLowError) -> r1 = Err e co i b -> role_inv c2).
    { intros e He ->. assert (is_protocol_error e = true) as Hp by (destruct He as [-> | ->]; reflexivity). rewrite Hp in H.
      destruct (terminate_connection co c1) as [c3 r3] eqn:Et. pose proof (terminate_closes _ _ _ _ Et) as Hc.
      destruct r3; injection H as <- _; exact (closed_is_role _ Hc). }
    destruct Hr as [Hr | Hr]; [exact (Ht _ (or_introl eq_refl) Hr) | exact (Ht _ (or_intror eq_refl) Hr)].
Qed.

Lemma transient_not_ok {A} c (r : res A) : transient c r -> is_ok r = false.
Proof. intros (_ & _ & co & i & b & [-> | ->]); reflexivity. Qed.

Lemma recv_core_role fs : forall acc c c' r rem, role_inv c -> recv_core fs acc c = (c', r, rem) -> role_inv c'.
Proof.
  induction fs as [|[f blen] rest IH]; intros acc c c' r rem Hi H; cbn [recv_core] in H.
  - injection H as <- _ _. exact Hi.
  - destruct (frame_buffer_check (c_max_in_frame c) f blen) as [|rj] eqn:Ec.
    + destruct (receive_frame f c) as [c1 res1] eqn:Er.
      pose proof (frame_role f c c1 res1 Hi Er) as Hf.
      destruct res1 as [evs|e code sid rst|p].
      * destruct Hf as [H1 | Ht]; [exact (IH _ _ _ _ _ H1 H)|]. apply transient_not_ok in Ht. discriminate.
      * destruct (recv_except c1 _) as [c2 r2] eqn:Ee. injection H as <- _ _. exact (except_role _ _ _ _ Hf Ee).
      * destruct (recv_except c1 _) as [c2 r2] eqn:Ee. injection H as <- _ _. exact (except_role _ _ _ _ Hf Ee).
    + destruct ((dispatch rj ;;; ret []) c) as [c1 res1] eqn:Er.
      pose proof (reject_same_state _ _ _ _ _ _ _ Ec Er). subst c1.
      destruct res1 as [evs|e code sid rst|p].
      * exfalso. exact (reject_never_ok _ _ _ _ _ _ _ Ec Er).
      * destruct (recv_except c _) as [c2 r2] eqn:Ee. injection H as <- _ _. exact (except_role _ _ _ _ (or_introl Hi) Ee).
      * destruct (recv_except c _) as [c2 r2] eqn:Ee. injection H as <- _ _. exact (except_role _ _ _ _ (or_introl Hi) Ee).
Qed.

Lemma api_receive_role fs : pres_inv role_inv (api_receive fs).
Proof.
  intros c c' r Hi H. unfold api_receive in H.
  destruct (recv_core (c_inbuf c ++ fs) [] c) as [[c1 r1] rem] eqn:E. injection H as <- _.
  pose proof (recv_core_role _ _ _ _ _ _ Hi E) as H1. unfold role_inv, Inv, QX, PR in *. destruct c1; exact H1.
Qed.

Theorem step_role c o c' r : role_inv c -> step c o = (c', r) -> role_inv c'.
Proof.
  intros Hc H.
  destruct o as [|hdr|sid hs L es pw pd pe|sid len es pad|sid|inc sid|sid pr hs L|pl|sid code|code last dbg|kvs
                |fl og sid|sid w d e|n sid| |sid|sid| | | |fs]; cbn [step] in H.
  - revert H; revert Hc. apply as_none_inv. apply ri_initiate.
  - revert H; revert Hc. apply pinv_bind; [apply ri_upgrade | intros; apply pinv_ret].
  - revert H; revert Hc. apply as_none_inv. apply ri_send_headers.
  - revert H; revert Hc. apply as_none_inv. apply ri_send_data.
  - revert H; revert Hc. apply as_none_inv. apply ri_end_stream.
  - revert H; revert Hc. apply as_none_inv. apply ri_increment.
  - revert H; revert Hc. apply as_none_inv. apply ri_push.
  - revert H; revert Hc. apply as_none_inv. apply ri_ping.
  - revert H; revert Hc. apply as_none_inv. apply ri_reset.
  - revert H; revert Hc. apply as_none_inv. apply ri_close.
  - revert H; revert Hc. apply as_none_inv. apply ri_update.
  - revert H; revert Hc. apply as_none_inv. apply ri_altsvc.
  - revert H; revert Hc. apply as_none_inv. apply ri_prioritize.
  - revert H; revert Hc. apply as_none_inv. apply ri_ack.
  - revert H; revert Hc. apply as_z_inv. apply ri_next.
  - revert H; revert Hc. apply as_z_inv. apply ri_lw.
  - revert H; revert Hc. apply as_z_inv. apply ri_rw.
  - revert H; revert Hc. apply as_z_inv. apply ri_oo.
  - revert H; revert Hc. apply as_z_inv. apply ri_oi.
  - injection H as <- _. unfold role_inv, Inv, QX, PR in *. destruct c; exact Hc.
  - revert H; revert Hc. apply pinv_bind; [apply api_receive_role | intros; apply pinv_ret].
Qed.

Theorem run_role os : forall c, role_inv c -> role_inv (run c os).
Proof.
  induction os as [|o os IH]; intros c Hc; cbn [run fold_left]; [exact Hc|].
  apply IH. destruct (step c o) as [c' r] eqn:E. exact (step_role _ _ _ _ Hc E).
Qed.

Lemma role_init cfg : role_inv (conn_new cfg).
Proof. unfold role_inv, Inv, QX, PR, conn_new, Rv; cbn. repeat split; intros; discriminate. Qed.

(* ---------- the statements ---------- *)
(* after ANY history of API calls and received frames the connection state machine agrees with the configured role,
   and an IDLE connection holds no stream object *)
Theorem connection_state_agrees_with_the_role cfg os :
  let c := run (conn_new cfg) os in
  (client c = true -> c_state c <> C_SERVER_OPEN) /\ (client c = false -> c_state c <> C_CLIENT_OPEN) /\
  (c_state c = C_IDLE -> c_streams c = [] /\ c_closed c = []).
Proof.
  intros c. pose proof (run_role os _ (role_init cfg)) as H. fold c in H.
  unfold role_inv, Inv, QX, PR, Rv, client in *. destruct H as [HJ [Ha Hb]]. auto.
Qed.

(* the configuration never changes *)
Theorem run_keeps_cfg cfg os : c_cfg (run (conn_new cfg) os) = cfg.
Proof.
  pose (I := fun c : conn => c_cfg c = cfg).
  assert (Hw : Forall (wf_op (fun _ => True)) os).
  { clear. induction os as [|o os IH]; constructor; [|exact IH]. destruct o; cbn; auto. induction fs; constructor; auto. }
  assert (Hf : forall f, pres_inv I (receive_frame f)).
  { intros f c c' r Hc H. unfold I in *. rewrite <- Hc.
    assert (X : preserves c_cfg (receive_frame f)) by (apply fp_receive_frame; intros; reflexivity). exact (X _ _ _ H). }
  assert (G : forall c, I c -> I (run c os)).
  { intros c Hc.
    refine (run_inv I (fun _ => True) _ _ _ _ _ _ _ _ _ _
              _ _ _ _ _ _ _ _ _ _ _ _ (fun f _ => Hf f) _ os c Hc Hw).
    - intros c0 _. induction (c_inbuf c0); constructor; auto.
    - intros c0 v H0 _. exact H0.
    - intros c0 v H0. exact H0.
    - unfold I, initiate_connection; inv_goQ c_cfg (fun x => x = cfg) ltac:(fail).
    - intros; unfold I, api_initiate_upgrade; inv_goQ c_cfg (fun x => x = cfg) ltac:(fail).
    - intros; unfold I, api_send_headers; inv_goQ c_cfg (fun x => x = cfg) ltac:(fail).
    - intros; unfold I, api_send_data; inv_goQ c_cfg (fun x => x = cfg) ltac:(fail).
    - intros; unfold I, api_end_stream; inv_goQ c_cfg (fun x => x = cfg) ltac:(fail).
    - intros; unfold I, api_increment_window; inv_goQ c_cfg (fun x => x = cfg) ltac:(fail).
    - intros; unfold I, api_push_stream; inv_goQ c_cfg (fun x => x = cfg) ltac:(fail).
    - intros; unfold I, api_ping; inv_goQ c_cfg (fun x => x = cfg) ltac:(fail).
    - intros; unfold I, api_reset_stream; inv_goQ c_cfg (fun x => x = cfg) ltac:(fail).
    - intros; unfold I, api_close_connection; inv_goQ c_cfg (fun x => x = cfg) ltac:(fail).
    - intros; unfold I, api_update_settings; inv_goQ c_cfg (fun x => x = cfg) ltac:(fail).
    - intros; unfold I, api_advertise_alt_svc; inv_goQ c_cfg (fun x => x = cfg) ltac:(fail).
    - intros; unfold I, api_prioritize; inv_goQ c_cfg (fun x => x = cfg) ltac:(fail).
    - intros; unfold I, api_acknowledge_received_data; inv_goQ c_cfg (fun x => x = cfg) ltac:(fail).
    - unfold I; inv_goQ c_cfg (fun x => x = cfg) ltac:(fail).
    - intros; unfold I; inv_goQ c_cfg (fun x => x = cfg) ltac:(fail).
    - intros; unfold I; inv_goQ c_cfg (fun x => x = cfg) ltac:(fail).
    - unfold I; inv_goQ c_cfg (fun x => x = cfg) ltac:(fail).
    - unfold I; inv_goQ c_cfg (fun x => x = cfg) ltac:(fail).
    - intros; unfold I, terminate_connection; inv_goQ c_cfg (fun x => x = cfg) ltac:(fail). }
  apply G. reflexivity.
Qed.

(* with Proofs/C22Full.v: after any history, a push_stream call that succeeds was made by a SERVER *)
Corollary only_servers_push cfg os sid promised hs L c' :
  api_push_stream sid promised hs L (run (conn_new cfg) os) = (c', Ok tt) -> cfg_client cfg = false.
Proof.
  intros H. pose proof (C22Full.push_stream_only_when_the_rules_hold _ _ _ _ _ _ H) as (_ & Hs & _).
  destruct (connection_state_agrees_with_the_role cfg os) as (Ha & _ & _).
  unfold client in Ha. rewrite run_keeps_cfg in Ha.
  destruct (cfg_client cfg) eqn:Ec; [|reflexivity]. exfalso. exact (Ha eq_refl Hs).
Qed.
