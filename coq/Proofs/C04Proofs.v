From H2 Require Import Base.Prelude Base.PyDict Model.FsmTypes Gen.Consts Gen.Tables Gen.Guards
  Model.Types Model.Windows Model.WmHist Model.SettingsV Model.Settings Model.StreamFSM Model.Headers
  Model.Stream Model.ConnState Model.Connection Proofs.ConstFacts Proofs.Frame Proofs.FrameConn Proofs.Inv.

Ltac ow := intros; reflexivity.

(* all inbound windows: the connection's and every live stream's *)
Definition in_windows (c : conn) : wm * list (Z * wm) :=
  (c_in_wm c, map (fun kv => (fst kv, s_in_wm (snd kv))) (c_streams c)).

(* remote_flow_control_window reports the smaller of the two advertised windows *)
Lemma rfcw_live sid c s : dget sid (c_streams c) = Some s ->
  remote_flow_control_window sid c = (c, Ok (Z.min (wm_cur (c_in_wm c)) (wm_cur (s_in_wm s)))).
Proof. intros H. unfold remote_flow_control_window, get_stream_by_id, bind, get. rewrite H. reflexivity. Qed.

(* ---- window_opened after the repair: a raising call changes nothing ---- *)
Lemma window_opened_err_unchanged w n w' r : window_opened w n = (w', r) -> is_ok r = false -> w' = w.
Proof.
  unfold window_opened. destruct (wm_cur w + n >? LARGEST_FLOW_CONTROL_WINDOW); intros H Hr; injection H as <- <-;
    [reflexivity | discriminate].
Qed.
Lemma window_opened_ok w n w' : window_opened w n = (w', Ok tt) ->
  wm_cur w' = wm_cur w + n /\ wm_cur w + n <= 2147483647.
Proof.
  unfold window_opened. pose proof LARGEST_val as Lv.
  destruct (wm_cur w + n >? LARGEST_FLOW_CONTROL_WINDOW) eqn:E; intros H; [discriminate|].
  injection H as <-. cbn [wm_cur]. lia.
Qed.

(* ---- increment_flow_control_window on the connection ---- *)
Lemma increment_conn_effect inc c c' r :
  4 <= c_max_out_frame c ->
  api_increment_window inc None c = (c', r) ->
  (r = Ok tt /\ wm_cur (c_in_wm c') = wm_cur (c_in_wm c) + inc /\ c_out c' = c_out c ++ [FWindowUpdate 0 inc]
   /\ 1 <= inc /\ wm_cur (c_in_wm c) + inc <= 2147483647)
  \/ (is_ok r = false /\ in_windows c' = in_windows c /\ c_out c' = c_out c).
Proof.
  intros Hm H. unfold api_increment_window in H. unfold g_inc_range in H.
  destruct ((1 <=? inc) && (inc <=? 2147483647)) eqn:Ei; cbn [negb] in H.
  2:{ unfold bind at 1 in H. unfold crash in H. injection H as <- <-. right. auto. }
  unfold bind at 1 in H. unfold ret at 1 in H. unfold bind at 1 in H. unfold cfsm in H.
  destruct (conn_transition (c_state c) CI_SEND_WINDOW_UPDATE) as [t|].
  2:{ injection H as <- <-. right. repeat split; reflexivity. }
  unfold bind at 1 in H. unfold bind at 1 in H. unfold lift_cwm at 1 in H. cbn [c_in_wm cset_state] in H.
  destruct (window_opened (c_in_wm c) inc) as [w' r1] eqn:Ew.
  destruct r1 as [[]|e co i b|p].
  - unfold ret at 1 in H. unfold prepare_for_sending in H. cbn [forallb body_len andb] in H.
    cbn [cset_in_wm cset_state c_max_out_frame c_out] in H.
    replace (4 <=? c_max_out_frame c) with true in H by (symmetry; lia). cbn [andb] in H.
    unfold bind, ret in H. injection H as <- <-. left.
    destruct (window_opened_ok _ _ _ Ew) as [A B]. cbn. repeat split; try assumption; lia.
  - pose proof (window_opened_err_unchanged _ _ _ _ Ew eq_refl) as ->. injection H as <- <-. right.
    repeat split; destruct c; reflexivity.
  - pose proof (window_opened_err_unchanged _ _ _ _ Ew eq_refl) as ->. injection H as <- <-. right.
    repeat split; destruct c; reflexivity.
Qed.

(* ---- received DATA against the connection window ---- *)
Lemma recv_data_overrun_conn sid len fclen es c :
  conn_transition (c_state c) CI_RECV_DATA <> None ->
  fclen > wm_cur (c_in_wm c) ->
  snd (recv_data sid len fclen es c) = Err FlowControlError 3 0 false.
Proof.
  intros Ht Hgt. unfold recv_data. unfold bind at 1. unfold cfsm.
  destruct (conn_transition (c_state c) CI_RECV_DATA) as [t|]; [|contradiction].
  unfold bind at 1. unfold lift_cwm, window_consumed. cbn [c_in_wm cset_state].
  destruct (wm_cur (c_in_wm c) - fclen <? 0) eqn:E; [reflexivity|lia].
Qed.

(* a DATA frame that fits the connection window passes the connection-level check (and reduces the window by fclen) *)
Lemma recv_data_fits_conn fclen c :
  fclen <= wm_cur (c_in_wm c) ->
  forall t, conn_transition (c_state c) CI_RECV_DATA = Some t ->
  exists c1, (cfsm CI_RECV_DATA ;;; lift_cwm (fun w => window_consumed w fclen)) c = (c1, Ok tt)
             /\ wm_cur (c_in_wm c1) = wm_cur (c_in_wm c) - fclen.
Proof.
  intros Hle t Ht. unfold bind, cfsm. rewrite Ht. unfold lift_cwm, window_consumed. cbn [c_in_wm cset_state].
  destruct (wm_cur (c_in_wm c) - fclen <? 0) eqn:E; [lia|].
  eexists. split; [reflexivity|]. reflexivity.
Qed.

(* the stream-level check inside H2Stream.receive_data *)
Lemma stream_window_consumed s fclen :
  snd (lift_wm (fun w => window_consumed w fclen) s) =
  if wm_cur (s_in_wm s) - fclen <? 0 then Err FlowControlError 3 0 false else Ok tt.
Proof. unfold lift_wm, window_consumed. cbn [snd]. destruct (_ <? 0); reflexivity. Qed.

(* ---- a window-changing call that raises changes no window ---- *)
Lemma streams_windows_dset sid s s' (ss : dict stream) :
  dget sid ss = Some s -> s_in_wm s' = s_in_wm s ->
  map (fun kv => (fst kv, s_in_wm (snd kv))) (dset sid s' ss) = map (fun kv => (fst kv, s_in_wm (snd kv))) ss.
Proof.
  intros Hg He. induction ss as [|[k v] r IH]; cbn [dget dset map fst snd] in *; [discriminate|].
  destruct (sid =? k) eqn:E.
  - injection Hg as ->. cbn [map fst snd]. rewrite He. apply Z.eqb_eq in E. subst. reflexivity.
  - cbn [map fst snd]. rewrite (IH Hg). reflexivity.
Qed.

Lemma fsm_keeps_wm i s s' r : fsm i s = (s', r) -> s_in_wm s' = s_in_wm s.
Proof. unfold fsm. destruct (process_input (s_id s) (s_sm s) i). intros H. injection H as <- _. reflexivity. Qed.

Lemma increase_stream_err_unchanged inc s s' r :
  increase_flow_control_window inc s = (s', r) -> is_ok r = false -> s_in_wm s' = s_in_wm s.
Proof.
  unfold increase_flow_control_window. intros H Hr. unfold bind at 1 in H.
  destruct (fsm SI_SEND_WINDOW_UPDATE s) as [s1 r1] eqn:E1. pose proof (fsm_keeps_wm _ _ _ _ E1) as H1.
  destruct r1 as [evs|e co i b|p]; try (injection H as <- _; exact H1).
  unfold bind at 1 in H. unfold lift_wm at 1 in H.
  destruct (window_opened (s_in_wm s1) inc) as [w' r2] eqn:Ew.
  destruct r2 as [[]|e co i b|p].
  - unfold bind, get, ret in H. injection H as _ <-. discriminate.
  - pose proof (window_opened_err_unchanged _ _ _ _ Ew eq_refl) as ->. injection H as <- _. cbn. exact H1.
  - pose proof (window_opened_err_unchanged _ _ _ _ Ew eq_refl) as ->. injection H as <- _. cbn. exact H1.
Qed.

Lemma increment_stream_raises_changes_no_window inc sid c c' r :
  4 <= c_max_out_frame c ->
  api_increment_window inc (Some sid) c = (c', r) -> is_ok r = false -> in_windows c' = in_windows c.
Proof.
  intros Hm H Hr. unfold api_increment_window in H.
  destruct (g_inc_range inc).
  { unfold bind at 1 in H. unfold crash in H. injection H as <- _. reflexivity. }
  unfold bind at 1 in H. unfold ret at 1 in H. unfold bind at 1 in H. unfold cfsm in H.
  destruct (conn_transition (c_state c) CI_SEND_WINDOW_UPDATE) as [t|].
  2:{ injection H as <- _. reflexivity. }
  unfold bind at 1 in H. unfold bind at 1 in H. unfold get_stream_by_id at 1 in H. unfold bind at 1 in H. unfold get at 1 in H.
  cbn [c_streams cset_state] in H.
  destruct (dget sid (c_streams c)) as [s|] eqn:Hs.
  2:{ destruct (g_get_stream_nosuch sid (highest_for (cset_state c t) sid)); unfold fail, lift_res, scerr in H;
      injection H as <- _; reflexivity. }
  unfold ret at 1 in H. unfold with_stream at 1 in H. cbn [c_streams cset_state] in H. rewrite Hs in H.
  destruct (increase_flow_control_window inc s) as [s' r1] eqn:Ei.
  destruct r1 as [frames|e co i b|p].
  - (* the stream call succeeded: the only way left to fail is the output assertion *)
    unfold increase_flow_control_window in Ei. unfold bind at 1 in Ei.
    destruct (fsm SI_SEND_WINDOW_UPDATE s) as [s1 r1] eqn:E1. destruct r1 as [evs|e co i b|p]; try discriminate.
    unfold bind at 1 in Ei. unfold lift_wm at 1 in Ei. destruct (window_opened (s_in_wm s1) inc) as [w' r2].
    destruct r2 as [[]|e co i b|p]; try discriminate.
    unfold bind, get, ret in Ei. injection Ei as <- <-.
    unfold prepare_for_sending in H. cbn [forallb body_len andb] in H.
    cbn [cset_streams cset_state c_max_out_frame] in H.
    replace (4 <=? c_max_out_frame c) with true in H by (symmetry; lia). cbn [andb] in H.
    unfold bind, ret in H. injection H as _ <-. discriminate.
  - injection H as <- _. unfold in_windows. cbn [c_in_wm c_streams cset_streams cset_state]. f_equal.
    apply (streams_windows_dset sid s s' _ Hs). exact (increase_stream_err_unchanged _ _ _ _ Ei eq_refl).
  - injection H as <- _. unfold in_windows. cbn [c_in_wm c_streams cset_streams cset_state]. f_equal.
    apply (streams_windows_dset sid s s' _ Hs). exact (increase_stream_err_unchanged _ _ _ _ Ei eq_refl).
Qed.

(* acknowledge_received_data: an unknown stream id raises before anything is credited *)
Lemma acknowledge_unknown_stream_changes_nothing n sid c :
  0 < sid -> 0 <= n -> c_state c <> C_CLOSED ->
  dget sid (c_streams c) = None -> sid > highest_for c sid ->
  api_acknowledge_received_data n sid c = (c, Err NoSuchStreamError 1 sid false).
Proof.
  intros Hs Hn Hc Hd Hh. unfold api_acknowledge_received_data, g_ack_sid, g_ack_size.
  destruct (sid <=? 0) eqn:E1; [lia|]. destruct (n <? 0) eqn:E2; [lia|].
  unfold bind at 1. unfold ret at 1. unfold bind at 1. unfold ret at 1. unfold bind at 1. unfold get at 1.
  destruct (cstate_eqb (c_state c) C_CLOSED) eqn:Ec; [apply cstate_eqb_eq in Ec; contradiction|].
  rewrite Hd. unfold g_get_stream_nosuch. destruct (sid >? highest_for c sid) eqn:Eg; [|lia].
  reflexivity.
Qed.
