(* C26 over whole receive_data calls: any number of PING frames (ACK or not, any payloads) arriving in
   one call on a connection that is not closed are answered one ACK per non-ACK PING, in arrival
   order, with the identical payloads, and reported one event per frame in order; the call leaves
   nothing in the buffer and changes nothing else.  Induction over the frame list: no bound on the
   length of the flood. *)
From H2 Require Import Base.Prelude Base.PyDict Model.FsmTypes Gen.Consts Gen.Tables Gen.Guards
  Model.Types Model.Windows Model.Settings Model.StreamFSM Model.Headers
  Model.Stream Model.ConnState Model.Connection Proofs.ConstFacts Proofs.C26Proofs.

Definition ping_frame (p : bool * bytes) : rframe * Z := (RPing (fst p) (snd p), 8).
Definition ping_answer (p : bool * bytes) : list frame := if fst p then [] else [FPing true (snd p)].
Definition ping_event (p : bool * bytes) : event := if fst p then EPingAckReceived (snd p) else EPingReceived (snd p).

Lemma ping_passes_frame_buffer limit a pl : 8 <= limit -> frame_buffer_check limit (RPing a pl) 8 = FBYield.
Proof.
  intros H. unfold frame_buffer_check, g_fb_len. cbn [bad_stream_association bad_promised_id].
  destruct (8 >? limit) eqn:E; [lia|]. reflexivity.
Qed.

Lemma cset_out_twice c a b : cset_out (cset_out c a) b = cset_out c b.
Proof. destruct c; reflexivity. Qed.
Lemma cset_out_same c : cset_out c (c_out c) = c.
Proof. destruct c; reflexivity. Qed.

Lemma ping_flood_core ps : forall acc c,
  state_open c -> 8 <= c_max_out_frame c -> 8 <= c_max_in_frame c ->
  recv_core (map ping_frame ps) acc c =
  (cset_out c (c_out c ++ flat_map ping_answer ps), Ok (acc ++ map ping_event ps), []).
Proof.
  induction ps as [|[a pl] ps IH]; intros acc c Ho Hm Hi; cbn [map flat_map recv_core].
  - rewrite !app_nil_r, cset_out_same. reflexivity.
  - unfold ping_frame at 1. cbn [fst snd]. rewrite (ping_passes_frame_buffer _ a pl Hi).
    rewrite (receive_ping_frame a pl c Ho Hm).
    rewrite IH.
    + rewrite cset_out_twice. unfold ping_answer at 2, ping_event at 2. cbn [fst snd].
      replace (c_out (cset_out c (c_out c ++ (if a then [] else [FPing true pl])))) with (c_out c ++ (if a then [] else [FPing true pl])) by (destruct c; reflexivity).
      rewrite <- !app_assoc. reflexivity.
    + unfold state_open in *. destruct c; exact Ho.
    + destruct c; exact Hm.
    + destruct c; exact Hi.
Qed.

(* the whole call, on an empty buffer *)
Theorem ping_flood ps c :
  state_open c -> 8 <= c_max_out_frame c -> 8 <= c_max_in_frame c -> c_inbuf c = [] ->
  api_receive (map ping_frame ps) c =
  (cset_out c (c_out c ++ flat_map ping_answer ps), Ok (map ping_event ps)).
Proof.
  intros Ho Hm Hi Hb. unfold api_receive. rewrite Hb. cbn [app].
  rewrite (ping_flood_core ps [] c Ho Hm Hi). cbn [app].
  destruct c; cbn in *. subst. reflexivity.
Qed.

(* counting: as many ACKs as non-ACK PINGs, as many events as frames *)
Corollary ping_flood_counts ps :
  length (flat_map ping_answer ps) = length (filter (fun p => negb (fst p)) ps) /\
  length (map ping_event ps) = length ps.
Proof.
  split; [|apply map_length].
  induction ps as [|[a pl] ps IH]; [reflexivity|]. cbn [flat_map filter fst]. rewrite app_length, IH.
  unfold ping_answer. cbn [fst snd]. destruct a; reflexivity.
Qed.

(* the answers are the payloads of the non-ACK PINGs, in order *)
Corollary ping_flood_payloads ps :
  flat_map ping_answer ps = map (fun p => FPing true (snd p)) (filter (fun p => negb (fst p)) ps).
Proof.
  induction ps as [|[a pl] ps IH]; [reflexivity|]. cbn [flat_map filter fst]. rewrite IH.
  unfold ping_answer. cbn [fst snd]. destruct a; reflexivity.
Qed.
