(* Proofs/FsmReach.v — the set of states a stream state machine object can reach from a fresh one under ANY sequence of
   inputs (accepted or refused), computed as a closure inside Coq and proved closed: an invariant by computation. *)
From H2 Require Import Base.Prelude Model.FsmTypes Gen.Consts Gen.Tables Model.Types Model.StreamFSM.

Definition optb_eqb (a b : option bool) : bool := optb_code a =? optb_code b.
Definition sm_eqb (a b : sm) : bool :=
  sstate_eqb (sm_state a) (sm_state b) && optb_eqb (sm_client a) (sm_client b) && Bool.eqb (sm_hs a) (sm_hs b) &&
  Bool.eqb (sm_ts a) (sm_ts b) && Bool.eqb (sm_hr a) (sm_hr b) && Bool.eqb (sm_tr a) (sm_tr b) && (cb_code (sm_cb a) =? cb_code (sm_cb b)).

Lemma sm_eqb_eq a b : sm_eqb a b = true -> a = b.
Proof.
  destruct a as [s c hs ts hr tr cb], b as [s' c' hs' ts' hr' tr' cb']. unfold sm_eqb. cbn [sm_state sm_client sm_hs sm_ts sm_hr sm_tr sm_cb].
  intros H. repeat (apply andb_true_iff in H; destruct H as [H ?]).
  apply sstate_eqb_eq in H. subst s'.
  assert (c = c') by (destruct c as [[|]|], c' as [[|]|]; cbn in *; try reflexivity; discriminate).
  assert (cb = cb') by (destruct cb as [[| | |]|], cb' as [[| | |]|]; cbn in *; try reflexivity; discriminate).
  repeat match goal with X : Bool.eqb _ _ = true |- _ => apply Bool.eqb_prop in X end. subst. reflexivity.
Qed.

Definition mem (m : sm) (l : list sm) : bool := existsb (sm_eqb m) l.
Lemma mem_In m l : mem m l = true -> In m l.
Proof. unfold mem. intros H. apply existsb_exists in H as (x & Hx & He). apply sm_eqb_eq in He. subst. exact Hx. Qed.

Definition succs (m : sm) : list sm := map (fun i => fst (process_input 7 m i)) all_sinput.
Definition add_new (acc : list sm) (ms : list sm) : list sm :=
  fold_left (fun a m => if mem m a then a else a ++ [m]) ms acc.
Fixpoint closure (n : nat) (r : list sm) : list sm :=
  match n with O => r | S k => closure k (add_new r (flat_map succs r)) end.

Definition reach : list sm := Eval vm_compute in closure 12 [sm_new].

Lemma reach_start : mem sm_new reach = true.
Proof. vm_compute. reflexivity. Qed.
Lemma reach_closed : forallb (fun m => forallb (fun i => mem (fst (process_input 7 m i)) reach) all_sinput) reach = true.
Proof. vm_compute. reflexivity. Qed.

Definition run_inputs (m : sm) (is : list sinput) : sm := fold_left (fun m i => fst (process_input 7 m i)) is m.

(* every sequence of inputs, of any length, accepted or refused, keeps the state machine inside [reach] *)
Theorem reach_invariant is : forall m, In m reach -> In (run_inputs m is) reach.
Proof.
  induction is as [|i r IH]; intros m Hm; cbn [run_inputs fold_left]; [exact Hm|].
  apply IH. pose proof reach_closed as H. rewrite forallb_forall in H. specialize (H m Hm).
  rewrite forallb_forall in H. apply mem_In. exact (H i (all_sinput_complete i)).
Qed.
Corollary reachable_from_new is : In (run_inputs sm_new is) reach.
Proof. apply reach_invariant. apply mem_In. exact reach_start. Qed.

Lemma reach_forall (P : sm -> bool) : forallb P reach = true -> forall is, P (run_inputs sm_new is) = true.
Proof. intros H is. rewrite forallb_forall in H. apply H. apply reachable_from_new. Qed.
