(* Proofs/C21Conn.v — receive_data at the level of frames: feeding the frames of a byte stream in several calls
   gives the same final state (hence the same emitted bytes), the same events in the same order, and the same
   error at the same frame as feeding them in one call.  Together with Proofs/C21Proofs.v (bytes -> frames is
   chunking-independent) this is property C21. *)
From H2 Require Import Base.Prelude Base.PyDict Model.FsmTypes Gen.Consts Gen.Tables Gen.Guards
  Model.Types Model.Windows Model.WmHist Model.SettingsV Model.Settings Model.StreamFSM Model.Headers
  Model.Stream Model.ConnState Model.Connection Proofs.Frame Proofs.FrameConn Proofs.Inv.

Ltac ow := intros; reflexivity.

Definition prepend (acc : list event) (r : res (list event)) : res (list event) :=
  match r with Ok evs => Ok (acc ++ evs) | e => e end.
Definition with_acc (acc : list event) (x : conn * res (list event) * list (rframe * Z)) :=
  let '(c, r, rem) := x in (c, prepend acc r, rem).

Lemma with_acc_nil x : with_acc [] x = x.
Proof. destruct x as [[c r] rem]. destruct r; reflexivity. Qed.
Lemma with_acc_app a b x : with_acc a (with_acc b x) = with_acc (a ++ b) x.
Proof. destruct x as [[c r] rem]. destruct r; cbn; try reflexivity. rewrite app_assoc. reflexivity. Qed.

Lemma recv_except_not_ok c1 res1 c2 r2 : (forall evs, res1 <> Ok evs) -> recv_except c1 res1 = (c2, r2) -> forall evs, r2 <> Ok evs.
Proof.
  intros Hn H evs. unfold recv_except in H. destruct res1 as [e0|e code sid rst|p].
  - exfalso. exact (Hn e0 eq_refl).
  - destruct (is_protocol_error e).
    + destruct (terminate_connection code c1) as [c3 [u|a b c0 d|q]]; injection H as _ <-; discriminate.
    + injection H as _ <-. discriminate.
  - destruct p; try (injection H as _ <-; discriminate).
    destruct (terminate_connection EC_PROTOCOL_ERROR c1) as [c3 [u|a b c0 d|q]]; injection H as _ <-; discriminate.
Qed.

Lemma recv_except_err_not_ok c1 e code sid rst c2 r2 : recv_except c1 (Err e code sid rst) = (c2, r2) -> forall evs, r2 <> Ok evs.
Proof. apply recv_except_not_ok. intros; discriminate. Qed.
Lemma recv_except_crash_not_ok c1 p c2 r2 : recv_except c1 (Crash p) = (c2, r2) -> forall evs, r2 <> Ok evs.
Proof. apply recv_except_not_ok. intros; discriminate. Qed.
Ltac not_ok Ee := first [exact (recv_except_err_not_ok _ _ _ _ _ _ _ Ee) | exact (recv_except_crash_not_ok _ _ _ _ Ee)].

Lemma prepend_not_ok acc r : (forall evs, r <> Ok evs) -> prepend acc r = r.
Proof. intros H. destruct r; try reflexivity. exfalso. exact (H _ eq_refl). Qed.

Lemma recv_core_acc fs : forall acc c, recv_core fs acc c = with_acc acc (recv_core fs [] c).
Proof.
  induction fs as [|[f blen] rest IH]; intros acc c; cbn [recv_core].
  - cbn. rewrite app_nil_r. reflexivity.
  - destruct (frame_buffer_check (c_max_in_frame c) f blen) as [|rj].
    + destruct (receive_frame f c) as [c1 res1]. destruct res1 as [evs|e code sid rst|p].
      * rewrite (IH (acc ++ evs)), (IH ([] ++ evs)). cbn [app]. rewrite with_acc_app. reflexivity.
      * destruct (recv_except c1 _) as [c2 r2] eqn:Ee. cbn [with_acc].
        rewrite prepend_not_ok; [reflexivity|]. not_ok Ee.
      * destruct (recv_except c1 _) as [c2 r2] eqn:Ee. cbn [with_acc].
        rewrite prepend_not_ok; [reflexivity|]. not_ok Ee.
    + destruct ((dispatch rj ;;; ret []) c) as [c1 res1]. destruct res1 as [evs|e code sid rst|p].
      * rewrite (IH (acc ++ evs)), (IH ([] ++ evs)). cbn [app]. rewrite with_acc_app. reflexivity.
      * destruct (recv_except c1 _) as [c2 r2] eqn:Ee. cbn [with_acc].
        rewrite prepend_not_ok; [reflexivity|]. not_ok Ee.
      * destruct (recv_except c1 _) as [c2 r2] eqn:Ee. cbn [with_acc].
        rewrite prepend_not_ok; [reflexivity|]. not_ok Ee.
Qed.

(* more frames behind the ones at hand *)
Lemma recv_core_app l1 l2 : forall acc c,
  recv_core (l1 ++ l2) acc c =
  let '(c1, r1, rem) := recv_core l1 acc c in
  match r1 with Ok acc1 => recv_core l2 acc1 c1 | _ => (c1, r1, rem ++ l2) end.
Proof.
  induction l1 as [|[f blen] rest IH]; intros acc c; cbn [recv_core app].
  - reflexivity.
  - destruct (frame_buffer_check (c_max_in_frame c) f blen) as [|rj].
    + destruct (receive_frame f c) as [c1 res1]. destruct res1 as [evs|e code sid rst|p].
      * apply IH.
      * destruct (recv_except c1 _) as [c2 r2] eqn:Ee.
        assert (Hn : forall evs, r2 <> Ok evs) by not_ok Ee.
        destruct r2; [exfalso; exact (Hn _ eq_refl)|reflexivity|reflexivity].
      * destruct (recv_except c1 _) as [c2 r2] eqn:Ee.
        assert (Hn : forall evs, r2 <> Ok evs) by not_ok Ee.
        destruct r2; [exfalso; exact (Hn _ eq_refl)|reflexivity|reflexivity].
    + destruct ((dispatch rj ;;; ret []) c) as [c1 res1]. destruct res1 as [evs|e code sid rst|p].
      * apply IH.
      * destruct (recv_except c1 _) as [c2 r2] eqn:Ee.
        assert (Hn : forall evs, r2 <> Ok evs) by not_ok Ee.
        destruct r2; [exfalso; exact (Hn _ eq_refl)|reflexivity|reflexivity].
      * destruct (recv_except c1 _) as [c2 r2] eqn:Ee.
        assert (Hn : forall evs, r2 <> Ok evs) by not_ok Ee.
        destruct r2; [exfalso; exact (Hn _ eq_refl)|reflexivity|reflexivity].
Qed.

Lemma recv_core_ok_no_rest fs : forall acc c c' evs rem, recv_core fs acc c = (c', Ok evs, rem) -> rem = [].
Proof.
  induction fs as [|[f blen] rest IH]; intros acc c c' evs rem H; cbn [recv_core] in H.
  - injection H as _ _ <-. reflexivity.
  - destruct (frame_buffer_check (c_max_in_frame c) f blen) as [|rj].
    + destruct (receive_frame f c) as [c1 res1]. destruct res1 as [evs1|e code sid rst|p].
      * exact (IH _ _ _ _ _ H).
      * destruct (recv_except c1 _) as [c2 r2] eqn:Ee. assert (Hn : forall evs, r2 <> Ok evs) by not_ok Ee.
        injection H as _ Hr _. exfalso. exact (Hn _ Hr).
      * destruct (recv_except c1 _) as [c2 r2] eqn:Ee. assert (Hn : forall evs, r2 <> Ok evs) by not_ok Ee.
        injection H as _ Hr _. exfalso. exact (Hn _ Hr).
    + destruct ((dispatch rj ;;; ret []) c) as [c1 res1]. destruct res1 as [evs1|e code sid rst|p].
      * exact (IH _ _ _ _ _ H).
      * destruct (recv_except c1 _) as [c2 r2] eqn:Ee. assert (Hn : forall evs, r2 <> Ok evs) by not_ok Ee.
        injection H as _ Hr _. exfalso. exact (Hn _ Hr).
      * destruct (recv_except c1 _) as [c2 r2] eqn:Ee. assert (Hn : forall evs, r2 <> Ok evs) by not_ok Ee.
        injection H as _ Hr _. exfalso. exact (Hn _ Hr).
Qed.

(* no handler touches the byte buffer *)
Lemma recv_except_keeps_inbuf c1 res1 c2 r2 : recv_except c1 res1 = (c2, r2) -> c_inbuf c2 = c_inbuf c1.
Proof.
  intros H. unfold recv_except in H. destruct res1 as [e0|e code sid rst|p].
  - injection H as <- _. reflexivity.
  - destruct (is_protocol_error e).
    + destruct (terminate_connection code c1) as [c3 res2] eqn:Et.
      pose proof (fp_terminate_connection c_inbuf ltac:(ow) ltac:(ow) code _ _ _ Et) as Hk.
      destruct res2; injection H as <- _; exact Hk.
    + injection H as <- _. reflexivity.
  - destruct p; try (injection H as <- _; reflexivity).
    destruct (terminate_connection EC_PROTOCOL_ERROR c1) as [c3 res2] eqn:Et.
    pose proof (fp_terminate_connection c_inbuf ltac:(ow) ltac:(ow) _ _ _ _ Et) as Hk.
    destruct res2; injection H as <- _; exact Hk.
Qed.

Lemma recv_core_keeps_inbuf fs : forall acc c c' r rem, recv_core fs acc c = (c', r, rem) -> c_inbuf c' = c_inbuf c.
Proof.
  induction fs as [|[f blen] rest IH]; intros acc c c' r rem H; cbn [recv_core] in H.
  - injection H as <- _ _. reflexivity.
  - destruct (frame_buffer_check (c_max_in_frame c) f blen) as [|rj] eqn:Ec.
    + destruct (receive_frame f c) as [c1 res1] eqn:Er. pose proof (receive_frame_keeps_inbuf _ _ _ _ Er) as Hk.
      destruct res1 as [evs1|e code sid rst|p].
      * rewrite (IH _ _ _ _ _ H). exact Hk.
      * destruct (recv_except c1 _) as [c2 r2] eqn:Ee. injection H as <- _ _.
        rewrite (recv_except_keeps_inbuf _ _ _ _ Ee). exact Hk.
      * destruct (recv_except c1 _) as [c2 r2] eqn:Ee. injection H as <- _ _.
        rewrite (recv_except_keeps_inbuf _ _ _ _ Ee). exact Hk.
    + destruct ((dispatch rj ;;; ret []) c) as [c1 res1] eqn:Er.
      pose proof (reject_same_state _ _ _ _ _ _ _ Ec Er). subst c1.
      destruct res1 as [evs1|e code sid rst|p].
      * exact (IH _ _ _ _ _ H).
      * destruct (recv_except c _) as [c2 r2] eqn:Ee. injection H as <- _ _.
        exact (recv_except_keeps_inbuf _ _ _ _ Ee).
      * destruct (recv_except c _) as [c2 r2] eqn:Ee. injection H as <- _ _.
        exact (recv_except_keeps_inbuf _ _ _ _ Ee).
Qed.

Lemma cset_inbuf_same c : cset_inbuf c (c_inbuf c) = c.
Proof. destruct c; reflexivity. Qed.

(* receive_data called once per chunk of frames; after an exception the remaining chunks are only buffered *)
Fixpoint receive_chunks (css : list (list (rframe * Z))) (c : conn) : conn * res (list event) :=
  match css with
  | [] => (c, Ok [])
  | fs :: rest =>
      let '(c1, r1) := api_receive fs c in
      match r1 with
      | Ok evs => let '(c2, r2) := receive_chunks rest c1 in (c2, prepend evs r2)
      | _ => (cset_inbuf c1 (c_inbuf c1 ++ concat rest), r1)
      end
  end.

Theorem receive_chunks_is_receive_once css : forall c,
  c_inbuf c = [] -> receive_chunks css c = api_receive (concat css) c.
Proof.
  induction css as [|fs rest IH]; intros c Hb; cbn [receive_chunks concat].
  - unfold api_receive. rewrite Hb. cbn. rewrite <- Hb. rewrite cset_inbuf_same. reflexivity.
  - unfold api_receive at 1 2. rewrite Hb. cbn [app]. rewrite recv_core_app.
    destruct (recv_core fs [] c) as [[c1 r1] rem] eqn:E.
    pose proof (recv_core_keeps_inbuf _ _ _ _ _ _ E) as Hk. rewrite Hb in Hk.
    destruct r1 as [evs|e code sid rst|p].
    + pose proof (recv_core_ok_no_rest _ _ _ _ _ _ E). subst rem.
      rewrite <- Hk, cset_inbuf_same. rewrite (IH c1 Hk). unfold api_receive. rewrite Hk. cbn [app].
      rewrite (recv_core_acc (concat rest) evs c1).
      destruct (recv_core (concat rest) [] c1) as [[c2 r2] rem2]. reflexivity.
    + destruct c1; reflexivity.
    + destruct c1; reflexivity.
Qed.

Corollary any_two_frame_chunkings css1 css2 c :
  c_inbuf c = [] -> concat css1 = concat css2 -> receive_chunks css1 c = receive_chunks css2 c.
Proof. intros Hb E. rewrite !receive_chunks_is_receive_once by exact Hb. rewrite E. reflexivity. Qed.
