(* Proofs/Inv.v — lifting a per-handler invariant to receive_data's loop, to [step] and to every
   history ([run], no bound on length). *)
From H2 Require Import Base.Prelude Base.PyDict Model.FsmTypes Gen.Consts Gen.Tables Gen.Guards
  Model.Types Model.Windows Model.WmHist Model.SettingsV Model.Settings Model.StreamFSM Model.Headers
  Model.Stream Model.ConnState Model.Connection Proofs.Frame Proofs.FrameConn.

Section Lift.
Variable I : conn -> Prop.
Variable wf : rframe -> Prop.     (* what the wire format guarantees about a received frame *)

Definition pres_inv {A} (m : CM A) : Prop := forall c c' r, I c -> m c = (c', r) -> I c'.

Lemma pinv_bind {A B} (m : CM A) (k : A -> CM B) : pres_inv m -> (forall a, pres_inv (k a)) -> pres_inv (bind m k).
Proof.
  intros Hm Hk c c' r Hi H. unfold bind in H. destruct (m c) as [c1 r1] eqn:E.
  pose proof (Hm _ _ _ Hi E) as H1. destruct r1 as [a|e co i b|p].
  - exact (Hk a _ _ _ H1 H).
  - injection H as <- _. exact H1.
  - injection H as <- _. exact H1.
Qed.
Lemma pinv_ret {A} (a : A) : pres_inv (ret a).
Proof. intros c c' r Hi H. unfold ret in H. injection H as <- _. exact Hi. Qed.

Definition wf_buf (c : conn) : Prop := Forall (fun e => wf (fst e)) (c_inbuf c).
Hypothesis I_wf : forall c, I c -> wf_buf c.
Hypothesis I_inbuf : forall c v, I c -> Forall (fun e => wf (fst e)) v -> I (cset_inbuf c v).
Hypothesis I_frame : forall f, wf f -> pres_inv (receive_frame f).
Hypothesis I_terminate : forall code, pres_inv (terminate_connection code).

Lemma reject_no_change r c c' x : (dispatch r ;;; ret ([] : list event)) c = (c', x) ->
  match r with RTooLarge | RBadBody _ => c' = c | _ => True end.
Proof.
  destruct r; try exact (fun _ => Logic.I); unfold bind, dispatch, fail; cbn.
  - intros H; injection H as <- _; reflexivity.
  - destruct (kind =? 0); [unfold lift_res; intros H; injection H as <- _; reflexivity|].
    destruct (kind =? 1); [unfold fail; intros H; injection H as <- _; reflexivity|].
    unfold crash; intros H; injection H as <- _; reflexivity.
Qed.

Lemma loop_inv fuel : forall acc c c' r,
  I c ->
  (fix loop (fuel : nat) (acc : list event) : CM (list event) :=
     match fuel with
     | O => ret acc
     | S fuel' =>
         fun c =>
         match c_inbuf c with
         | [] => (c, Ok acc)
         | (f, blen) :: rest =>
           let '(c1, res1) :=
             match frame_buffer_check (c_max_in_frame c) f blen with
             | FBReject r => (dispatch r ;;; ret []) c
             | FBYield => receive_frame f (cset_inbuf c rest)
             end in
           match res1 with
           | Ok evs => loop fuel' (acc ++ evs) c1
           | Err e code sid rst =>
               if is_protocol_error e then
                 let '(c2, res2) := terminate_connection code c1 in
                 match res2 with
                 | Ok _ => (c2, Err e code sid rst)
                 | Err e2 a b d => (c2, Err e2 a b d)
                 | Crash p => (c2, Crash p)
                 end
               else (c1, Err e code sid rst)
           | Crash ForeignError =>
               let '(c2, res2) := terminate_connection EC_PROTOCOL_ERROR c1 in
               match res2 with
               | Ok _ => (c2, perr)
               | Err e2 a b d => (c2, Err e2 a b d)
               | Crash p => (c2, Crash p)
               end
           | Crash p => (c1, Crash p)
           end
         end
     end) fuel acc c = (c', r) ->
  I c'.
Proof.
  induction fuel as [|fuel IH]; intros acc c c' r Hi H; pose proof (I_wf c Hi) as Hwf; unfold wf_buf in Hwf.
  - unfold ret in H. injection H as <- _. exact Hi.
  - destruct (c_inbuf c) as [|[f blen] rest] eqn:Eb.
    + injection H as <- _. exact Hi.
    + inversion Hwf as [|? ? Hf Hrest]; subst.
      destruct (frame_buffer_check (c_max_in_frame c) f blen) as [|rj] eqn:Ec.
      * (* yielded *)
        destruct (receive_frame f (cset_inbuf c rest)) as [c1 res1] eqn:Er.
        assert (Hi0 : I (cset_inbuf c rest)) by (apply I_inbuf; [exact Hi | exact Hrest]).
        pose proof (I_frame f Hf _ _ _ Hi0 Er) as Hi1.
        destruct res1 as [evs|e code sid rst|p].
        -- exact (IH _ _ _ _ Hi1 H).
        -- destruct (is_protocol_error e).
           ++ destruct (terminate_connection code c1) as [c2 res2] eqn:Et.
              pose proof (I_terminate code _ _ _ Hi1 Et) as Hi2.
              destruct res2; injection H as <- _; exact Hi2.
           ++ injection H as <- _. exact Hi1.
        -- destruct p; try (injection H as <- _; exact Hi1).
           destruct (terminate_connection EC_PROTOCOL_ERROR c1) as [c2 res2] eqn:Et.
           pose proof (I_terminate _ _ _ _ Hi1 Et) as Hi2.
           destruct res2; injection H as <- _; exact Hi2.
      * (* rejected by the frame buffer: nothing changes before the error handling *)
        destruct ((dispatch rj ;;; ret []) c) as [c1 res1] eqn:Er.
        assert (Hrj : match rj with RTooLarge | RBadBody _ => True | _ => False end).
        { unfold frame_buffer_check in Ec.
          destruct (bad_stream_association f); [injection Ec as <-; exact Logic.I|].
          destruct (g_fb_len blen (c_max_in_frame c)); [injection Ec as <-; exact Logic.I|].
          destruct (bad_promised_id f); [injection Ec as <-; exact Logic.I|].
          destruct f; try discriminate; injection Ec as <-; exact Logic.I. }
        pose proof (reject_no_change rj _ _ _ Er) as Hsame.
        assert (c1 = c) by (destruct rj; try contradiction; exact Hsame). subst c1.
        destruct res1 as [evs|e code sid rst|p].
        -- (* a rejected frame never yields Ok *)
           exfalso. destruct rj; try contradiction; unfold bind, dispatch, fail in Er; cbn in Er; try discriminate.
           destruct (kind =? 0); [unfold lift_res, perr in Er; discriminate|].
           destruct (kind =? 1); [unfold fail in Er; discriminate | unfold crash in Er; discriminate].
        -- destruct (is_protocol_error e).
           ++ destruct (terminate_connection code c) as [c2 res2] eqn:Et.
              pose proof (I_terminate code _ _ _ Hi Et) as Hi2.
              destruct res2; injection H as <- _; exact Hi2.
           ++ injection H as <- _. exact Hi.
        -- destruct p; try (injection H as <- _; exact Hi).
           destruct (terminate_connection EC_PROTOCOL_ERROR c) as [c2 res2] eqn:Et.
           pose proof (I_terminate _ _ _ _ Hi Et) as Hi2.
           destruct res2; injection H as <- _; exact Hi2.
Qed.

(* receive_data as a whole *)
Lemma api_receive_inv fs c c' r :
  I c -> Forall (fun e => wf (fst e)) fs -> api_receive fs c = (c', r) -> I c'.
Proof.
  intros Hi Hfs H. unfold api_receive in H.
  unfold bind at 1 in H. unfold modify at 1 in H. unfold bind at 1 in H. unfold get at 1 in H.
  assert (Hi' : I (cset_inbuf c (c_inbuf c ++ fs))).
  { apply I_inbuf; [exact Hi|]. apply Forall_app. split; [exact (I_wf c Hi) | exact Hfs]. }
  exact (loop_inv _ _ _ _ _ Hi' H).
Qed.
End Lift.

Lemma receive_frame_keeps_inbuf f c c' r : receive_frame f c = (c', r) -> c_inbuf c' = c_inbuf c.
Proof. apply (fp_receive_frame c_inbuf); intros; reflexivity. Qed.
