(* Proofs/Inv.v — lifting a per-handler invariant to receive_data's loop, to [step] and to every
   history ([run], no bound on length). *)
From H2 Require Import Base.Prelude Base.PyDict Model.FsmTypes Gen.Consts Gen.Tables Gen.Guards
  Model.Types Model.Windows Model.WmHist Model.SettingsV Model.Settings Model.StreamFSM Model.Headers
  Model.Stream Model.ConnState Model.Connection Proofs.Frame Proofs.FrameConn.

Section Lift.
Variable I : conn -> Prop.
Variable wf : rframe -> Prop.     (* what the wire format guarantees about a received frame *)

Definition pres_inv {A} (m : CM A) : Prop := forall c c' r, I c -> m c = (c', r) -> I c'.

Lemma pinv_bind {A B} (m : CM A) (k : A -> CM B) : pres_inv m -> (forall a, pres_inv (k a)) -> pres_inv (bind m k).
Proof.
  intros Hm Hk c c' r Hi H. unfold bind in H. destruct (m c) as [c1 r1] eqn:E.
  pose proof (Hm _ _ _ Hi E) as H1. destruct r1 as [a|e co i b|p].
  - exact (Hk a _ _ _ H1 H).
  - injection H as <- _. exact H1.
  - injection H as <- _. exact H1.
Qed.
Lemma pinv_ret {A} (a : A) : pres_inv (ret a).
Proof. intros c c' r Hi H. unfold ret in H. injection H as <- _. exact Hi. Qed.

Definition wf_buf (c : conn) : Prop := Forall (fun e => wf (fst e)) (c_inbuf c).
Hypothesis I_wf : forall c, I c -> wf_buf c.
Hypothesis I_inbuf : forall c v, I c -> Forall (fun e => wf (fst e)) v -> I (cset_inbuf c v).
Hypothesis I_frame : forall f, wf f -> pres_inv (receive_frame f).
Hypothesis I_terminate : forall code, pres_inv (terminate_connection code).

Lemma reject_no_change r c c' x : (dispatch r ;;; ret ([] : list event)) c = (c', x) ->
  match r with RTooLarge | RBadBody _ => c' = c | _ => True end.
Proof.
  destruct r; try exact (fun _ => Logic.I); unfold bind, dispatch, fail; cbn.
  - intros H; injection H as <- _; reflexivity.
  - destruct (kind =? 0); [unfold lift_res; intros H; injection H as <- _; reflexivity|].
    destruct (kind =? 1); [unfold fail; intros H; injection H as <- _; reflexivity|].
    unfold crash; intros H; injection H as <- _; reflexivity.
Qed.

Lemma recv_except_inv c1 res1 c2 r2 : I c1 -> recv_except c1 res1 = (c2, r2) -> I c2.
Proof.
  intros Hi1 H. unfold recv_except in H. destruct res1 as [evs|e code sid rst|p].
  - injection H as <- _. exact Hi1.
  - destruct (is_protocol_error e).
    + destruct (terminate_connection code c1) as [c3 res2] eqn:Et.
      pose proof (I_terminate code _ _ _ Hi1 Et) as Hi2.
      destruct res2; injection H as <- _; exact Hi2.
    + injection H as <- _. exact Hi1.
  - destruct p; try (injection H as <- _; exact Hi1).
    destruct (terminate_connection EC_PROTOCOL_ERROR c1) as [c3 res2] eqn:Et.
    pose proof (I_terminate _ _ _ _ Hi1 Et) as Hi2.
    destruct res2; injection H as <- _; exact Hi2.
Qed.

Lemma reject_never_ok limit f blen rj c c1 evs :
  frame_buffer_check limit f blen = FBReject rj -> (dispatch rj ;;; ret ([] : list event)) c = (c1, Ok evs) -> False.
Proof.
  intros Ec Er.
  assert (Hrj : match rj with RTooLarge | RBadBody _ => True | _ => False end).
  { unfold frame_buffer_check in Ec.
    destruct (bad_stream_association f); [injection Ec as <-; exact Logic.I|].
    destruct (g_fb_len blen limit); [injection Ec as <-; exact Logic.I|].
    destruct (bad_promised_id f); [injection Ec as <-; exact Logic.I|].
    destruct f; try discriminate; injection Ec as <-; exact Logic.I. }
  destruct rj; try contradiction; unfold bind, dispatch, fail in Er; cbn in Er; try discriminate.
  destruct (kind =? 0); [unfold lift_res, perr in Er; discriminate|].
  destruct (kind =? 1); [unfold fail in Er; discriminate | unfold crash in Er; discriminate].
Qed.

Lemma reject_same_state limit f blen rj c c1 r :
  frame_buffer_check limit f blen = FBReject rj -> (dispatch rj ;;; ret ([] : list event)) c = (c1, r) -> c1 = c.
Proof.
  intros Ec Er.
  assert (Hrj : match rj with RTooLarge | RBadBody _ => True | _ => False end).
  { unfold frame_buffer_check in Ec.
    destruct (bad_stream_association f); [injection Ec as <-; exact Logic.I|].
    destruct (g_fb_len blen limit); [injection Ec as <-; exact Logic.I|].
    destruct (bad_promised_id f); [injection Ec as <-; exact Logic.I|].
    destruct f; try discriminate; injection Ec as <-; exact Logic.I. }
  pose proof (reject_no_change rj _ _ _ Er) as Hsame. destruct rj; try contradiction; exact Hsame.
Qed.

(* the loop of receive_data: the invariant holds at the end, and what is left in the buffer is a suffix of what was there *)
Lemma recv_core_inv fs : forall acc c c' r rem,
  I c -> Forall (fun e => wf (fst e)) fs -> recv_core fs acc c = (c', r, rem) ->
  I c' /\ Forall (fun e => wf (fst e)) rem.
Proof.
  induction fs as [|[f blen] rest IH]; intros acc c c' r rem Hi Hwf H; cbn [recv_core] in H.
  - injection H as <- _ <-. split; [exact Hi|constructor].
  - inversion Hwf as [|? ? Hf Hrest]; subst.
    destruct (frame_buffer_check (c_max_in_frame c) f blen) as [|rj] eqn:Ec.
    + destruct (receive_frame f c) as [c1 res1] eqn:Er.
      pose proof (I_frame f Hf _ _ _ Hi Er) as Hi1.
      destruct res1 as [evs|e code sid rst|p].
      * exact (IH _ _ _ _ _ Hi1 Hrest H).
      * destruct (recv_except c1 _) as [c2 r2] eqn:Ee. injection H as <- _ <-.
        split; [exact (recv_except_inv _ _ _ _ Hi1 Ee) | exact Hrest].
      * destruct (recv_except c1 _) as [c2 r2] eqn:Ee. injection H as <- _ <-.
        split; [exact (recv_except_inv _ _ _ _ Hi1 Ee) | exact Hrest].
    + destruct ((dispatch rj ;;; ret []) c) as [c1 res1] eqn:Er.
      pose proof (reject_same_state _ _ _ _ _ _ _ Ec Er). subst c1.
      destruct res1 as [evs|e code sid rst|p].
      * exfalso. exact (reject_never_ok _ _ _ _ _ _ _ Ec Er).
      * destruct (recv_except c _) as [c2 r2] eqn:Ee. injection H as <- _ <-.
        split; [exact (recv_except_inv _ _ _ _ Hi Ee) | exact Hwf].
      * destruct (recv_except c _) as [c2 r2] eqn:Ee. injection H as <- _ <-.
        split; [exact (recv_except_inv _ _ _ _ Hi Ee) | exact Hwf].
Qed.

(* receive_data as a whole *)
Lemma api_receive_inv fs c c' r :
  I c -> Forall (fun e => wf (fst e)) fs -> api_receive fs c = (c', r) -> I c'.
Proof.
  intros Hi Hfs H. unfold api_receive in H.
  destruct (recv_core (c_inbuf c ++ fs) [] c) as [[c1 r1] rem] eqn:E. injection H as <- _.
  assert (Hall : Forall (fun e => wf (fst e)) (c_inbuf c ++ fs)).
  { apply Forall_app. split; [exact (I_wf c Hi) | exact Hfs]. }
  destruct (recv_core_inv _ _ _ _ _ _ Hi Hall E) as [Hi1 Hrem].
  apply I_inbuf; assumption.
Qed.
End Lift.

Lemma receive_frame_keeps_inbuf f c c' r : receive_frame f c = (c', r) -> c_inbuf c' = c_inbuf c.
Proof. apply (fp_receive_frame c_inbuf); intros; reflexivity. Qed.
