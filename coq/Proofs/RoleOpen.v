(* Who may open a stream (fixes 12650a7 and 09dbf89): a server never opens a stream by sending HEADERS (that is in
   C29Proofs: server_send_headers_unknown), and a client never opens one by RECEIVING HEADERS: a HEADERS frame accepted
   by a client was for a stream already in its table (one it opened, or one the server promised). *)
From H2 Require Import Base.Prelude Base.PyDict Model.FsmTypes Gen.Consts Gen.Tables Gen.Guards
  Model.Types Model.Windows Model.WmHist Model.SettingsV Model.Settings Model.StreamFSM Model.Headers
  Model.Stream Model.ConnState Model.Connection Proofs.ConstFacts Proofs.Frame Proofs.FrameConn Proofs.C0708Proofs.

Lemma dget_filter_none {V} (f : Z * V -> bool) k (d : @dict V) : dget k d = None -> dget k (filter f d) = None.
Proof.
  induction d as [|[k' v] d IH]; cbn [dget filter]; [reflexivity|]. intros H.
  destruct (k =? k') eqn:E; [discriminate|]. destruct (f (k', v)); [cbn [dget]; rewrite E|]; exact (IH H).
Qed.

(* what the prefix of recv_headers keeps: the role, the inbound watermark, and the absence of [sid] *)
Definition unk (sid : Z) (c0 c : conn) : Prop :=
  client c = client c0 /\ c_hi_in c = c_hi_in c0 /\ c_hi_out c = c_hi_out c0 /\ dget sid (c_streams c) = None.

Lemma unk_open_streams sid r c0 c c' x : unk sid c0 c -> open_streams r c = (c', x) -> unk sid c0 c'.
Proof.
  intros (H1 & H2 & H3 & H4) E. unfold open_streams in E. injection E as <- _. unfold unk.
  destruct c; cbn in *. repeat split; auto. apply dget_filter_none. exact H4.
Qed.

Lemma unk_keep sid c0 c c' : unk sid c0 c ->
  c_cfg c' = c_cfg c -> c_hi_in c' = c_hi_in c -> c_hi_out c' = c_hi_out c -> c_streams c' = c_streams c -> unk sid c0 c'.
Proof. intros (H1 & H2 & H3 & H4) E1 E2 E3 E4. unfold unk, client in *. rewrite E1, E2, E3, E4. auto. Qed.

Theorem client_recv_headers_ok_known sid es p d c c' x :
  client c = true -> recv_headers sid es p d c = (c', Ok x) -> dmem sid (c_streams c) = true.
Proof.
  intros Hc H. unfold dmem. destruct (dget sid (c_streams c)) eqn:E0; [reflexivity|exfalso].
  assert (U0 : unk sid c c) by (unfold unk; auto).
  unfold recv_headers in H.
  apply bind_ok in H as (c1 & c0' & Eg & H). unfold get in Eg. injection Eg as <- <-.
  apply bind_ok in H as (c1 & u1 & E1 & H).
  assert (U1 : unk sid c c1).
  { unfold dmem in E1. rewrite E0 in E1.
    apply bind_ok in E1 as (c1a & n & Ea & E1). unfold open_inbound_streams in Ea.
    apply bind_ok in Ea as (c1b & cb & Eb & Ea). unfold get in Eb. injection Eb as <- <-.
    pose proof (unk_open_streams sid _ c c c1a _ U0 Ea) as U.
    apply bind_ok in E1 as (c1c & cc & Ec & E1). unfold get in Ec. injection Ec as <- <-.
    destruct (g_recv_headers_mcs _ _ _); [discriminate|]. unfold ret in E1. injection E1 as <-. exact U. }
  apply bind_ok in H as (c2 & hs & E2 & H).
  assert (U2 : unk sid c c2).
  { apply (unk_keep sid c c1 c2 U1).
    - exact (fp_decode_headers c_cfg ltac:(intros; reflexivity) d _ _ _ E2).
    - exact (fp_decode_headers c_hi_in ltac:(intros; reflexivity) d _ _ _ E2).
    - exact (fp_decode_headers c_hi_out ltac:(intros; reflexivity) d _ _ _ E2).
    - exact (fp_decode_headers c_streams ltac:(intros; reflexivity) d _ _ _ E2). }
  apply bind_ok in H as (c3 & u3 & E3 & H).
  assert (U3 : unk sid c c3).
  { unfold cfsm in E3. destruct (conn_transition (c_state c2) CI_RECV_HEADERS); [|discriminate].
    injection E3 as <- _. apply (unk_keep sid c c2 _ U2); destruct c2; reflexivity. }
  apply bind_ok in H as (c4 & c3' & Eg & H). unfold get in Eg. injection Eg as <- <-.
  destruct U3 as (R1 & R2 & R3 & R4).
  apply bind_ok in H as (c4 & u4 & E4 & H).
  unfold g_recv_headers_unpromised in E4. unfold dmem in E4. rewrite R4, R1, Hc in E4. cbn [negb andb] in E4.
  apply bind_ok in H as (c5 & u5 & E5 & H).
  assert (c4 = c3) as ->.
  { destruct ((sid mod 2 =? 0) && (sid >? c_hi_in c3)); [discriminate|]. unfold ret in E4. injection E4 as <-. reflexivity. }
  unfold get_or_create_stream in E5. apply bind_ok in E5 as (c6 & c6' & Eg & E5). unfold get in Eg. injection Eg as <- <-.
  unfold dmem in E5. rewrite R4 in E5. unfold begin_new_stream in E5.
  apply bind_ok in E5 as (c6 & c6' & Eg & E5). unfold get in Eg. injection Eg as <- <-.
  unfold g_begin_low, g_begin_parity, highest_for, is_outbound in E5. rewrite R1, Hc in E5. cbn [negb b2z] in E5.
  destruct (sid mod 2 =? 0) eqn:Ep.
  - assert (Em : sid mod 2 =? 1 = false) by lia. rewrite Em in E5.
    destruct (sid >? c_hi_in c3) eqn:Eh; cbn [andb] in E4; [discriminate|].
    assert (El : sid <=? c_hi_in c3 = true) by lia. rewrite El in E5. discriminate.
  - cbn [andb] in E4.
    destruct (sid mod 2 =? 1) eqn:Em.
    + destruct (sid <=? c_hi_out c3); [discriminate|]. cbn [negb] in E5. discriminate.
    + assert (0 <= sid mod 2 < 2) by (apply Z.mod_pos_bound; lia). lia.
Qed.
