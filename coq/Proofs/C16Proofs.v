(* Proofs/C16Proofs.v — content-length accounting of H2Stream (the kernel is translated from stream.py on every run). *)
From H2 Require Import Base.Prelude Base.PyDict Model.FsmTypes Gen.Consts Gen.Tables Gen.Kernels Model.Types Model.Windows Model.WmHist
  Model.StreamFSM Model.Headers Model.Stream.

(* the hand-written model step is the translated method *)
Lemma track_is_translated len es s :
  let '(s', r) := track_content_length len es s in
  let '((act, exp), r') := k_track_content_length (s_act_cl s) (s_exp_cl s) len es in
  s' = set_cl s exp act /\ r = r'.
Proof.
  unfold track_content_length, k_track_content_length. destruct (s_exp_cl s) as [e|].
  - destruct (e <? s_act_cl s + len); [split; reflexivity|].
    destruct (es && negb (e =? s_act_cl s + len)); split; reflexivity.
  - split; reflexivity.
Qed.

(* DATA frames of a message: payload length and END_STREAM flag, fed one after the other; -> accepted? and the running total *)
Fixpoint track_all (s : stream) (chunks : list (Z * bool)) : bool * stream :=
  match chunks with
  | [] => (true, s)
  | (l, es) :: r =>
      match track_content_length l es s with
      | (s1, Ok _) => track_all s1 r
      | (s1, _) => (false, s1)
      end
  end.

Definition total (chunks : list (Z * bool)) : Z := fold_right (fun c acc => fst c + acc) 0 chunks.
Definition plain_chunks (ls : list Z) : list (Z * bool) := map (fun l => (l, false)) ls.

Lemma total_cons l ls : total (plain_chunks (l :: ls)) = l + total (plain_chunks ls).
Proof. reflexivity. Qed.
Lemma total_nonneg ls : Forall (fun l => 0 <= l) ls -> 0 <= total (plain_chunks ls).
Proof. induction 1 as [|x ls Hx Hls IH]; [cbn; lia|]. rewrite total_cons. lia. Qed.

Lemma track_step n l es s : s_exp_cl s = Some n ->
  track_content_length l es s =
  (set_cl s (Some n) (s_act_cl s + l),
   if (n <? s_act_cl s + l) || (es && negb (n =? s_act_cl s + l)) then Err InvalidBodyLengthError (exn_code InvalidBodyLengthError) 0 false else Ok tt).
Proof.
  intros He. unfold track_content_length. rewrite He. destruct (n <? s_act_cl s + l); [reflexivity|]. cbn [orb].
  destruct (es && negb (n =? s_act_cl s + l)); reflexivity.
Qed.

Lemma track_all_cons n l es r s : s_exp_cl s = Some n ->
  track_all s ((l, es) :: r) =
  if (n <? s_act_cl s + l) || (es && negb (n =? s_act_cl s + l)) then (false, set_cl s (Some n) (s_act_cl s + l))
  else track_all (set_cl s (Some n) (s_act_cl s + l)) r.
Proof. intros He. cbn [track_all]. rewrite (track_step n l es s He). destruct (_ || _); reflexivity. Qed.

Lemma track_all_open n : forall ls s, s_exp_cl s = Some n -> Forall (fun l => 0 <= l) ls ->
  (fst (track_all s (plain_chunks ls)) = true <-> (ls = [] \/ s_act_cl s + total (plain_chunks ls) <= n)).
Proof.
  induction ls as [|l ls IH]; intros s He Hnn.
  - cbn. split; [intros _; left; reflexivity | reflexivity].
  - inversion Hnn as [|? ? Hl Hls]; subst. change (plain_chunks (l :: ls)) with ((l, false) :: plain_chunks ls).
    rewrite (track_all_cons n l false _ s He). cbn [andb orb]. rewrite orb_false_r.
    change ((l, false) :: plain_chunks ls) with (plain_chunks (l :: ls)). rewrite total_cons.
    pose proof (total_nonneg ls Hls) as Hp.
    destruct (n <? s_act_cl s + l) eqn:E.
    + cbn [fst]. split; [discriminate|]. intros [H|H]; [discriminate|lia].
    + rewrite (IH (set_cl s (Some n) (s_act_cl s + l)) eq_refl Hls). change (s_act_cl (set_cl s (Some n) (s_act_cl s + l))) with (s_act_cl s + l).
      split.
      * intros [H|H]; right; [subst ls; cbn; lia | lia].
      * intros [H|H]; [discriminate|]. right. lia.
Qed.

(* (A) while the message is not ended: DATA is accepted exactly as long as the payload total does not exceed content-length *)
Theorem data_within_content_length n ls s :
  s_exp_cl s = Some n -> s_act_cl s = 0 -> Forall (fun l => 0 <= l) ls -> ls <> [] ->
  (fst (track_all s (plain_chunks ls)) = true <-> total (plain_chunks ls) <= n).
Proof.
  intros He Ha Hnn Hne. rewrite (track_all_open n ls s He Hnn), Ha.
  split; [intros [H|H]; [contradiction|lia] | intros H; right; lia].
Qed.

(* (B) a message ended by a DATA frame: accepted if and only if the payload total equals content-length *)
Theorem data_ending_the_message n ls l s :
  s_exp_cl s = Some n -> s_act_cl s = 0 -> Forall (fun x => 0 <= x) ls -> 0 <= l ->
  (fst (track_all s (plain_chunks ls ++ [(l, true)])) = true <-> total (plain_chunks ls) + l = n).
Proof.
  intros He Ha Hnn Hl.
  assert (G : forall ls s, s_exp_cl s = Some n -> Forall (fun x => 0 <= x) ls ->
              (fst (track_all s (plain_chunks ls ++ [(l, true)])) = true <-> s_act_cl s + total (plain_chunks ls) + l = n)).
  { clear ls s He Ha Hnn. induction ls as [|x ls IH]; intros s He Hnn.
    - cbn [plain_chunks map app]. rewrite (track_all_cons n l true [] s He). cbn [andb track_all total fold_right].
      destruct (n <? s_act_cl s + l) eqn:E; cbn [orb fst]; [split; [discriminate|lia]|].
      destruct (n =? s_act_cl s + l) eqn:E2; cbn [negb fst]; split; try discriminate; try reflexivity; lia.
    - inversion Hnn as [|? ? Hx Hls]; subst. change (plain_chunks (x :: ls) ++ [(l, true)]) with ((x, false) :: (plain_chunks ls ++ [(l, true)])).
      rewrite (track_all_cons n x false _ s He). cbn [andb]. rewrite orb_false_r. rewrite total_cons.
      pose proof (total_nonneg ls Hls) as Hp.
      destruct (n <? s_act_cl s + x) eqn:E.
      + cbn [fst]. split; [discriminate|lia].
      + rewrite (IH (set_cl s (Some n) (s_act_cl s + x)) eq_refl Hls). change (s_act_cl (set_cl s (Some n) (s_act_cl s + x))) with (s_act_cl s + x). lia. }
  rewrite (G ls s He Hnn), Ha. lia.
Qed.

(* (C) without content-length nothing is checked *)
Theorem no_content_length_no_check chunks : forall s, s_exp_cl s = None -> fst (track_all s chunks) = true.
Proof.
  induction chunks as [|[l es] r IH]; intros s He; cbn [track_all]; [reflexivity|].
  unfold track_content_length. rewrite He. apply IH. reflexivity.
Qed.

(* (D) padding does not count: receive_data adds the payload length, never the flow-controlled length *)
Theorem padding_is_not_counted len fclen es s s' evs :
  receive_data len fclen es s = (s', Ok evs) -> s_act_cl s' = s_act_cl s + len.
Proof.
  unfold receive_data. unfold bind at 1. unfold fsm at 1.
  destruct (process_input (s_id s) (s_sm s) SI_RECV_DATA) as [m [e1| |]]; try discriminate.
  unfold bind at 1. unfold lift_wm at 1. cbn [s_in_wm set_sm].
  destruct (window_consumed (s_in_wm s) fclen) as [w [u| |]]; try discriminate.
  unfold bind at 1. unfold track_content_length at 1. cbn [s_exp_cl s_act_cl set_in_wm set_sm].
  set (s3 := set_cl (set_in_wm (set_sm s m) w) (s_exp_cl s) (s_act_cl s + len)).
  assert (K : forall (k : SM (list event)) sx r, (forall t t' r', k t = (t', r') -> s_act_cl t' = s_act_cl t) ->
              k s3 = (sx, r) -> s_act_cl sx = s_act_cl s + len).
  { intros k sx r Hk H. rewrite (Hk _ _ _ H). reflexivity. }
  assert (Hrest : forall t t' r', (es0 <- (if es then fsm SI_RECV_END_STREAM else ret []) ;;
      match e1, (if es then es0 else [SE_StreamEnded]) with
      | [], _ => crash IndexError | _, [] => crash IndexError
      | _, _ => s0 <- get ;; ret (EDataReceived (s_id s0) len fclen (if es then Some 1 else None) :: (if es then [EStreamEnded (s_id s0)] else []))
      end) t = (t', r') -> s_act_cl t' = s_act_cl t).
  { intros t t' r'. unfold bind at 1. destruct es.
    - unfold fsm. destruct (process_input (s_id t) (s_sm t) SI_RECV_END_STREAM) as [m2 [e2| |]]; try (intros H; injection H as <- _; reflexivity).
      destruct e1; [unfold crash; intros H; injection H as <- _; reflexivity|]. destruct e2; [unfold crash; intros H; injection H as <- _; reflexivity|].
      unfold bind, get, ret. intros H; injection H as <- _; reflexivity.
    - unfold ret at 1. destruct e1; [unfold crash; intros H; injection H as <- _; reflexivity|].
      unfold bind, get, ret. intros H; injection H as <- _; reflexivity. }
  destruct (s_exp_cl s) as [e|].
  - destruct (e <? s_act_cl s + len); [discriminate|]. destruct (es && negb (e =? s_act_cl s + len)); [discriminate|].
    intros H. exact (K _ _ _ Hrest H).
  - intros H. exact (K _ _ _ Hrest H).
Qed.

(* (E) a response to HEAD expects no payload whatever its content-length says *)
Theorem head_response_expects_nothing hs s s' r :
  s_method s = Some b_HEAD -> initialize_content_length hs s = (s', r) -> s_exp_cl s' = Some 0 /\ r = Ok tt.
Proof.
  intros Hm. unfold initialize_content_length, bind, get. rewrite Hm. rewrite (proj2 (bytes_eqb_eq b_HEAD b_HEAD) eq_refl).
  unfold put. intros H. injection H as <- <-. split; reflexivity.
Qed.
