From H2 Require Import Base.Prelude Base.PyDict Model.FsmTypes Gen.Consts Gen.Tables Gen.Guards
  Model.Types Model.Windows Model.WmHist Model.SettingsV Model.Settings Model.StreamFSM Model.Headers
  Model.Stream Model.ConnState Model.Connection Proofs.ConstFacts Proofs.Frame Proofs.FrameConn Proofs.Inv Proofs.C19Proofs.

(* _terminate_connection: exactly one GOAWAY, carrying the code and the highest stream id the peer opened;
   the connection is closed afterwards *)
Lemma terminate_closed_form code c :
  terminate_connection code c =
  let c1 := cset_state c C_CLOSED in
  let c2 := cset_out c1 (c_out c ++ [FGoAway (c_hi_in c) code 0]) in
  (c2, if 8 <=? c_max_out_frame c then Ok tt else Crash AssertionError).
Proof.
  unfold terminate_connection, bind, get, cfsm.
  destruct (goaway_always_closes (c_state c)) as [H _]. rewrite H.
  unfold prepare_for_sending. cbn [forallb body_len andb c_max_out_frame cset_state c_out c_hi_in].
  replace (8 + 0) with 8 by lia. destruct (8 <=? c_max_out_frame c); reflexivity.
Qed.

(* the loop of receive_data: an h2 exception leaves through _terminate_connection *)
Definition ended_by_goaway (c' : conn) (code : Z) : Prop :=
  exists c1, c' = cset_out (cset_state c1 C_CLOSED) (c_out c1 ++ [FGoAway (c_hi_in c1) code 0]).

Lemma recv_except_goaway c1 res1 c' e code sid rst :
  (forall evs, res1 <> Ok evs) ->
  recv_except c1 res1 = (c', Err e code sid rst) -> is_protocol_error e = true -> ended_by_goaway c' code.
Proof.
  intros Hn H He. unfold recv_except in H. destruct res1 as [evs|e1 code1 sid1 rst1|p].
  - exfalso. exact (Hn evs eq_refl).
  - destruct (is_protocol_error e1) eqn:Ep.
    + rewrite terminate_closed_form in H. cbv zeta in H.
      destruct (8 <=? c_max_out_frame c1); [|discriminate].
      injection H as <- <- <- <- <-. exists c1. reflexivity.
    + injection H as <- <- <- <- <-. rewrite Ep in He. discriminate.
  - destruct p; try discriminate.
    rewrite terminate_closed_form in H. cbv zeta in H.
    destruct (8 <=? c_max_out_frame c1); [|discriminate].
    unfold perr in H. injection H as <- <- <- <- <-. exists c1. reflexivity.
Qed.

Lemma loop_err_goaway fs : forall acc c c' e code sid rst rem,
  recv_core fs acc c = (c', Err e code sid rst, rem) ->
  is_protocol_error e = true -> ended_by_goaway c' code.
Proof.
  induction fs as [|[f blen] rest IH]; intros acc c c' e code sid rst rem H He; cbn [recv_core] in H.
  - discriminate.
  - destruct (frame_buffer_check (c_max_in_frame c) f blen) as [|rj].
    + destruct (receive_frame f c) as [c1 res1].
      destruct res1 as [evs|e1 code1 sid1 rst1|p].
      * exact (IH _ _ _ _ _ _ _ _ H He).
      * destruct (recv_except c1 _) as [c2 r2] eqn:Ee. injection H as <- -> _.
        refine (recv_except_goaway _ _ _ _ _ _ _ _ Ee He). intros evs; discriminate.
      * destruct (recv_except c1 _) as [c2 r2] eqn:Ee. injection H as <- -> _.
        refine (recv_except_goaway _ _ _ _ _ _ _ _ Ee He). intros evs; discriminate.
    + destruct ((dispatch rj ;;; ret []) c) as [c1 res1].
      destruct res1 as [evs|e1 code1 sid1 rst1|p].
      * exact (IH _ _ _ _ _ _ _ _ H He).
      * destruct (recv_except c1 _) as [c2 r2] eqn:Ee. injection H as <- -> _.
        refine (recv_except_goaway _ _ _ _ _ _ _ _ Ee He). intros evs; discriminate.
      * destruct (recv_except c1 _) as [c2 r2] eqn:Ee. injection H as <- -> _.
        refine (recv_except_goaway _ _ _ _ _ _ _ _ Ee He). intros evs; discriminate.
Qed.

(* the GOAWAY is still the last thing in the state when the buffer is written back *)
Theorem receive_error_emits_one_goaway fs c c' e code sid rst :
  api_receive fs c = (c', Err e code sid rst) -> is_protocol_error e = true ->
  ended_by_goaway c' code.
Proof.
  intros H He. unfold api_receive in H.
  destruct (recv_core (c_inbuf c ++ fs) [] c) as [[c1 r1] rem] eqn:E. injection H as <- ->.
  destruct (loop_err_goaway _ _ _ _ _ _ _ _ _ E He) as [c0 ->].
  exists (cset_inbuf c0 rem). destruct c0; reflexivity.
Qed.

(* every exception that can leave receive_data is a ProtocolError (or a subclass) *)
Lemma receive_errors_are_protocol_errors e : e <> RFC1122Error -> is_protocol_error e = true.
Proof. destruct e; intros H; try reflexivity. contradiction. Qed.

(* the code carried by each exception class (generated from the class attributes) *)
Lemma error_code_table :
  exn_code FrameTooLargeError = 6 /\ exn_code FrameDataMissingError = 6 /\ exn_code FlowControlError = 3 /\
  exn_code StreamClosedError = 5 /\ exn_code DenialOfServiceError = 11 /\ exn_code ProtocolError = 1 /\
  exn_code TooManyStreamsError = 1 /\ exn_code StreamIDTooLowError = 1 /\ exn_code InvalidBodyLengthError = 1 /\
  exn_code NoSuchStreamError = 1.
Proof. repeat split; reflexivity. Qed.

(* which violation raises which class *)
Lemma too_large_frame_is_frame_size_error f blen c :
  bad_stream_association f = false -> blen > c_max_in_frame c ->
  frame_buffer_check (c_max_in_frame c) f blen = FBReject RTooLarge.
Proof.
  intros Hb Hgt. unfold frame_buffer_check, g_fb_len. rewrite Hb.
  destruct (blen >? c_max_in_frame c) eqn:E; [reflexivity|lia].
Qed.

Lemma oversized_header_list_is_enhance_your_calm hs c :
  hl_size hs > c_dec_max_hls c ->
  snd (decode_headers (HDecoded hs) c) = Err DenialOfServiceError 11 0 false.
Proof.
  intros H. unfold decode_headers, bind, modify, get. cbn [c_dec_max_hls cset_dec_log].
  destruct (hl_size hs >? c_dec_max_hls c) eqn:E; [reflexivity|lia].
Qed.

Lemma undecodable_block_code c : snd (decode_headers HDecodeError c) = Err ProtocolError 1 0 false.
Proof. reflexivity. Qed.
