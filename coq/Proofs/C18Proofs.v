From H2 Require Import Base.Prelude Base.PyDict Model.FsmTypes Gen.Consts Gen.Tables Gen.Guards
  Model.Types Model.Windows Model.WmHist Model.SettingsV Model.Settings Model.StreamFSM Model.Headers
  Model.Stream Model.ConnState Model.Connection Proofs.ConstFacts Proofs.Frame Proofs.FrameConn Proofs.Inv Proofs.C19Proofs.

(* _terminate_connection: exactly one GOAWAY, carrying the code and the highest stream id the peer opened;
   the connection is closed afterwards *)
Lemma terminate_closed_form code c :
  terminate_connection code c =
  let c1 := cset_state c C_CLOSED in
  let c2 := cset_out c1 (c_out c ++ [FGoAway (c_hi_in c) code 0]) in
  (c2, if 8 <=? c_max_out_frame c then Ok tt else Crash AssertionError).
Proof.
  unfold terminate_connection, bind, get, cfsm.
  destruct (goaway_always_closes (c_state c)) as [H _]. rewrite H.
  unfold prepare_for_sending. cbn [forallb body_len andb c_max_out_frame cset_state c_out c_hi_in].
  replace (8 + 0) with 8 by lia. destruct (8 <=? c_max_out_frame c); reflexivity.
Qed.

(* the loop of receive_data: an h2 exception leaves through _terminate_connection *)
Definition ended_by_goaway (c' : conn) (code : Z) : Prop :=
  exists c1, c' = cset_out (cset_state c1 C_CLOSED) (c_out c1 ++ [FGoAway (c_hi_in c1) code 0]).

Lemma loop_err_goaway fuel : forall acc c c' e code sid rst,
  (fix loop (fuel : nat) (acc : list event) : CM (list event) :=
     match fuel with
     | O => ret acc
     | S fuel' =>
         fun c =>
         match c_inbuf c with
         | [] => (c, Ok acc)
         | (f, blen) :: rest =>
           let '(c1, res1) :=
             match frame_buffer_check (c_max_in_frame c) f blen with
             | FBReject r => (dispatch r ;;; ret []) c
             | FBYield => receive_frame f (cset_inbuf c rest)
             end in
           match res1 with
           | Ok evs => loop fuel' (acc ++ evs) c1
           | Err e code sid rst =>
               if is_protocol_error e then
                 let '(c2, res2) := terminate_connection code c1 in
                 match res2 with
                 | Ok _ => (c2, Err e code sid rst)
                 | Err e2 a b d => (c2, Err e2 a b d)
                 | Crash p => (c2, Crash p)
                 end
               else (c1, Err e code sid rst)
           | Crash ForeignError =>
               let '(c2, res2) := terminate_connection EC_PROTOCOL_ERROR c1 in
               match res2 with
               | Ok _ => (c2, perr)
               | Err e2 a b d => (c2, Err e2 a b d)
               | Crash p => (c2, Crash p)
               end
           | Crash p => (c1, Crash p)
           end
         end
     end) fuel acc c = (c', Err e code sid rst) ->
  is_protocol_error e = true -> ended_by_goaway c' code.
Proof.
  induction fuel as [|fuel IH]; intros acc c c' e code sid rst H He.
  - unfold ret in H. discriminate.
  - destruct (c_inbuf c) as [|[f blen] rest]; [discriminate|].
    match type of H with (let '(_, _) := ?X in _) = _ => destruct X as [c1 res1] end.
    destruct res1 as [evs|e1 code1 sid1 rst1|p].
    + exact (IH _ _ _ _ _ _ _ H He).
    + destruct (is_protocol_error e1) eqn:Ep.
      * rewrite terminate_closed_form in H. cbv zeta in H.
        destruct (8 <=? c_max_out_frame c1); [|discriminate].
        injection H as <- <- <- <- <-. exists c1. reflexivity.
      * injection H as <- <- <- <- <-. rewrite Ep in He. discriminate.
    + destruct p; try discriminate.
      rewrite terminate_closed_form in H. cbv zeta in H.
      destruct (8 <=? c_max_out_frame c1); [|discriminate].
      unfold perr in H. injection H as <- <- <- <- <-. exists c1. reflexivity.
Qed.

Theorem receive_error_emits_one_goaway fs c c' e code sid rst :
  api_receive fs c = (c', Err e code sid rst) -> is_protocol_error e = true ->
  ended_by_goaway c' code.
Proof.
  intros H He. unfold api_receive in H.
  unfold bind at 1 in H. unfold modify at 1 in H. unfold bind at 1 in H. unfold get at 1 in H.
  exact (loop_err_goaway _ _ _ _ _ _ _ _ H He).
Qed.

(* every exception that can leave receive_data is a ProtocolError (or a subclass) *)
Lemma receive_errors_are_protocol_errors e : e <> RFC1122Error -> is_protocol_error e = true.
Proof. destruct e; intros H; try reflexivity. contradiction. Qed.

(* the code carried by each exception class (generated from the class attributes) *)
Lemma error_code_table :
  exn_code FrameTooLargeError = 6 /\ exn_code FrameDataMissingError = 6 /\ exn_code FlowControlError = 3 /\
  exn_code StreamClosedError = 5 /\ exn_code DenialOfServiceError = 11 /\ exn_code ProtocolError = 1 /\
  exn_code TooManyStreamsError = 1 /\ exn_code StreamIDTooLowError = 1 /\ exn_code InvalidBodyLengthError = 1 /\
  exn_code NoSuchStreamError = 1.
Proof. repeat split; reflexivity. Qed.

(* which violation raises which class *)
Lemma too_large_frame_is_frame_size_error f blen c :
  bad_stream_association f = false -> blen > c_max_in_frame c ->
  frame_buffer_check (c_max_in_frame c) f blen = FBReject RTooLarge.
Proof.
  intros Hb Hgt. unfold frame_buffer_check, g_fb_len. rewrite Hb.
  destruct (blen >? c_max_in_frame c) eqn:E; [reflexivity|lia].
Qed.

Lemma oversized_header_list_is_enhance_your_calm hs c :
  hl_size hs > c_dec_max_hls c ->
  snd (decode_headers (HDecoded hs) c) = Err DenialOfServiceError 11 0 false.
Proof.
  intros H. unfold decode_headers, bind, modify, get. cbn [c_dec_max_hls cset_dec_log].
  destruct (hl_size hs >? c_dec_max_hls c) eqn:E; [reflexivity|lia].
Qed.

Lemma undecodable_block_code c : snd (decode_headers HDecodeError c) = Err ProtocolError 1 0 false.
Proof. reflexivity. Qed.
