(* Proofs/InvTac.v — a compositional prover for invariants of the form [Q (P c)] where P is a
   projection of the connection state: handlers are walked syntactically; a sub-computation whose
   footprint does not contain P preserves the invariant for free; the few primitives that do touch P
   are handled by a tactic supplied by the caller. *)
From H2 Require Import Base.Prelude Base.PyDict Model.FsmTypes Gen.Consts Gen.Tables Gen.Guards
  Model.Types Model.Windows Model.WmHist Model.SettingsV Model.Settings Model.StreamFSM Model.Headers
  Model.Stream Model.ConnState Model.Connection Proofs.Frame Proofs.FrameConn Proofs.Inv.

Lemma pinv_of_pres_gen {T A} (P : conn -> T) (Q : T -> Prop) (m : CM A) :
  preserves P m -> pres_inv (fun c => Q (P c)) m.
Proof. intros Hp c c' r Hc H. cbv beta in *. rewrite (Hp _ _ _ H). exact Hc. Qed.

Ltac ow := intros; reflexivity.

(* [fp_leaf]: prove [preserves P m] for a primitive or a handler whose footprint lemma applies with every
   independence hypothesis closed by computation *)
Ltac fp_leaf :=
  first
  [ apply pres_ret | apply pres_fail | apply pres_crash | apply pres_lift_res | apply pres_get
  | apply pres_modify; intros ?; reflexivity
  | apply pres_cfsm; ow | apply pres_prepare; ow | apply pres_with_stream; ow | apply pres_for_streams; ow
  | apply fp_open_streams; ow | apply fp_open_outbound; ow | apply fp_open_inbound; ow
  | apply fp_begin_new_stream; ow | apply fp_get_or_create; ow | apply fp_get_stream_by_id
  | apply fp_log_enc; ow | apply fp_lift_local; ow | apply fp_lift_remote; ow | apply fp_lift_cwm; ow
  | apply fp_decode_headers; ow | apply fp_flow_control_change; ow | apply fp_acknowledge_settings; ow
  | apply fp_local_settings_acked; ow
  | apply fp_local_flow_control_window | apply fp_remote_flow_control_window | apply fp_api_next_stream_id
  | apply fp_recv_priority; ow | apply fp_recv_ping; ow | apply fp_recv_rst_stream; ow | apply fp_recv_goaway; ow
  | apply fp_recv_naked_continuation; ow | apply fp_recv_alt_svc; ow | apply fp_recv_settings; ow
  | apply fp_recv_headers; ow | apply fp_recv_push_promise; ow | apply fp_recv_data; ow
  | apply fp_recv_window_update; ow | apply fp_terminate_connection; ow
  | apply fp_initiate_connection; ow ].

(* structure *)
Ltac inv_struct :=
  match goal with
  | |- pres_inv _ (bind _ _) => apply pinv_bind; [|intros ?]
  | |- pres_inv _ (when _ _) => unfold when
  | |- pres_inv _ (if ?b then _ else _) => destruct b
  | |- pres_inv _ (match ?x with _ => _ end) => destruct x
  | |- pres_inv _ (let '(_, _) := ?x in _) => destruct x
  end.

(* [inv_go P special]: [special] is tried first on every sub-goal *)
Ltac inv_go P special :=
  repeat first [ special | (apply (pinv_of_pres_gen P); fp_leaf) | inv_struct ].

(* the same with the predicate given explicitly (when unification cannot find it) *)
Ltac inv_goQ P Q special :=
  repeat first [ special | (apply (pinv_of_pres_gen P Q); fp_leaf) | inv_struct ].

(* lifting to [step] and [run] *)
Section StepLift.
Variable I : conn -> Prop.
Variable wf : rframe -> Prop.
Hypothesis I_wf : forall c, I c -> Forall (fun e => wf (fst e)) (c_inbuf c).
Hypothesis I_inbuf : forall c v, I c -> Forall (fun e => wf (fst e)) v -> I (cset_inbuf c v).
Hypothesis I_out : forall c v, I c -> I (cset_out c v).
Hypothesis H_initiate : pres_inv I initiate_connection.
Hypothesis H_upgrade : forall hdr, pres_inv I (api_initiate_upgrade hdr).
Hypothesis H_send_headers : forall sid hs L es pw pd pe, pres_inv I (api_send_headers sid hs L es pw pd pe).
Hypothesis H_send_data : forall sid len es pad, pres_inv I (api_send_data sid len es pad).
Hypothesis H_end_stream : forall sid, pres_inv I (api_end_stream sid).
Hypothesis H_increment : forall inc sid, pres_inv I (api_increment_window inc sid).
Hypothesis H_push : forall sid pr hs L, pres_inv I (api_push_stream sid pr hs L).
Hypothesis H_ping : forall pl, pres_inv I (api_ping pl).
Hypothesis H_reset : forall sid code, pres_inv I (api_reset_stream sid code).
Hypothesis H_close : forall code last dbg, pres_inv I (api_close_connection code last dbg).
Hypothesis H_update : forall kvs, pres_inv I (api_update_settings kvs).
Hypothesis H_altsvc : forall f o s, pres_inv I (api_advertise_alt_svc f o s).
Hypothesis H_prioritize : forall sid w d e, pres_inv I (api_prioritize sid w d e).
Hypothesis H_ack : forall n sid, pres_inv I (api_acknowledge_received_data n sid).
Hypothesis H_next : pres_inv I api_next_stream_id.
Hypothesis H_lw : forall sid, pres_inv I (local_flow_control_window sid).
Hypothesis H_rw : forall sid, pres_inv I (remote_flow_control_window sid).
Hypothesis H_oo : pres_inv I open_outbound_streams.
Hypothesis H_oi : pres_inv I open_inbound_streams.
Hypothesis H_frame : forall f, wf f -> pres_inv I (receive_frame f).
Hypothesis H_terminate : forall code, pres_inv I (terminate_connection code).

Definition wf_op (o : op) : Prop :=
  match o with OReceive fs => Forall (fun e => wf (fst e)) fs | _ => True end.

Lemma as_none_inv (m : CM unit) : pres_inv I m -> pres_inv I (as_none m).
Proof. intros H. unfold as_none. apply pinv_bind; [exact H | intros; apply pinv_ret]. Qed.
Lemma as_z_inv (m : CM Z) : pres_inv I m -> pres_inv I (as_z m).
Proof. intros H. unfold as_z. apply pinv_bind; [exact H | intros; apply pinv_ret]. Qed.

Theorem step_inv c o c' r : I c -> wf_op o -> step c o = (c', r) -> I c'.
Proof.
  intros Hc Hw H.
  destruct o as [|hdr|sid hs L es pw pd pe|sid len es pad|sid|inc sid|sid pr hs L|pl|sid code|code last dbg|kvs
                |fl og sid|sid w d e|n sid| |sid|sid| | | |fs]; cbn [step] in H.
  - revert H; revert Hc. apply as_none_inv. apply H_initiate.
  - revert H; revert Hc. apply pinv_bind; [apply H_upgrade | intros; apply pinv_ret].
  - revert H; revert Hc. apply as_none_inv. apply H_send_headers.
  - revert H; revert Hc. apply as_none_inv. apply H_send_data.
  - revert H; revert Hc. apply as_none_inv. apply H_end_stream.
  - revert H; revert Hc. apply as_none_inv. apply H_increment.
  - revert H; revert Hc. apply as_none_inv. apply H_push.
  - revert H; revert Hc. apply as_none_inv. apply H_ping.
  - revert H; revert Hc. apply as_none_inv. apply H_reset.
  - revert H; revert Hc. apply as_none_inv. apply H_close.
  - revert H; revert Hc. apply as_none_inv. apply H_update.
  - revert H; revert Hc. apply as_none_inv. apply H_altsvc.
  - revert H; revert Hc. apply as_none_inv. apply H_prioritize.
  - revert H; revert Hc. apply as_none_inv. apply H_ack.
  - revert H; revert Hc. apply as_z_inv. apply H_next.
  - revert H; revert Hc. apply as_z_inv. apply H_lw.
  - revert H; revert Hc. apply as_z_inv. apply H_rw.
  - revert H; revert Hc. apply as_z_inv. apply H_oo.
  - revert H; revert Hc. apply as_z_inv. apply H_oi.
  - injection H as <- _. apply I_out. exact Hc.
  - cbn [wf_op] in Hw. unfold bind in H. destruct (api_receive fs c) as [c1 r1] eqn:E.
    assert (Hc1 : c' = c1) by (destruct r1; unfold ret in H; injection H as <- _; reflexivity). subst c'.
    exact (api_receive_inv I wf I_wf I_inbuf H_frame H_terminate fs c c1 r1 Hc Hw E).
Qed.

Theorem run_inv os : forall c, I c -> Forall wf_op os -> I (run c os).
Proof.
  induction os as [|o os IH]; intros c Hc Hw; cbn [run fold_left]; [exact Hc|].
  inversion Hw as [|? ? Ho Hos]; subst. apply IH; [|exact Hos].
  destruct (step c o) as [c' r] eqn:E. exact (step_inv _ _ _ _ Hc Ho E).
Qed.
End StepLift.
