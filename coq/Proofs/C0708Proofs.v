(* Proofs/C0708Proofs.v — the HTTP message grammar enforced by the stream state machine, over every state reachable from a
   fresh state machine under ANY sequence of inputs (Proofs/FsmReach.v), and the shape of the event lists built by H2Stream. *)
From H2 Require Import Base.Prelude Base.PyDict Model.FsmTypes Gen.Consts Gen.Tables Model.Types Model.Windows Model.WmHist
  Model.StreamFSM Model.Headers Model.Stream Proofs.FsmReach.

Definition evs_of (m : sm) (i : sinput) : option (list sev) := match snd (process_input 7 m i) with Ok e => Some e | _ => None end.
Definition has_ev (e : sev) (m : sm) (i : sinput) : bool :=
  match evs_of m i with Some l => existsb (fun x => sev_code x =? sev_code e) l | None => false end.
Definition accepted (m : sm) (i : sinput) : bool := match evs_of m i with Some _ => true | None => false end.
Definition server_side (m : sm) := match sm_client m with Some false => true | _ => false end.
Definition client_side (m : sm) := match sm_client m with Some true => true | _ => false end.
Definition alli (P : sinput -> bool) := forallb P all_sinput.
Definition is_st (m : sm) (s : sstate) := sstate_eqb (sm_state m) s.

(* ---------- C07: received events ---------- *)
Definition c07_data_needs_headers (m : sm) := negb (has_ev SE_DataReceived m SI_RECV_DATA) || sm_hr m.
Definition c07_server_reports_requests_only (m : sm) :=
  negb (server_side m) || alli (fun i => negb (has_ev SE_ResponseReceived m i || has_ev SE_InformationalResponseReceived m i || has_ev SE_PushedStreamReceived m i)).
Definition c07_client_reports_no_requests (m : sm) := negb (client_side m) || alli (fun i => negb (has_ev SE_RequestReceived m i)).
Definition c07_nothing_after_end (m : sm) :=
  negb (is_st m S_HALF_CLOSED_REMOTE || is_st m S_CLOSED) ||
  negb (accepted m SI_RECV_HEADERS || accepted m SI_RECV_DATA || accepted m SI_RECV_INFORMATIONAL_HEADERS).
Definition c07_informational_before_final (m : sm) := negb (has_ev SE_InformationalResponseReceived m SI_RECV_INFORMATIONAL_HEADERS) || negb (sm_hr m).
Definition c07_one_final_response (m : sm) :=
  (negb (has_ev SE_ResponseReceived m SI_RECV_HEADERS) || negb (sm_hr m)) && (negb (has_ev SE_RequestReceived m SI_RECV_HEADERS) || negb (sm_hr m)).
Definition c07_trailers_after_headers_once (m : sm) := negb (has_ev SE_TrailersReceived m SI_RECV_HEADERS) || (sm_hr m && negb (sm_tr m)).
Definition c07_one_reset (m : sm) := negb (has_ev SE_StreamReset m SI_RECV_RST_STREAM) || negb (is_st m S_CLOSED).
Definition c07_no_stream_event_after_reset (m : sm) :=
  negb (is_st m S_CLOSED) || alli (fun i => match evs_of m i with Some (_ :: _) => false | _ => true end).

Definition c07_all (m : sm) := c07_data_needs_headers m && c07_server_reports_requests_only m && c07_client_reports_no_requests m &&
  c07_nothing_after_end m && c07_informational_before_final m && c07_one_final_response m && c07_trailers_after_headers_once m &&
  c07_one_reset m && c07_no_stream_event_after_reset m.
Lemma c07_checked : forallb c07_all reach = true.
Proof. vm_compute. reflexivity. Qed.
Theorem c07_holds_after_any_inputs is : c07_all (run_inputs sm_new is) = true.
Proof. exact (reach_forall c07_all c07_checked is). Qed.

(* ---------- C08: what the application may emit ---------- *)
Definition c08_no_headers_after_trailers (m : sm) := negb (sm_hs m && sm_ts m) || negb (accepted m SI_SEND_HEADERS).
Definition c08_no_informational_after_final (m : sm) := negb (sm_hs m) || negb (accepted m SI_SEND_INFORMATIONAL_HEADERS).
Definition c08_second_block_is_trailers (m : sm) := negb (sm_hs m && accepted m SI_SEND_HEADERS) || has_ev SE_TrailersSent m SI_SEND_HEADERS.
Definition c08_client_stream_sends_no_response (m : sm) := negb (client_side m && negb (sm_hs m)) || negb (has_ev SE_ResponseSent m SI_SEND_HEADERS).
Definition c08_client_stream_cannot_push (m : sm) := negb (client_side m) || negb (accepted m SI_SEND_PUSH_PROMISE).
Definition c08_client_stream_cannot_altsvc (m : sm) := negb (client_side m) || negb (accepted m SI_SEND_ALTERNATIVE_SERVICE).
Definition c08_request_only_opens (m : sm) := negb (has_ev SE_RequestSent m SI_SEND_HEADERS) || is_st m S_IDLE.
Definition c08_nothing_after_end (m : sm) :=
  negb (is_st m S_HALF_CLOSED_LOCAL || is_st m S_CLOSED) ||
  negb (accepted m SI_SEND_HEADERS || accepted m SI_SEND_DATA || accepted m SI_SEND_END_STREAM || accepted m SI_SEND_INFORMATIONAL_HEADERS || accepted m SI_SEND_PUSH_PROMISE).

Definition c08_all (m : sm) := c08_no_headers_after_trailers m && c08_no_informational_after_final m && c08_second_block_is_trailers m &&
  c08_client_stream_sends_no_response m && c08_client_stream_cannot_push m && c08_client_stream_cannot_altsvc m && c08_request_only_opens m &&
  c08_nothing_after_end m.
Lemma c08_checked : forallb c08_all reach = true.
Proof. vm_compute. reflexivity. Qed.
Theorem c08_holds_after_any_inputs is : c08_all (run_inputs sm_new is) = true.
Proof. exact (reach_forall c08_all c08_checked is). Qed.

(* the connection's role gate *)
Lemma c08_role_gate :
  conn_transition C_CLIENT_OPEN CI_SEND_PUSH_PROMISE = None /\ conn_transition C_CLIENT_OPEN CI_SEND_ALTERNATIVE_SERVICE = None /\
  conn_transition C_CLIENT_OPEN CI_RECV_PUSH_PROMISE = Some C_CLIENT_OPEN /\ conn_transition C_SERVER_OPEN CI_RECV_PUSH_PROMISE = None.
Proof. repeat split; reflexivity. Qed.

(* refuted clauses (witnesses are reachable states): DATA / END_STREAM before the final headers are NOT refused on a stream the
   peer opened; a connection that has not opened a stream yet accepts SEND_ALTERNATIVE_SERVICE whatever its configured role *)
Definition c08_data_needs_headers (m : sm) := negb (accepted m SI_SEND_DATA) || sm_hs m.
Definition c08_end_needs_headers (m : sm) := negb (accepted m SI_SEND_END_STREAM) || sm_hs m.
Lemma c08_data_before_headers_refuted :
  let m := run_inputs sm_new [SI_RECV_HEADERS] in
  sm_client m = Some false /\ sm_hs m = false /\ accepted m SI_SEND_DATA = true /\ accepted m SI_SEND_END_STREAM = true.
Proof. vm_compute. repeat split; reflexivity. Qed.
Lemma c08_idle_connection_altsvc_refuted : conn_transition C_IDLE CI_SEND_ALTERNATIVE_SERVICE = Some C_SERVER_OPEN.
Proof. reflexivity. Qed.

(* ---------- the event lists H2Stream builds: related events follow in the same list; trailers carry stream_ended ---------- *)
Definition ended_ok (evs : list event) : Prop :=
  match evs with
  | [ERequestReceived _ _ None _] | [EResponseReceived _ _ None _] | [EInformationalResponseReceived _ _ _] | [EDataReceived _ _ _ None] => True
  | [ERequestReceived sid _ (Some 1) _; EStreamEnded sid'] | [EResponseReceived sid _ (Some 1) _; EStreamEnded sid']
  | [ETrailersReceived sid _ (Some 1) _; EStreamEnded sid'] | [EDataReceived sid _ _ (Some 1); EStreamEnded sid'] => sid = sid'
  | _ => False
  end.

Lemma receive_data_event_shape len fclen es s s' evs : receive_data len fclen es s = (s', Ok evs) -> ended_ok evs.
Proof.
  unfold receive_data. unfold bind at 1. destruct (fsm SI_RECV_DATA s) as [s1 [e1| |]]; try discriminate.
  unfold bind at 1. destruct (lift_wm _ s1) as [s2 [u| |]]; try discriminate.
  unfold bind at 1. destruct (track_content_length len es s2) as [s3 [u'| |]]; try discriminate.
  unfold bind at 1. destruct es.
  - destruct (fsm SI_RECV_END_STREAM s3) as [s4 [e4| |]]; try discriminate.
    destruct e1 as [|a e1]; [discriminate|]. destruct e4 as [|b e4]; [discriminate|].
    unfold bind, get, ret. intros H. injection H as _ <-. cbn. reflexivity.
  - unfold ret at 1. destruct e1 as [|a e1]; [discriminate|].
    unfold bind, get, ret. intros H. injection H as _ <-. cbn. exact I.
Qed.

Lemma hdr_event_shape s e0 h ended ev : hdr_event s e0 h ended = Ok ev ->
  (ev = ERequestReceived (s_id s) h ended None /\ e0 = SE_RequestReceived) \/ (ev = EResponseReceived (s_id s) h ended None /\ e0 = SE_ResponseReceived) \/
  (ev = ETrailersReceived (s_id s) h ended None /\ e0 = SE_TrailersReceived) \/ (ev = EInformationalResponseReceived (s_id s) h None /\ e0 = SE_InformationalResponseReceived).
Proof. destruct e0; cbn; intros H; try discriminate; injection H as <-; tauto. Qed.

Lemma recv_headers_no_info sid m m' e1 : process_input sid m SI_RECV_HEADERS = (m', Ok (SE_InformationalResponseReceived :: e1)) -> False.
Proof.
  destruct m as [st c hs ts hr tr cb]. destruct st, c as [[|]|], hs, ts, hr, tr; cbn; try discriminate; destruct cb as [[| | |]|]; cbn; discriminate.
Qed.

Lemma bind_ok {S A B} (m : M S A) (k : A -> M S B) s s' (v : B) :
  bind m k s = (s', Ok v) -> exists s1 a, m s = (s1, Ok a) /\ k a s1 = (s', Ok v).
Proof. unfold bind. destruct (m s) as [s1 [a| |]]; intros H; try discriminate. eauto. Qed.

Lemma receive_headers_tail (m0 : SM unit) cfg hs es e0 e1 s2 s' evs :
  (m0 ;;;
   (if hd_is SE_TrailersReceived (e0 :: e1) && negb es then lift_res perr else ret tt) ;;;
   f <- lift_res (build_flags (e0 :: e1)) ;;
   h <- lift_res (process_received_headers cfg f hs) ;;
   s <- get ;;
   ev <- lift_res (hdr_event s e0 h (if es then Some 1 else None)) ;;
   ret (ev :: (if es then [EStreamEnded (s_id s)] else []))) s2 = (s', Ok evs) ->
  (es = true -> e0 <> SE_InformationalResponseReceived) -> ended_ok evs.
Proof.
  intros H Hinfo.
  apply bind_ok in H as (s3 & u & _ & H).
  apply bind_ok in H as (s4 & u' & Ht & H).
  apply bind_ok in H as (s5 & f & _ & H).
  apply bind_ok in H as (s6 & h & _ & H).
  apply bind_ok in H as (s7 & sx & Hg & H). unfold get in Hg. injection Hg as <- <-.
  apply bind_ok in H as (s8 & ev & Hev & H). unfold lift_res in Hev. injection Hev as <- Hev.
  unfold ret in H. injection H as _ <-.
  destruct (hd_is SE_TrailersReceived (e0 :: e1) && negb es) eqn:Hb; [unfold lift_res, perr in Ht; discriminate|].
  destruct (hdr_event_shape _ _ _ _ _ Hev) as [[-> He]|[[-> He]|[[-> He]|[-> He]]]]; subst e0; destruct es; cbn; auto.
  - cbn in Hb. discriminate.
  - exfalso. exact (Hinfo eq_refl eq_refl).
Qed.

Lemma receive_headers_event_shape cfg hs es s s' evs : receive_headers cfg hs es s = (s', Ok evs) -> ended_ok evs.
Proof.
  intros H. unfold receive_headers in H.
  destruct (is_informational_response (plain hs)) eqn:Hi; destruct es; cbn [andb] in H;
    apply bind_ok in H as (s1 & e1 & Ef & H); apply bind_ok in H as (sg & ug & Eg & H);
    try (unfold lift_res, perr in Eg; discriminate); unfold ret in Eg; injection Eg as <- _;
    apply bind_ok in H as (s2 & e2 & E2 & H).
  - unfold ret in E2. injection E2 as <- <-.
    destruct e1 as [|e0 e1]; [unfold crash in H; discriminate|].
    refine (receive_headers_tail _ cfg hs false e0 e1 _ _ _ H _). intros; discriminate.
  - destruct e1 as [|e0 e1]; [unfold crash in H; discriminate|].
    destruct e2 as [|x xs]; [unfold crash in H; discriminate|].
    refine (receive_headers_tail _ cfg hs true e0 e1 _ _ _ H _). intros _ ->.
    unfold fsm in Ef. destruct (process_input (s_id s) (s_sm s) SI_RECV_HEADERS) as [m r] eqn:Ep.
    injection Ef as _ ->. exact (recv_headers_no_info _ _ _ _ Ep).
  - unfold ret in E2. injection E2 as <- <-.
    destruct e1 as [|e0 e1]; [unfold crash in H; discriminate|].
    refine (receive_headers_tail _ cfg hs false e0 e1 _ _ _ H _). intros; discriminate.
Qed.
