(* Proofs/C17Full.v — receive_data never raises anything but a ProtocolError: the end-to-end statement, over every state reachable
   by any history.  Every place of the receive path where the Python code indexes, looks up, asserts or decodes is shown
   unreachable or translated, for every frame and every state satisfying the frame-size invariant (Proofs/MfsInv.v). *)
From H2 Require Import Base.Prelude Base.PyDict Model.FsmTypes Gen.Consts Gen.Tables Gen.Guards
  Model.Types Model.Windows Model.WmHist Model.SettingsV Model.Settings Model.StreamFSM Model.Headers
  Model.Stream Model.ConnState Model.Connection Proofs.ConstFacts Proofs.Frame Proofs.FrameConn Proofs.Inv Proofs.InvTac
  Proofs.MfsInv Proofs.C17Proofs Proofs.C18Proofs Proofs.C0708Proofs Proofs.C06Proofs.

Definition ncr {A} (r : res A) : Prop := forall p, r <> Crash p.
Lemma ncr_ok {A} (a : A) : ncr (Ok a). Proof. intros p; discriminate. Qed.
Lemma ncr_err {A} e c i b : ncr (@Err A e c i b). Proof. intros p; discriminate. Qed.
#[global] Hint Resolve ncr_ok ncr_err : core.

(* ---------- the stream state machine never lets an exception other than an h2 one out ---------- *)
Lemma run_effect_crash sid e m m' p : run_effect sid e m = (m', Crash p) -> p = AssertionError.
Proof.
  unfold run_effect, assert_fail, perr, scerr.
  destruct e; repeat match goal with
                     | |- context [if ?b then _ else _] => destruct b
                     | |- context [match sm_cb m with _ => _ end] => destruct (sm_cb m) as [[| | |]|]
                     end; intros H; inversion H; reflexivity.
Qed.
Lemma process_input_ncr sid m i : ncr (snd (process_input sid m i)).
Proof.
  unfold process_input. destruct (stream_transition (sm_state m) i) as [[eff tgt]|]; [|cbn; unfold perr; auto].
  destruct (run_effect sid eff (set_state m tgt)) as [m2 r] eqn:E. destruct r as [evs|e c s b|p]; cbn [snd]; auto.
  rewrite (run_effect_crash _ _ _ _ _ E). cbn [snd]. unfold perr. auto.
Qed.
Lemma fsm_ncr i s : ncr (snd (fsm i s)).
Proof. unfold fsm. pose proof (process_input_ncr (s_id s) (s_sm s) i) as H. destruct (process_input _ _ _) as [m r]. exact H. Qed.

(* table facts, for EVERY state of the stream object: accepted inputs produce the events their callers index *)
Definition first_is (l : list sev) (allowed : list sev) : bool :=
  match l with e :: _ => existsb (fun a => sev_code a =? sev_code e) allowed | [] => false end.
Definition tf_headers (m : sm) : bool :=
  match snd (process_input 7 m SI_RECV_HEADERS) with Ok evs => first_is evs [SE_RequestReceived; SE_ResponseReceived; SE_TrailersReceived] | _ => true end.
Definition tf_info (m : sm) : bool :=
  match snd (process_input 7 m SI_RECV_INFORMATIONAL_HEADERS) with Ok evs => first_is evs [SE_InformationalResponseReceived] | _ => true end.
Definition tf_data (m : sm) : bool :=
  match snd (process_input 7 m SI_RECV_DATA) with Ok evs => first_is evs [SE_DataReceived] | _ => true end.
Definition tf_end (m : sm) : bool :=
  match snd (process_input 7 m SI_RECV_END_STREAM) with Ok evs => first_is evs [SE_StreamEnded] | _ => true end.
Definition tf_push (m : sm) : bool :=
  match snd (process_input 7 m SI_RECV_PUSH_PROMISE) with Ok (e :: _) => true | Ok [] => sstate_eqb (sm_state m) S_IDLE | _ => true end.
Definition tf_cont (m : sm) : bool :=
  match snd (process_input 7 m SI_RECV_CONTINUATION) with Ok _ => false | _ => true end.
Definition tf_end_after (i : sinput) (m : sm) : bool :=
  match process_input 7 m i with (m', Ok _) => tf_end m' | _ => true end.
Lemma table_facts :
  forallb (fun m => tf_headers m && tf_info m && tf_data m && tf_end_after SI_RECV_HEADERS m && tf_end_after SI_RECV_DATA m && tf_push m && tf_cont m) all_sm = true.
Proof. vm_compute. reflexivity. Qed.

(* the stream id only appears in the payload of StreamClosedError *)
Definition okpart {A} (r : res A) : option A := match r with Ok a => Some a | _ => None end.
Lemma run_effect_sid sid sid' e m :
  fst (run_effect sid e m) = fst (run_effect sid' e m) /\ okpart (snd (run_effect sid e m)) = okpart (snd (run_effect sid' e m)).
Proof.
  unfold run_effect, assert_fail, perr, scerr.
  destruct e; repeat match goal with
                     | |- context [if ?b then _ else _] => destruct b
                     | |- context [match sm_cb m with _ => _ end] => destruct (sm_cb m) as [[| | |]|]
                     end; split; reflexivity.
Qed.
Lemma process_input_sid sid m i m' evs : process_input sid m i = (m', Ok evs) -> process_input 7 m i = (m', Ok evs).
Proof.
  unfold process_input. destruct (stream_transition (sm_state m) i) as [[eff tgt]|]; [|unfold perr; discriminate].
  destruct (run_effect_sid sid 7 eff (set_state m tgt)) as [Hf Ho].
  destruct (run_effect sid eff (set_state m tgt)) as [m2 r], (run_effect 7 eff (set_state m tgt)) as [m3 r3]. cbn [fst snd] in *. subst m3.
  destruct r as [e1| |p]; [|discriminate| destruct p; unfold perr; discriminate].
  destruct r3 as [e3| |p3]; cbn in Ho; try discriminate. injection Ho as <-. intros H. exact H.
Qed.

Lemma facts_of m : tf_headers m && tf_info m && tf_data m && tf_end_after SI_RECV_HEADERS m && tf_end_after SI_RECV_DATA m && tf_push m && tf_cont m = true.
Proof.
  pose proof table_facts as H. rewrite forallb_forall in H. apply H. apply all_sm_complete.
Qed.

(* the events lists the callers index are never empty, and the first event is of a kind hdr_event knows *)
Lemma recv_headers_events sid m m' evs : process_input sid m SI_RECV_HEADERS = (m', Ok evs) ->
  exists e r, evs = e :: r /\ (e = SE_RequestReceived \/ e = SE_ResponseReceived \/ e = SE_TrailersReceived).
Proof.
  intros H. apply process_input_sid in H. pose proof (facts_of m) as F. repeat (apply andb_true_iff in F as [F ?]).
  unfold tf_headers in F. rewrite H in F. cbn [snd] in F. destruct evs as [|e r]; [discriminate|]. exists e, r. split; [reflexivity|].
  destruct e; cbn in F; try discriminate; auto.
Qed.
Lemma recv_info_events sid m m' evs : process_input sid m SI_RECV_INFORMATIONAL_HEADERS = (m', Ok evs) ->
  exists r, evs = SE_InformationalResponseReceived :: r.
Proof.
  intros H. apply process_input_sid in H. pose proof (facts_of m) as F. repeat (apply andb_true_iff in F as [F ?]).
  match goal with X : tf_info m = true |- _ => unfold tf_info in X; rewrite H in X; cbn [snd] in X end.
  destruct evs as [|e r]; [discriminate|]. exists r. destruct e; cbn in *; try discriminate; reflexivity.
Qed.
Lemma recv_data_events sid m m' evs : process_input sid m SI_RECV_DATA = (m', Ok evs) -> evs <> [].
Proof.
  intros H. apply process_input_sid in H. pose proof (facts_of m) as F. repeat (apply andb_true_iff in F as [F ?]).
  match goal with X : tf_data m = true |- _ => unfold tf_data in X; rewrite H in X; cbn [snd] in X end.
  destruct evs; [discriminate|discriminate].
Qed.
Lemma end_after sid i m m' evs m2 es : (i = SI_RECV_HEADERS \/ i = SI_RECV_DATA) ->
  process_input sid m i = (m', Ok evs) -> process_input sid m' SI_RECV_END_STREAM = (m2, Ok es) -> es <> [].
Proof.
  intros Hi H H2. apply process_input_sid in H. apply process_input_sid in H2.
  pose proof (facts_of m) as F. repeat (apply andb_true_iff in F as [F ?]).
  assert (T : tf_end m' = true).
  { destruct Hi as [-> | ->].
    - match goal with X : tf_end_after SI_RECV_HEADERS m = true |- _ => unfold tf_end_after in X; rewrite H in X; exact X end.
    - match goal with X : tf_end_after SI_RECV_DATA m = true |- _ => unfold tf_end_after in X; rewrite H in X; exact X end. }
  unfold tf_end in T. rewrite H2 in T. cbn [snd] in T. destruct es; discriminate.
Qed.
Lemma recv_continuation_never_ok sid m m' evs : process_input sid m SI_RECV_CONTINUATION = (m', Ok evs) -> False.
Proof.
  intros H. apply process_input_sid in H. pose proof (facts_of m) as F. repeat (apply andb_true_iff in F as [F ?]).
  match goal with X : tf_cont m = true |- _ => unfold tf_cont in X; rewrite H in X; discriminate end.
Qed.

(* ---------- stream methods on the receive path ---------- *)
Definition ncrS {A} (f : SM A) : Prop := forall s s' r, f s = (s', r) -> ncr r.

Lemma bindS_ncr {A B} (m : SM A) (k : A -> SM B) : ncrS m -> (forall a, ncrS (k a)) -> ncrS (bind m k).
Proof.
  intros Hm Hk s s' r H. unfold bind in H. destruct (m s) as [s1 r1] eqn:E. pose proof (Hm _ _ _ E) as N.
  destruct r1 as [a|e c i b|p]; [exact (Hk a _ _ _ H) | injection H as _ <-; auto | exfalso; exact (N p eq_refl)].
Qed.
Lemma retS_ncr {A} (a : A) : ncrS (ret a). Proof. intros s s' r H. injection H as _ <-. auto. Qed.
Lemma getS_ncr : ncrS (@get stream). Proof. intros s s' r H. injection H as _ <-. auto. Qed.
Lemma putS_ncr s0 : ncrS (@put stream s0). Proof. intros s s' r H. injection H as _ <-. auto. Qed.
Lemma modifyS_ncr f : ncrS (@modify stream f). Proof. intros s s' r H. injection H as _ <-. auto. Qed.
Lemma liftS_ncr {A} (r0 : res A) : ncr r0 -> ncrS (lift_res r0). Proof. intros N s s' r H. injection H as _ <-. exact N. Qed.
Lemma fsmS_ncr i : ncrS (fsm i).
Proof. intros s s' r H. pose proof (fsm_ncr i s) as N. rewrite H in N. exact N. Qed.
Lemma perr_ncr {A} : ncr (@perr A). Proof. unfold perr. auto. Qed.
Lemma fc_err_ncr {A} : ncr (@fc_err A). Proof. unfold fc_err. auto. Qed.

Lemma lift_wm_consumed_ncr n : ncrS (lift_wm (fun w => window_consumed w n)).
Proof. intros s s' r H. unfold lift_wm, window_consumed in H. injection H as _ <-. destruct (_ <? 0); [apply fc_err_ncr | auto]. Qed.
Lemma track_ncr len es : ncrS (track_content_length len es).
Proof.
  intros s s' r H. unfold track_content_length in H. destruct (s_exp_cl s) as [e|]; [|injection H as _ <-; auto].
  destruct (e <? _); [injection H as _ <-; auto|]. destruct (es && _); injection H as _ <-; auto.
Qed.
Lemma init_cl_ncr hs : ncrS (initialize_content_length hs).
Proof.
  unfold initialize_content_length. apply bindS_ncr; [apply getS_ncr|]. intros s0.
  destruct (match s_method s0 with Some m => bytes_eqb m b_HEAD | None => false end); [apply putS_ncr|].
  destruct (find_content_length (plain hs)); [|apply retS_ncr]. destruct (parse_int b); [apply putS_ncr | apply liftS_ncr, perr_ncr].
Qed.

Lemma fsm_unfold i s s1 evs : fsm i s = (s1, Ok evs) -> exists m, process_input (s_id s) (s_sm s) i = (m, Ok evs) /\ s1 = set_sm s m.
Proof. unfold fsm. destruct (process_input (s_id s) (s_sm s) i) as [m r]. intros H. injection H as <- ->. exists m. auto. Qed.

Lemma build_flags_cons e r : exists f, build_flags (e :: r) = Ok f.
Proof. eexists. reflexivity. Qed.

Theorem receive_headers_ncr cfg hs es : ncrS (receive_headers cfg hs es).
Proof.
  intros s s' r H. unfold receive_headers in H.
  set (info := is_informational_response (plain hs)) in *.
  unfold bind at 1 in H. destruct (fsm (if info then SI_RECV_INFORMATIONAL_HEADERS else SI_RECV_HEADERS) s) as [s1 r1] eqn:Ef.
  pose proof (fsm_ncr (if info then SI_RECV_INFORMATIONAL_HEADERS else SI_RECV_HEADERS) s) as N1. rewrite Ef in N1. cbn [snd] in N1.
  destruct r1 as [evs|e c i b|p]; [|injection H as _ <-; auto | exfalso; exact (N1 p eq_refl)].
  destruct (fsm_unfold _ _ _ _ Ef) as (m1 & Hp1 & ->).
  (* the first event *)
  assert (Hev : exists e0 rest, evs = e0 :: rest /\ (e0 = SE_RequestReceived \/ e0 = SE_ResponseReceived \/ e0 = SE_TrailersReceived \/ e0 = SE_InformationalResponseReceived)).
  { destruct info.
    - destruct (recv_info_events _ _ _ _ Hp1) as (rest & ->). eexists; eexists; split; [reflexivity|]. tauto.
    - destruct (recv_headers_events _ _ _ _ Hp1) as (e0 & rest & -> & Hk). exists e0, rest. split; [reflexivity|]. tauto. }
  destruct Hev as (e0 & rest & -> & Hk).
  unfold bind at 1 in H.
  destruct (info && es) eqn:Eie; [unfold lift_res at 1 in H; cbv beta iota in H; injection H as _ <-; apply perr_ncr|].
  unfold ret at 1 in H. cbv beta iota in H.
  unfold bind at 1 in H.
  match type of H with (match ?X with (_, _) => _ end) = _ => destruct X as [s2 r2] eqn:E2 end.
  assert (N2 : ncr r2).
  { destruct es; [pose proof (fsm_ncr SI_RECV_END_STREAM (set_sm s m1)) as X; rewrite E2 in X; exact X | injection E2 as _ <-; auto]. }
  destruct r2 as [es2|e c i b|p]; [|injection H as _ <-; auto | exfalso; exact (N2 p eq_refl)].
  assert (Hes : (if es then es2 else [SE_StreamEnded]) <> []).
  { destruct es; [|discriminate]. destruct (fsm_unfold _ _ _ _ E2) as (m2 & Hp2 & _). cbn [s_id s_sm set_sm] in Hp2.
    destruct info.
    - (* informational with END_STREAM was refused above *) discriminate Eie.
    - exact (end_after _ SI_RECV_HEADERS _ _ _ _ _ (or_introl eq_refl) Hp1 Hp2). }
  destruct (if es then es2 else [SE_StreamEnded]) as [|x xs]; [contradiction|].
  (* the tail: only lift_res of non-crashing results *)
  revert H. apply bindS_ncr; [destruct info; [apply retS_ncr | apply init_cl_ncr]|]. intros _.
  apply bindS_ncr; [destruct (hd_is SE_TrailersReceived (e0 :: rest) && negb es); [apply liftS_ncr, perr_ncr | apply retS_ncr]|]. intros _.
  destruct (build_flags_cons e0 rest) as [f Hf]. rewrite Hf.
  apply bindS_ncr; [apply liftS_ncr; auto|]. intros f0.
  apply bindS_ncr; [apply liftS_ncr; intros p; apply process_received_headers_never_crashes|]. intros h.
  apply bindS_ncr; [apply getS_ncr|]. intros s0.
  apply bindS_ncr; [|intros ev; apply retS_ncr].
  apply liftS_ncr. destruct Hk as [Hk|[Hk|[Hk|Hk]]]; subst e0; cbn; auto.
Qed.

Theorem receive_data_ncr len fclen es : ncrS (receive_data len fclen es).
Proof.
  intros s s' r H. unfold receive_data in H.
  unfold bind at 1 in H. destruct (fsm SI_RECV_DATA s) as [s1 r1] eqn:Ef.
  pose proof (fsm_ncr SI_RECV_DATA s) as N1. rewrite Ef in N1. cbn [snd] in N1.
  destruct r1 as [evs|e c i b|p]; [|injection H as _ <-; auto | exfalso; exact (N1 p eq_refl)].
  destruct (fsm_unfold _ _ _ _ Ef) as (m1 & Hp1 & ->). pose proof (recv_data_events _ _ _ _ Hp1) as Hne.
  unfold bind at 1 in H. destruct (lift_wm (fun w => window_consumed w fclen) (set_sm s m1)) as [s2 r2] eqn:E2.
  pose proof (lift_wm_consumed_ncr fclen _ _ _ E2) as N2.
  destruct r2 as [u|e c i b|p]; [|injection H as _ <-; auto | exfalso; exact (N2 p eq_refl)].
  unfold bind at 1 in H. destruct (track_content_length len es s2) as [s3 r3] eqn:E3.
  pose proof (track_ncr len es _ _ _ E3) as N3.
  destruct r3 as [u3|e c i b|p]; [|injection H as _ <-; auto | exfalso; exact (N3 p eq_refl)].
  unfold bind at 1 in H. match type of H with (match ?X with (_, _) => _ end) = _ => destruct X as [s4 r4] eqn:E4 end.
  assert (N4 : ncr r4).
  { destruct es; [pose proof (fsm_ncr SI_RECV_END_STREAM s3) as X; rewrite E4 in X; exact X | injection E4 as _ <-; auto]. }
  destruct r4 as [es4|e c i b|p]; [|injection H as _ <-; auto | exfalso; exact (N4 p eq_refl)].
  destruct evs as [|e0 rest]; [contradiction|].
  assert (Hes : (if es then es4 else [SE_StreamEnded]) <> []).
  { destruct es; [|discriminate]. destruct (fsm_unfold _ _ _ _ E4) as (m4 & Hp4 & _).
    (* s3 has the state machine of set_sm s m1: the window and content-length steps do not touch it *)
    assert (Hsm : s_sm s3 = m1 /\ s_id s3 = s_id s).
    { unfold lift_wm in E2. cbn [s_in_wm set_sm] in E2. destruct (window_consumed (s_in_wm s) fclen) as [w rw]. injection E2 as <- _.
      unfold track_content_length in E3. cbn [s_exp_cl s_act_cl set_in_wm set_sm] in E3.
      destruct (s_exp_cl s) as [ex|]; repeat match type of E3 with context [if ?b then _ else _] => destruct b end; injection E3 as <- _; split; reflexivity. }
    destruct Hsm as [Hsm Hid]. rewrite Hsm, Hid in Hp4.
    exact (end_after _ SI_RECV_DATA _ _ _ _ _ (or_intror eq_refl) Hp1 Hp4). }
  destruct (if es then es4 else [SE_StreamEnded]) as [|x xs]; [contradiction|].
  unfold bind, get, ret in H. injection H as _ <-. auto.
Qed.

Lemma reset_stream_ncr code : ncrS (reset_stream code).
Proof. unfold reset_stream. apply bindS_ncr; [apply fsmS_ncr|]. intros _. apply bindS_ncr; [apply getS_ncr|]. intros s0. apply retS_ncr. Qed.

Theorem receive_window_update_ncr inc : ncrS (receive_window_update inc).
Proof.
  unfold receive_window_update. apply bindS_ncr; [apply fsmS_ncr|]. intros evs. apply bindS_ncr; [apply getS_ncr|]. intros s0.
  destruct evs; [apply retS_ncr|].
  destruct (guard_increment_window (s_out_win s0) inc); try (apply bindS_ncr; [apply reset_stream_ncr | intros fs; apply retS_ncr]).
  apply bindS_ncr; [apply putS_ncr | intros _; apply retS_ncr].
Qed.
Theorem stream_reset_ncr code : ncrS (stream_reset code).
Proof.
  unfold stream_reset. apply bindS_ncr; [apply fsmS_ncr|]. intros evs. apply bindS_ncr; [apply getS_ncr|]. intros s0. destruct evs; apply retS_ncr.
Qed.
Theorem receive_alt_svc_ncr origin field : ncrS (receive_alt_svc origin field).
Proof.
  unfold receive_alt_svc. destruct origin; [|apply retS_ncr].
  apply bindS_ncr; [apply fsmS_ncr|]. intros evs. apply bindS_ncr; [apply getS_ncr|]. intros s0. destruct evs; apply retS_ncr.
Qed.
Theorem receive_continuation_ncr : ncrS receive_continuation.
Proof.
  intros s s' r H. unfold receive_continuation in H. unfold bind at 1 in H. destruct (fsm SI_RECV_CONTINUATION s) as [s1 r1] eqn:Ef.
  pose proof (fsm_ncr SI_RECV_CONTINUATION s) as N. rewrite Ef in N. cbn [snd] in N.
  destruct r1 as [evs|e c i b|p]; [|injection H as _ <-; auto | exfalso; exact (N p eq_refl)].
  exfalso. destruct (fsm_unfold _ _ _ _ Ef) as (m & Hp & _). exact (recv_continuation_never_ok _ _ _ _ Hp).
Qed.
Theorem receive_push_promise_in_band_ncr cfg promised hs : ncrS (receive_push_promise_in_band cfg promised hs).
Proof.
  unfold receive_push_promise_in_band. apply bindS_ncr; [apply fsmS_ncr|]. intros evs.
  destruct evs as [|e0 rest].
  - intros s s' r H. unfold bind at 1 in H. unfold lift_res, perr in H. injection H as _ <-. auto.
  - apply bindS_ncr; [apply retS_ncr|]. intros _. destruct (build_flags_cons e0 rest) as [f Hf]. rewrite Hf.
    apply bindS_ncr; [apply liftS_ncr; auto|]. intros f0.
    apply bindS_ncr; [apply liftS_ncr; intros p; apply process_received_headers_never_crashes|]. intros h.
    apply bindS_ncr; [apply getS_ncr|]. intros s0. apply retS_ncr.
Qed.
Theorem remotely_pushed_ncr hs : ncrS (remotely_pushed hs).
Proof. unfold remotely_pushed. apply bindS_ncr; [apply fsmS_ncr|]. intros _. apply modifyS_ncr. Qed.

(* ---------- connection level ---------- *)
Definition smallf (fs : list frame) : bool := forallb (fun f => body_len f <=? 16384) fs.
Definition safe {A} (m : CM A) : Prop := forall c c' r, mfs_inv c -> m c = (c', r) -> ncr r.
Definition safeF (m : CM (list frame * list event)) : Prop :=
  forall c c' r, mfs_inv c -> m c = (c', r) -> ncr r /\ (forall fr ev, r = Ok (fr, ev) -> smallf fr = true).

Lemma safe_bind {A B} (m : CM A) (k : A -> CM B) : pres_inv mfs_inv m -> safe m -> (forall a, safe (k a)) -> safe (bind m k).
Proof.
  intros Hp Hm Hk c c' r Hi H. unfold bind in H. destruct (m c) as [c1 r1] eqn:E.
  pose proof (Hm _ _ _ Hi E) as N. pose proof (Hp _ _ _ Hi E) as I1.
  destruct r1 as [a|e co i b|p]; [exact (Hk a _ _ _ I1 H) | injection H as _ <-; auto | exfalso; exact (N p eq_refl)].
Qed.
Lemma safeF_bind {A} (m : CM A) (k : A -> CM (list frame * list event)) :
  pres_inv mfs_inv m -> safe m -> (forall a, safeF (k a)) -> safeF (bind m k).
Proof.
  intros Hp Hm Hk c c' r Hi H. unfold bind in H. destruct (m c) as [c1 r1] eqn:E.
  pose proof (Hm _ _ _ Hi E) as N. pose proof (Hp _ _ _ Hi E) as I1.
  destruct r1 as [a|e co i b|p]; [exact (Hk a _ _ _ I1 H) | injection H as _ <-; split; [auto|discriminate] | exfalso; exact (N p eq_refl)].
Qed.
Lemma safe_ret {A} (a : A) : safe (ret a). Proof. intros c c' r _ H. injection H as _ <-. auto. Qed.
Lemma safeF_ret fr ev : smallf fr = true -> safeF (ret (fr, ev)).
Proof. intros Hs c c' r _ H. injection H as _ <-. split; [auto|]. intros fr' ev' E. injection E as <- _. exact Hs. Qed.
Lemma safe_fail {A} e co i b : safe (@fail conn A e co i b). Proof. intros c c' r _ H. injection H as _ <-. auto. Qed.
Lemma safeF_fail e co i b : safeF (fail e co i b). Proof. intros c c' r _ H. injection H as _ <-. split; [auto|discriminate]. Qed.
Lemma safe_get : safe (@get conn). Proof. intros c c' r _ H. injection H as _ <-. auto. Qed.
Lemma safe_modify f : safe (@modify conn f). Proof. intros c c' r _ H. injection H as _ <-. auto. Qed.
Lemma safe_lift {A} (r0 : res A) : ncr r0 -> safe (lift_res r0). Proof. intros N c c' r _ H. injection H as _ <-. exact N. Qed.
Lemma safeF_lift_err : safeF (lift_res perr). Proof. intros c c' r _ H. injection H as _ <-. split; [apply perr_ncr | unfold perr; discriminate]. Qed.
Lemma safe_cfsm i : safe (cfsm i).
Proof. intros c c' r _ H. unfold cfsm in H. destruct (conn_transition _ _); injection H as _ <-; [auto | apply perr_ncr]. Qed.
Lemma safe_of_safeF m : safeF m -> safe m. Proof. intros H c c' r Hi E. exact (proj1 (H _ _ _ Hi E)). Qed.

Lemma safe_get_stream_by_id sid : safe (get_stream_by_id sid).
Proof.
  intros c c' r _ H. unfold get_stream_by_id, bind, get in H. destruct (dget sid (c_streams c)); [injection H as _ <-; auto|].
  destruct (g_get_stream_nosuch _ _); injection H as _ <-; [auto | unfold scerr; auto].
Qed.
Lemma get_stream_by_id_ncr sid c : ncr (snd (get_stream_by_id sid c)).
Proof.
  unfold get_stream_by_id, bind, get. destruct (dget sid (c_streams c)); [cbn; auto|].
  destruct (g_get_stream_nosuch _ _); cbn; unfold scerr; auto.
Qed.
Lemma get_stream_by_id_ok sid c c' s : get_stream_by_id sid c = (c', Ok s) -> c' = c /\ dget sid (c_streams c) = Some s.
Proof.
  unfold get_stream_by_id, bind, get. destruct (dget sid (c_streams c)) as [s0|]; [intros H; injection H as <- <-; auto|].
  destruct (g_get_stream_nosuch _ _); unfold fail, lift_res, scerr; discriminate.
Qed.
Lemma with_stream_present {A} sid (f : SM A) c s : dget sid (c_streams c) = Some s ->
  with_stream sid f c = (cset_streams c (dset sid (fst (f s)) (c_streams c)), snd (f s)).
Proof. intros H. unfold with_stream. rewrite H. destruct (f s); reflexivity. Qed.

(* look the stream up, then run a method on it *)
Lemma safe_lookup_then {A} sid (f : SM A) : ncrS f -> safe (get_stream_by_id sid ;;; with_stream sid f).
Proof.
  intros Hf c c' r _ H. unfold bind in H. destruct (get_stream_by_id sid c) as [c1 r1] eqn:E.
  destruct r1 as [s|e co i b|p].
  - destruct (get_stream_by_id_ok _ _ _ _ E) as [-> Hs]. rewrite (with_stream_present sid f c s Hs) in H. injection H as _ <-.
    destruct (f s) as [s' r'] eqn:Ef. exact (Hf _ _ _ Ef).
  - injection H as _ <-. auto.
  - exfalso. pose proof (get_stream_by_id_ncr sid c) as N. rewrite E in N. exact (N p eq_refl).
Qed.

Lemma bind_step {A B} (m : CM A) (k : A -> CM B) c c' r :
  mfs_inv c -> pres_inv mfs_inv m -> safe m -> bind m k c = (c', r) ->
  (exists c1 a, m c = (c1, Ok a) /\ mfs_inv c1 /\ k a c1 = (c', r)) \/ (ncr r /\ forall x, r <> Ok x).
Proof.
  intros Hi Hp Hs H. unfold bind in H. destruct (m c) as [c1 r1] eqn:E.
  pose proof (Hs _ _ _ Hi E) as N. pose proof (Hp _ _ _ Hi E) as I1.
  destruct r1 as [a|e co i b|p].
  - left. exists c1, a. auto.
  - right. injection H as _ <-. split; [auto | intros x; discriminate].
  - exfalso. exact (N p eq_refl).
Qed.
Ltac pinv := unfold mfs_inv; inv_goQ P Q ltac:(first [ apply inv_recv_settings | spm ]).
Ltac done_err N NO := split; [exact N | intros fr ev Ex; exfalso; exact (NO _ Ex)].

Lemma safe_never_crashes {A} (m : CM A) : never_crashes m -> safe m.
Proof. intros H c c' r _ E. exact (H _ _ _ E). Qed.

Lemma safeF_recv_ping ack pl : safeF (recv_ping ack pl).
Proof.
  intros c c' r Hi H. unfold recv_ping in H.
  apply bind_step in H as [(c1 & a & E1 & I1 & H)|[N NO]]; [|done_err N NO|exact Hi|pinv|apply safe_cfsm].
  destruct ack; injection H as _ <-; split; auto; intros fr ev Ex; injection Ex as <- _; reflexivity.
Qed.
Lemma safeF_recv_goaway l co d : safeF (recv_goaway l co d).
Proof.
  intros c c' r Hi H. unfold recv_goaway in H.
  apply bind_step in H as [(c1 & a & E1 & I1 & H)|[N NO]]; [|done_err N NO|exact Hi|pinv|apply safe_cfsm].
  unfold bind, modify, ret in H. injection H as _ <-. split; auto. intros fr ev Ex; injection Ex as <- _; reflexivity.
Qed.
Lemma safeF_priority sid pr : safeF (evs <- recv_priority sid pr ;; ret ([], evs)).
Proof.
  intros c c' r Hi H.
  apply bind_step in H as [(c1 & a & E1 & I1 & H)|[N NO]]; [|done_err N NO|exact Hi|pinv|apply safe_never_crashes, priority_frames_never_crash].
  injection H as _ <-. split; auto. intros fr ev Ex; injection Ex as <- _; reflexivity.
Qed.

Lemma safeF_recv_rst sid code : safeF (recv_rst_stream sid code).
Proof.
  intros c c' r Hi H. unfold recv_rst_stream in H.
  apply bind_step in H as [(c1 & a & E1 & I1 & H)|[N NO]]; [|done_err N NO|exact Hi|pinv|apply safe_cfsm].
  unfold bind at 1 in H. unfold get at 1 in H.
  destruct (dget sid (c_streams c1)) as [s|] eqn:Es.
  - unfold bind in H. rewrite (with_stream_present sid _ c1 s Es) in H.
    destruct (stream_reset code s) as [s' rs] eqn:Ef. cbn [fst snd] in H. pose proof (stream_reset_ncr code _ _ _ Ef) as N.
    destruct rs as [evs|e co i b|p]; [|injection H as _ <-; split; [auto|discriminate] | exfalso; exact (N p eq_refl)].
    unfold ret in H. injection H as _ <-. split; auto. intros fr ev Ex; injection Ex as <- _; reflexivity.
  - unfold ret in H. injection H as _ <-. split; auto. intros fr ev Ex; injection Ex as <- _; reflexivity.
Qed.

Lemma safeF_recv_alt_svc sid o fl : safeF (recv_alt_svc sid o fl).
Proof.
  intros c c' r Hi H. unfold recv_alt_svc in H.
  apply bind_step in H as [(c1 & a & E1 & I1 & H)|[N NO]]; [|done_err N NO|exact Hi|pinv|apply safe_cfsm].
  unfold bind at 1 in H. unfold get at 1 in H. destruct (negb (sid =? 0)).
  - destruct (dget sid (c_streams c1)) as [s|] eqn:Es.
    + unfold bind in H. rewrite (with_stream_present sid _ c1 s Es) in H.
      destruct (receive_alt_svc o fl s) as [s' rs] eqn:Ef. cbn [fst snd] in H. pose proof (receive_alt_svc_ncr o fl _ _ _ Ef) as N.
      destruct rs as [evs|e co i b|p]; [|injection H as _ <-; split; [auto|discriminate] | exfalso; exact (N p eq_refl)].
      unfold ret in H. injection H as _ <-. split; auto. intros fr ev Ex; injection Ex as <- _; reflexivity.
    + unfold ret in H. injection H as _ <-. split; auto. intros fr ev Ex; injection Ex as <- _; reflexivity.
  - destruct o; [|destruct (negb (client c1))]; unfold ret in H; injection H as _ <-; split; auto; intros fr ev Ex; injection Ex as <- _; reflexivity.
Qed.

(* ---- generic pieces ---- *)
Lemma for_streams_ncr (f : stream -> stream * res unit) c : (forall s, ncr (snd (f s))) -> ncr (snd (for_streams f c)).
Proof.
  intros Hf. unfold for_streams.
  set (go := fix go (l : dict stream) : dict stream * res unit :=
        match l with [] => ([], Ok tt) | (k, s) :: r => let '(s', res1) := f s in
          match res1 with Ok _ => let '(r', res2) := go r in ((k, s') :: r', res2) | _ => ((k, s') :: r, res1) end end).
  assert (G : forall l, ncr (snd (go l))).
  { induction l as [|[k s] l IH]; cbn; [auto|]. pose proof (Hf s) as N. destruct (f s) as [s' r1]. cbn [snd] in N.
    destruct r1 as [u|e co i b|p]; [destruct (go l) as [r' r2]; exact IH | cbn; auto | exfalso; exact (N p eq_refl)]. }
  specialize (G (c_streams c)). destruct (go (c_streams c)) as [ss r]. exact G.
Qed.
Lemma safe_for_streams f : (forall s, ncr (snd (f s))) -> safe (for_streams f).
Proof. intros Hf c c' r _ H. pose proof (for_streams_ncr f c Hf) as N. rewrite H in N. exact N. Qed.

Lemma safe_lift_remote {A} (f : settings -> settings * res A) : (forall s, ncr (snd (f s))) -> safe (lift_remote f).
Proof. intros Hf c c' r _ H. unfold lift_remote in H. pose proof (Hf (c_remote c)) as N. destruct (f (c_remote c)) as [s r0]. injection H as _ <-. exact N. Qed.
Lemma safe_lift_local {A} (f : settings -> settings * res A) : (forall s, ncr (snd (f s))) -> safe (lift_local f).
Proof. intros Hf c c' r _ H. unfold lift_local in H. pose proof (Hf (c_local c)) as N. destruct (f (c_local c)) as [s r0]. injection H as _ <-. exact N. Qed.
Lemma safe_lift_cwm {A} (f : wm -> wm * res A) : (forall w, ncr (snd (f w))) -> safe (lift_cwm f).
Proof. intros Hf c c' r _ H. unfold lift_cwm in H. pose proof (Hf (c_in_wm c)) as N. destruct (f (c_in_wm c)) as [w r0]. injection H as _ <-. exact N. Qed.

Lemma supdate_ncr kvs : forall s, ncr (snd (supdate kvs s)).
Proof.
  induction kvs as [|[k v] kvs IH]; intros s; cbn [supdate]; [cbn; auto|].
  unfold ssetitem. destruct (negb (validate_setting k v =? 0)); cbn; [auto|apply IH].
Qed.
Lemma guard_ncr a b : ncr (guard_increment_window a b).
Proof. unfold guard_increment_window. destruct (_ >? _); [apply fc_err_ncr | auto]. Qed.

Lemma wm_delta_ncr w d : ncr (snd (wm_delta w d)).
Proof.
  unfold wm_delta, window_opened. destruct (_ >? _); cbn; [apply fc_err_ncr | auto].
Qed.
Lemma inbound_iws_ncr d s : ncr (snd (inbound_iws_change d s)).
Proof. unfold inbound_iws_change, lift_wm. pose proof (wm_delta_ncr (s_in_wm s) d) as N. destruct (wm_delta (s_in_wm s) d). exact N. Qed.

Lemma safe_local_settings_acked : safe local_settings_acked.
Proof.
  unfold local_settings_acked.
  apply safe_bind; [pinv | apply safe_lift_local; intros s; destruct (sacknowledge s); cbn; auto |]. intros ch.
  apply safe_bind; [pinv | destruct (changed_lookup SC_INITIAL_WINDOW_SIZE ch) as [[o n]|]; [apply safe_for_streams; intros s; apply inbound_iws_ncr | apply safe_ret] |]. intros _.
  apply safe_bind; [pinv | destruct (changed_lookup SC_MAX_HEADER_LIST_SIZE ch) as [[o n]|]; [apply safe_modify | apply safe_ret] |]. intros _.
  apply safe_bind; [pinv | destruct (changed_lookup SC_MAX_FRAME_SIZE ch) as [[o n]|]; [apply safe_modify | apply safe_ret] |]. intros _.
  apply safe_ret.
Qed.

Lemma flow_change_step_ncr old new s :
  ncr (snd (match guard_increment_window (s_out_win s) (new - old) with
            | Ok w => (set_out_win s w, Ok tt) | Err e c i b => (s, Err e c i b) | Crash p => (s, Crash p) end)).
Proof. pose proof (guard_ncr (s_out_win s) (new - old)) as N. destruct (guard_increment_window _ _) as [w|e c i b|p]; cbn; auto. exfalso; exact (N p eq_refl). Qed.

(* acknowledge_settings: never crashes, and what it returns is the one empty SETTINGS ACK *)
Lemma acknowledge_settings_spec c c' r : mfs_inv c -> acknowledge_settings c = (c', r) ->
  ncr r /\ (forall fs, r = Ok fs -> fs = [FSettings true []]).
Proof.
  intros Hi H. unfold acknowledge_settings in H.
  apply bind_step in H as [(c1 & a & E1 & I1 & H)|[N NO]]; [|split; [exact N | intros fs Ex; exfalso; exact (NO _ Ex)]|exact Hi|pinv|apply safe_cfsm].
  apply bind_step in H as [(c2 & ch & E2 & I2 & H)|[N NO]]; [|split; [exact N | intros fs Ex; exfalso; exact (NO _ Ex)]|exact I1| |apply safe_lift_remote; intros s; destruct (sacknowledge s); cbn; auto].
  2:{ intros x x' rx Hx Ex. unfold lift_remote in Ex. destruct Hx as [Hm Hs]. unfold P in Hm, Hs. cbn [fst snd] in Hm, Hs. destruct (sacknowledge_ok _ Hs) as [Hs' _].
      destruct (sacknowledge (c_remote x)) as [s' chx]. injection Ex as <- _. split; [exact Hm | exact Hs']. }
  (* the remaining steps: their invariant preservation was shown in inv_acknowledge_settings; here only crash freedom and the result *)
  unfold bind at 1 in H.
  match type of H with (match ?X with (_, _) => _ end) = _ => destruct X as [c3 r3] eqn:E3 end.
  assert (N3 : ncr r3).
  { destruct (changed_lookup SC_INITIAL_WINDOW_SIZE ch) as [[o n]|]; [|injection E3 as _ <-; auto].
    unfold flow_control_change_from_settings in E3. pose proof (for_streams_ncr _ c2 (flow_change_step_ncr (opt_default 0 o) n)) as N. rewrite E3 in N. exact N. }
  destruct r3 as [u|e co i b|p]; [|injection H as _ <-; split; [auto|discriminate] | exfalso; exact (N3 p eq_refl)].
  unfold bind at 1 in H.
  match type of H with (match ?X with (_, _) => _ end) = _ => destruct X as [c4 r4] eqn:E4 end.
  assert (N4 : r4 = Ok tt) by (destruct (changed_lookup SC_HEADER_TABLE_SIZE ch) as [[o n]|]; injection E4 as _ <-; reflexivity). subst r4.
  unfold bind at 1 in H.
  match type of H with (match ?X with (_, _) => _ end) = _ => destruct X as [c5 r5] eqn:E5 end.
  assert (N5 : r5 = Ok tt) by (destruct (changed_lookup SC_MAX_FRAME_SIZE ch) as [[o n]|]; injection E5 as _ <-; reflexivity). subst r5.
  unfold ret in H. injection H as _ <-. split; [auto|]. intros fs Ex. injection Ex as <-. reflexivity.
Qed.

Lemma safeF_recv_settings ack vals : safeF (recv_settings ack vals).
Proof.
  intros c c' r Hi H. unfold recv_settings in H.
  apply bind_step in H as [(c1 & a & E1 & I1 & H)|[N NO]]; [|done_err N NO|exact Hi|pinv|apply safe_cfsm].
  destruct ack.
  - apply bind_step in H as [(c2 & ch & E2 & I2 & H)|[N NO]]; [|done_err N NO|exact I1|pinv|apply safe_local_settings_acked].
    injection H as _ <-. split; auto. intros fr ev Ex; injection Ex as <- _; reflexivity.
  - apply bind_step in H as [(c2 & u & E2 & I2 & H)|[N NO]]; [|done_err N NO|exact I1|pinv|apply safe_lift_remote, supdate_ncr].
    unfold bind at 1 in H. unfold get at 1 in H. unfold bind at 1 in H.
    destruct (acknowledge_settings c2) as [c3 r3] eqn:E3. destruct (acknowledge_settings_spec _ _ _ I2 E3) as [N3 F3].
    destruct r3 as [fs|e co i b|p]; [|injection H as _ <-; split; [auto|discriminate] | exfalso; exact (N3 p eq_refl)].
    unfold ret in H. injection H as _ <-. split; auto. intros fr ev Ex; injection Ex as <- _. rewrite (F3 fs eq_refl). reflexivity.
Qed.

Lemma receive_continuation_not_ok s s' x : receive_continuation s = (s', Ok x) -> False.
Proof.
  unfold receive_continuation, bind. destruct (fsm SI_RECV_CONTINUATION s) as [s1 r1] eqn:Ef. destruct r1 as [evs|e c i b|p]; discriminate.
Qed.

Lemma safeF_recv_naked_continuation sid : safeF (recv_naked_continuation sid).
Proof.
  intros c c' r Hi H. unfold recv_naked_continuation in H.
  unfold bind at 1 in H. destruct (get_stream_by_id sid c) as [c1 r1] eqn:E1.
  pose proof (get_stream_by_id_ncr sid c) as N1. rewrite E1 in N1. cbn [snd] in N1.
  destruct r1 as [s|e co i b|p]; [|injection H as _ <-; split; [auto|discriminate] | exfalso; exact (N1 p eq_refl)].
  destruct (get_stream_by_id_ok _ _ _ _ E1) as [-> Hs].
  unfold bind at 1 in H. rewrite (with_stream_present sid _ c s Hs) in H.
  destruct (receive_continuation s) as [s' rs] eqn:Ef. cbn [fst snd] in H. pose proof (receive_continuation_ncr _ _ _ Ef) as N.
  destruct rs as [u|e co i b|p]; [exfalso; exact (receive_continuation_not_ok _ _ _ Ef) | injection H as _ <-; split; [auto|discriminate] | exfalso; exact (N p eq_refl)].
Qed.

(* what receive_window_update returns when it returns: no frame, or one RST_STREAM *)
Lemma receive_window_update_frames inc s s' fs evs : receive_window_update inc s = (s', Ok (fs, evs)) -> smallf fs = true.
Proof.
  unfold receive_window_update. unfold bind at 1. destruct (fsm SI_RECV_WINDOW_UPDATE s) as [s1 [e1| |]]; try discriminate.
  unfold bind at 1. unfold get at 1. destruct e1; [unfold ret; intros H; injection H as _ <- _; reflexivity|].
  destruct (guard_increment_window (s_out_win s1) inc).
  - unfold bind, put, ret. intros H; injection H as _ <- _; reflexivity.
  - unfold reset_stream. unfold bind at 1. unfold bind at 1. destruct (fsm SI_SEND_RST_STREAM s1) as [s2 [e2| |]]; try discriminate.
    unfold bind, get, ret. intros H; injection H as _ <- _; reflexivity.
  - unfold reset_stream. unfold bind at 1. unfold bind at 1. destruct (fsm SI_SEND_RST_STREAM s1) as [s2 [e2| |]]; try discriminate.
    unfold bind, get, ret. intros H; injection H as _ <- _; reflexivity.
Qed.

Lemma safeF_recv_window_update sid inc : safeF (recv_window_update sid inc).
Proof.
  intros c c' r Hi H. unfold recv_window_update in H.
  apply bind_step in H as [(c1 & a & E1 & I1 & H)|[N NO]]; [|done_err N NO|exact Hi|pinv|apply safe_cfsm].
  destruct (negb (sid =? 0)).
  - destruct ((get_stream_by_id sid;;; with_stream sid (receive_window_update inc)) c1) as [c2 r2] eqn:E2.
    pose proof (safe_lookup_then sid _ (receive_window_update_ncr inc) _ _ _ I1 E2) as N2.
    assert (F2 : forall fs evs, r2 = Ok (fs, evs) -> smallf fs = true).
    { intros fs evs ->. unfold bind in E2. destruct (get_stream_by_id sid c1) as [cx rx] eqn:Eg. destruct rx as [s| |]; try discriminate.
      destruct (get_stream_by_id_ok _ _ _ _ Eg) as [-> Hs]. rewrite (with_stream_present sid _ c1 s Hs) in E2. injection E2 as _ E2.
      destruct (receive_window_update inc s) as [s' rs] eqn:Ef. cbn [snd] in E2. subst rs. exact (receive_window_update_frames _ _ _ _ _ Ef). }
    destruct r2 as [[fs evs]|e co i b|p]; [| |exfalso; exact (N2 p eq_refl)].
    + injection H as _ <-. split; [auto|]. intros fr ev Ex. injection Ex as <- _. exact (F2 _ _ eq_refl).
    + destruct e; injection H as _ <-; split; auto; try discriminate. intros fr ev Ex; injection Ex as <- _; reflexivity.
  - unfold bind at 1 in H. unfold get at 1 in H.
    unfold bind at 1 in H. unfold lift_res at 1 in H. pose proof (guard_ncr (c_out_win c1) inc) as Ng.
    destruct (guard_increment_window (c_out_win c1) inc) as [w|e co i b|p]; [|injection H as _ <-; split; [auto|discriminate] | exfalso; exact (Ng p eq_refl)].
    unfold bind, modify, ret in H. injection H as _ <-. split; auto. intros fr ev Ex; injection Ex as <- _; reflexivity.
Qed.

Lemma window_consumed_ncr n w : ncr (snd (window_consumed w n)).
Proof. unfold window_consumed. cbn. destruct (_ <? 0); [apply fc_err_ncr | auto]. Qed.

Lemma safeF_recv_data sid len fclen es : safeF (recv_data sid len fclen es).
Proof.
  intros c c' r Hi H. unfold recv_data in H.
  apply bind_step in H as [(c1 & a & E1 & I1 & H)|[N NO]]; [|done_err N NO|exact Hi|pinv|apply safe_cfsm].
  apply bind_step in H as [(c2 & u & E2 & I2 & H)|[N NO]]; [|done_err N NO|exact I1|pinv|apply safe_lift_cwm; intros w; apply window_consumed_ncr].
  destruct ((get_stream_by_id sid;;; with_stream sid (receive_data len fclen es)) c2) as [c3 r3] eqn:E3.
  pose proof (safe_lookup_then sid _ (receive_data_ncr len fclen es) _ _ _ I2 E3) as N3.
  destruct r3 as [evs|e co i b|p]; [| |exfalso; exact (N3 p eq_refl)].
  - injection H as _ <-. split; auto. intros fr ev Ex; injection Ex as <- _; reflexivity.
  - destruct e; try (injection H as _ <-; split; [auto|discriminate]).
    destruct (process_bytes (c_in_wm c3) fclen) as [w' o]. injection H as _ <-. split; [auto|].
    intros fr ev Ex. injection Ex as <- _. destruct (wm_increment o); reflexivity.
Qed.

Lemma begin_new_stream_ok sid a c c' : begin_new_stream sid a c = (c', Ok tt) -> exists s, dget sid (c_streams c') = Some s.
Proof.
  unfold begin_new_stream, bind, get. destruct (g_begin_low _ _); [unfold fail; discriminate|].
  destruct (g_begin_parity _ _); [unfold lift_res, perr; discriminate|].
  unfold modify. intros H. injection H as <-. eexists.
  destruct (is_outbound c sid); cbn [c_streams cset_hi_out cset_hi_in cset_streams]; apply dget_dset_same.
Qed.
Lemma begin_new_stream_ncr sid a c : ncr (snd (begin_new_stream sid a c)).
Proof.
  unfold begin_new_stream, bind, get. destruct (g_begin_low _ _); [cbn; auto|]. destruct (g_begin_parity _ _); [cbn; apply perr_ncr|]. cbn. auto.
Qed.
Lemma get_or_create_ok sid a c c' : get_or_create_stream sid a c = (c', Ok tt) -> exists s, dget sid (c_streams c') = Some s.
Proof.
  unfold get_or_create_stream, bind, get. unfold dmem. destruct (dget sid (c_streams c)) as [s|] eqn:E.
  - unfold ret. intros H. injection H as <-. eauto.
  - apply begin_new_stream_ok.
Qed.
Lemma get_or_create_ncr sid a c : ncr (snd (get_or_create_stream sid a c)).
Proof. unfold get_or_create_stream, bind, get. destruct (dmem sid (c_streams c)); [cbn; auto | apply begin_new_stream_ncr]. Qed.
Lemma safe_of_ncr {A} (m : CM A) : (forall c, ncr (snd (m c))) -> safe m.
Proof. intros Hm c c' r _ E. pose proof (Hm c) as N. rewrite E in N. exact N. Qed.

Lemma open_streams_ncr rem c : ncr (snd (open_streams rem c)).
Proof. unfold open_streams. cbn. auto. Qed.
Lemma safe_open_inbound : safe open_inbound_streams.
Proof. apply safe_of_ncr. intros c. unfold open_inbound_streams, bind, get. apply open_streams_ncr. Qed.

Lemma safeF_recv_push_promise sid promised d : safeF (recv_push_promise sid promised d).
Proof.
  intros c c' r Hi H. unfold recv_push_promise in H.
  unfold bind at 1 in H. unfold get at 1 in H.
  apply bind_step in H as [(c1 & a & E1 & I1 & H)|[N NO]]; [|done_err N NO|exact Hi|pinv|destruct (_ =? 0); [apply safe_lift, perr_ncr | apply safe_ret]].
  apply bind_step in H as [(c2 & hs & E2 & I2 & H)|[N NO]]; [|done_err N NO|exact I1|pinv|apply safe_never_crashes; intros x x' rx Ex; exact (decode_headers_never_crashes d x x' rx Ex)].
  apply bind_step in H as [(c3 & u & E3 & I3 & H)|[N NO]]; [|done_err N NO|exact I2|pinv|apply safe_cfsm].
  unfold bind at 1 in H. unfold get at 1 in H.
  destruct (dget sid (c_streams c3)) as [s|] eqn:Es.
  - destruct (g_recv_push_recursive sid); [unfold lift_res in H; injection H as _ <-; split; [apply perr_ncr | unfold perr; discriminate]|].
    rewrite (with_stream_present sid _ c3 s Es) in H.
    destruct (receive_push_promise_in_band (c_cfg c3) promised hs s) as [s' rs] eqn:Ef. cbn [fst snd] in H.
    pose proof (receive_push_promise_in_band_ncr _ _ _ _ _ _ Ef) as Ns.
    destruct rs as [evs|e co i b|p]; [| |exfalso; exact (Ns p eq_refl)].
    + set (c4 := cset_streams c3 (dset sid s' (c_streams c3))) in *.
      unfold bind at 1 in H. destruct (begin_new_stream promised 0 c4) as [c5 r5] eqn:E5.
      pose proof (begin_new_stream_ncr promised 0 c4) as N5. rewrite E5 in N5. cbn [snd] in N5.
      destruct r5 as [[]|e co i b|p]; [|injection H as _ <-; split; [auto|discriminate] | exfalso; exact (N5 p eq_refl)].
      destruct (begin_new_stream_ok _ _ _ _ E5) as [sp Hsp].
      unfold bind at 1 in H. rewrite (with_stream_present promised _ c5 sp Hsp) in H.
      destruct (remotely_pushed hs sp) as [sp' rp] eqn:Ep. cbn [fst snd] in H. pose proof (remotely_pushed_ncr hs _ _ _ Ep) as Np.
      destruct rp as [u2|e co i b|p]; [|injection H as _ <-; split; [auto|discriminate] | exfalso; exact (Np p eq_refl)].
      unfold ret in H. injection H as _ <-. split; auto. intros fr ev Ex; injection Ex as <- _; reflexivity.
    + destruct e; injection H as _ <-; split; auto; try discriminate. intros fr ev Ex; injection Ex as <- _; reflexivity.
  - destruct (stream_closed_by c3 sid) as [[| | |]|]; unfold ret, lift_res in H; injection H as _ <-;
      (split; [first [apply perr_ncr | auto] | first [unfold perr; discriminate | intros fr ev Ex; injection Ex as <- _; reflexivity]]).
Qed.

Lemma safeF_recv_headers sid es p d : safeF (recv_headers sid es p d).
Proof.
  intros c c' r Hi H. unfold recv_headers in H.
  unfold bind at 1 in H. unfold get at 1 in H.
  apply bind_step in H as [(c1 & a & E1 & I1 & H)|[N NO]]; [|done_err N NO|exact Hi|pinv|].
  2:{ destruct (dmem sid (c_streams c)); [apply safe_ret|].
      apply safe_bind; [pinv | apply safe_open_inbound |]. intros n. intros x x' rx _ Ex. unfold bind, get in Ex.
      destruct (g_recv_headers_mcs _ _ _); injection Ex as _ <-; auto. }
  apply bind_step in H as [(c2 & hs & E2 & I2 & H)|[N NO]]; [|done_err N NO|exact I1|pinv|apply safe_never_crashes; intros x x' rx Ex; exact (decode_headers_never_crashes d x x' rx Ex)].
  apply bind_step in H as [(c3 & u & E3 & I3 & H)|[N NO]]; [|done_err N NO|exact I2|pinv|apply safe_cfsm].
  unfold bind at 1 in H. unfold get at 1 in H.
  unfold bind at 1 in H.
  destruct (g_recv_headers_unpromised sid (c_hi_in c3) (client c3) (negb (dmem sid (c_streams c3)))).
  { unfold lift_res at 1 in H. unfold perr at 1 in H. cbv beta iota in H. injection H as _ <-. split; [auto|discriminate]. }
  unfold ret at 1 in H. cbv beta iota in H.
  unfold bind at 1 in H. destruct (get_or_create_stream sid (b2z (negb (client c3))) c3) as [c4 r4] eqn:E4.
  pose proof (get_or_create_ncr sid (b2z (negb (client c3))) c3) as N4. rewrite E4 in N4. cbn [snd] in N4.
  assert (I4 : mfs_inv c4).
  { assert (X : pres_inv mfs_inv (get_or_create_stream sid (b2z (negb (client c3))))) by pinv. exact (X _ _ _ I3 E4). }
  destruct r4 as [[]|e co i b|pp]; [|injection H as _ <-; split; [auto|discriminate] | exfalso; exact (N4 pp eq_refl)].
  destruct (get_or_create_ok _ _ _ _ E4) as [s Hs].
  unfold bind at 1 in H. rewrite (with_stream_present sid _ c4 s Hs) in H.
  destruct (receive_headers (c_cfg c3) hs es s) as [s' rs] eqn:Ef. cbn [fst snd] in H.
  pose proof (receive_headers_ncr _ _ _ _ _ _ Ef) as Ns.
  destruct rs as [evs|e co i b|pp]; [|injection H as _ <-; split; [auto|discriminate] | exfalso; exact (Ns pp eq_refl)].
  pose proof (receive_headers_event_shape _ _ _ _ _ _ Ef) as Hshape.
  destruct p as [pr|].
  - set (c5 := cset_streams c4 (dset sid s' (c_streams c4))) in *.
    unfold bind at 1 in H. destruct (recv_priority sid pr c5) as [c6 r6] eqn:E6.
    pose proof (priority_frames_never_crash sid pr _ _ _ E6) as N6.
    destruct r6 as [pe|e co i b|pp]; [|injection H as _ <-; split; [auto|discriminate] | exfalso; exact (N6 pp eq_refl)].
    destruct evs as [|e0 rest]; [contradiction|].
    unfold ret in H. injection H as _ <-. split; auto. intros fr ev Ex; injection Ex as <- _; reflexivity.
  - unfold ret in H. injection H as _ <-. split; auto. intros fr ev Ex; injection Ex as <- _; reflexivity.
Qed.

(* every frame the buffer hands over: no crash, and what the handler wants sent fits *)
Definition yielded (f : rframe) : Prop := match f with RTooLarge | RBadBody _ => False | _ => True end.
Theorem safeF_dispatch f : yielded f -> safeF (dispatch f).
Proof.
  intros Hy. destruct f; cbn [dispatch]; try contradiction.
  - apply safeF_recv_headers.
  - apply safeF_recv_push_promise.
  - apply safeF_recv_data.
  - apply safeF_recv_settings.
  - apply safeF_recv_window_update.
  - apply safeF_recv_ping.
  - apply safeF_recv_rst.
  - apply safeF_priority.
  - apply safeF_recv_goaway.
  - apply safeF_recv_naked_continuation.
  - apply safeF_recv_alt_svc.
  - apply safeF_ret. reflexivity.
Qed.

Lemma prepare_small_ok fs c : mfs_inv c -> smallf fs = true -> snd (prepare_for_sending fs c) = Ok tt.
Proof.
  intros [Hm _] Hs. unfold prepare_for_sending. destruct fs as [|f fs]; [reflexivity|].
  assert (E : forallb (fun f0 => body_len f0 <=? c_max_out_frame c) (f :: fs) = true).
  { unfold smallf in Hs. rewrite forallb_forall in *. intros x Hx. specialize (Hs x Hx). unfold P in Hm. cbn [fst] in Hm. lia. }
  rewrite E. reflexivity.
Qed.

Theorem receive_frame_never_crashes f c c' r : yielded f -> mfs_inv c -> receive_frame f c = (c', r) -> ncr r.
Proof.
  intros Hy Hi H. unfold receive_frame in H. destruct (dispatch f c) as [c1 r1] eqn:Ed.
  destruct (safeF_dispatch f Hy _ _ _ Hi Ed) as [N1 F1]. pose proof (inv_dispatch f _ _ _ Hi Ed) as I1.
  destruct r1 as [[frames evs]|e co sid rst|p]; [| |exfalso; exact (N1 p eq_refl)].
  - unfold bind in H. pose proof (prepare_small_ok frames c1 I1 (F1 _ _ eq_refl)) as Hp.
    destruct (prepare_for_sending frames c1) as [c2 r2]. cbn [snd] in Hp. subst r2. unfold ret in H. injection H as _ <-. auto.
  - assert (Hrst : forall evs0 : list event, ncr (snd ((prepare_for_sending [FRstStream sid co] ;;; ret evs0) c1)) /\ True).
    { intros evs0. split; [|exact I]. unfold bind. pose proof (prepare_small_ok [FRstStream sid co] c1 I1 eq_refl) as Hp.
      destruct (prepare_for_sending [FRstStream sid co] c1) as [c2 r2]. cbn [snd] in Hp. subst r2. cbn. auto. }
    assert (Hrst2 : forall evs0 : list event, ncr (snd ((prepare_for_sending [FRstStream sid EC_STREAM_CLOSED] ;;; ret evs0) c1))).
    { intros evs0. unfold bind. pose proof (prepare_small_ok [FRstStream sid EC_STREAM_CLOSED] c1 I1 eq_refl) as Hp.
      destruct (prepare_for_sending [FRstStream sid EC_STREAM_CLOSED] c1) as [c2 r2]. cbn [snd] in Hp. subst r2. cbn. auto. }
    destruct e; try (injection H as _ <-; auto).
    + destruct (closed_by_reset c1 sid).
      * pose proof (Hrst2 []) as X. rewrite H in X. exact X.
      * destruct (closed_by_end c1 sid); injection H as _ <-; unfold scerr; auto.
    + destruct (closed_by_reset c1 sid).
      * pose proof (proj1 (Hrst (if rst then [EStreamReset sid EC_STREAM_CLOSED false] else []))) as X. rewrite H in X. exact X.
      * injection H as _ <-. auto.
Qed.

(* ---------- receive_data as a whole ---------- *)
Lemma recv_except_ncr c1 res1 c2 r2 : mfs_inv c1 -> (forall p, res1 = Crash p -> p = ForeignError) ->
  recv_except c1 res1 = (c2, r2) -> ncr r2.
Proof.
  intros [Hm _] Hc H. unfold P in Hm. cbn [fst] in Hm. unfold recv_except in H. destruct res1 as [evs|e code sid rst|p].
  - injection H as _ <-. auto.
  - destruct (is_protocol_error e); [|injection H as _ <-; auto].
    rewrite terminate_closed_form in H. cbv zeta in H. destruct (8 <=? c_max_out_frame c1) eqn:E; [injection H as _ <-; auto | lia].
  - rewrite (Hc p eq_refl) in H. rewrite terminate_closed_form in H. cbv zeta in H.
    destruct (8 <=? c_max_out_frame c1) eqn:E; [injection H as _ <-; apply perr_ncr | lia].
Qed.

Lemma yield_is_yielded limit f blen : frame_buffer_check limit f blen = FBYield -> yielded f.
Proof.
  unfold frame_buffer_check. destruct (bad_stream_association f); [discriminate|]. destruct (g_fb_len blen limit); [discriminate|].
  destruct (bad_promised_id f); [discriminate|]. destruct f; try discriminate; intros _; exact I.
Qed.
Lemma reject_crash_is_foreign limit f blen rj c c1 p :
  frame_buffer_check limit f blen = FBReject rj -> (dispatch rj ;;; ret ([] : list event)) c = (c1, Crash p) -> p = ForeignError.
Proof.
  intros Ec Er.
  assert (Hrj : match rj with RTooLarge | RBadBody _ => True | _ => False end).
  { unfold frame_buffer_check in Ec.
    destruct (bad_stream_association f); [injection Ec as <-; exact I|].
    destruct (g_fb_len blen limit); [injection Ec as <-; exact I|].
    destruct (bad_promised_id f); [injection Ec as <-; exact I|].
    destruct f; try discriminate; injection Ec as <-; exact I. }
  destruct rj; try contradiction; unfold bind, dispatch, fail in Er; cbn in Er; try discriminate.
  destruct (kind =? 0); [unfold lift_res, perr in Er; discriminate|].
  destruct (kind =? 1); [unfold fail in Er; discriminate | unfold crash in Er; injection Er as _ <-; reflexivity].
Qed.

Theorem recv_core_never_crashes fs : forall acc c c' r rem, mfs_inv c -> recv_core fs acc c = (c', r, rem) -> ncr r.
Proof.
  induction fs as [|[f blen] rest IH]; intros acc c c' r rem Hi H; cbn [recv_core] in H.
  - injection H as _ <- _. auto.
  - destruct (frame_buffer_check (c_max_in_frame c) f blen) as [|rj] eqn:Ec.
    + destruct (receive_frame f c) as [c1 res1] eqn:Er.
      pose proof (receive_frame_never_crashes f _ _ _ (yield_is_yielded _ _ _ Ec) Hi Er) as N1.
      pose proof (inv_receive_frame f _ _ _ Hi Er) as I1.
      destruct res1 as [evs|e code sid rst|p]; [exact (IH _ _ _ _ _ I1 H) | | exfalso; exact (N1 p eq_refl)].
      destruct (recv_except c1 _) as [c2 r2] eqn:Ee. injection H as _ <- _.
      refine (recv_except_ncr _ _ _ _ I1 _ Ee). intros p Hp; discriminate.
    + destruct ((dispatch rj ;;; ret []) c) as [c1 res1] eqn:Er.
      pose proof (reject_same_state _ _ _ _ _ _ _ Ec Er). subst c1.
      destruct res1 as [evs|e code sid rst|p].
      * exfalso. exact (reject_never_ok _ _ _ _ _ _ _ Ec Er).
      * destruct (recv_except c _) as [c2 r2] eqn:Ee. injection H as _ <- _.
        refine (recv_except_ncr _ _ _ _ Hi _ Ee). intros p Hp; discriminate.
      * destruct (recv_except c _) as [c2 r2] eqn:Ee. injection H as _ <- _.
        refine (recv_except_ncr _ _ _ _ Hi _ Ee). intros q Hq. injection Hq as <-. exact (reject_crash_is_foreign _ _ _ _ _ _ _ Ec Er).
Qed.

Theorem api_receive_never_crashes fs c c' r : mfs_inv c -> api_receive fs c = (c', r) -> ncr r.
Proof.
  intros Hi H. unfold api_receive in H. destruct (recv_core (c_inbuf c ++ fs) [] c) as [[c1 r1] rem] eqn:E. injection H as _ <-.
  exact (recv_core_never_crashes _ _ _ _ _ _ Hi E).
Qed.

(* THE statement of C17 on the model: after ANY history of calls and received frames, receive_data on ANY list of frames
   (valid, malformed, refused by the frame buffer, with any HPACK outcome) returns events or raises an h2 exception *)
Theorem receive_data_only_raises_h2_exceptions cfg os fs :
  let c := run (conn_new cfg) os in forall p, snd (api_receive fs c) <> Crash p.
Proof.
  intros c p. pose proof (peer_frame_size_limit_is_never_below_the_minimum os _ (mfs_init cfg)) as Hi. fold c in Hi.
  destruct (api_receive fs c) as [c' r] eqn:E. exact (api_receive_never_crashes fs c c' r Hi E p).
Qed.
