(* Proofs/C02Proofs.v — what goes into the output buffer: sizes, header-block shape, and the frames of each call. *)
From H2 Require Import Base.Prelude Base.PyDict Model.FsmTypes Gen.Consts Gen.Tables Gen.Guards
  Model.Types Model.Windows Model.WmHist Model.SettingsV Model.Settings Model.StreamFSM Model.Headers
  Model.Stream Model.ConnState Model.Connection Proofs.C26Proofs.

(* every call ends in _prepare_for_sending: it appends exactly the frames it is given, and returns normally only if every one of
   them fits the peer's MAX_FRAME_SIZE in force *)
Theorem prepare_for_sending_spec fs c c' :
  prepare_for_sending fs c = (c', Ok tt) ->
  c' = cset_out c (c_out c ++ fs) /\ forallb (fun f => body_len f <=? c_max_out_frame c) fs = true.
Proof.
  unfold prepare_for_sending. destruct fs as [|f fs].
  - unfold ret. intros H. injection H as <-. split; [rewrite app_nil_r; destruct c; reflexivity | reflexivity].
  - destruct (forallb _ (f :: fs)) eqn:E; intros H; [injection H as <-; split; reflexivity | discriminate].
Qed.

(* header blocks: one HEADERS / PUSH_PROMISE frame followed by CONTINUATION frames on the same stream, END_HEADERS on the last
   frame only, every fragment within the stream's frame-size limit, fragments adding up to the encoded block *)
Fixpoint conts_ok (sid : Z) (fs : list frame) : bool :=
  match fs with
  | [] => false
  | [FContinuation s eh _] => (s =? sid) && eh
  | FContinuation s eh _ :: r => (s =? sid) && negb eh && conts_ok sid r
  | _ => false
  end.
Definition block_ok (fs : list frame) : bool :=
  match fs with
  | [FHeaders _ _ eh _ _ _] | [FPushPromise _ _ eh _ _] => eh
  | FHeaders sid _ eh _ _ _ :: r | FPushPromise sid _ eh _ _ :: r => negb eh && conts_ok sid r
  | _ => false
  end.

Fixpoint conts (sid : Z) (l : list Z) : list frame :=
  match l with [] => [] | [x] => [FContinuation sid true x] | x :: r => FContinuation sid false x :: conts sid r end.
Lemma conts_two sid x y r : conts sid (x :: y :: r) = FContinuation sid false x :: conts sid (y :: r).
Proof. reflexivity. Qed.
Lemma conts_ok_conts sid : forall l, l <> [] -> conts_ok sid (conts sid l) = true.
Proof.
  induction l as [|x l IH]; intros Hne; [contradiction|]. destruct l as [|y l].
  - cbn. rewrite Z.eqb_refl. reflexivity.
  - rewrite conts_two. specialize (IH ltac:(discriminate)).
    assert (E : forall fr r, conts_ok sid (FContinuation sid false x :: fr :: r) = conts_ok sid (fr :: r)).
    { intros fr r. cbn [conts_ok]. rewrite Z.eqb_refl. reflexivity. }
    destruct (conts sid (y :: l)) as [|fr r] eqn:Ec; [destruct l; discriminate|]. rewrite E. exact IH.
Qed.

Lemma build_shape cfg f hs L first s consumed frames :
  build_headers_frames cfg f hs L first s = (consumed, Ok frames) ->
  exists c, (frames = [first true consumed c]) \/ (exists l, l <> [] /\ frames = first false consumed c :: conts (s_id s) l).
Proof.
  unfold build_headers_frames. destruct (outbound_pipeline cfg f hs) as [cons r]. destruct r; try (unfold perr; discriminate).
  destruct (header_blocks L (s_max_out_frame s)) as [|c [|c2 rest]]; intros H; injection H as <- <-.
  - exists 0. left. reflexivity.
  - exists c. left. reflexivity.
  - exists c. right. exists (c2 :: rest). split; [discriminate|]. f_equal. clear. revert c2. induction rest as [|c3 rest IH]; intros c2; [reflexivity|]. rewrite conts_two. rewrite <- IH. reflexivity.
Qed.

Theorem header_block_is_contiguous cfg f hs L s consumed frames first_es first_prio :
  build_headers_frames cfg f hs L (fun eh h c => FHeaders (s_id s) first_es eh first_prio h c) s = (consumed, Ok frames) ->
  block_ok frames = true.
Proof.
  intros H. destruct (build_shape _ _ _ _ _ _ _ _ H) as [c [->|[l [Hl ->]]]]; [reflexivity|].
  pose proof (conts_ok_conts (s_id s) l Hl) as G. destruct (conts (s_id s) l) as [|fr r]; [discriminate|]. exact G.
Qed.
Theorem push_promise_block_is_contiguous cfg f hs L s promised consumed frames :
  build_headers_frames cfg f hs L (fun eh h c => FPushPromise (s_id s) promised eh h c) s = (consumed, Ok frames) ->
  block_ok frames = true.
Proof.
  intros H. destruct (build_shape _ _ _ _ _ _ _ _ H) as [c [->|[l [Hl ->]]]]; [reflexivity|].
  pose proof (conts_ok_conts (s_id s) l Hl) as G. destruct (conts (s_id s) l) as [|fr r]; [discriminate|]. exact G.
Qed.

(* the fragments: each within the limit, together the whole block *)
Lemma chunks_spec fuel : forall L mx, 0 < mx -> (Z.to_nat (L / mx) + 2 <= fuel)%nat ->
  Forall (fun c => 0 < c <= mx) (chunks fuel L mx) /\ fold_right Z.add 0 (chunks fuel L mx) = Z.max L 0.
Proof.
  induction fuel as [|fuel IH]; intros L mx Hmx Hf; [lia|]. cbn [chunks].
  destruct (L <=? 0) eqn:E0; [split; [constructor | cbn; lia]|].
  destruct (L <=? mx) eqn:E1; [split; [repeat constructor; lia | cbn; lia]|].
  assert (Hd : L / mx = (L - mx) / mx + 1).
  { replace L with ((L - mx) + 1 * mx) at 1 by lia. rewrite Z.div_add by lia. reflexivity. }
  assert (0 <= (L - mx) / mx) by (apply Z.div_pos; lia).
  destruct (IH (L - mx) mx Hmx) as [A B]; [rewrite Hd in Hf; rewrite Z2Nat.inj_add in Hf by lia; simpl in Hf; lia|].
  split; [constructor; [lia | exact A] | cbn [fold_right]; rewrite B; lia].
Qed.
Theorem header_fragments_fit_and_add_up L mx : 0 < mx ->
  Forall (fun c => 0 < c <= mx) (header_blocks L mx) /\ fold_right Z.add 0 (header_blocks L mx) = Z.max L 0.
Proof.
  intros Hmx. unfold header_blocks. rewrite Z.max_l by lia. apply chunks_spec; [exact Hmx | lia].
Qed.

(* ---- each successful call appends exactly the frames it specifies (a selection; the others are covered by the
        correspondence run, which compares the whole output structure after every call) ---- *)
Theorem ping_appends_one_ping pl c :
  zlen pl = 8 -> c_state c <> C_CLOSED -> 8 <= c_max_out_frame c ->
  api_ping pl c = (cset_out c (c_out c ++ [FPing false pl]), Ok tt).
Proof. intros Hl Ho Hm. apply api_ping_ok; assumption. Qed.

Theorem close_connection_appends_one_goaway code last dbg c c' :
  api_close_connection code last dbg c = (c', Ok tt) ->
  c_out c' = c_out c ++ [FGoAway (match last with Some l => l | None => c_hi_in c end) code dbg] /\ 8 + dbg <= c_max_out_frame c.
Proof.
  unfold api_close_connection. unfold bind at 1. unfold cfsm.
  destruct (conn_transition (c_state c) CI_SEND_GOAWAY) as [t|]; [|discriminate].
  unfold bind, get. intros H. apply prepare_for_sending_spec in H as [-> Hf].
  cbn [forallb body_len andb c_max_out_frame cset_state] in Hf. rewrite andb_true_r in Hf.
  split; [destruct last; reflexivity | lia].
Qed.

