(* Proofs/C17Proofs.v — where a non-protocol exception could come from on the receive path, and why it does not. *)
From H2 Require Import Base.Prelude Base.PyDict Model.FsmTypes Gen.Consts Gen.Tables Gen.Guards
  Model.Types Model.Windows Model.WmHist Model.SettingsV Model.Settings Model.StreamFSM Model.Headers
  Model.Stream Model.ConnState Model.Connection Model.FrameBuffer Proofs.ConstFacts Proofs.Frame Proofs.FrameConn Proofs.Inv
  Proofs.C18Proofs.

(* ---- header validation and decoding: no IndexError (empty names), no UnicodeDecodeError escaping ---- *)
Lemma check_ws_no_foreign n v : check_ws n v <> VIndexError /\ check_ws n v <> VUnicodeError.
Proof.
  unfold check_ws. destruct n as [|c n0]; [split; discriminate|].
  destruct (is_ws c || is_ws (last (c :: n0) 0)); [split; discriminate|].
  destruct v as [|d v0]; [split; discriminate|].
  destruct (is_ws d || is_ws (last (d :: v0) 0)); split; discriminate.
Qed.

Lemma step_pseudo_no_foreign s n v : step_pseudo s n v <> VIndexError /\ step_pseudo s n v <> VUnicodeError.
Proof.
  unfold step_pseudo. destruct (starts_colon n); [|split; discriminate].
  destruct (mem_bytes n (vs_pseudo s)); [split; discriminate|].
  destruct (vs_regular s); [split; discriminate|].
  destruct (negb _); split; discriminate.
Qed.

Lemma step_common_no_foreign f s n v : step_common f s n v <> VIndexError /\ step_common f s n v <> VUnicodeError.
Proof.
  unfold step_common. destruct (check_te n v); [split; discriminate|]. destruct (check_conn n); [split; discriminate|].
  pose proof (step_pseudo_no_foreign s n v) as [H1 H2].
  destruct (step_pseudo s n v) as [s1| | |]; try (split; discriminate); try contradiction.
  destruct (check_path f n v); split; discriminate.
Qed.

Lemma step_inbound_no_foreign f s n v : step_inbound f s n v <> VIndexError /\ step_inbound f s n v <> VUnicodeError.
Proof.
  unfold step_inbound. destruct (check_upper n); [split; discriminate|].
  pose proof (check_ws_no_foreign n v) as [H1 H2].
  destruct (check_ws n v) as [s1| | |]; try (split; discriminate); try contradiction.
  apply step_common_no_foreign.
Qed.

Lemma step_inbound_full_no_index cfg f s n v : step_inbound_full cfg f s n v <> VIndexError.
Proof.
  unfold step_inbound_full. destruct (cfg_validate_in cfg).
  - pose proof (step_inbound_no_foreign f s n v) as [H1 H2].
    destruct (step_inbound f s n v) as [s1| | |]; try discriminate; try contradiction.
    destruct (_ && _); discriminate.
  - destruct (_ && _); discriminate.
Qed.

Lemma run_steps_no_index step : (forall s n v, step s n v <> VIndexError) ->
  forall hs s passed, snd (fst (run_steps step s hs passed)) <> PIndexError.
Proof.
  intros Hs. induction hs as [|[[n v] ni] r IH]; intros s passed; cbn [run_steps].
  - cbn. discriminate.
  - pose proof (Hs s n v) as H. destruct (step s n v) as [s1| | |]; cbn; try discriminate; try contradiction. apply IH.
Qed.

(* the whole inbound pipeline (cookie joining, validation, text decoding), for every header list and configuration:
   the only way it fails is a ProtocolError (a UnicodeDecodeError is translated by _decode_headers) *)
Theorem inbound_pipeline_never_index_error cfg f hs : inbound_pipeline cfg f hs <> IIndexError.
Proof.
  unfold inbound_pipeline.
  pose proof (run_steps_no_index (step_inbound_full cfg f) (step_inbound_full_no_index cfg f)
                (if cfg_normalize_in cfg then combine_cookies hs else hs) vs0 []) as H.
  destruct (run_steps _ _ _ _) as [[passed r] s]. cbn in H. destruct r; try discriminate; [|contradiction].
  destruct (_ && _); discriminate.
Qed.

Theorem process_received_headers_never_crashes cfg f hs p : process_received_headers cfg f hs <> Crash p.
Proof.
  unfold process_received_headers. pose proof (inbound_pipeline_never_index_error cfg f hs) as H.
  destruct (inbound_pipeline cfg f hs); try discriminate. contradiction.
Qed.

(* an empty header name, in every validation stage order, is a ProtocolError *)
Theorem empty_header_name_is_protocol_error cfg f s v :
  cfg_validate_in cfg = true -> step_inbound_full cfg f s [] v = VProtocolError.
Proof. intros H. unfold step_inbound_full. rewrite H. reflexivity. Qed.

(* text that cannot be decoded under header_encoding is a ProtocolError *)
Theorem undecodable_header_is_protocol_error cfg f hs :
  inbound_pipeline cfg f hs = IUnicodeError -> process_received_headers cfg f hs = perr.
Proof. intros H. unfold process_received_headers. rewrite H. reflexivity. Qed.

(* ---- HPACK: whatever the decoder does with the block, the outcome is ProtocolError / DenialOfServiceError or a header list ---- *)
Theorem decode_headers_never_crashes d c c' r : decode_headers d c = (c', r) -> forall p, r <> Crash p.
Proof.
  intros H p. unfold decode_headers, bind, modify, get in H. destruct d as [hs|].
  - destruct (hl_size hs >? _); injection H as _ <-; discriminate.
  - injection H as _ <-. discriminate.
Qed.

(* ---- the frame buffer: every way a frame can be refused is one of four classes, all ProtocolError or a subclass,
        InvalidPaddingError being translated by receive_data ---- *)
Theorem padding_error_is_translated c1 c2 r2 :
  8 <= c_max_out_frame c1 -> recv_except c1 (Crash ForeignError) = (c2, r2) -> r2 = perr.
Proof.
  intros Hm H. unfold recv_except in H. rewrite terminate_closed_form in H. cbv zeta in H.
  destruct (8 <=? c_max_out_frame c1) eqn:E; [|lia]. injection H as _ <-. reflexivity.
Qed.

Theorem h2_exception_stays_protocol_error c1 e code sid rst c2 r2 :
  8 <= c_max_out_frame c1 -> recv_except c1 (Err e code sid rst) = (c2, r2) -> r2 = Err e code sid rst.
Proof.
  intros Hm H. unfold recv_except in H. destruct (is_protocol_error e).
  - rewrite terminate_closed_form in H. cbv zeta in H. destruct (8 <=? c_max_out_frame c1) eqn:E; [|lia].
    injection H as _ <-. reflexivity.
  - injection H as _ <-. reflexivity.
Qed.

Theorem rejected_frames_raise_protocol_errors kind c :
  snd ((dispatch (RBadBody kind)) c) = perr \/
  snd ((dispatch (RBadBody kind)) c) = Err FrameDataMissingError (exn_code FrameDataMissingError) 0 false \/
  snd ((dispatch (RBadBody kind)) c) = Crash ForeignError.
Proof.
  unfold dispatch. destruct (kind =? 0); [left; reflexivity|]. destruct (kind =? 1); [right; left; reflexivity|].
  right; right; reflexivity.
Qed.

Theorem oversized_frame_raises_frame_too_large c :
  snd (dispatch RTooLarge c) = Err FrameTooLargeError (exn_code FrameTooLargeError) 0 false.
Proof. reflexivity. Qed.

(* ---- handlers that cannot raise anything but a ProtocolError, in any state ---- *)
Definition never_crashes {A} (m : CM A) : Prop := forall c c' r, m c = (c', r) -> forall p, r <> Crash p.

Lemma nc_bind {A B} (m : CM A) (k : A -> CM B) : never_crashes m -> (forall a, never_crashes (k a)) -> never_crashes (bind m k).
Proof.
  intros Hm Hk c c' r H p. unfold bind in H. destruct (m c) as [c1 r1] eqn:E. destruct r1 as [a|e co i b|q].
  - exact (Hk a _ _ _ H p).
  - injection H as _ <-. discriminate.
  - exfalso. exact (Hm _ _ _ E q eq_refl).
Qed.
Lemma nc_ret {A} (a : A) : never_crashes (ret a).
Proof. intros c c' r H p. injection H as _ <-. discriminate. Qed.
Lemma nc_fail {A} e code sid rst : never_crashes (@fail conn A e code sid rst).
Proof. intros c c' r H p. injection H as _ <-. discriminate. Qed.
Lemma nc_modify f : never_crashes (modify f).
Proof. intros c c' r H p. injection H as _ <-. discriminate. Qed.
Lemma nc_cfsm i : never_crashes (cfsm i).
Proof. intros c c' r H p. unfold cfsm in H. destruct (conn_transition _ _); injection H as _ <-; discriminate. Qed.
Lemma nc_lift_perr {A} : never_crashes (@lift_res conn A perr).
Proof. intros c c' r H p. injection H as _ <-. discriminate. Qed.

Theorem priority_frames_never_crash sid pr : never_crashes (recv_priority sid pr).
Proof.
  unfold recv_priority. apply nc_bind; [apply nc_cfsm|]. intros _. destruct pr as [[dep w] ex].
  destruct (g_recv_prio_self dep sid); [apply nc_lift_perr|apply nc_ret].
Qed.

Theorem goaway_frames_never_crash last code dbg : never_crashes (recv_goaway last code dbg).
Proof.
  unfold recv_goaway. apply nc_bind; [apply nc_cfsm|]. intros _. apply nc_bind; [apply nc_modify|]. intros _. apply nc_ret.
Qed.

Theorem unknown_frames_never_crash ft sid : never_crashes (dispatch (RUnknown ft sid)).
Proof. intros c c' r H p. cbn in H. injection H as _ <-. discriminate. Qed.
