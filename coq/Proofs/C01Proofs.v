(* Proofs/C01Proofs.v — one endpoint's output frames as the other endpoint's input frames, and the round trips that do not
   depend on stream tables.  The stateful composition (HEADERS / DATA / PUSH_PROMISE across the two stream tables) is
   exercised on two real connected endpoints by harness/twoend.py. *)
From H2 Require Import Base.Prelude Base.PyDict Model.FsmTypes Gen.Consts Gen.Tables Gen.Guards
  Model.Types Model.Windows Model.WmHist Model.SettingsV Model.Settings Model.StreamFSM Model.Headers
  Model.Stream Model.ConnState Model.Connection Proofs.C26Proofs Proofs.C23Proofs Proofs.C02Proofs.

(* the wire, abstractly: what the peer's frame buffer hands to its connection for a frame we emitted
   (header blocks: the frame carrying the whole block; hyperframe's encoding itself is outside the model) *)
Definition to_r (f : frame) : option rframe :=
  match f with
  | FHeaders sid es true p hs _ => Some (RHeaders sid es p (HDecoded hs))
  | FPushPromise sid promised true hs _ => Some (RPushPromise sid promised (HDecoded hs))
  | FData sid len es pad => Some (RData sid len (len + match pad with Some p => p + 1 | None => 0 end) es)
  | FSettings ack vals => Some (RSettings ack vals)
  | FWindowUpdate sid inc => Some (RWindowUpdate sid inc)
  | FPing ack pl => Some (RPing ack pl)
  | FRstStream sid code => Some (RRstStream sid code)
  | FPriority sid p => Some (RPriority sid p)
  | FGoAway last code dbg => Some (RGoAway last code dbg)
  | FAltSvc sid o fl => Some (RAltSvc sid o fl)
  | _ => None
  end.

(* PING: a successful ping(payload) is reported by the peer as PingReceived(payload), answered with one ACK carrying the
   same payload, which the sender reports as PingAckReceived(payload) *)
Theorem ping_round_trip pl a b :
  zlen pl = 8 -> state_open a -> state_open b -> 8 <= c_max_out_frame a -> 8 <= c_max_out_frame b ->
  exists a1 b1 a2,
    api_ping pl a = (a1, Ok tt) /\ c_out a1 = c_out a ++ [FPing false pl] /\
    receive_frame (RPing false pl) b = (b1, Ok [EPingReceived pl]) /\ c_out b1 = c_out b ++ [FPing true pl] /\
    receive_frame (RPing true pl) a1 = (a2, Ok [EPingAckReceived pl]) /\ c_out a2 = c_out a1.
Proof.
  intros Hl Ha Hb Hma Hmb.
  exists (cset_out a (c_out a ++ [FPing false pl])), (cset_out b (c_out b ++ [FPing true pl])).
  eexists. rewrite (api_ping_ok pl a Hl Ha Hma). rewrite (receive_ping_frame false pl b Hb Hmb).
  split; [reflexivity|]. split; [reflexivity|]. split; [reflexivity|]. split; [reflexivity|].
  assert (Ha1 : state_open (cset_out a (c_out a ++ [FPing false pl]))) by (unfold state_open in *; destruct a; exact Ha).
  assert (Hm1 : 8 <= c_max_out_frame (cset_out a (c_out a ++ [FPing false pl]))) by (destruct a; exact Hma).
  rewrite (receive_ping_frame true pl _ Ha1 Hm1). split; [reflexivity|]. cbn [c_out cset_out]. rewrite app_nil_r. reflexivity.
Qed.

(* PRIORITY: the peer reports exactly the weight, dependency and exclusive flag of the call *)
Theorem priority_call_round_trip sid w d e b :
  prio_args_ok sid w d -> sid <> 0 -> conn_transition (c_state b) CI_RECV_PRIORITY <> None ->
  forall p, add_frame_priority sid w d e = Ok p ->
  snd (recv_priority sid p b) =
  Ok [EPriorityUpdated sid (match w with Some x => x | None => 16 end) (match d with Some dep => dep | None => 0 end)
                       (match e with Some x => x | None => false end)].
Proof. exact (priority_round_trip sid w d e b). Qed.

(* connection-level WINDOW_UPDATE: the peer's send window grows by exactly the increment, one WindowUpdated(0, inc) *)
Theorem connection_window_update_round_trip inc b t :
  conn_transition (c_state b) CI_RECV_WINDOW_UPDATE = Some t -> 1 <= inc -> c_out_win b + inc <= LARGEST_FLOW_CONTROL_WINDOW ->
  recv_window_update 0 inc b = (cset_out_win (cset_state b t) (c_out_win b + inc), Ok ([], [EWindowUpdated 0 inc])).
Proof.
  intros Ht Hi Hw. unfold recv_window_update. unfold bind at 1. unfold cfsm. rewrite Ht. cbn [Z.eqb negb].
  unfold bind at 1. unfold get at 1. unfold bind at 1. unfold lift_res at 1. cbn [c_out_win cset_state].
  unfold guard_increment_window.
  destruct (c_out_win b + inc >? LARGEST_FLOW_CONTROL_WINDOW) eqn:E; [rewrite Z.gtb_ltb in E; apply Z.ltb_lt in E; lia|].
  unfold bind, modify, ret. reflexivity.
Qed.

(* GOAWAY: close_connection(code) is reported as ConnectionTerminated(code, last_stream_id, ...) *)
Theorem goaway_round_trip last code dbg b t :
  conn_transition (c_state b) CI_RECV_GOAWAY = Some t ->
  snd (recv_goaway last code dbg b) = Ok ([], [EConnectionTerminated code last dbg]).
Proof. intros Ht. unfold recv_goaway, bind, cfsm. rewrite Ht. reflexivity. Qed.
