(* C18 — an undecodable header block is reported with PROTOCOL_ERROR (1), not COMPRESSION_ERROR (9): known finding
   F-C18-1 (the existing test suite pins code 1, so it is not repaired). *)
From H2 Require Import Base.Prelude Model.Types Model.ConnState Model.Connection Proofs.C18Proofs.
Theorem C18_undecodable_block_code_refuted : forall c, snd (decode_headers HDecodeError c) = Err ProtocolError 1 0 false.
Proof. exact undecodable_block_code. Qed.
Print Assumptions C18_undecodable_block_code_refuted.
