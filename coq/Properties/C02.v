(* C02 — Emitted bytes are well-formed HTTP/2 that encode exactly the calls. *)
From H2 Require Import Base.Prelude Base.PyDict Model.FsmTypes Gen.Consts Gen.Tables Gen.Guards Model.Types Model.Windows Model.WmHist Model.SettingsV Model.Settings Model.StreamFSM Model.Headers Model.Stream Model.ConnState Model.Connection Proofs.C02Proofs.

(* every call ends in _prepare_for_sending: it appends exactly the frames it is given, and returns normally only if every one of
   them fits the peer's MAX_FRAME_SIZE in force *)
Theorem C02_prepare_for_sending_spec :
  forall fs c c',
  prepare_for_sending fs c = (c', Ok tt) ->
  c' = cset_out c (c_out c ++ fs) /\ forallb (fun f => body_len f <=? c_max_out_frame c) fs = true.
Proof. exact (fun fs c c' => prepare_for_sending_spec fs c c'). Qed.

Theorem C02_header_block_is_contiguous :
  forall cfg f hs L s consumed frames first_es first_prio,
  build_headers_frames cfg f hs L (fun eh h c => FHeaders (s_id s) first_es eh first_prio h c) s = (consumed, Ok frames) ->
  block_ok frames = true.
Proof. exact (fun cfg f hs L s consumed frames first_es first_prio => header_block_is_contiguous cfg f hs L s consumed frames first_es first_prio). Qed.

Theorem C02_push_promise_block_is_contiguous :
  forall cfg f hs L s promised consumed frames,
  build_headers_frames cfg f hs L (fun eh h c => FPushPromise (s_id s) promised eh h c) s = (consumed, Ok frames) ->
  block_ok frames = true.
Proof. exact (fun cfg f hs L s promised consumed frames => push_promise_block_is_contiguous cfg f hs L s promised consumed frames). Qed.

Theorem C02_header_fragments_fit_and_add_up :
  forall L mx,
  0 < mx ->
  Forall (fun c => 0 < c <= mx) (header_blocks L mx) /\ fold_right Z.add 0 (header_blocks L mx) = Z.max L 0.
Proof. exact (fun L mx => header_fragments_fit_and_add_up L mx). Qed.

(* ---- each successful call appends exactly the frames it specifies (a selection; the others are covered by the
        correspondence run, which compares the whole output structure after every call) ---- *)
Theorem C02_ping_appends_one_ping :
  forall pl c,
  zlen pl = 8 -> c_state c <> C_CLOSED -> 8 <= c_max_out_frame c ->
  api_ping pl c = (cset_out c (c_out c ++ [FPing false pl]), Ok tt).
Proof. exact (fun pl c => ping_appends_one_ping pl c). Qed.

Theorem C02_close_connection_appends_one_goaway :
  forall code last dbg c c',
  api_close_connection code last dbg c = (c', Ok tt) ->
  c_out c' = c_out c ++ [FGoAway (match last with Some l => l | None => c_hi_in c end) code dbg] /\ 8 + dbg <= c_max_out_frame c.
Proof. exact (fun code last dbg c c' => close_connection_appends_one_goaway code last dbg c c'). Qed.

Print Assumptions C02_prepare_for_sending_spec.
Print Assumptions C02_header_block_is_contiguous.
Print Assumptions C02_push_promise_block_is_contiguous.
Print Assumptions C02_header_fragments_fit_and_add_up.
Print Assumptions C02_ping_appends_one_ping.
Print Assumptions C02_close_connection_appends_one_goaway.

(* over EVERY history of calls and received frames the peer's MAX_FRAME_SIZE in force stays >= 2^14 (every value ever queued for the
   peer's settings passed validation): the fixed-size frames the library emits on its own always fit *)
From H2 Require Import Proofs.MfsInv.
Theorem C02_peer_frame_size_limit_never_below_the_minimum :
  forall cfg os, 16384 <= c_max_out_frame (run (conn_new cfg) os).
Proof. exact frame_size_limit_after_any_history. Qed.
Print Assumptions C02_peer_frame_size_limit_never_below_the_minimum.
