(* C16: clauses that do NOT hold of the faithful model; each witness is replayed on the implementation (known findings F-C16-1..3) *)
From H2 Require Import Base.Prelude Base.PyDict Model.FsmTypes Gen.Consts Gen.Tables Model.Types Model.Windows Model.WmHist
  Model.StreamFSM Model.Headers Model.Stream.

Definition cfgS := mkconfig false true true true true false.
Definition cfgC := mkconfig true true true true true false.
Definition b_path := [58;112;97;116;104]. Definition b_scheme := [58;115;99;104;101;109;101]. Definition b_auth := [58;97;117;116;104;111;114;105;116;121].
Definition REQ_CL5 : list hitem :=
  [(b_method, [71;69;84], false); (b_path, [47], false); (b_scheme, [104;116;116;112;115], false); (b_auth, [97], false); (b_content_length, [53], false)].
Definition RESP304 : list hitem := [(b_status, [51;48;52], false); (b_content_length, [49;48], false)].
Definition s0 := stream_new 1 65535 65535 16384.
Definition is_ok {A} (r : res A) : bool := match r with Ok _ => true | _ => false end.

(* "a request whose DATA payload total differs from its content-length is rejected": not when END_STREAM is on the HEADERS frame *)
Theorem C16_end_stream_on_headers_refuted : is_ok (snd (receive_headers cfgS REQ_CL5 true s0)) = true.
Proof. vm_compute. reflexivity. Qed.

(* ... nor when the message is ended by trailers *)
Theorem C16_ended_by_trailers_refuted :
  let '(s1, _) := receive_headers cfgS REQ_CL5 false s0 in is_ok (snd (receive_headers cfgS [([120], [49], false)] true s1)) = true.
Proof. vm_compute. reflexivity. Qed.

(* "304 responses are rejected only if they carry DATA payload, whatever their content-length says": a 304 with
   content-length 10 ended by an empty DATA frame is rejected *)
Theorem C16_304_with_content_length_refuted :
  let sc := fst (fsm SI_SEND_HEADERS (set_method s0 (Some [71;69;84]))) in
  let '(s1, r1) := receive_headers cfgC RESP304 false sc in
  is_ok r1 = true /\ snd (receive_data 0 0 true s1) = Err InvalidBodyLengthError 1 0 false.
Proof. vm_compute. split; reflexivity. Qed.

Print Assumptions C16_end_stream_on_headers_refuted.
Print Assumptions C16_ended_by_trailers_refuted.
Print Assumptions C16_304_with_content_length_refuted.
