(* C26 — Each received PING is answered exactly once with the same payload.
   [receive_frame] is H2Connection._receive_frame (one frame of a receive_data call; frames of a call are
   processed in order and their events concatenated, Model/Connection.v api_receive). *)
From H2 Require Import Base.Prelude Model.FsmTypes Gen.Tables Model.Types Model.ConnState Model.Connection Proofs.C26Proofs Proofs.C26Flood.

(* For every payload and every state of a connection that is not closed: a PING without ACK appends
   exactly one PING ACK with the identical payload and reports exactly one PingReceived; a PING ACK
   appends nothing and reports exactly one PingAckReceived; no other part of the state changes. *)
Theorem C26_each_ping_answered_once_same_payload :
  forall ack pl c, state_open c -> 8 <= c_max_out_frame c ->
    receive_frame (RPing ack pl) c =
    (cset_out c (c_out c ++ (if ack then [] else [FPing true pl])),
     Ok [if ack then EPingAckReceived pl else EPingReceived pl]).
Proof. exact receive_ping_frame. Qed.

(* ping() emits exactly one PING with the given payload when it has 8 bytes ... *)
Theorem C26_ping_emits_one_frame :
  forall pl c, zlen pl = 8 -> state_open c -> 8 <= c_max_out_frame c ->
    api_ping pl c = (cset_out c (c_out c ++ [FPing false pl]), Ok tt).
Proof. exact api_ping_ok. Qed.

(* ... and accepts nothing else: ValueError, state untouched *)
Theorem C26_ping_rejects_other_lengths :
  forall pl c, zlen pl <> 8 -> api_ping pl c = (c, Crash ValueError).
Proof. exact api_ping_bad_length. Qed.

(* PING handling is enabled in every connection state except CLOSED (decided on the generated table) *)
Theorem C26_ping_allowed_unless_closed :
  forall s, (conn_transition s CI_RECV_PING = None <-> s = C_CLOSED) /\ (conn_transition s CI_SEND_PING = None <-> s = C_CLOSED).
Proof. intros s. destruct (ping_allowed_unless_closed s) as (A & B & _). split; assumption. Qed.

(* A whole receive_data call carrying any number of PING frames (ACK or not, any payloads; the flood is
   a list of arbitrary length): one ACK per non-ACK PING, in arrival order, identical payloads; one
   event per frame in order; nothing is left in the buffer and nothing else changes.
   ping_frame p = (RPing (fst p) (snd p), 8) : a PING frame with its 8-byte body length. *)
Theorem C26_ping_flood_answered_in_order :
  forall ps c, state_open c -> 8 <= c_max_out_frame c -> 8 <= c_max_in_frame c -> c_inbuf c = [] ->
    api_receive (map ping_frame ps) c =
    (cset_out c (c_out c ++ map (fun p => FPing true (snd p)) (filter (fun p => negb (fst p)) ps)),
     Ok (map ping_event ps)).
Proof. intros ps c Ho Hm Hi Hb. rewrite <- ping_flood_payloads. exact (ping_flood ps c Ho Hm Hi Hb). Qed.

Example C26_ex_flood :
  let c := conn_new (mkconfig true true true true true false) in
  8 <= c_max_in_frame c /\ c_inbuf c = [].
Proof. split; [vm_compute; discriminate | reflexivity]. Qed.

Example C26_ex : state_open (conn_new (mkconfig true true true true true false)) /\
                 8 <= c_max_out_frame (conn_new (mkconfig true true true true true false)).
Proof. split; [discriminate | vm_compute; discriminate]. Qed.

Print Assumptions C26_each_ping_answered_once_same_payload.
Print Assumptions C26_ping_emits_one_frame.
Print Assumptions C26_ping_rejects_other_lengths.
Print Assumptions C26_ping_allowed_unless_closed.
Print Assumptions C26_ping_flood_answered_in_order.
