(* C01 — Two h2 endpoints exchange every successful send faithfully. *)
From H2 Require Import Base.Prelude Base.PyDict Model.FsmTypes Gen.Consts Gen.Tables Gen.Guards Model.Types Model.Windows Model.WmHist Model.SettingsV Model.Settings Model.StreamFSM Model.Headers Model.Stream Model.ConnState Model.Connection Proofs.C26Proofs Proofs.C23Proofs Proofs.C01Proofs.

(* PING: a successful ping(payload) is reported by the peer as PingReceived(payload), answered with one ACK carrying the
   same payload, which the sender reports as PingAckReceived(payload) *)
Theorem C01_ping_round_trip :
  forall pl a b,
  zlen pl = 8 -> state_open a -> state_open b -> 8 <= c_max_out_frame a -> 8 <= c_max_out_frame b ->
  exists a1 b1 a2,
    api_ping pl a = (a1, Ok tt) /\ c_out a1 = c_out a ++ [FPing false pl] /\
    receive_frame (RPing false pl) b = (b1, Ok [EPingReceived pl]) /\ c_out b1 = c_out b ++ [FPing true pl] /\
    receive_frame (RPing true pl) a1 = (a2, Ok [EPingAckReceived pl]) /\ c_out a2 = c_out a1.
Proof. exact (fun pl a b => ping_round_trip pl a b). Qed.

(* PRIORITY: the peer reports exactly the weight, dependency and exclusive flag of the call *)
Theorem C01_priority_call_round_trip :
  forall sid w d e b,
  prio_args_ok sid w d -> sid <> 0 -> conn_transition (c_state b) CI_RECV_PRIORITY <> None ->
  forall p, add_frame_priority sid w d e = Ok p ->
  snd (recv_priority sid p b) =
  Ok [EPriorityUpdated sid (match w with Some x => x | None => 16 end) (match d with Some dep => dep | None => 0 end)
                       (match e with Some x => x | None => false end)].
Proof. exact (fun sid w d e b => priority_call_round_trip sid w d e b). Qed.

(* connection-level WINDOW_UPDATE: the peer's send window grows by exactly the increment, one WindowUpdated(0, inc) *)
Theorem C01_connection_window_update_round_trip :
  forall inc b t,
  conn_transition (c_state b) CI_RECV_WINDOW_UPDATE = Some t -> 1 <= inc -> c_out_win b + inc <= LARGEST_FLOW_CONTROL_WINDOW ->
  recv_window_update 0 inc b = (cset_out_win (cset_state b t) (c_out_win b + inc), Ok ([], [EWindowUpdated 0 inc])).
Proof. exact (fun inc b t => connection_window_update_round_trip inc b t). Qed.

(* GOAWAY: close_connection(code) is reported as ConnectionTerminated(code, last_stream_id, ...) *)
Theorem C01_goaway_round_trip :
  forall last code dbg b t,
  conn_transition (c_state b) CI_RECV_GOAWAY = Some t ->
  snd (recv_goaway last code dbg b) = Ok ([], [EConnectionTerminated code last dbg]).
Proof. exact (fun last code dbg b t => goaway_round_trip last code dbg b t). Qed.

Print Assumptions C01_ping_round_trip.
Print Assumptions C01_priority_call_round_trip.
Print Assumptions C01_connection_window_update_round_trip.
Print Assumptions C01_goaway_round_trip.
