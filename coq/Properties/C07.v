(* C07 — Received events per stream follow the HTTP message grammar for the role. *)
From H2 Require Import Base.Prelude Model.FsmTypes Gen.Tables Model.Types Model.StreamFSM Model.Headers Model.Stream
  Proofs.FsmReach Proofs.C0708Proofs.
From H2 Require Import Base.PyDict Model.ConnState Model.Connection Proofs.RoleOpen.

(* After ANY sequence of inputs to a stream state machine (any length, accepted or refused, local or from the peer), the state
   it is in satisfies all of:
   - DataReceived is only produced once final headers were received;
   - a stream whose request came from the peer (server side) never produces ResponseReceived, InformationalResponseReceived or
     PushedStreamReceived; a stream we opened (client side) never produces RequestReceived;
   - once the peer ended the stream (half-closed remote / closed) no HEADERS, 1xx HEADERS or DATA is accepted;
   - informational responses only before the final one; exactly one RequestReceived / ResponseReceived, the next block is
     TrailersReceived, and only once;
   - StreamReset is produced at most once, and a closed stream produces no stream event at all afterwards.
   The reachable set is computed and proved closed inside Coq (Proofs/FsmReach.v): an invariant over all histories. *)
Theorem C07_event_grammar_after_any_history :
  forall is, c07_all (run_inputs sm_new is) = true.
Proof. exact c07_holds_after_any_inputs. Qed.

(* the event lists H2Stream returns: a related stream_ended event is the next element of the same list and carries the same
   stream id; trailers always carry stream_ended; an informational response never does *)
Theorem C07_header_events_link_to_later_events :
  forall cfg hs es s s' evs, receive_headers cfg hs es s = (s', Ok evs) -> ended_ok evs.
Proof. exact receive_headers_event_shape. Qed.
Theorem C07_data_events_link_to_later_events :
  forall len fclen es s s' evs, receive_data len fclen es s = (s', Ok evs) -> ended_ok evs.
Proof. exact receive_data_event_shape. Qed.

Example C07_example : In (run_inputs sm_new [SI_RECV_HEADERS; SI_RECV_DATA; SI_RECV_HEADERS; SI_RECV_END_STREAM]) reach /\
  sm_state (run_inputs sm_new [SI_RECV_HEADERS; SI_RECV_DATA; SI_RECV_HEADERS; SI_RECV_END_STREAM]) = S_HALF_CLOSED_REMOTE.
Proof. split; [apply reachable_from_new | reflexivity]. Qed.

(* A client never takes a HEADERS frame for a request (fix 09dbf89): in EVERY state of a client connection, a HEADERS
   frame that is accepted was for a stream already in the stream table (one the client opened, or one the server
   promised); a frame that would open a stream is refused. *)
Theorem C07_a_client_accepts_headers_only_on_known_streams :
  forall sid es p d c c' x, client c = true -> recv_headers sid es p d c = (c', Ok x) -> dmem sid (c_streams c) = true.
Proof. exact client_recv_headers_ok_known. Qed.

Print Assumptions C07_event_grammar_after_any_history.
Print Assumptions C07_header_events_link_to_later_events.
Print Assumptions C07_data_events_link_to_later_events.
Print Assumptions C07_a_client_accepts_headers_only_on_known_streams.
