(* C07 — Received events per stream follow the HTTP message grammar for the role. *)
From H2 Require Import Base.Prelude Model.FsmTypes Gen.Tables Model.Types Model.StreamFSM Model.Headers Model.Stream
  Proofs.FsmReach Proofs.C0708Proofs.

(* After ANY sequence of inputs to a stream state machine (any length, accepted or refused, local or from the peer), the state
   it is in satisfies all of:
   - DataReceived is only produced once final headers were received;
   - a stream whose request came from the peer (server side) never produces ResponseReceived, InformationalResponseReceived or
     PushedStreamReceived; a stream we opened (client side) never produces RequestReceived;
   - once the peer ended the stream (half-closed remote / closed) no HEADERS, 1xx HEADERS or DATA is accepted;
   - informational responses only before the final one; exactly one RequestReceived / ResponseReceived, the next block is
     TrailersReceived, and only once;
   - StreamReset is produced at most once, and a closed stream produces no stream event at all afterwards.
   The reachable set is computed and proved closed inside Coq (Proofs/FsmReach.v): an invariant over all histories. *)
Theorem C07_event_grammar_after_any_history :
  forall is, c07_all (run_inputs sm_new is) = true.
Proof. exact c07_holds_after_any_inputs. Qed.

(* the event lists H2Stream returns: a related stream_ended event is the next element of the same list and carries the same
   stream id; trailers always carry stream_ended; an informational response never does *)
Theorem C07_header_events_link_to_later_events :
  forall cfg hs es s s' evs, receive_headers cfg hs es s = (s', Ok evs) -> ended_ok evs.
Proof. exact receive_headers_event_shape. Qed.
Theorem C07_data_events_link_to_later_events :
  forall len fclen es s s' evs, receive_data len fclen es s = (s', Ok evs) -> ended_ok evs.
Proof. exact receive_data_event_shape. Qed.

Example C07_example : In (run_inputs sm_new [SI_RECV_HEADERS; SI_RECV_DATA; SI_RECV_HEADERS; SI_RECV_END_STREAM]) reach /\
  sm_state (run_inputs sm_new [SI_RECV_HEADERS; SI_RECV_DATA; SI_RECV_HEADERS; SI_RECV_END_STREAM]) = S_HALF_CLOSED_REMOTE.
Proof. split; [apply reachable_from_new | reflexivity]. Qed.

Print Assumptions C07_event_grammar_after_any_history.
Print Assumptions C07_header_events_link_to_later_events.
Print Assumptions C07_data_events_link_to_later_events.
