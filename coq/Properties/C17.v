(* C17 — Arbitrary peer bytes never produce a non-protocol exception. *)
From H2 Require Import Base.Prelude Model.FsmTypes Gen.Consts Model.Types Model.StreamFSM Model.Headers Model.Stream Model.ConnState Model.Connection
  Model.FrameBuffer Proofs.C17Proofs Proofs.C18Proofs.

(* The receive path can leave ProtocolError-land only where Python code indexes, decodes or asserts.  Each of those
   places is closed for ALL inputs:                                                                                     *)

(* header validation and normalisation, for every header list (empty names, names / values of any bytes, any order,
   any number of cookies) and every configuration: never IndexError *)
Theorem C17_header_pipeline_never_raises_index_error :
  forall cfg f hs, inbound_pipeline cfg f hs <> IIndexError.
Proof. exact inbound_pipeline_never_index_error. Qed.

(* ... so the processing of a received header list either returns headers or raises ProtocolError; undecodable text
   under header_encoding included *)
Theorem C17_received_headers_never_crash :
  forall cfg f hs p, process_received_headers cfg f hs <> Crash p.
Proof. exact process_received_headers_never_crashes. Qed.
Theorem C17_empty_header_name_is_protocol_error :
  forall cfg f s v, cfg_validate_in cfg = true -> step_inbound_full cfg f s [] v = VProtocolError.
Proof. exact empty_header_name_is_protocol_error. Qed.
Theorem C17_undecodable_header_is_protocol_error :
  forall cfg f hs, inbound_pipeline cfg f hs = IUnicodeError -> process_received_headers cfg f hs = perr.
Proof. exact undecodable_header_is_protocol_error. Qed.

(* whatever hpack does with a block (any HPACKError, OversizedHeaderListError, or a list): ProtocolError,
   DenialOfServiceError or the list *)
Theorem C17_hpack_outcomes_never_crash :
  forall d c c' r, decode_headers d c = (c', r) -> forall p, r <> Crash p.
Proof. exact decode_headers_never_crashes. Qed.

(* frames the buffer refuses: ProtocolError, FrameDataMissingError, FrameTooLargeError; hyperframe's InvalidPaddingError is
   translated by receive_data; an h2 exception stays what it is on its way out *)
Theorem C17_padding_error_is_translated :
  forall c1 c2 r2, 8 <= c_max_out_frame c1 -> recv_except c1 (Crash ForeignError) = (c2, r2) -> r2 = perr.
Proof. exact padding_error_is_translated. Qed.
Theorem C17_protocol_errors_pass_through :
  forall c1 e code sid rst c2 r2, 8 <= c_max_out_frame c1 -> recv_except c1 (Err e code sid rst) = (c2, r2) -> r2 = Err e code sid rst.
Proof. exact h2_exception_stays_protocol_error. Qed.
Theorem C17_every_h2_exception_on_the_receive_path_is_a_protocol_error :
  forall e, e <> RFC1122Error -> is_protocol_error e = true.
Proof. exact receive_errors_are_protocol_errors. Qed.

(* handlers closed in every state *)
Theorem C17_priority_frames_never_crash : forall sid pr, never_crashes (recv_priority sid pr).
Proof. exact priority_frames_never_crash. Qed.
Theorem C17_goaway_frames_never_crash : forall last code dbg, never_crashes (recv_goaway last code dbg).
Proof. exact goaway_frames_never_crash. Qed.
Theorem C17_unknown_frames_never_crash : forall ft sid, never_crashes (dispatch (RUnknown ft sid)).
Proof. exact unknown_frames_never_crash. Qed.

(* THE end-to-end statement: after ANY history of calls and received frames (no bound on length), receive_data on ANY list of
   frames - valid, malformed, refused by the frame buffer, with any HPACK outcome, any header list, any padding - returns events or
   raises an h2 exception; never IndexError, KeyError, AssertionError, UnicodeDecodeError nor a hyperframe error.  (Proofs/C17Full.v:
   every partial primitive on the receive path is shown unreachable or translated, under the frame-size invariant of Proofs/MfsInv.v,
   which holds over every history.  Proving it exposed a genuine defect, repaired in /repo commit 43f9ccd: a PUSH_PROMISE whose parent
   stream object had been left idle by a failed local call raised IndexError.) *)
From H2 Require Import Proofs.C17Full.
Theorem C17_receive_data_only_raises_h2_exceptions :
  forall cfg os fs, let c := run (conn_new cfg) os in forall p, snd (api_receive fs c) <> Crash p.
Proof. exact receive_data_only_raises_h2_exceptions. Qed.

Print Assumptions C17_receive_data_only_raises_h2_exceptions.
Print Assumptions C17_header_pipeline_never_raises_index_error.
Print Assumptions C17_received_headers_never_crash.
Print Assumptions C17_empty_header_name_is_protocol_error.
Print Assumptions C17_undecodable_header_is_protocol_error.
Print Assumptions C17_hpack_outcomes_never_crash.
Print Assumptions C17_padding_error_is_translated.
Print Assumptions C17_protocol_errors_pass_through.
Print Assumptions C17_every_h2_exception_on_the_receive_path_is_a_protocol_error.
Print Assumptions C17_priority_frames_never_crash.
Print Assumptions C17_goaway_frames_never_crash.
Print Assumptions C17_unknown_frames_never_crash.

(* ... and in every state reachable by any history the two translations hold without side condition *)
From H2 Require Import Proofs.MfsInv.
Theorem C17_padding_error_is_translated_in_every_reachable_state :
  forall cfg os c2 r2, recv_except (run (conn_new cfg) os) (Crash ForeignError) = (c2, r2) -> r2 = perr.
Proof.
  intros cfg os c2 r2. apply padding_error_is_translated. pose proof (frame_size_limit_after_any_history cfg os). lia.
Qed.
Theorem C17_protocol_errors_pass_through_in_every_reachable_state :
  forall cfg os e code sid rst c2 r2, recv_except (run (conn_new cfg) os) (Err e code sid rst) = (c2, r2) -> r2 = Err e code sid rst.
Proof.
  intros cfg os e code sid rst c2 r2. apply h2_exception_stays_protocol_error. pose proof (frame_size_limit_after_any_history cfg os). lia.
Qed.
Print Assumptions C17_padding_error_is_translated_in_every_reachable_state.
Print Assumptions C17_protocol_errors_pass_through_in_every_reachable_state.
