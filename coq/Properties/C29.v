(* C29 — API misuse is reported only through documented exceptions and emits nothing.
   [unknown_stream_error c sid]: StreamClosedError for an id at or below the watermark of its direction (closed and
   forgotten), NoSuchStreamError for a higher, never-used id (the comparison is extracted from _get_stream_by_id). *)
From H2 Require Import Base.Prelude Base.PyDict Model.FsmTypes Gen.Tables Gen.Guards Model.Types Model.StreamFSM Model.ConnState Model.Connection
  Proofs.C29Proofs.

Theorem C29_lookup_of_an_unknown_stream :
  forall sid c, dget sid (c_streams c) = None ->
    get_stream_by_id sid c =
    (c, if sid >? highest_for c sid then Err NoSuchStreamError 1 sid false else Err StreamClosedError 5 sid false).
Proof. exact get_stream_by_id_unknown. Qed.

(* the calls that act on an existing stream report exactly that for an id not in the table (no KeyError), and
   change nothing but the connection state machine's state *)
Theorem C29_end_stream_on_unknown_stream :
  forall sid c t, conn_transition (c_state c) CI_SEND_DATA = Some t -> dget sid (c_streams c) = None ->
    api_end_stream sid c = (cset_state c t, unknown_stream_error c sid).
Proof. exact end_stream_unknown. Qed.
Theorem C29_reset_stream_on_unknown_stream :
  forall sid code c t, conn_transition (c_state c) CI_SEND_RST_STREAM = Some t -> dget sid (c_streams c) = None ->
    api_reset_stream sid code c = (cset_state c t, unknown_stream_error c sid).
Proof. exact reset_stream_unknown. Qed.
Theorem C29_increment_window_on_unknown_stream :
  forall inc sid c t, g_inc_range inc = false ->
    conn_transition (c_state c) CI_SEND_WINDOW_UPDATE = Some t -> dget sid (c_streams c) = None ->
    api_increment_window inc (Some sid) c = (cset_state c t, unknown_stream_error c sid).
Proof. exact increment_unknown. Qed.
Theorem C29_send_data_on_unknown_stream :
  forall sid len es pad c,
    g_send_data_pad (opt_default 0 pad) (match pad with Some _ => true | None => false end) = false ->
    dget sid (c_streams c) = None -> api_send_data sid len es pad c = (c, unknown_stream_error c sid).
Proof. exact send_data_unknown. Qed.

(* a call that raises appends nothing (frame-size limit at least the RFC minimum 16384) *)
Theorem C29_raising_ping_and_reset_append_nothing :
  (forall pl, silent (api_ping pl)) /\ (forall sid code, silent (api_reset_stream sid code)).
Proof. exact (conj silent_ping silent_reset). Qed.

Print Assumptions C29_lookup_of_an_unknown_stream.
Print Assumptions C29_end_stream_on_unknown_stream.
Print Assumptions C29_reset_stream_on_unknown_stream.
Print Assumptions C29_increment_window_on_unknown_stream.
Print Assumptions C29_send_data_on_unknown_stream.
Print Assumptions C29_raising_ping_and_reset_append_nothing.
