(* C22 — "push_stream succeeds exactly when ..." is refuted for a server whose application sent HEADERS on a fresh
   even stream before the first request arrived (known finding F-C22-1, a consequence of F-C08-1): the connection
   state machine is then CLIENT_OPEN, stays there when the request arrives, and has no SEND_PUSH_PROMISE entry. *)
From H2 Require Import Base.Prelude Model.FsmTypes Model.Types Model.Settings Model.StreamFSM Model.ConnState Model.Connection Base.PyDict Model.Stream.
Definition cfgs := mkconfig false true true true true false.
Definition req : list hitem :=
  [([58;109;101;116;104;111;100],[71;69;84],false);([58;112;97;116;104],[47],false);
   ([58;115;99;104;101;109;101],[104;116;116;112;115],false);([58;97;117;116;104;111;114;105;116;121],[97],false)].
Definition resp : list hitem := [([58;115;116;97;116;117;115],[50;48;48],false)].
Theorem C22_push_refused_after_server_opened_a_stream_refuted :
  let c := run (conn_new cfgs)
             [OInitiate; OSendHeaders 2 resp 1 false None None None;
              OReceive [(RHeaders 3 false None (HDecoded req), 10)]] in
  cfg_client (c_cfg c) = false /\ s_enable_push (c_remote c) = 1 /\
  option_map (fun s => sm_state (s_sm s)) (dget 3 (c_streams c)) = Some S_OPEN /\
  c_hi_out c = 2 /\ c_state c = C_CLIENT_OPEN /\
  (exists sid rst, snd (step c (OPushStream 3 6 req 10)) = Err ProtocolError 1 sid rst).
Proof. vm_compute. repeat split; try reflexivity. eexists; eexists; reflexivity. Qed.
Print Assumptions C22_push_refused_after_server_opened_a_stream_refuted.
