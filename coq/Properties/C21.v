(* C21 — Results do not depend on how bytes are split. *)
From H2 Require Import Base.Prelude Gen.Consts Model.Types Model.FrameBuffer Model.ConnState Model.Connection
  Proofs.C21Proofs Proofs.C21Conn.

(* Inbound, bytes.  [feed] is receive_data called once per chunk: the chunk is appended to the buffer and every frame
   that is complete is handed to the receiver [consume] (any state S, any reaction: H2Connection._receive_frame with
   its HPACK decoder, stream table, settings...), which may change the frame-size limit [limit s] between any two
   frames; it stops at the first exception, raised by the buffer (inl) or by the receiver (inr).
   For every parser of frame headers and bodies, every receiver, every byte string and any two ways of cutting it
   (frames, headers, CONTINUATION sequences cut anywhere; empty chunks; one byte at a time): the receiver ends in the
   same state — it saw the same frames in the same order, so emitted the same bytes and events —, the same
   exception is raised at the same frame, and the same bytes and partial header block are left in the buffer. *)
Theorem C21_inbound_chunking_is_irrelevant :
  forall parse_hdr parse_body (S E : Type) (limit : S -> Z) (consume : S -> wframe -> S * option E) (s : S) cs1 cs2,
    concat cs1 = concat cs2 ->
    feed parse_hdr parse_body S E limit consume s [] [] cs1 = feed parse_hdr parse_body S E limit consume s [] [] cs2.
Proof. intros. apply any_two_chunkings. assumption. Qed.

(* ... and both equal one call on the whole byte string, from any state a previous call returned normally from *)
Theorem C21_inbound_chunked_equals_whole :
  forall parse_hdr parse_body (S E : Type) (limit : S -> Z) (consume : S -> wframe -> S * option E) cs s h buf,
    drain_all parse_hdr parse_body S E limit consume s h buf = (s, None, (h, buf)) ->
    feed parse_hdr parse_body S E limit consume s h buf cs = drain_all parse_hdr parse_body S E limit consume s h (buf ++ concat cs).
Proof. intros. apply chunking_irrelevant. assumption. Qed.

(* the client preface: checking it piece by piece accepts / rejects exactly as checking the concatenation, and leaves the same payload *)
Theorem C21_preface_chunking_is_irrelevant :
  forall cs pre, add_all_preface pre cs = add_data_preface pre (concat cs).
Proof. exact preface_chunking. Qed.

(* Inbound, at the level of the connection model: receive_data called once per group of frames equals one call on all of
   them: same final connection state (output buffer included), same events in the same order, or the same exception
   with the same code at the same frame (the rest is only buffered). *)
Theorem C21_connection_receive_chunks :
  forall css c, c_inbuf c = [] -> receive_chunks css c = api_receive (concat css) c.
Proof. exact receive_chunks_is_receive_once. Qed.

(* Outbound: any sequence of data_to_send(amount) calls (amount None, zero, positive, larger than the buffer, negative)
   returns pieces whose concatenation, followed by what a final data_to_send() returns, is the original buffer. *)
Theorem C21_data_to_send_partitions :
  forall amounts buf, let '(xs, rest) := reads amounts buf in concat xs ++ fst (data_to_send None rest) = buf.
Proof. exact reads_then_all. Qed.

(* non-vacuity: a concrete stream (SETTINGS, then HEADERS without END_HEADERS + CONTINUATION) cut in two different ways *)
Example C21_example :
  let ph (h : bytes) := match h with
                        | [a; b; c; ty; fl; _; _; _; sid] => Some (Z.to_nat c, ty, fl, sid)
                        | _ => None end in
  let pb (ty fl sid : Z) (d : bytes) := BOk d in
  let stream := [0;0;0;4;0;0;0;0;0] ++ [0;0;2;1;0;0;0;0;1;7;7] ++ [0;0;1;9;4;0;0;0;1;8] in
  feed ph pb (list wframe) Empty_set (fun _ => 16384) collect [] [] [] [firstn 12 stream; skipn 12 stream]
  = feed ph pb (list wframe) Empty_set (fun _ => 16384) collect [] [] [] (map (fun b => [b]) stream)
  /\ length (fst (fst (feed ph pb (list wframe) Empty_set (fun _ => 16384) collect [] [] [] [stream]))) = 2%nat.
Proof. vm_compute. split; reflexivity. Qed.

Print Assumptions C21_inbound_chunking_is_irrelevant.
Print Assumptions C21_inbound_chunked_equals_whole.
Print Assumptions C21_preface_chunking_is_irrelevant.
Print Assumptions C21_connection_receive_chunks.
Print Assumptions C21_data_to_send_partitions.
