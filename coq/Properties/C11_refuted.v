(* C11 — the per-frame matching of acknowledgements is false of the code (per-key queues): known findings. *)
From H2 Require Import Base.Prelude Model.FsmTypes Model.Types Model.Settings Model.ConnState Model.Connection.
Definition cfgc := mkconfig true true true true true false.
Definition ack := OReceive [(RSettings true [], 0)].

(* F-C11-1: two update_settings calls before the first ACK: the ACK of the INITIAL frame applies and reports both *)
Theorem C11_first_ack_applies_later_frames_refuted :
  let c := run (conn_new cfgc) [OInitiate; OUpdateSettings [(4, 1000)]; OUpdateSettings [(3, 5)]] in
  snd (step c ack) = Ok (AEvents [ESettingsAcknowledged [(4, Some 65535, 1000); (3, Some 100, 5)]]).
Proof. vm_compute. reflexivity. Qed.

(* F-C11-2: update_settings raises on its second pair, the first pair stays queued and is applied by a later ACK *)
Theorem C11_failing_update_keeps_earlier_pairs_refuted :
  let c0 := run (conn_new cfgc) [OInitiate] in
  let c1 := fst (step c0 (OUpdateSettings [(4, 100); (2, 5)])) in
  snd (step c0 (OUpdateSettings [(4, 100); (2, 5)])) = Err InvalidSettingsValueError 1 0 false /\
  c_local c1 <> c_local c0 /\
  snd (step c1 ack) = Ok (AEvents [ESettingsAcknowledged [(4, Some 65535, 100)]]).
Proof. vm_compute. repeat split; try reflexivity. intros H; discriminate. Qed.

(* F-C11-3: an unknown identifier above 255 goes on the wire as a different, known identifier *)
Theorem C11_identifier_truncated_on_the_wire_refuted :
  let c := run (conn_new cfgc) [OInitiate; ODrain; OUpdateSettings [(258, 1)]] in
  c_out c = [FSettings false [(2, 1)]].
Proof. vm_compute. reflexivity. Qed.

Print Assumptions C11_first_ack_applies_later_frames_refuted.
Print Assumptions C11_failing_update_keeps_earlier_pairs_refuted.
Print Assumptions C11_identifier_truncated_on_the_wire_refuted.
