(* C19 — A closed connection stays quiet.
   [closed c]: the connection state machine is in CLOSED.  [step] is one API call or one receive_data call. *)
From H2 Require Import Base.Prelude Model.FsmTypes Gen.Tables Model.Types Model.StreamFSM Model.ConnState Model.Connection Proofs.C19Proofs.

(* the generated table: in CLOSED only GOAWAY is possible, and GOAWAY (sent or received) closes from any state *)
Theorem C19_table_closed_admits_only_goaway :
  forall i s, conn_transition C_CLOSED i = Some s -> (i = CI_SEND_GOAWAY \/ i = CI_RECV_GOAWAY) /\ s = C_CLOSED.
Proof. exact closed_only_goaway. Qed.
Theorem C19_table_goaway_closes :
  forall s, conn_transition s CI_SEND_GOAWAY = Some C_CLOSED /\ conn_transition s CI_RECV_GOAWAY = Some C_CLOSED.
Proof. exact goaway_always_closes. Qed.

(* CLOSED is absorbing under every operation, hence for every history (any length, any calls and frames) *)
Theorem C19_closed_is_absorbing : forall os c, closed c -> closed (run c os).
Proof. exact run_closed. Qed.

(* every call that would emit a frame other than GOAWAY, or open a stream, raises and appends nothing *)
Theorem C19_emitting_calls_raise_and_append_nothing :
  (forall sid hs L es pw pd pe, quiet (api_send_headers sid hs L es pw pd pe)) /\
  (forall sid len es pad, quiet (api_send_data sid len es pad)) /\
  (forall sid, quiet (api_end_stream sid)) /\
  (forall inc sid, quiet (api_increment_window inc sid)) /\
  (forall sid pr hs L, quiet (api_push_stream sid pr hs L)) /\
  (forall pl, quiet (api_ping pl)) /\
  (forall sid code, quiet (api_reset_stream sid code)) /\
  (forall kvs, quiet (api_update_settings kvs)) /\
  (forall f o s, quiet (api_advertise_alt_svc f o s)) /\
  (forall sid w d e, quiet (api_prioritize sid w d e)).
Proof.
  exact (conj quiet_send_headers (conj quiet_send_data (conj quiet_end_stream (conj quiet_increment (conj quiet_push
        (conj quiet_ping (conj quiet_reset (conj quiet_update_settings (conj quiet_altsvc quiet_prioritize))))))))).
Qed.

(* received frames handled through the connection state machine raise on a closed connection
   without appending anything themselves (the error path then appends one GOAWAY, C18) *)
Theorem C19_received_frames_raise_on_closed :
  (forall ack pl, quiet (recv_ping ack pl)) /\ (forall ack vals, quiet (recv_settings ack vals)) /\
  (forall sid p, quiet (recv_priority sid p)) /\ (forall sid code, quiet (recv_rst_stream sid code)) /\
  (forall sid o f, quiet (recv_alt_svc sid o f)) /\
  (forall sid len fclen es c, closed c -> recv_data sid len fclen es c = (c, perr)) /\
  (forall sid inc c, closed c -> recv_window_update sid inc c = (c, perr)).
Proof.
  exact (conj quiet_recv_ping (conj quiet_recv_settings (conj quiet_recv_priority (conj quiet_recv_rst
        (conj quiet_recv_altsvc (conj recv_data_closed recv_wu_closed)))))).
Qed.

(* acknowledge_received_data, which does not go through the state machine, is a no-op once closed *)
Theorem C19_acknowledge_on_closed_is_a_noop :
  forall n sid c, closed c -> 0 < sid -> 0 <= n -> api_acknowledge_received_data n sid c = (c, Ok tt).
Proof. exact ack_closed_noop. Qed.

(* receiving GOAWAY discards the output not yet handed to the application *)
Theorem C19_goaway_discards_pending_output :
  forall last code dbg c c' r, recv_goaway last code dbg c = (c', r) -> is_ok r = true -> c_out c' = [].
Proof.
  intros last code dbg c c' r H Hr. unfold recv_goaway in H. unfold bind at 1 in H.
  destruct (cfsm CI_RECV_GOAWAY c) as [c1 r1]. destruct r1; try (injection H as _ <-; discriminate).
  unfold bind, modify, ret in H. injection H as <- _. reflexivity.
Qed.

Example C19_ex_closed_reachable :
  closed (run (conn_new (mkconfig true true true true true false)) [OInitiate; OCloseConnection 0 None 0]).
Proof. reflexivity. Qed.

Print Assumptions C19_table_closed_admits_only_goaway.
Print Assumptions C19_table_goaway_closes.
Print Assumptions C19_closed_is_absorbing.
Print Assumptions C19_emitting_calls_raise_and_append_nothing.
Print Assumptions C19_received_frames_raise_on_closed.
Print Assumptions C19_acknowledge_on_closed_is_a_noop.
Print Assumptions C19_goaway_discards_pending_output.
