(* C04 — Inbound flow control is enforced exactly at the advertised windows.
   [c_in_wm] is the connection's WindowManager, [s_in_wm] a stream's; [in_windows c] all of them.
   Window arithmetic is the code's own (windows.py is AST-translated on every run and proved equal to
   Model/Windows.v in Proofs/GenEq.v). *)
From H2 Require Import Base.Prelude Base.PyDict Model.FsmTypes Gen.Tables Model.Types Model.Windows Model.StreamFSM
  Model.Stream Model.ConnState Model.Connection Proofs.GenEq Proofs.C04Proofs.

(* remote_flow_control_window is the smaller of the two advertised windows *)
Theorem C04_remote_window_is_the_minimum :
  forall sid c s, dget sid (c_streams c) = Some s ->
    remote_flow_control_window sid c = (c, Ok (Z.min (wm_cur (c_in_wm c)) (wm_cur (s_in_wm s)))).
Proof. exact rfcw_live. Qed.

(* the connection window grows by exactly the increment of the WINDOW_UPDATE that is emitted; a call that
   raises (range, state machine, overflow of 2^31-1) leaves every window and the output unchanged *)
Theorem C04_increment_connection_window_exact :
  forall inc c c' r, 4 <= c_max_out_frame c -> api_increment_window inc None c = (c', r) ->
    (r = Ok tt /\ wm_cur (c_in_wm c') = wm_cur (c_in_wm c) + inc /\ c_out c' = c_out c ++ [FWindowUpdate 0 inc]
     /\ 1 <= inc /\ wm_cur (c_in_wm c) + inc <= 2147483647)
    \/ (is_ok r = false /\ in_windows c' = in_windows c /\ c_out c' = c_out c).
Proof. exact increment_conn_effect. Qed.

Theorem C04_raising_stream_increment_changes_no_window :
  forall inc sid c c' r, 4 <= c_max_out_frame c ->
    api_increment_window inc (Some sid) c = (c', r) -> is_ok r = false -> in_windows c' = in_windows c.
Proof. exact increment_stream_raises_changes_no_window. Qed.

Theorem C04_acknowledge_for_unknown_stream_changes_nothing :
  forall n sid c, 0 < sid -> 0 <= n -> c_state c <> C_CLOSED ->
    dget sid (c_streams c) = None -> sid > highest_for c sid ->
    api_acknowledge_received_data n sid c = (c, Err NoSuchStreamError 1 sid false).
Proof. exact acknowledge_unknown_stream_changes_nothing. Qed.

(* DATA that overruns the advertised connection window is a FLOW_CONTROL_ERROR (code 3) ... *)
Theorem C04_data_overrunning_connection_window_is_flow_control_error :
  forall sid len fclen es c, conn_transition (c_state c) CI_RECV_DATA <> None ->
    fclen > wm_cur (c_in_wm c) -> snd (recv_data sid len fclen es c) = Err FlowControlError 3 0 false.
Proof. exact recv_data_overrun_conn. Qed.

(* ... DATA that fits passes the connection-level check and consumes exactly its flow-controlled length ... *)
Theorem C04_data_fitting_connection_window_is_accepted :
  forall fclen c, fclen <= wm_cur (c_in_wm c) ->
    forall t, conn_transition (c_state c) CI_RECV_DATA = Some t ->
    exists c1, (cfsm CI_RECV_DATA ;;; lift_cwm (fun w => window_consumed w fclen)) c = (c1, Ok tt)
               /\ wm_cur (c_in_wm c1) = wm_cur (c_in_wm c) - fclen.
Proof. exact recv_data_fits_conn. Qed.

(* ... and the stream-level check is exact as well *)
Theorem C04_stream_window_check_exact :
  forall s fclen, snd (lift_wm (fun w => window_consumed w fclen) s) =
    if wm_cur (s_in_wm s) - fclen <? 0 then Err FlowControlError 3 0 false else Ok tt.
Proof. exact stream_window_consumed. Qed.

Example C04_ex :
  let c := run (conn_new (mkconfig false true true true true false)) [OInitiate] in
  snd (step c (OIncrementWindow 2147483647 None)) = Err FlowControlError 3 0 false /\
  in_windows (fst (step c (OIncrementWindow 2147483647 None))) = in_windows c.
Proof. vm_compute. split; reflexivity. Qed.

Print Assumptions C04_remote_window_is_the_minimum.
Print Assumptions C04_increment_connection_window_exact.
Print Assumptions C04_raising_stream_increment_changes_no_window.
Print Assumptions C04_acknowledge_for_unknown_stream_changes_nothing.
Print Assumptions C04_data_overrunning_connection_window_is_flow_control_error.
Print Assumptions C04_data_fitting_connection_window_is_accepted.
Print Assumptions C04_stream_window_check_exact.
