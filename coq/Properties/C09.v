(* C09 — Stream identifiers are allocated and checked per RFC 7540 section 5.1.1.
   [k_get_next_available_stream_id] is the function translated from connection.py on this run;
   [begin_new_stream] is H2Connection._begin_new_stream with its two checks extracted from the source. *)
From H2 Require Import Base.Prelude Base.PyDict Model.FsmTypes Gen.Kernels Model.Types Model.StreamFSM Model.ConnState Model.Connection
  Proofs.C09Proofs.

(* get_next_available_stream_id, for every watermark up to 2^31-1 and beyond: the least id of the
   endpoint's parity above every id used so far, or NoAvailableStreamIDError once that exceeds 2^31-1 *)
Theorem C09_next_stream_id_is_least_unused :
  forall hi client, 0 <= hi -> (hi = 0 \/ hi mod 2 = parity_of client) ->
    let n := if hi =? 0 then (if client then 1 else 2) else hi + 2 in
    snd (k_get_next_available_stream_id hi client) =
      (if n >? 2147483647 then Err NoAvailableStreamIDError 1 0 false else Ok n)
    /\ n mod 2 = parity_of client /\ hi < n
    /\ (forall m, hi < m -> m mod 2 = parity_of client -> 0 < m -> n <= m).
Proof. exact next_id_spec. Qed.

Theorem C09_model_next_id_is_the_translated_code :
  forall c, snd (api_next_stream_id c) = snd (k_get_next_available_stream_id (c_hi_out c) (cfg_client (c_cfg c))).
Proof. exact next_id_is_the_code. Qed.

(* a stream is opened only with an id strictly above the highest used in its direction and of the
   required parity; the watermark becomes that id; a refused id changes nothing at all *)
Theorem C09_opening_a_stream_checks_order_and_parity :
  forall sid allowed c c', begin_new_stream sid allowed c = (c', Ok tt) ->
    sid > highest_for c sid /\ sid mod 2 = allowed /\
    (if is_outbound c sid then c_hi_out c' = sid /\ c_hi_in c' = c_hi_in c else c_hi_in c' = sid /\ c_hi_out c' = c_hi_out c) /\
    dmem sid (c_streams c') = true.
Proof. exact begin_new_stream_ok. Qed.

Theorem C09_refused_id_changes_nothing :
  forall sid allowed c c' r, begin_new_stream sid allowed c = (c', r) -> is_ok r = false -> c' = c.
Proof. exact begin_new_stream_refused. Qed.

Theorem C09_which_error :
  forall sid allowed c, snd (begin_new_stream sid allowed c) =
    if sid <=? highest_for c sid then Err StreamIDTooLowError 1 sid false
    else if negb (sid mod 2 =? allowed) then perr else Ok tt.
Proof. exact begin_new_stream_errors. Qed.

(* how a too-low id in a peer frame is answered: stream error if that stream was reset, STREAM_CLOSED
   connection error if it ended normally, PROTOCOL_ERROR connection error otherwise *)
Theorem C09_too_low_peer_id_classification :
  forall f c c1 code sid rst, dispatch f c = (c1, Err StreamIDTooLowError code sid rst) ->
    receive_frame f c =
      if closed_by_reset c1 sid then (prepare_for_sending [FRstStream sid 5] ;;; ret []) c1
      else if closed_by_end c1 sid then (c1, Err StreamClosedError 5 sid false)
      else (c1, Err StreamIDTooLowError code sid rst).
Proof. intros f c c1 code sid rst H. unfold receive_frame. rewrite H. reflexivity. Qed.

(* both watermarks are monotone over every history: ids are never reused downwards *)
Theorem C09_watermarks_never_decrease :
  forall os c, c_hi_out c <= c_hi_out (run c os) /\ c_hi_in c <= c_hi_in (run c os).
Proof.
  intros os c. split; [apply (hi_out_lower_bound (c_hi_out c)) | apply (hi_in_lower_bound (c_hi_in c))]; lia.
Qed.

(* PRIORITY frames for any id neither open nor implicitly close streams *)
Theorem C09_priority_frames_leave_ids_and_tables_alone :
  forall sid p c c' r, recv_priority sid p c = (c', r) ->
    c_hi_in c' = c_hi_in c /\ c_hi_out c' = c_hi_out c /\ c_streams c' = c_streams c /\ c_closed c' = c_closed c.
Proof. exact priority_keeps_tables. Qed.

Example C09_ex_boundary :
  snd (k_get_next_available_stream_id 2147483645 true) = Ok 2147483647 /\
  snd (k_get_next_available_stream_id 2147483647 true) = Err NoAvailableStreamIDError 1 0 false /\
  snd (k_get_next_available_stream_id 0 false) = Ok 2.
Proof. vm_compute. repeat split. Qed.

Print Assumptions C09_next_stream_id_is_least_unused.
Print Assumptions C09_model_next_id_is_the_translated_code.
Print Assumptions C09_opening_a_stream_checks_order_and_parity.
Print Assumptions C09_refused_id_changes_nothing.
Print Assumptions C09_which_error.
Print Assumptions C09_too_low_peer_id_classification.
Print Assumptions C09_watermarks_never_decrease.
Print Assumptions C09_priority_frames_leave_ids_and_tables_alone.
