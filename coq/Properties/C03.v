(* C03 — Outbound DATA never exceeds the peer's flow-control windows.
   Statements over the connection model (Model/Connection.v).  [run (conn_new cfg) ops]: the state
   after any finite program of API calls and received frames; [api_send_data] is H2Connection.send_data.
   The two comparisons in send_data are the functions g_send_data_flow / g_send_data_frame extracted from
   /repo's connection.py on this run (Gen/Guards.v). *)
From H2 Require Import Base.Prelude Base.PyDict Gen.Consts Gen.Guards Model.Types Model.Stream Model.ConnState
  Model.Connection Model.Windows Proofs.C03Proofs Proofs.C03Delta.

(* every history: the connection-level send window never goes negative, i.e. the flow-controlled
   total of all DATA emitted never exceeds 65535 plus the WINDOW_UPDATE(0) increments accepted *)
Theorem C03_connection_window_never_negative :
  forall cfg ops, Forall wf_op ops -> 0 <= c_out_win (run (conn_new cfg) ops).
Proof. intros cfg ops H. exact (proj1 (run_inv03b ops _ (inv03b_init cfg) H)). Qed.

(* a DATA frame is emitted only if its flow-controlled length (padding + 1 included) fits the
   stream window, the connection window and the peer's MAX_FRAME_SIZE as they were before the call *)
Theorem C03_emitted_data_fits_both_windows :
  forall sid len es pad c c', api_send_data sid len es pad c = (c', Ok tt) ->
    exists s, dget sid (c_streams c) = Some s /\
      fs_of len pad <= c_out_win c /\ fs_of len pad <= s_out_win s /\ fs_of len pad <= c_max_out_frame c.
Proof. exact send_data_ok_fits. Qed.

(* local_flow_control_window reports the smaller of the two windows *)
Theorem C03_local_window_is_the_minimum :
  forall sid c s, dget sid (c_streams c) = Some s ->
    local_flow_control_window sid c = (c, Ok (Z.min (c_out_win c) (s_out_win s))).
Proof. exact lfcw_live. Qed.

(* one byte more than that: FlowControlError, and the state (hence the output) is untouched *)
Theorem C03_one_byte_more_is_refused_and_changes_nothing :
  forall sid len es pad c s, dget sid (c_streams c) = Some s -> pad_ok pad ->
    fs_of len pad > Z.min (c_out_win c) (s_out_win s) ->
    api_send_data sid len es pad c = (c, Err FlowControlError 3 0 false).
Proof. exact send_data_one_more. Qed.

(* the connection window changes in exactly two ways: send_data subtracts what it emitted ... *)
Theorem C03_send_data_effect_on_connection_window :
  forall sid len es pad c c' r, api_send_data sid len es pad c = (c', r) ->
    c_out_win c' = c_out_win c \/ (c_out_win c' = c_out_win c - fs_of len pad /\ fs_of len pad <= c_out_win c).
Proof. exact send_data_out_win. Qed.

(* ... and a received WINDOW_UPDATE adds its increment, never beyond 2^31-1; no other frame touches it *)
Theorem C03_received_frame_effect_on_connection_window :
  forall f c c' r, dispatch f c = (c', r) ->
    c_out_win c' = c_out_win c \/
    (exists sid inc, f = RWindowUpdate sid inc /\ c_out_win c' = c_out_win c + inc /\ c_out_win c + inc <= 2147483647).
Proof. exact dispatch_out_win. Qed.

(* a change of the peer's INITIAL_WINDOW_SIZE (old -> new) that succeeds is added to the send window of
   EVERY stream in the table, whatever its state (reserved and closed-not-yet-reaped ones included): same
   ids in the same order, each window moved by exactly new - old (possibly below zero, RFC 7540 6.9.2), none
   above 2^31-1, and nothing but the stream table changes *)
Theorem C03_initial_window_size_delta_reaches_every_stream :
  forall old new c c', flow_control_change_from_settings old new c = (c', Ok tt) ->
    c' = cset_streams c (c_streams c') /\
    map fst (c_streams c') = map fst (c_streams c) /\
    forall sid s, dget sid (c_streams c) = Some s ->
      dget sid (c_streams c') = Some (set_out_win s (s_out_win s + (new - old))) /\
      s_out_win s + (new - old) <= LARGEST_FLOW_CONTROL_WINDOW.
Proof. exact iws_delta_reaches_every_stream. Qed.

(* non-vacuity: a client that opened stream 1 can send exactly its window *)
Definition ex_cfg := mkconfig true true true true true false.
Definition ex_req : list hitem :=
  [([58;109;101;116;104;111;100], [71;69;84], false); ([58;112;97;116;104], [47], false);
   ([58;115;99;104;101;109;101], [104;116;116;112;115], false); ([58;97;117;116;104;111;114;105;116;121], [97], false)].
Example C03_ex_exact_window :
  let c := run (conn_new ex_cfg) [OInitiate; OSendHeaders 1 ex_req 10 false None None None;
                                   OReceive [(RSettings false [(5, 65535)], 6)]] in
  snd (step c (OLocalWindow 1)) = Ok (AZ 65535) /\
  snd (step c (OSendData 1 65535 false None)) = Ok ANone /\
  snd (step c (OSendData 1 65536 false None)) = Err FlowControlError 3 0 false.
Proof. vm_compute. repeat split. Qed.

(* non-vacuity of the delta theorem on a stream that is not open: a server reserves stream 2 by a push, the
   peer lowers INITIAL_WINDOW_SIZE to 100, the pushed stream is then activated: its window is 100, 100 bytes go
   out and 101 are refused *)
Definition ex_cfgs := mkconfig false true true true true false.
Definition ex_resp : list hitem := [([58;115;116;97;116;117;115],[50;48;48],false)].
Example C03_ex_reserved_stream_follows_the_delta :
  let c := run (conn_new ex_cfgs)
             [OInitiate; OReceive [(RSettings false [], 0); (RHeaders 1 false None (HDecoded ex_req), 10)];
              OPushStream 1 2 ex_req 10; OReceive [(RSettings false [(4, 100)], 6)];
              OSendHeaders 2 ex_resp 1 false None None None] in
  snd (step c (OLocalWindow 2)) = Ok (AZ 100) /\
  snd (step c (OSendData 2 100 false None)) = Ok ANone /\
  snd (step c (OSendData 2 101 false None)) = Err FlowControlError 3 0 false.
Proof. vm_compute. repeat split. Qed.

Print Assumptions C03_connection_window_never_negative.
Print Assumptions C03_emitted_data_fits_both_windows.
Print Assumptions C03_local_window_is_the_minimum.
Print Assumptions C03_one_byte_more_is_refused_and_changes_nothing.
Print Assumptions C03_send_data_effect_on_connection_window.
Print Assumptions C03_received_frame_effect_on_connection_window.
Print Assumptions C03_initial_window_size_delta_reaches_every_stream.
