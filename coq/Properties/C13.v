(* C13 — Header compression state stays synchronised across all calls. *)
From H2 Require Import Base.Prelude Model.Types Model.Headers Model.Stream Proofs.C13Proofs.

(* The compression context of the library is a function of the sequence of header lists handed to Encoder.encode, the peer's of the
   sequence of header blocks emitted.  For EVERY header list, configuration, flag and stream state:
   a send_headers / push_stream call that returns normally handed exactly one list to the encoder; that list is what the emitted
   HEADERS / PUSH_PROMISE (+ CONTINUATION) block carries, and it is the output of the normalisation and validation pipeline on the
   complete input — so the two contexts advance by the same list. *)
Theorem C13_successful_send_headers_keeps_contexts_in_step :
  forall cfg hs L es s s' frames e, send_headers cfg hs L es s = (s', (Ok frames, e)) ->
    exists consumed f, e = Some consumed /\ block_of frames = Some consumed /\ outbound_pipeline cfg f hs = (consumed, PAll).
Proof. exact send_headers_success_is_synchronised. Qed.
Theorem C13_successful_push_keeps_contexts_in_step :
  forall cfg promised hs L s s' frames e, push_stream_in_band cfg promised hs L s = (s', (Ok frames, e)) ->
    exists consumed f, e = Some consumed /\ block_of frames = Some consumed /\ outbound_pipeline cfg f hs = (consumed, PAll).
Proof. exact push_promise_success_is_synchronised. Qed.

(* a call that left the encoder untouched did not emit anything *)
Theorem C13_no_block_without_encoding :
  forall cfg hs L es s s' r, send_headers cfg hs L es s = (s', (r, None)) -> forall fr, r <> Ok fr.
Proof. exact refused_before_encoding_consumes_nothing. Qed.

(* C13_full_refuted: "a call that raises leaves the compression context as if it had never been made" is false of the faithful
   model, see Properties/C13_refuted.v (known finding F-C13-1). *)

Print Assumptions C13_successful_send_headers_keeps_contexts_in_step.
Print Assumptions C13_successful_push_keeps_contexts_in_step.
Print Assumptions C13_no_block_without_encoding.
