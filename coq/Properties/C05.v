(* C05 — Automatic window management never deadlocks and never over-credits.
   Statements about every history of the four operations hyper-h2 applies to a WindowManager
   (Model/WmHist.v), over the hand model that Proofs/GenEq.v proves equal to the functions translated
   from h2/windows.py on this run.  [wrun (gh_init m) os = Some g]: g is the state reached from a fresh
   manager of maximum m by the history os, every operation of which succeeded. *)
From H2 Require Import Base.Prelude Gen.Consts Gen.Kernels Model.Windows Model.WmHist
  Proofs.ConstFacts Proofs.GenEq Proofs.C05Proofs.

Definition reached (m : Z) (os : list wop) (g : gh) : Prop :=
  0 <= m <= 2^31 - 1 /\ wf_hist (gh_init m) os /\ wrun (gh_init m) os = Some g.

(* the kernels the theorems are about are the code's own *)
Theorem C05_kernels_are_the_code :
  (forall w n, k_window_consumed (wm_max w) (wm_cur w) (wm_bp w) n = (wm_tuple (fst (window_consumed w n)), snd (window_consumed w n))) /\
  (forall w n, k_window_opened (wm_max w) (wm_cur w) (wm_bp w) n = (wm_tuple (fst (window_opened w n)), snd (window_opened w n))) /\
  (forall w n, k_process_bytes (wm_max w) (wm_cur w) (wm_bp w) n = (wm_tuple (fst (process_bytes w n)), Ok (snd (process_bytes w n)))).
Proof. exact (conj geneq_window_consumed (conj geneq_window_opened geneq_process_bytes)). Qed.

(* Never over-credits: in every reachable state the increments emitted so far total at most the
   bytes acknowledged so far (hence prefix-wise), each is positive, and the advertised window
   never exceeds the manager's maximum.  All four operations, any interleaving, no bound. *)
Theorem C05_never_over_credits :
  forall m os g, reached m os g ->
    g_K g <= g_A g /\ Forall (fun i => 0 < i) (g_incs g) /\ wm_cur (g_w g) <= wm_max (g_w g).
Proof.
  intros m os g (Hm & Hw & Hr).
  pose proof (wrun_InvAll os _ _ (InvAll_init m (proj1 Hm)) Hw Hr) as (H1 & H2 & H3 & H4 & H5 & H6 & H7).
  repeat split; try assumption; lia.
Qed.

(* Never above 2^31-1 — proved for histories without INITIAL_WINDOW_SIZE changes ... *)
Theorem C05_window_never_above_limit_partial :
  forall m os g, reached m os g -> no_delta os -> wm_cur (g_w g) <= 2^31 - 1.
Proof.
  intros m os g (Hm & Hw & Hr) Hn.
  pose proof (InvAll_init m (proj1 Hm)) as Hi.
  assert (Hc : InvCeil (gh_init m)) by (unfold InvCeil, gh_init, wm_new; cbn [g_w wm_max]; lia).
  pose proof (wrun_InvCeil_no_delta os _ _ Hi Hc Hw Hn Hr) as Hc'.
  pose proof (wrun_InvAll os _ _ Hi Hw Hr) as (H1 & _). unfold InvCeil in Hc'. lia.
Qed.

(* No stall: all received bytes acknowledged and a positive maximum imply a positive window —
   proved for histories in which INITIAL_WINDOW_SIZE is never lowered ... *)
Theorem C05_no_stall_partial :
  forall m os g, reached m os g -> no_negative_delta os ->
    g_A g = g_C g -> 0 < wm_max (g_w g) -> 0 < wm_cur (g_w g).
Proof.
  intros m os g (Hm & Hw & Hr) Hn.
  exact (proj2 (wrun_InvLive os _ _ (InvAll_init m (proj1 Hm)) (InvLive_init m (proj1 Hm)) Hw Hn Hr)).
Qed.

(* non-vacuity: a long mixed history is reachable and satisfies the hypotheses *)
Example C05_ex_reachable :
  exists g, reached 65535 [Consume 30000; Ack 10000; Consume 35535; Ack 55535; Open 5; Delta 10; Consume 0] g
            /\ no_negative_delta [Consume 30000; Ack 10000; Consume 35535; Ack 55535; Open 5; Delta 10; Consume 0]
            /\ g_A g = g_C g /\ g_K g > 0.
Proof.
  eexists. split; [split; [|split]|]; [lia | | vm_compute; reflexivity |].
  - vm_compute. repeat split; discriminate.
  - split; [repeat constructor; lia | vm_compute; repeat split].
Qed.

Print Assumptions C05_kernels_are_the_code.
Print Assumptions C05_never_over_credits.
Print Assumptions C05_window_never_above_limit_partial.
Print Assumptions C05_no_stall_partial.
