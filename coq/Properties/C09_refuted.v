(* C09 — "no larger than 2^31-1" is false for user-chosen ids (known finding F-C09-1). *)
From H2 Require Import Base.Prelude Model.FsmTypes Model.Types Model.ConnState Model.Connection.
Definition cfgc := mkconfig true true true true true false.
Definition req : list hitem :=
  [([58;109;101;116;104;111;100],[71;69;84],false);([58;112;97;116;104],[47],false);
   ([58;115;99;104;101;109;101],[104;116;116;112;115],false);([58;97;117;116;104;111;114;105;116;121],[97],false)].
Definition C09_ids_bounded_full : Prop :=
  forall cfg os, c_hi_out (run (conn_new cfg) os) <= 2147483647.
Theorem C09_ids_bounded_refuted :
  let c := run (conn_new cfgc) [OInitiate; OSendHeaders 2147483649 req 10 false None None None] in
  c_hi_out c = 2147483649 /\ match c_out c with [_; FHeaders sid _ _ _ _ _] => sid = 2147483649 | _ => False end.
Proof. vm_compute. split; reflexivity. Qed.
Print Assumptions C09_ids_bounded_refuted.
