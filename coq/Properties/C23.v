(* C23 — Priority information round-trips and never changes stream state.
   [add_frame_priority] is connection._add_frame_priority (its two checks are the guards g_prio_self /
   g_prio_weight extracted from the source on this run); [recv_priority] is _receive_priority_frame. *)
From H2 Require Import Base.Prelude Model.FsmTypes Gen.Tables Model.Types Model.ConnState Model.Connection
  Model.StreamFSM Proofs.C23Proofs.

(* accepted exactly for weight in 1..256 (when given) and no self-dependency; for all integers *)
Theorem C23_priority_arguments_accepted_iff_in_range :
  forall sid w d e,
    (prio_args_ok sid w d ->
       add_frame_priority sid w d e =
       Ok (match d with Some dep => dep | None => 0 end, match w with Some x => x - 1 | None => 15 end,
           match e with Some b => b | None => false end)) /\
    (~ prio_args_ok sid w d -> add_frame_priority sid w d e = perr).
Proof. intros. split; [apply add_frame_priority_accepts | apply add_frame_priority_rejects]. Qed.

(* what the peer reports equals what was asked for, with the defaults 16 / 0 / False *)
Theorem C23_priority_round_trip :
  forall sid w d e c, prio_args_ok sid w d -> sid <> 0 -> conn_transition (c_state c) CI_RECV_PRIORITY <> None ->
    forall p, add_frame_priority sid w d e = Ok p ->
      snd (recv_priority sid p c) =
      Ok [EPriorityUpdated sid (match w with Some x => x | None => 16 end) (match d with Some dep => dep | None => 0 end)
                           (match e with Some b => b | None => false end)].
Proof. exact priority_round_trip. Qed.

(* a received PRIORITY frame, on ANY stream id, in any connection state before close: the whole
   connection state (streams, closed streams, windows, settings, ids, buffers) is unchanged *)
Theorem C23_received_priority_changes_no_state :
  forall sid p c c' r, c_state c <> C_CLOSED -> recv_priority sid p c = (c', r) -> c' = c.
Proof. exact recv_priority_state_unchanged. Qed.

(* and it yields exactly one PriorityUpdated, or a protocol error for a self-dependency *)
Theorem C23_received_priority_result :
  forall sid dep w ex c, conn_transition (c_state c) CI_RECV_PRIORITY <> None ->
    snd (recv_priority sid (dep, w, ex) c) = if dep =? sid then perr else Ok [EPriorityUpdated sid (w + 1) dep ex].
Proof. exact recv_priority_result. Qed.

(* servers cannot prioritise *)
Theorem C23_servers_are_refused :
  forall sid w d e c, cfg_client (c_cfg c) = false -> api_prioritize sid w d e c = (c, Err RFC1122Error 0 0 false).
Proof. exact api_prioritize_server. Qed.

Example C23_ex : prio_args_ok 1 (Some 256) (Some 3) /\ ~ prio_args_ok 1 (Some 257) None /\ ~ prio_args_ok 5 None (Some 5).
Proof. unfold prio_args_ok. repeat split; try lia; intros [A B]; try lia; apply B; reflexivity. Qed.

Print Assumptions C23_priority_arguments_accepted_iff_in_range.
Print Assumptions C23_priority_round_trip.
Print Assumptions C23_received_priority_changes_no_state.
Print Assumptions C23_received_priority_result.
Print Assumptions C23_servers_are_refused.
