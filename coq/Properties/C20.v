(* C20 — Frames racing a local stream reset never break the connection. *)
From H2 Require Import Base.Prelude Base.PyDict Model.FsmTypes Gen.Consts Gen.Tables Gen.Guards Model.Types Model.Windows Model.WmHist Model.SettingsV Model.Settings Model.StreamFSM Model.Headers Model.Stream Model.ConnState Model.Connection Proofs.FsmReach Proofs.C0708Proofs Proofs.PushProofs Proofs.AltSvcUpgradeProofs.

(* ---------- C20: frames racing our RST_STREAM ---------- *)
(* whatever the handler did, a StreamClosedError for a stream closed by a reset leaves receive_data with an RST_STREAM and no
   connection error; the only event possible is the StreamReset of the reset itself *)
Theorem C20_closed_by_reset_is_a_stream_error :
  forall f c c1 code sid rst,
  dispatch f c = (c1, Err StreamClosedError code sid rst) -> closed_by_reset c1 sid = true -> 4 <= c_max_out_frame c1 ->
  receive_frame f c = (cset_out c1 (c_out c1 ++ [FRstStream sid code]), Ok (if rst then [EStreamReset sid EC_STREAM_CLOSED false] else [])).
Proof. exact (fun f c c1 code sid rst => closed_by_reset_is_a_stream_error f c c1 code sid rst). Qed.

(* PUSH_PROMISE on a stream we reset and already forgot: the promised stream is refused, nothing is reported *)
Theorem C20_push_promise_on_forgotten_reset_stream :
  forall sid promised hs c c2 c3,
  s_enable_push (c_local c) <> 0 -> decode_headers (HDecoded hs) c = (c2, Ok hs) -> cfsm CI_RECV_PUSH_PROMISE c2 = (c3, Ok tt) ->
  dget sid (c_streams c3) = None -> stream_closed_by c3 sid = Some CB_SEND_RST_STREAM ->
  recv_push_promise sid promised (HDecoded hs) c = (c3, Ok ([FRstStream promised EC_REFUSED_STREAM], [])).
Proof. exact (fun sid promised hs c c2 c3 => push_promise_on_forgotten_reset_stream sid promised hs c c2 c3). Qed.

(* DATA on a closed stream: never a connection error; the connection window gets the credit back (process_bytes), and the
   stream is answered with RST_STREAM *)
Theorem C20_data_on_closed_stream_refills_the_connection_window :
  forall sid len fclen es c c0 cw c1 code esid rst,
  cfsm CI_RECV_DATA c = (c0, Ok tt) ->
  lift_cwm (fun w => window_consumed w fclen) c0 = (cw, Ok tt) ->
  (get_stream_by_id sid ;;; with_stream sid (receive_data len fclen es)) cw = (c1, Err StreamClosedError code esid rst) ->
  recv_data sid len fclen es c =
  (cset_in_wm c1 (fst (process_bytes (c_in_wm c1) fclen)),
   Ok ((match wm_increment (snd (process_bytes (c_in_wm c1) fclen)) with Some inc => [FWindowUpdate 0 inc] | None => [] end) ++ [FRstStream esid code],
       if rst then [EStreamReset esid EC_STREAM_CLOSED false] else [])).
Proof. exact (fun sid len fclen es c c0 cw c1 code esid rst => data_on_closed_stream_refills_the_connection_window sid len fclen es c c0 cw c1 code esid rst). Qed.

Print Assumptions C20_closed_by_reset_is_a_stream_error.
Print Assumptions C20_push_promise_on_forgotten_reset_stream.
Print Assumptions C20_data_on_closed_stream_refills_the_connection_window.
