(* C13: "a call that raises leaves the compression context as if it had never been made" does NOT hold: the validators are lazy
   generators consumed inside Encoder.encode, and the trailer check of send_headers runs after encoding. *)
From H2 Require Import Base.Prelude Base.PyDict Model.FsmTypes Gen.Consts Gen.Tables Model.Types Model.Windows Model.WmHist
  Model.StreamFSM Model.Headers Model.Stream.

Definition cfgC := mkconfig true true true true true false.
Definition b_path := [58;112;97;116;104]. Definition b_scheme := [58;115;99;104;101;109;101]. Definition b_auth := [58;97;117;116;104;111;114;105;116;121].
Definition REQ : list hitem := [(b_method, [71;69;84], false); (b_path, [47], false); (b_scheme, [104;116;116;112;115], false); (b_auth, [97], false)].
Definition s0 := stream_new 1 65535 65535 16384.
Definition raised {A} (r : res A) : bool := match r with Ok _ => false | _ => true end.

(* a request whose fifth field is refused (te: gzip): the call raises ProtocolError, yet the encoder consumed the first four fields *)
Theorem C13_validation_failure_pollutes_the_encoder :
  let '(s', (r, e)) := send_headers cfgC (REQ ++ [([116;101], [103;122;105;112], false)]) 20 false s0 in
  raised r = true /\ e = Some REQ.
Proof. vm_compute. split; reflexivity. Qed.

(* trailers without END_STREAM: refused after the whole block was encoded *)
Theorem C13_trailers_check_runs_after_encoding :
  let s1 := fst (send_headers cfgC REQ 20 false s0) in
  let '(s', (r, e)) := send_headers cfgC [([120], [49], false)] 3 false s1 in
  raised r = true /\ e = Some [([120], [49], false)].
Proof. vm_compute. split; reflexivity. Qed.

Print Assumptions C13_validation_failure_pollutes_the_encoder.
Print Assumptions C13_trailers_check_runs_after_encoding.
