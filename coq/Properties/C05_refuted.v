(* C05 — refutations of the full statements on the faithful model.  Each witness is replayed on the
   implementation by the check (known findings F-C05-1, F-C05-2).  Kept apart from Properties/C05.v:
   if a repair of the code makes a witness fail, that is not a violation of the property. *)
From H2 Require Import Base.Prelude Gen.Consts Model.Windows Model.WmHist Properties.C05.

(* ... and false in general: a manual increment to the limit followed by an INITIAL_WINDOW_SIZE
   increase lifts the maximum above 2^31-1, and the next automatic update follows it. *)
Definition C05_window_never_above_limit_full : Prop :=
  forall m os g, reached m os g -> wm_cur (g_w g) <= 2^31 - 1.
Theorem C05_window_never_above_limit_refuted :
  exists m os g, reached m os g /\ wm_cur (g_w g) > 2^31 - 1.
Proof.
  exists 65535, [Open (2147483647 - 65535); Consume 2147483647; Delta 100; Ack 2147483647].
  eexists. split; [split; [|split]|]; [lia | | vm_compute; reflexivity | vm_compute; reflexivity].
  vm_compute. repeat split; discriminate.
Qed.

(* ... and false once it is lowered (known finding): the update rule is not re-evaluated. *)
Definition C05_no_stall_full : Prop :=
  forall m os g, reached m os g -> g_A g = g_C g -> 0 < wm_max (g_w g) -> 0 < wm_cur (g_w g).
Theorem C05_no_stall_refuted :
  exists m os g, reached m os g /\ g_A g = g_C g /\ 0 < wm_max (g_w g) /\ wm_cur (g_w g) = 0.
Proof.
  exists 4, [Consume 1; Ack 1; Delta (-3)]. eexists.
  split; [split; [|split]|]; [lia | | vm_compute; reflexivity | vm_compute; repeat split].
  vm_compute. repeat split; discriminate.
Qed.

Print Assumptions C05_window_never_above_limit_refuted.
Print Assumptions C05_no_stall_refuted.
