(* C10 — a server that activates reserved (pushed) streams is not held to the peer's limit (known finding F-C10-1):
   the check is made only when the id is not yet in the stream table. *)
From H2 Require Import Base.Prelude Model.FsmTypes Model.Types Model.Settings Model.StreamFSM Model.ConnState Model.Connection Proofs.C10Proofs.
Definition cfgs := mkconfig false true true true true false.
Definition req : list hitem :=
  [([58;109;101;116;104;111;100],[71;69;84],false);([58;112;97;116;104],[47],false);
   ([58;115;99;104;101;109;101],[104;116;116;112;115],false);([58;97;117;116;104;111;114;105;116;121],[97],false)].
Definition resp : list hitem := [([58;115;116;97;116;117;115],[50;48;48],false)].
Definition C10_outbound_count_bounded_full : Prop :=
  forall cfg os, let c := run (conn_new cfg) os in open_count (b2z (client c)) c <= s_max_concurrent_streams (c_remote c).
Theorem C10_reserved_activation_refuted :
  let c := run (conn_new cfgs)
             [OInitiate; OReceive [(RSettings false [(3, 1)], 6); (RHeaders 1 false None (HDecoded req), 10)];
              OPushStream 1 2 req 10; OPushStream 1 4 req 10;
              OSendHeaders 2 resp 1 false None None None; OSendHeaders 4 resp 1 false None None None] in
  s_max_concurrent_streams (c_remote c) = 1 /\ open_count (b2z (client c)) c = 2.
Proof. vm_compute. split; reflexivity. Qed.
Print Assumptions C10_reserved_activation_refuted.
