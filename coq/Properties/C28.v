(* C28 — Output is a deterministic function of the call sequence. *)
From H2 Require Import Base.Prelude Base.PyDict Model.Types Model.ConnState Model.Connection Model.Obs.

(* What a proof assistant can say here is limited, and it is said plainly: the model is a total Gallina function, so equal
   configurations and equal operation sequences give equal observations (bytes, events, exceptions, state) — there is no
   clock, no randomness and no hash-dependent iteration in it: every Python dict the code iterates over (streams, settings,
   closed streams, changed settings) is modelled as an insertion-ordered association list, which is what CPython guarantees
   independently of PYTHONHASHSEED.  That the IMPLEMENTATION is this function under every hash seed is not a theorem: it is
   checked by running the same programs in separate interpreter processes under different PYTHONHASHSEED values and comparing
   all fourteen observation parts with each other and with the model (see evidence).  The proof content of this property is
   therefore partial: determinism of the model + correspondence per seed. *)
Theorem C28_model_is_a_function_of_the_call_sequence :
  forall cfg1 cfg2 os1 os2, cfg1 = cfg2 -> os1 = os2 -> run_obs (conn_new cfg1) os1 = run_obs (conn_new cfg2) os2.
Proof. intros cfg1 cfg2 os1 os2 -> ->. reflexivity. Qed.

(* insertion order is all the iteration order there is: setting an existing key keeps its position, a new key goes last *)
Theorem C28_dict_iteration_is_insertion_order :
  forall (A : Type) (k : Z) (v : A) (d : dict A), dget k d = None -> map fst (dset k v d) = map fst d ++ [k].
Proof.
  intros A k v d. induction d as [|[k0 v0] d IH]; cbn [dget dset map fst app]; [reflexivity|].
  destruct (k =? k0) eqn:E; [discriminate|]. intros H. cbn [map fst]. rewrite (IH H). reflexivity.
Qed.

(* updating an existing key keeps every key where it was *)
Theorem C28_dict_update_keeps_positions :
  forall (A : Type) (k : Z) (v : A) (d : @dict A), dget k d <> None -> map fst (dset k v d) = map fst d.
Proof.
  intros A k v d. induction d as [|[k0 v0] d IH]; cbn [dget dset map fst]; [intros H; contradiction|].
  destruct (k =? k0) eqn:E; [apply Z.eqb_eq in E; subst; reflexivity|]. intros H. cbn [map fst]. rewrite (IH H). reflexivity.
Qed.

Print Assumptions C28_model_is_a_function_of_the_call_sequence.
Print Assumptions C28_dict_iteration_is_insertion_order.
Print Assumptions C28_dict_update_keeps_positions.
