(* C25 — h2c upgrade hands over settings and stream 1 consistently. *)
From H2 Require Import Base.Prelude Base.PyDict Model.FsmTypes Gen.Consts Gen.Tables Gen.Guards Model.Types Model.Windows Model.WmHist Model.SettingsV Model.Settings Model.StreamFSM Model.Headers Model.Stream Model.ConnState Model.Connection Proofs.FsmReach Proofs.C0708Proofs Proofs.PushProofs Proofs.AltSvcUpgradeProofs.

(* ---------- C25: upgrade ---------- *)
(* stream 1 after the upgrade: half-closed (local) on the client, half-closed (remote) on the server; the client's role flags
   are those of a stream whose request was sent, the server's those of a received request *)
Theorem C25_upgrade_states :
  let c := fst (process_input 1 sm_new SI_UPGRADE_CLIENT) in let s := fst (process_input 1 sm_new SI_UPGRADE_SERVER) in
  sm_state c = S_HALF_CLOSED_LOCAL /\ sm_client c = Some true /\ sm_hs c = true /\
  sm_state s = S_HALF_CLOSED_REMOTE /\ sm_client s = Some false /\ sm_hr s = true.
Proof. exact upgrade_states. Qed.

(* neither side can send a request body on it; the server can answer, the client can receive the answer *)
Theorem C25_upgraded_stream_capabilities :
  let c := fst (process_input 1 sm_new SI_UPGRADE_CLIENT) in let s := fst (process_input 1 sm_new SI_UPGRADE_SERVER) in
  accepted c SI_SEND_DATA = false /\ accepted c SI_SEND_HEADERS = false /\ accepted c SI_SEND_END_STREAM = false /\
  accepted c SI_RECV_HEADERS = true /\ accepted c SI_RECV_DATA = false /\
  accepted (fst (process_input 1 c SI_RECV_HEADERS)) SI_RECV_DATA = true /\
  accepted s SI_SEND_HEADERS = true /\ accepted s SI_RECV_DATA = false /\ accepted s SI_RECV_HEADERS = false.
Proof. exact upgraded_stream_capabilities. Qed.

(* the server's view of the client's settings: the HTTP2-Settings payload is applied through the same path as a SETTINGS frame *)
Theorem C25_upgrade_applies_client_settings_like_a_settings_frame :
  forall vals c,
  client (fst (initiate_connection c)) = false ->
  api_initiate_upgrade (Some vals) c =
  (initiate_connection ;;; (recv_settings false vals ;;; ret tt) ;;; cfsm CI_RECV_HEADERS ;;; begin_new_stream 1 1 ;;;
   with_stream 1 (upgrade false) ;;; ret []) c.
Proof. exact (fun vals c => upgrade_applies_client_settings_like_a_settings_frame vals c). Qed.

Print Assumptions C25_upgrade_states.
Print Assumptions C25_upgraded_stream_capabilities.
Print Assumptions C25_upgrade_applies_client_settings_like_a_settings_frame.
