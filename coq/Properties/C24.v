(* C24 — Alternative-service advertisements follow the RFC 7838 rules. *)
From H2 Require Import Base.Prelude Base.PyDict Model.FsmTypes Gen.Consts Gen.Tables Gen.Guards Model.Types Model.Windows Model.WmHist Model.SettingsV Model.Settings Model.StreamFSM Model.Headers Model.Stream Model.ConnState Model.Connection Proofs.FsmReach Proofs.C0708Proofs Proofs.PushProofs Proofs.AltSvcUpgradeProofs.

(* ---------- C24: sending ---------- *)
Theorem C24_altsvc_never_names_both :
  forall field o i c,
  api_advertise_alt_svc field (Some o) (Some i) c = (c, Crash ValueError).
Proof. exact (fun field o i c => altsvc_never_names_both field o i c). Qed.

(* only servers advertise (fix 4e7b916): on a client-side connection, in EVERY state, the call fails and changes nothing *)
Theorem C24_client_cannot_advertise :
  forall field origin sid c, client c = true -> exists r, api_advertise_alt_svc field origin sid c = (c, r) /\ is_ok r = false.
Proof. exact client_cannot_advertise. Qed.
(* an advertisement names an origin or a stream (fix c0a4c40: ValueError and nothing changed when it names neither) *)
Theorem C24_altsvc_names_one :
  forall field c, api_advertise_alt_svc field None None c = (c, Crash ValueError).
Proof. exact altsvc_names_one. Qed.

Theorem C24_open_client_cannot_advertise :
  forall field origin sid c,
  c_state c = C_CLIENT_OPEN -> is_ok (snd (api_advertise_alt_svc field origin sid c)) = false.
Proof. exact (fun field origin sid c => open_client_cannot_advertise field origin sid c). Qed.

Theorem C24_stream_advertisement_only_between_request_and_response :
  forall is,
  c24_send_rule (run_inputs sm_new is) = true.
Proof. exact (fun is => stream_advertisement_only_between_request_and_response is). Qed.

(* ---------- C24: receiving ---------- *)
Theorem C24_server_ignores_altsvc_on_stream_zero :
  forall origin field c c1,
  cfsm CI_RECV_ALTERNATIVE_SERVICE c = (c1, Ok tt) -> client c1 = false -> recv_alt_svc 0 origin field c = (c1, Ok ([], [])).
Proof. exact (fun origin field c c1 => server_ignores_altsvc_on_stream_zero origin field c c1). Qed.

Theorem C24_altsvc_on_stream_zero_needs_origin :
  forall field c c1,
  cfsm CI_RECV_ALTERNATIVE_SERVICE c = (c1, Ok tt) -> recv_alt_svc 0 [] field c = (c1, Ok ([], [])).
Proof. exact (fun field c c1 => altsvc_on_stream_zero_needs_origin field c c1). Qed.

Theorem C24_client_reports_origin_advertisement :
  forall o origin field c c1,
  cfsm CI_RECV_ALTERNATIVE_SERVICE c = (c1, Ok tt) -> client c1 = true ->
  recv_alt_svc 0 (o :: origin) field c = (c1, Ok ([], [EAltSvcAvailable (Some (o :: origin)) field])).
Proof. exact (fun o origin field c c1 => client_reports_origin_advertisement o origin field c c1). Qed.

(* stream-bound frames: an origin in the frame conflicts with the stream's and is ignored; otherwise the event carries the
   :authority of our own request; unknown streams are ignored *)
Theorem C24_stream_altsvc_with_origin_ignored :
  forall o origin field s,
  receive_alt_svc (o :: origin) field s = (s, Ok []).
Proof. exact (fun o origin field s => stream_altsvc_with_origin_ignored o origin field s). Qed.

Theorem C24_stream_altsvc_event_carries_request_authority :
  forall field s s' evs,
  receive_alt_svc [] field s = (s', Ok evs) -> evs = [] \/ evs = [EAltSvcAvailable (s_authority s') field].
Proof. exact (fun field s s' evs => stream_altsvc_event_carries_request_authority field s s' evs). Qed.

Theorem C24_altsvc_on_unknown_stream_ignored :
  forall sid origin field c c1,
  sid <> 0 -> cfsm CI_RECV_ALTERNATIVE_SERVICE c = (c1, Ok tt) -> dget sid (c_streams c1) = None ->
  recv_alt_svc sid origin field c = (c1, Ok ([], [])).
Proof. exact (fun sid origin field c c1 => altsvc_on_unknown_stream_ignored sid origin field c c1). Qed.

Theorem C24_altsvc_event_only_before_response_headers :
  forall is,
  c24_recv_rule (run_inputs sm_new is) = true.
Proof. exact (fun is => altsvc_event_only_before_response_headers is). Qed.

Print Assumptions C24_altsvc_never_names_both.
Print Assumptions C24_open_client_cannot_advertise.
Print Assumptions C24_stream_advertisement_only_between_request_and_response.
Print Assumptions C24_server_ignores_altsvc_on_stream_zero.
Print Assumptions C24_altsvc_on_stream_zero_needs_origin.
Print Assumptions C24_client_reports_origin_advertisement.
Print Assumptions C24_stream_altsvc_with_origin_ignored.
Print Assumptions C24_stream_altsvc_event_carries_request_authority.
Print Assumptions C24_altsvc_on_unknown_stream_ignored.
Print Assumptions C24_altsvc_event_only_before_response_headers.
Print Assumptions C24_client_cannot_advertise.
Print Assumptions C24_altsvc_names_one.
