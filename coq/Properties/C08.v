(* C08 — The library refuses to emit messages that violate HTTP/2 message rules. *)
From H2 Require Import Base.Prelude Model.FsmTypes Gen.Tables Model.Types Model.StreamFSM Proofs.FsmReach Proofs.C0708Proofs.

(* After ANY sequence of inputs, the stream state machine:
   - refuses SEND_HEADERS once trailers were sent, and informational headers once the final response was sent;
   - treats the second header block as trailers (H2Stream.send_headers then insists on END_STREAM);
   - on a stream we opened as a client: never sends a response, a PUSH_PROMISE or an ALTSVC;
   - produces RequestSent only from the idle state (a request is what opens a stream);
   - refuses HEADERS, DATA, END_STREAM, 1xx and PUSH_PROMISE once we ended the stream (half-closed local / closed). *)
Theorem C08_send_rules_after_any_history :
  forall is, c08_all (run_inputs sm_new is) = true.
Proof. exact c08_holds_after_any_inputs. Qed.

(* the role gate of the connection state machine (table regenerated from the code) *)
Theorem C08_role_gate :
  conn_transition C_CLIENT_OPEN CI_SEND_PUSH_PROMISE = None /\ conn_transition C_CLIENT_OPEN CI_SEND_ALTERNATIVE_SERVICE = None /\
  conn_transition C_CLIENT_OPEN CI_RECV_PUSH_PROMISE = Some C_CLIENT_OPEN /\ conn_transition C_SERVER_OPEN CI_RECV_PUSH_PROMISE = None.
Proof. exact c08_role_gate. Qed.

Print Assumptions C08_send_rules_after_any_history.
Print Assumptions C08_role_gate.
