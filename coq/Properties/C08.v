(* C08 — The library refuses to emit messages that violate HTTP/2 message rules. *)
From H2 Require Import Base.Prelude Model.FsmTypes Gen.Tables Model.Types Model.StreamFSM Proofs.FsmReach Proofs.C0708Proofs.
From H2 Require Import Base.PyDict Model.ConnState Model.Connection Proofs.C29Proofs Proofs.RoleInv.

(* After ANY sequence of inputs, the stream state machine:
   - refuses SEND_HEADERS once trailers were sent, and informational headers once the final response was sent;
   - treats the second header block as trailers (H2Stream.send_headers then insists on END_STREAM);
   - on a stream we opened as a client: never sends a response, a PUSH_PROMISE or an ALTSVC;
   - produces RequestSent only from the idle state (a request is what opens a stream);
   - refuses HEADERS, DATA, END_STREAM, 1xx and PUSH_PROMISE once we ended the stream (half-closed local / closed). *)
Theorem C08_send_rules_after_any_history :
  forall is, c08_all (run_inputs sm_new is) = true.
Proof. exact c08_holds_after_any_inputs. Qed.

(* the role gate of the connection state machine (table regenerated from the code) *)
Theorem C08_role_gate :
  conn_transition C_CLIENT_OPEN CI_SEND_PUSH_PROMISE = None /\ conn_transition C_CLIENT_OPEN CI_SEND_ALTERNATIVE_SERVICE = None /\
  conn_transition C_CLIENT_OPEN CI_RECV_PUSH_PROMISE = Some C_CLIENT_OPEN /\ conn_transition C_SERVER_OPEN CI_RECV_PUSH_PROMISE = None.
Proof. exact c08_role_gate. Qed.

(* Only clients open streams by sending headers (fix 12650a7): on a server, send_headers for an id that is not in the
   stream table raises exactly the lookup error (NoSuchStreamError above the watermark, StreamClosedError at or below)
   and changes NOTHING (the state is returned unchanged: no stream object, no connection transition, nothing encoded or
   emitted); hence a successful send_headers on a server found its stream (opened by the client, or promised). *)
Theorem C08_a_server_cannot_open_a_stream_with_send_headers :
  forall sid hs L es pw pd pe c, client c = false -> dget sid (c_streams c) = None ->
    api_send_headers sid hs L es pw pd pe c = (c, unknown_stream_error c sid).
Proof. exact server_send_headers_unknown. Qed.
Theorem C08_a_successful_server_send_headers_found_its_stream :
  forall sid hs L es pw pd pe c c', client c = false ->
    api_send_headers sid hs L es pw pd pe c = (c', Ok tt) -> dmem sid (c_streams c) = true.
Proof. exact server_send_headers_ok_known. Qed.

(* The role gate at connection level, over EVERY history of API calls and received frames: the connection state machine
   never reaches the other role's open state (a client is never SERVER_OPEN, a server never CLIENT_OPEN, between any two
   operations), and a connection that is still IDLE holds no stream object.  With the regenerated connection table (a
   client-side state machine refuses SEND_PUSH_PROMISE, a server-side one RECV_PUSH_PROMISE) this is "a client can never
   push" and "a server never accepts a push" for all reachable states. *)
Theorem C08_connection_state_agrees_with_the_role :
  forall cfg os, let c := run (conn_new cfg) os in
    (client c = true -> c_state c <> C_SERVER_OPEN) /\ (client c = false -> c_state c <> C_CLIENT_OPEN) /\
    (c_state c = C_IDLE -> c_streams c = [] /\ c_closed c = []).
Proof. exact connection_state_agrees_with_the_role. Qed.

Print Assumptions C08_send_rules_after_any_history.
Print Assumptions C08_role_gate.
Print Assumptions C08_a_server_cannot_open_a_stream_with_send_headers.
Print Assumptions C08_a_successful_server_send_headers_found_its_stream.
Print Assumptions C08_connection_state_agrees_with_the_role.
