(* C16 — Content-Length is enforced as RFC 7540 section 8.1.2.6 requires. *)
From H2 Require Import Base.Prelude Gen.Kernels Model.Types Model.Headers Model.Stream Proofs.C16Proofs.

(* the accounting step of the model is H2Stream._track_content_length as translated from stream.py on this run *)
Theorem C16_model_step_is_the_translated_method :
  forall len es s,
    let '(s', r) := track_content_length len es s in
    let '((act, exp), r') := k_track_content_length (s_act_cl s) (s_exp_cl s) len es in
    s' = set_cl s exp act /\ r = r'.
Proof. exact track_is_translated. Qed.

(* For EVERY content-length n, EVERY chunking of the body into DATA frames (any number, any non-negative sizes):
   while the message is open, DATA is accepted exactly as long as the payload total stays within n ... *)
Theorem C16_data_accepted_iff_within_content_length :
  forall n ls s, s_exp_cl s = Some n -> s_act_cl s = 0 -> Forall (fun l => 0 <= l) ls -> ls <> [] ->
    (fst (track_all s (plain_chunks ls)) = true <-> total (plain_chunks ls) <= n).
Proof. exact data_within_content_length. Qed.

(* ... and a message ended by a DATA frame is accepted if and only if the payload total equals n *)
Theorem C16_message_ended_by_data_accepted_iff_total_matches :
  forall n ls l s, s_exp_cl s = Some n -> s_act_cl s = 0 -> Forall (fun x => 0 <= x) ls -> 0 <= l ->
    (fst (track_all s (plain_chunks ls ++ [(l, true)])) = true <-> total (plain_chunks ls) + l = n).
Proof. exact data_ending_the_message. Qed.

Theorem C16_no_content_length_no_check :
  forall chunks s, s_exp_cl s = None -> fst (track_all s chunks) = true.
Proof. exact no_content_length_no_check. Qed.

(* padding does not count: for every payload length and every flow-controlled length *)
Theorem C16_padding_is_not_counted :
  forall len fclen es s s' evs, receive_data len fclen es s = (s', Ok evs) -> s_act_cl s' = s_act_cl s + len.
Proof. exact padding_is_not_counted. Qed.

(* a response to a HEAD request expects an empty body whatever content-length it carries (so: rejected only if it has payload) *)
Theorem C16_head_response_expects_no_payload :
  forall hs s s' r, s_method s = Some b_HEAD -> initialize_content_length hs s = (s', r) -> s_exp_cl s' = Some 0 /\ r = Ok tt.
Proof. exact head_response_expects_nothing. Qed.

Print Assumptions C16_model_step_is_the_translated_method.
Print Assumptions C16_data_accepted_iff_within_content_length.
Print Assumptions C16_message_ended_by_data_accepted_iff_total_matches.
Print Assumptions C16_no_content_length_no_check.
Print Assumptions C16_padding_is_not_counted.
Print Assumptions C16_head_response_expects_no_payload.
