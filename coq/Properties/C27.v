(* C27 — Peer-controlled retained state stays bounded. *)
From H2 Require Import Base.Prelude Base.PyDict Model.FsmTypes Gen.Consts Model.Types Model.StreamFSM Model.Headers Model.ConnState Model.Connection
  Model.FrameBuffer Model.Settings Proofs.C18Proofs Proofs.C23Proofs Proofs.C27Proofs Proofs.C21Proofs Proofs.C27Ack.

(* the memory of closed streams never exceeds MAX_CLOSED_STREAMS, for every history of calls and frames
   (induction over all operations, no bound on length; the eviction test is extracted from SizeLimitDict) *)
Theorem C27_closed_stream_memory_is_capped :
  forall cfg os, zlen (c_closed (run (conn_new cfg) os)) <= MAX_CLOSED_STREAMS.
Proof. intros cfg os. exact (closed_streams_memory_bounded os _ (closed_bounded_init cfg)). Qed.

(* frames that do not open streams allocate no stream state: PRIORITY on any id (the whole state is unchanged) *)
Theorem C27_priority_allocates_nothing :
  forall sid p c c' r, c_state c <> C_CLOSED -> recv_priority sid p c = (c', r) -> c' = c.
Proof. exact recv_priority_state_unchanged. Qed.

(* RST_STREAM and WINDOW_UPDATE on idle / closed / never-used ids, unknown frame types *)
Theorem C27_rst_stream_on_unknown_stream_allocates_nothing :
  forall sid code c c' r, dget sid (c_streams c) = None -> recv_rst_stream sid code c = (c', r) ->
    c_streams c' = c_streams c /\ c_closed c' = c_closed c.
Proof. exact rst_on_unknown_stream_allocates_nothing. Qed.
Theorem C27_window_update_on_unknown_stream_allocates_nothing :
  forall sid inc c c' r, sid <> 0 -> dget sid (c_streams c) = None -> recv_window_update sid inc c = (c', r) ->
    c_streams c' = c_streams c /\ c_closed c' = c_closed c.
Proof. exact window_update_on_unknown_stream_allocates_nothing. Qed.
Theorem C27_unknown_frame_types_change_nothing :
  forall ft sid c, dispatch (RUnknown ft sid) c = (c, Ok ([], [EUnknownFrameReceived ft])).
Proof. exact unknown_frame_changes_nothing. Qed.

(* decoded header lists larger than the acknowledged MAX_HEADER_LIST_SIZE are refused with ENHANCE_YOUR_CALM *)
Theorem C27_oversized_header_list_is_refused :
  forall hs c, hl_size hs > c_dec_max_hls c -> snd (decode_headers (HDecoded hs) c) = Err DenialOfServiceError 11 0 false.
Proof. exact oversized_header_list_is_enhance_your_calm. Qed.

(* the frames of an unfinished header block (HEADERS / PUSH_PROMISE + CONTINUATIONs) held by the frame buffer never exceed
   CONTINUATION_BACKLOG, for every byte string, every parser and every receiver, as long as receive_data does not raise *)
Theorem C27_header_block_backlog_is_capped :
  forall parse_hdr parse_body (S E : Type) (limit : S -> Z) (consume : S -> wframe -> S * option E) n s h d s1 e h1 r,
    zlen h <= CONTINUATION_BACKLOG -> drain parse_hdr parse_body S E limit consume n s h d = (s1, e, (h1, r)) ->
    (forall x, e <> Some (inl x)) -> zlen h1 <= CONTINUATION_BACKLOG.
Proof. exact header_buffer_bounded. Qed.

Print Assumptions C27_closed_stream_memory_is_capped.
Print Assumptions C27_header_block_backlog_is_capped.
Print Assumptions C27_priority_allocates_nothing.
Print Assumptions C27_rst_stream_on_unknown_stream_allocates_nothing.
Print Assumptions C27_window_update_on_unknown_stream_allocates_nothing.
Print Assumptions C27_unknown_frame_types_change_nothing.
Print Assumptions C27_oversized_header_list_is_refused.

(* header blocks longer than the CONTINUATION limit are refused: once CONTINUATION_BACKLOG frames are held, the next frame
   (a CONTINUATION with or without END_HEADERS, or anything else) raises ProtocolError *)
Theorem C27_long_header_block_is_refused :
  forall h f, h <> [] -> zlen h >= CONTINUATION_BACKLOG -> exists h', update_header_buffer h f = inl (EProtocol, h').
Proof. exact (long_block_refused unit unit (fun s _ => (s, None))). Qed.
Print Assumptions C27_long_header_block_is_refused.

(* the caps the peer is held to follow the acknowledged settings: when a SETTINGS ACK has been processed and its
   changes [ch] contain MAX_HEADER_LIST_SIZE, the decoder's cap IS the new value (otherwise it is untouched), and
   likewise MAX_FRAME_SIZE for the frame buffer — whatever else the same acknowledgement changes
   (INITIAL_WINDOW_SIZE, several keys at once).  Together with C27_oversized_header_list_is_refused: a header list
   above the acknowledged MAX_HEADER_LIST_SIZE is refused from that point on. *)
Theorem C27_acknowledged_caps_are_in_force :
  forall c c' ch, local_settings_acked c = (c', Ok ch) ->
    c_dec_max_hls c' = match changed_lookup SC_MAX_HEADER_LIST_SIZE ch with Some (_, new) => new | None => c_dec_max_hls c end /\
    c_max_in_frame c' = match changed_lookup SC_MAX_FRAME_SIZE ch with Some (_, new) => new | None => c_max_in_frame c end.
Proof. exact Proofs.C27Ack.acked_limits_in_force. Qed.
Print Assumptions C27_acknowledged_caps_are_in_force.
