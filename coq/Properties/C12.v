(* C12 — SETTINGS values are validated with the RFC-mandated error codes.
   Statements only.  [code_validate] is the function translated from settings._validate_setting in
   /repo's working tree on this run (Gen/Kernels.v); [setting_ok]/[mandated_code] are the RFC table. *)
From H2 Require Import Base.Prelude Gen.Kernels Model.SettingsV Spec.Rfc65 Proofs.GenEq Proofs.C12Proofs.

Definition code_validate (id v : Z) : res Z := snd (k_validate_setting id v).
Definition code_guard_increment (cur d : Z) : res Z := snd (k_guard_increment_window cur d).

(* Every identifier (any integer, hence all of 0..2^16-1) and every value v >= 0 (hence all of
   0..2^32-1): the code accepts exactly the values the RFC allows ... *)
Theorem C12_accepts_exactly_in_range :
  forall id v, 0 <= v -> (code_validate id v = Ok 0 <-> setting_ok id v).
Proof.
  intros id v Hv. unfold code_validate. rewrite geneq_validate_setting. cbn [snd].
  rewrite <- (validate_zero_iff id v Hv). split; [intros [= ->]; reflexivity | intros ->; reflexivity].
Qed.

(* ... and rejects every other one with the mandated code. *)
Theorem C12_rejects_with_mandated_code :
  forall id v, 0 <= v -> ~ setting_ok id v -> code_validate id v = Ok (mandated_code id).
Proof.
  intros id v Hv Hn. unfold code_validate. rewrite geneq_validate_setting. cbn [snd]. f_equal.
  apply validate_code; [exact Hv|]. intros H0. apply Hn. apply validate_zero_iff; assumption.
Qed.

(* Unknown identifiers (and the unconstrained known ones) are accepted whatever the value. *)
Theorem C12_unconstrained_identifier_accepted :
  forall id v, 0 <= v -> ~ In id constrained_ids -> code_validate id v = Ok 0.
Proof.
  intros id v Hv Hn. unfold code_validate. rewrite geneq_validate_setting. cbn [snd]. f_equal.
  apply validate_unconstrained; assumption.
Qed.

(* The window arithmetic used when INITIAL_WINDOW_SIZE changes: above 2^31-1 is FLOW_CONTROL_ERROR,
   anything else (including negative results, RFC 7540 6.9.2) is the exact sum. *)
Theorem C12_window_delta_overflow :
  forall cur d, code_guard_increment cur d =
                if cur + d >? 2^31 - 1 then Err FlowControlError 3 0 false else Ok (cur + d).
Proof.
  intros cur d. unfold code_guard_increment. rewrite geneq_guard_increment_window. cbn [snd].
  apply guard_increment_spec.
Qed.

(* non-vacuity: boundary values on both sides of each range *)
Example C12_ex_ok : setting_ok 5 16384 /\ setting_ok 4 2147483647 /\ setting_ok 2 1 /\ setting_ok 65535 4294967295.
Proof. unfold setting_ok. repeat split; intros; lia. Qed.
Example C12_ex_bad : ~ setting_ok 5 16383 /\ ~ setting_ok 4 2147483648 /\ ~ setting_ok 2 2 /\ ~ setting_ok 8 2.
Proof. unfold setting_ok. repeat split; intros H; lia. Qed.

Print Assumptions C12_accepts_exactly_in_range.
Print Assumptions C12_rejects_with_mandated_code.
Print Assumptions C12_unconstrained_identifier_accepted.
Print Assumptions C12_window_delta_overflow.
