(* C22 — Server push rules are enforced on both ends. *)
From H2 Require Import Proofs.C22Full Proofs.RoleInv.
From H2 Require Import Base.Prelude Base.PyDict Model.FsmTypes Gen.Consts Gen.Tables Gen.Guards Model.Types Model.Windows Model.WmHist Model.SettingsV Model.Settings Model.StreamFSM Model.Headers Model.Stream Model.ConnState Model.Connection Proofs.FsmReach Proofs.C0708Proofs Proofs.PushProofs Proofs.AltSvcUpgradeProofs.

(* ---------- C22: local push ---------- *)
(* "... succeeds exactly when a SERVER pushes": after ANY history of API calls and received frames (no bound on length), a
   push_stream call that succeeds was made on a server-side connection.  Rests on the role invariant of Proofs/RoleInv.v:
   the connection state machine agrees with the configured role after every history (this is false of the tree before
   fixes 12650a7, 09dbf89, 4e7b916 and 1fed9f8, each of which let one side drive the state machine into the other role). *)
Theorem C22_only_servers_push :
  forall cfg os sid promised hs L c',
    api_push_stream sid promised hs L (run (conn_new cfg) os) = (c', Ok tt) -> cfg_client cfg = false.
Proof. exact only_servers_push. Qed.

(* The "only when" half of "push_stream succeeds exactly when ...", for EVERY connection state and every argument: a
   push_stream call that succeeds was made on a connection in state SERVER_OPEN whose peer allows push, on an odd
   (client-initiated) parent that is in the stream table, open or half-closed (remote) and not playing the client role,
   with an even promised id above the watermark of its direction. *)
Theorem C22_push_stream_only_when_the_rules_hold :
  forall sid promised hs L c c',
    api_push_stream sid promised hs L c = (c', Ok tt) ->
    s_enable_push (c_remote c) <> 0 /\
    c_state c = C_SERVER_OPEN /\
    sid mod 2 = 1 /\
    promised mod 2 = 0 /\ promised > highest_for c promised /\
    exists s, dget sid (c_streams c) = Some s /\
              (sm_state (s_sm s) = S_OPEN \/ sm_state (s_sm s) = S_HALF_CLOSED_REMOTE) /\
              client_is (s_sm s) true = false.
Proof. exact push_stream_only_when_the_rules_hold. Qed.

Theorem C22_push_refused_when_peer_disabled_push :
  forall sid promised hs L c,
  s_enable_push (c_remote c) = 0 -> api_push_stream sid promised hs L c = (c, perr).
Proof. exact (fun sid promised hs L c => push_refused_when_peer_disabled_push sid promised hs L c). Qed.

Theorem C22_client_cannot_push :
  forall sid promised hs L c,
  c_state c = C_CLIENT_OPEN -> is_ok (snd (api_push_stream sid promised hs L c)) = false.
Proof. exact (fun sid promised hs L c => client_cannot_push sid promised hs L c). Qed.

Theorem C22_push_on_pushed_stream_refused :
  forall sid promised hs L c,
  sid mod 2 = 0 -> is_ok (snd (api_push_stream sid promised hs L c)) = false.
Proof. exact (fun sid promised hs L c => push_on_pushed_stream_refused sid promised hs L c). Qed.

(* ---------- C22: remote push ---------- *)
Theorem C22_push_promise_is_connection_error_when_push_disabled :
  forall sid promised d c,
  s_enable_push (c_local c) = 0 -> recv_push_promise sid promised d c = (c, perr).
Proof. exact (fun sid promised d c => push_promise_is_connection_error_when_push_disabled sid promised d c). Qed.

Theorem C22_push_promise_on_pushed_stream_refused :
  forall sid promised d hs c c2 c3 s,
  sid mod 2 = 0 -> s_enable_push (c_local c) <> 0 -> decode_headers d c = (c2, Ok hs) -> cfsm CI_RECV_PUSH_PROMISE c2 = (c3, Ok tt) ->
  dget sid (c_streams c3) = Some s -> recv_push_promise sid promised d c = (c3, perr).
Proof. exact (fun sid promised d hs c c2 c3 s => push_promise_on_pushed_stream_refused sid promised d hs c c2 c3 s). Qed.

(* what a client reports for an accepted PUSH_PROMISE: parent id, promised id, validated headers *)
Theorem C22_pushed_stream_event_shape :
  forall cfg promised hs s s' evs,
  receive_push_promise_in_band cfg promised hs s = (s', Ok evs) ->
  exists f h, evs = [EPushedStreamReceived promised (s_id s) h] /\ process_received_headers cfg f hs = Ok h.
Proof. exact (fun cfg promised hs s s' evs => pushed_stream_event_shape cfg promised hs s s' evs). Qed.

Print Assumptions C22_push_refused_when_peer_disabled_push.
Print Assumptions C22_client_cannot_push.
Print Assumptions C22_push_on_pushed_stream_refused.
Print Assumptions C22_push_promise_is_connection_error_when_push_disabled.
Print Assumptions C22_push_promise_on_pushed_stream_refused.
Print Assumptions C22_pushed_stream_event_shape.
Print Assumptions C22_push_stream_only_when_the_rules_hold.
Print Assumptions C22_only_servers_push.
