(* C10 — Concurrent-stream limits are respected and enforced.
   [open_count r c]: the number of streams of parity r in the RFC 7540 5.1.2 sense (open or half-closed).
   The two limit checks are the guards g_send_headers_mcs / g_recv_headers_mcs extracted from connection.py. *)
From H2 Require Import Base.Prelude Base.PyDict Model.FsmTypes Gen.Tables Model.Types Model.Settings Model.StreamFSM Model.Stream
  Model.ConnState Model.Connection Proofs.C10Proofs.

(* exactly open and the two half-closed states count: reserved (pushed) streams do not *)
Theorem C10_which_states_count :
  forall s, stream_open s = match s with S_OPEN | S_HALF_CLOSED_LOCAL | S_HALF_CLOSED_REMOTE => true | _ => false end.
Proof. exact stream_open_table. Qed.

(* open_outbound_streams / open_inbound_streams return that number; removing closed streams lazily changes no count *)
Theorem C10_counters_equal_the_rfc_count :
  forall r c, exists c', open_streams r c = (c', Ok (open_count r c)) /\ forall r', open_count r' c' = open_count r' c.
Proof. exact open_streams_spec. Qed.

(* opening a stream locally succeeds only with room under the peer's current limit ... *)
Theorem C10_local_open_respects_peer_limit :
  forall sid hs L es pw pd pe c c', dmem sid (c_streams c) = false ->
    api_send_headers sid hs L es pw pd pe c = (c', Ok tt) ->
    open_count (b2z (client c)) c + 1 <= s_max_concurrent_streams (c_remote c).
Proof. exact send_headers_new_stream_respects_limit. Qed.

(* ... and otherwise raises TooManyStreamsError and emits nothing (only clients open streams this way: fix 12650a7) *)
Theorem C10_local_open_over_limit_is_refused :
  forall sid hs L es pw pd pe c, client c = true -> dmem sid (c_streams c) = false ->
    open_count (b2z (client c)) c + 1 > s_max_concurrent_streams (c_remote c) ->
    exists c', api_send_headers sid hs L es pw pd pe c = (c', Err TooManyStreamsError 1 0 false) /\ c_out c' = c_out c.
Proof. exact send_headers_over_limit. Qed.

(* a peer HEADERS that would exceed the acknowledged local limit is rejected; one that would not passes the check *)
Theorem C10_peer_open_over_limit_is_rejected :
  forall sid es p d c, dmem sid (c_streams c) = false ->
    open_count (b2z (negb (client c))) c + 1 > s_max_concurrent_streams (c_local c) ->
    snd (recv_headers sid es p d c) = Err TooManyStreamsError 1 0 false.
Proof. intros sid es p d c Hm. exact (proj1 (recv_headers_limit sid es p d c Hm)). Qed.

Theorem C10_peer_open_within_limit_passes_the_check :
  forall sid c, dmem sid (c_streams c) = false ->
    open_count (b2z (negb (client c))) c + 1 <= s_max_concurrent_streams (c_local c) ->
    exists c1, (n <- open_inbound_streams ;;
                c' <- get ;;
                if Gen.Guards.g_recv_headers_mcs n (s_max_concurrent_streams (c_local c')) true
                then fail TooManyStreamsError (Gen.Consts.exn_code TooManyStreamsError) 0 false else ret tt) c = (c1, Ok tt).
Proof. exact recv_headers_limit_check_passes. Qed.

Print Assumptions C10_which_states_count.
Print Assumptions C10_counters_equal_the_rfc_count.
Print Assumptions C10_local_open_respects_peer_limit.
Print Assumptions C10_local_open_over_limit_is_refused.
Print Assumptions C10_peer_open_over_limit_is_rejected.
Print Assumptions C10_peer_open_within_limit_passes_the_check.
