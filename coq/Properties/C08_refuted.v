(* C08, clauses that do NOT hold of the faithful model: witnesses, replayed on the implementation as known finding F-C08-2 *)
From H2 Require Import Base.Prelude Model.FsmTypes Gen.Tables Model.Types Model.StreamFSM Proofs.FsmReach Proofs.C0708Proofs.

(* "DATA or END_STREAM before the final headers ... are refused": not on a stream the peer opened *)
Theorem C08_data_before_final_headers_refuted :
  exists is, let m := run_inputs sm_new is in sm_hs m = false /\ accepted m SI_SEND_DATA = true /\ accepted m SI_SEND_END_STREAM = true.
Proof. exists [SI_RECV_HEADERS]. vm_compute. repeat split; reflexivity. Qed.

(* "a client can never ... advertise alt-svc": the IDLE state of the connection table accepts SEND_ALTERNATIVE_SERVICE whatever
   the role; advertise_alternative_service checks the role itself since fix 4e7b916 (theorem C24_client_cannot_advertise) *)

Print Assumptions C08_data_before_final_headers_refuted.
