(* C08, clauses that do NOT hold of the faithful model: witnesses, replayed on the implementation as known findings F-C08-1..3 *)
From H2 Require Import Base.Prelude Model.FsmTypes Gen.Tables Model.Types Model.StreamFSM Proofs.FsmReach Proofs.C0708Proofs.

(* "DATA or END_STREAM before the final headers ... are refused": not on a stream the peer opened *)
Theorem C08_data_before_final_headers_refuted :
  exists is, let m := run_inputs sm_new is in sm_hs m = false /\ accepted m SI_SEND_DATA = true /\ accepted m SI_SEND_END_STREAM = true.
Proof. exists [SI_RECV_HEADERS]. vm_compute. repeat split; reflexivity. Qed.

(* "a client can never ... advertise alt-svc": a connection that has not opened a stream yet is in state IDLE whatever its
   configured role, and IDLE accepts SEND_ALTERNATIVE_SERVICE (and becomes SERVER_OPEN) *)
Theorem C08_client_altsvc_refuted : conn_transition C_IDLE CI_SEND_ALTERNATIVE_SERVICE = Some C_SERVER_OPEN.
Proof. reflexivity. Qed.

Print Assumptions C08_data_before_final_headers_refuted.
Print Assumptions C08_client_altsvc_refuted.
