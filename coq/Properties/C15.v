(* C15 — Inbound header validation accepts exactly the conformant header blocks. *)
From H2 Require Import Base.Prelude Model.Types Gen.Consts Model.StreamFSM Model.Headers Model.Stream Spec.Rfc812 Proofs.C15Proofs.

Theorem C15_inbound_validation_accepts_exactly_the_conformant_blocks :
  forall cfg f hs,
  cfg_validate_in cfg = true -> hf_trailer f && hf_response f = false ->
  process_received_headers cfg f hs =
  if conformant (blk f) (delivered cfg hs) && forallb (decodable cfg) (delivered cfg hs) then Ok (delivered cfg hs) else perr.
Proof. exact (fun cfg f hs => inbound_validation_accepts_exactly_the_conformant_blocks cfg f hs). Qed.

(* with validation on, nothing but ProtocolError can come out, and what is delivered is the decoded block itself
   (cookie fields joined into one trailing never-indexed field when normalisation is on) *)
Theorem C15_inbound_refusal_is_protocol_error :
  forall cfg f hs,
  cfg_validate_in cfg = true -> hf_trailer f && hf_response f = false ->
  conformant (blk f) (delivered cfg hs) = false -> process_received_headers cfg f hs = perr.
Proof. exact (fun cfg f hs => inbound_refusal_is_protocol_error cfg f hs). Qed.

Theorem C15_inbound_delivery_is_the_decoded_block :
  forall cfg f hs,
  cfg_validate_in cfg = true -> hf_trailer f && hf_response f = false -> cfg_header_encoding cfg = false ->
  conformant (blk f) (delivered cfg hs) = true -> process_received_headers cfg f hs = Ok (delivered cfg hs).
Proof. exact (fun cfg f hs => inbound_delivery_is_the_decoded_block cfg f hs). Qed.

(* the flags H2Stream builds from the first event are never both set *)
Theorem C15_build_flags_exclusive :
  forall evs f,
  build_flags evs = Ok f -> hf_trailer f && hf_response f = false.
Proof. exact (fun evs f => build_flags_exclusive evs f). Qed.

Print Assumptions C15_inbound_validation_accepts_exactly_the_conformant_blocks.
Print Assumptions C15_inbound_refusal_is_protocol_error.
Print Assumptions C15_inbound_delivery_is_the_decoded_block.
Print Assumptions C15_build_flags_exclusive.
