(* C18 — Every connection error emits exactly one GOAWAY with the RFC-mandated code.
   [api_receive] is receive_data; [ended_by_goaway c' code]: the final state is some state c1 reached inside the
   call, closed, with exactly one frame appended: GOAWAY(last_stream_id = highest inbound id of c1, code). *)
From H2 Require Import Base.Prelude Model.FsmTypes Gen.Consts Model.Types Model.StreamFSM Model.Headers Model.ConnState Model.Connection
  Proofs.C18Proofs.

Theorem C18_receive_error_emits_exactly_one_goaway_with_the_exception_code :
  forall fs c c' e code sid rst, api_receive fs c = (c', Err e code sid rst) -> is_protocol_error e = true ->
    exists c1, c' = cset_out (cset_state c1 C_CLOSED) (c_out c1 ++ [FGoAway (c_hi_in c1) code 0]).
Proof. exact receive_error_emits_one_goaway. Qed.

Theorem C18_terminate_connection_closed_form :
  forall code c, terminate_connection code c =
    (cset_out (cset_state c C_CLOSED) (c_out c ++ [FGoAway (c_hi_in c) code 0]),
     if 8 <=? c_max_out_frame c then Ok tt else Crash AssertionError).
Proof. exact terminate_closed_form. Qed.

(* the codes of the exception classes, read from the class attributes on this run *)
Theorem C18_error_codes_of_the_exception_classes :
  exn_code FrameTooLargeError = 6 /\ exn_code FrameDataMissingError = 6 /\ exn_code FlowControlError = 3 /\
  exn_code StreamClosedError = 5 /\ exn_code DenialOfServiceError = 11 /\ exn_code ProtocolError = 1 /\
  exn_code TooManyStreamsError = 1 /\ exn_code StreamIDTooLowError = 1 /\ exn_code InvalidBodyLengthError = 1 /\
  exn_code NoSuchStreamError = 1.
Proof. exact error_code_table. Qed.

(* size violation -> FRAME_SIZE_ERROR; oversized header list -> ENHANCE_YOUR_CALM *)
Theorem C18_oversized_frame_is_rejected_as_too_large :
  forall f blen c, bad_stream_association f = false -> blen > c_max_in_frame c ->
    frame_buffer_check (c_max_in_frame c) f blen = FBReject RTooLarge.
Proof. exact too_large_frame_is_frame_size_error. Qed.

Theorem C18_oversized_header_list_is_enhance_your_calm :
  forall hs c, hl_size hs > c_dec_max_hls c -> snd (decode_headers (HDecoded hs) c) = Err DenialOfServiceError 11 0 false.
Proof. exact oversized_header_list_is_enhance_your_calm. Qed.

Print Assumptions C18_receive_error_emits_exactly_one_goaway_with_the_exception_code.
Print Assumptions C18_terminate_connection_closed_form.
Print Assumptions C18_error_codes_of_the_exception_classes.
Print Assumptions C18_oversized_frame_is_rejected_as_too_large.
Print Assumptions C18_oversized_header_list_is_enhance_your_calm.

(* in every state reachable by any history, _terminate_connection cannot trip the frame-size assertion: exactly one GOAWAY is
   appended and the call returns normally *)
From H2 Require Import Proofs.MfsInv.
Theorem C18_terminate_connection_always_succeeds :
  forall cfg os code,
    let c := run (conn_new cfg) os in
    terminate_connection code c = (cset_out (cset_state c C_CLOSED) (c_out c ++ [FGoAway (c_hi_in c) code 0]), Ok tt).
Proof.
  intros cfg os code c. rewrite terminate_closed_form. cbv zeta.
  pose proof (frame_size_limit_after_any_history cfg os) as H. fold c in H.
  destruct (8 <=? c_max_out_frame c) eqn:E; [reflexivity|lia].
Qed.
Print Assumptions C18_terminate_connection_always_succeeds.
