(* C14 — Outbound header blocks are normalised and RFC 7540 section 8.1.2 conformant. *)
From H2 Require Import Base.Prelude Model.Types Gen.Consts Model.StreamFSM Model.Headers Model.Stream Spec.Rfc812 Proofs.C15Proofs Proofs.C14Proofs.

(* what the outbound validation lets through: exactly the lists that satisfy the predicate; on refusal, the encoder has only
   consumed a proper prefix *)
Theorem C14_outbound_validation_accepts_exactly :
  forall cfg f hs,
  cfg_validate_out cfg = true -> hf_trailer f && hf_response f = false ->
  let hs1 := if cfg_normalize_out cfg then normalize_outbound hs else hs in
  outbound_pipeline cfg f hs = (if conformant_sem (blk f) hs1 then (hs1, PAll) else (fst (outbound_pipeline cfg f hs), PProtocolError)).
Proof. exact (fun cfg f hs => outbound_validation_accepts_exactly cfg f hs). Qed.

(* every field of a normalised list is spelled right except that it may be empty; no connection-specific field survives *)
Theorem C14_normalised_fields_are_lowercase_and_trimmed :
  forall hs n v ni,
  In (n, v, ni) (normalize_outbound hs) ->
  existsb upper n = false /\ no_surrounding_ws n = true /\ no_surrounding_ws v = true /\ is_in n connection_specific = false.
Proof. exact (fun hs n v ni => normalised_fields_are_lowercase_and_trimmed hs n v ni). Qed.

Theorem C14_sensitive_fields_are_never_indexed :
  forall hs n v ni,
  In (n, v, ni) (normalize_outbound hs) -> sensitive n v = true -> ni = true.
Proof. exact (fun hs n v ni => sensitive_fields_are_never_indexed hs n v ni). Qed.

Theorem C14_field_ok_split :
  forall k n v,
  field_ok k n v = spelled_ok n v && sem_ok k n v.
Proof. exact (fun k n v => field_ok_split k n v). Qed.

Print Assumptions C14_outbound_validation_accepts_exactly.
Print Assumptions C14_normalised_fields_are_lowercase_and_trimmed.
Print Assumptions C14_sensitive_fields_are_never_indexed.
Print Assumptions C14_field_ok_split.
