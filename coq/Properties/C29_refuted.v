(* C29 — call patterns that leak a non-h2 exception or append bytes although they raise (known findings). *)
From H2 Require Import Base.Prelude Model.FsmTypes Model.Types Model.ConnState Model.Connection.
Definition cfgc := mkconfig true true true true true false.
Definition cfgs := mkconfig false true true true true false.

(* F-C29-1: close_connection with additional data larger than the peer's MAX_FRAME_SIZE: AssertionError AFTER the
   oversized GOAWAY was appended *)
Theorem C29_close_connection_oversize_refuted :
  let c := run (conn_new cfgc) [OInitiate; ODrain] in
  snd (step c (OCloseConnection 0 None 70000)) = Crash AssertionError /\
  c_out (fst (step c (OCloseConnection 0 None 70000))) = [FGoAway 0 0 70000].
Proof. vm_compute. split; reflexivity. Qed.

(* F-C29-2: prioritize(0): a hyperframe exception (not an h2 one) *)
Theorem C29_prioritize_stream_zero_refuted :
  let c := run (conn_new cfgc) [OInitiate] in snd (step c (OPrioritize 0 None None None)) = Crash ForeignError.
Proof. vm_compute. reflexivity. Qed.

(* F-C29-3 (advertise_alternative_service with neither origin nor stream: TypeError) is repaired by fix c0a4c40 *)

Print Assumptions C29_close_connection_oversize_refuted.
Print Assumptions C29_prioritize_stream_zero_refuted.
