(* C11 — Settings take effect exactly when acknowledged, one frame per ACK, in order.
   [supdate] is Settings.update (one __setitem__ per pair), [sacknowledge] is Settings.acknowledge,
   [settled s]: no value is waiting for an acknowledgement.  Validation is settings._validate_setting (C12). *)
From H2 Require Import Base.Prelude Base.PyDict Model.SettingsV Model.Settings Model.Types Model.StreamFSM Model.ConnState Model.Connection
  Proofs.C11Proofs Proofs.C11Fifo.

(* __setitem__: a valid value is queued behind the value in force; an invalid one changes nothing *)
Theorem C11_setitem :
  forall k v s,
    (validate_setting k v = 0 ->
       ssetitem k v s = (dset k ((match dget k s with Some q => q | None => [None] end) ++ [Some v]) s, Ok tt)) /\
    (validate_setting k v <> 0 -> ssetitem k v s = (s, Err InvalidSettingsValueError (validate_setting k v) 0 false)).
Proof. intros. split; [apply ssetitem_ok | apply ssetitem_invalid]. Qed.

(* One SETTINGS frame (any number of distinct identifiers, known or unknown) followed by one acknowledgement,
   starting from a settled object: every identifier of the frame takes exactly the frame's value, every other
   identifier is untouched, and the object is settled again.  This is the received-SETTINGS path (applied at
   once: update then acknowledge) and the local path whenever a single frame is in flight. *)
Theorem C11_one_frame_is_applied_by_one_acknowledgement :
  forall kvs s s1, settled s -> NoDup (map fst kvs) -> supdate kvs s = (s1, Ok tt) ->
    let s2 := fst (sacknowledge s1) in
    (forall k v, lookup k kvs = Some v -> sget k s2 = Some v) /\
    (forall k, lookup k kvs = None -> dget k s2 = dget k s) /\
    settled s2.
Proof. exact one_frame_one_ack. Qed.

Theorem C11_fresh_settings_are_settled : forall client, settled (settings_defaults client).
Proof. exact settled_defaults. Qed.

(* an update_settings call that raises appends nothing to the output *)
Theorem C11_failing_update_settings_emits_nothing :
  forall kvs c c' r, 6 * zlen kvs <= c_max_out_frame c ->
    api_update_settings kvs c = (c', r) -> is_ok r = false -> c_out c' = c_out c.
Proof.
  intros kvs c c' r Hsz H Hr. unfold api_update_settings in H. unfold bind at 1 in H. unfold cfsm in H.
  destruct (Gen.Tables.conn_transition (c_state c) Model.FsmTypes.CI_SEND_SETTINGS) as [t|].
  - unfold bind at 1 in H. unfold lift_local in H. cbn [c_local cset_state] in H.
    destruct (supdate kvs (c_local c)) as [s1 r1]. destruct r1 as [[]|e co i b|p].
    + unfold prepare_for_sending in H. cbn [forallb body_len andb] in H.
      cbn [c_max_out_frame cset_local cset_state] in H. unfold zlen in H. rewrite map_length in H.
      replace (6 * Z.of_nat (length kvs) <=? c_max_out_frame c) with true in H by (symmetry; unfold zlen in *; lia).
      injection H as _ <-. discriminate.
    + injection H as <- _. reflexivity.
    + injection H as <- _. reflexivity.
  - injection H as <- _. reflexivity.
Qed.

(* Any number of SETTINGS frames in flight on ONE identifier k (queue_sends k vs: one update_settings({k: v}) per
   element of vs — supdate [(k, v)] is one ssetitem —, values may repeat; acks n: n acknowledgements): no pending
   value is in force before its acknowledgement, the (j+1)-th acknowledgement puts exactly the (j+1)-th value in force,
   and after the last one the identifier is settled on the last value.  No bound on the number of frames. *)
Theorem C11_pending_values_are_not_in_force :
  forall k vs s o, dget k s = Some [o] -> Forall (fun v => validate_setting k v = 0) vs ->
    sget k (queue_sends k vs s) = sget k s.
Proof. exact pending_values_are_not_in_force. Qed.

Theorem C11_same_identifier_acknowledged_in_order :
  forall k vs s o j v, dget k s = Some [o] -> Forall (fun v => validate_setting k v = 0) vs ->
    nth_error vs j = Some v ->
    sget k (acks (S j) (queue_sends k vs s)) = Some v.
Proof. exact same_identifier_fifo. Qed.

Theorem C11_same_identifier_settles_on_the_last_value :
  forall k vs s o v, dget k s = Some [o] -> Forall (fun v => validate_setting k v = 0) vs ->
    last (map Some vs) None = Some v ->
    dget k (acks (length vs) (queue_sends k vs s)) = Some [Some v].
Proof. exact same_identifier_settles. Qed.

(* non-vacuity: MAX_FRAME_SIZE 65536, 65536, 16384 in flight on fresh settings (a repeated value) *)
Example C11_ex_fifo :
  let s := settings_defaults true in
  dget 5 s = Some [Some 16384] /\ Forall (fun v => validate_setting 5 v = 0) [65536; 65536; 16384] /\
  map (fun n => sget 5 (acks n (queue_sends 5 [65536; 65536; 16384] s))) [0; 1; 2; 3]%nat =
  [Some 16384; Some 65536; Some 65536; Some 16384].
Proof. cbv zeta. split; [vm_compute; reflexivity|]. split; [repeat constructor | vm_compute; reflexivity]. Qed.

Example C11_ex : lookup 4 [(4, 1000); (3, 5)] = Some 1000 /\ NoDup (map fst [(4, 1000); (3, 5)]).
Proof. split; [reflexivity|]. repeat constructor; cbn; intros H; intuition discriminate. Qed.

Print Assumptions C11_setitem.
Print Assumptions C11_one_frame_is_applied_by_one_acknowledgement.
Print Assumptions C11_fresh_settings_are_settled.
Print Assumptions C11_failing_update_settings_emits_nothing.
Print Assumptions C11_pending_values_are_not_in_force.
Print Assumptions C11_same_identifier_acknowledged_in_order.
Print Assumptions C11_same_identifier_settles_on_the_last_value.
