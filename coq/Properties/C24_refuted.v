(* C24 — "servers ... are silently ignored" is refuted for an ALTSVC frame on an even stream the server application
   opened itself with send_headers (known finding F-C24-2, a consequence of F-C08-1): that stream's state machine
   has the client role, so the frame is reported as AlternativeServiceAvailable (with no origin). *)
From H2 Require Import Base.Prelude Base.PyDict Model.FsmTypes Model.Types Model.Settings Model.StreamFSM Model.Stream Model.ConnState Model.Connection.
Definition cfgs := mkconfig false true true true true false.
Definition resp : list hitem := [([58;115;116;97;116;117;115],[50;48;48],false);([115;101;114;118;101;114],[120],false)].
Definition field : bytes := [104;50;61;34;58;56;48;48;48;34].
Theorem C24_server_reports_altsvc_refuted :
  let c := run (conn_new cfgs) [OInitiate; OSendHeaders 4 resp 0 false None None None] in
  cfg_client (c_cfg c) = false /\
  snd (step c (OReceive [(RAltSvc 4 [] field, 12)])) = Ok (AEvents [EAltSvcAvailable None field]).
Proof. vm_compute. split; reflexivity. Qed.
Print Assumptions C24_server_reports_altsvc_refuted.
