(* C06 — Stream lifecycle follows the RFC 7540 section 5.1 state machine. *)
From H2 Require Import Base.Prelude Model.FsmTypes Gen.Tables Model.Types Model.StreamFSM Spec.Rfc51 Proofs.C06Proofs.

(* For EVERY state the stream object can be in (RFC state x role x headers/trailers sent/received x closed_by) and EVERY input
   (local actions and received frames), the reaction of h2's transition table and side-effect functions — accepted and new
   state / refused to the caller / stream error with its code / connection error with its code, the last two told apart
   as H2Connection._receive_frame does — is the one the reference machine of Spec/Rfc51.v prescribes, except on the pairs
   of the explicit list [divergences] (documented leniencies, internal inputs, and the undocumented divergences recorded as
   known findings).  The table is regenerated from stream._transitions on every run; the space is finite (7*3*16*5 states
   x 19 inputs) and decided completely by vm_compute.  Any interleaving of actions and frames only ever visits such
   states, so this covers every sequence; the lock-step corollary below spells that out for accepted steps. *)
Theorem C06_every_reaction_follows_the_rfc_machine :
  forall m i, pointwise_ok m i = true.
Proof. exact stream_reactions_follow_rfc. Qed.

(* the list of exceptions is exact: every listed pair does deviate *)
Theorem C06_divergence_list_is_tight :
  forallb (fun d => existsb (fun m => existsb (fun i =>
     match d with [a; b; c; _] => (a =? sstate_code (sm_state m)) && (b =? cb_code (sm_cb m)) && (c =? icode i) && deviates m i | _ => false end)
     all_sinput) all_sm) divergences = true.
Proof. exact divergences_tight. Qed.

(* what the RFC permits in a state, h2 carries out in some message context, reaching the RFC's target state *)
Theorem C06_permitted_actions_are_possible :
  forallb (fun s => forallb (fun i => permitted_somewhere s None i || listed (mksm s None false false false false None) i) all_sinput)
          [S_IDLE; S_RESERVED_REMOTE; S_RESERVED_LOCAL; S_OPEN; S_HALF_CLOSED_REMOTE; S_HALF_CLOSED_LOCAL] = true.
Proof. exact permitted_actions_possible. Qed.

(* lock-step: an accepted step moves the stream object exactly where the RFC machine goes *)
Theorem C06_accepted_steps_track_the_rfc_state :
  forall m i m' evs, consistent m = true -> listed m i = false -> process_input 7 m i = (m', Ok evs) ->
    match rfc (sm_state m) (sm_cb m) i with
    | Accept s' => sm_state m' = s'
    | Ignore | Neutral => sm_state m' = sm_state m
    | _ => False
    end.
Proof. exact accepted_step_matches. Qed.

Example C06_example_half_closed_remote_data :
  rfc S_HALF_CLOSED_REMOTE None SI_RECV_DATA = StreamError 5 /\
  lib_class (mksm S_HALF_CLOSED_REMOTE (Some false) false false true false None) SI_RECV_DATA = [2; 5].
Proof. split; reflexivity. Qed.

Print Assumptions C06_every_reaction_follows_the_rfc_machine.
Print Assumptions C06_divergence_list_is_tight.
Print Assumptions C06_permitted_actions_are_possible.
Print Assumptions C06_accepted_steps_track_the_rfc_state.
