(* C19 — a call pattern that does emit a frame on a closed connection (known finding F-C19-2).
   The witness is evaluated on the model by vm_compute; the check replays it on the implementation.
   (F-C19-1, acknowledge_received_data after close, was repaired: see known_findings.txt.) *)
From H2 Require Import Base.Prelude Model.FsmTypes Model.Types Model.ConnState Model.Connection Proofs.C19Proofs.

Definition cfgc := mkconfig true true true true true false.
Definition req : list hitem :=
  [([58;109;101;116;104;111;100],[71;69;84],false);([58;112;97;116;104],[47],false);
   ([58;115;99;104;101;109;101],[104;116;116;112;115],false);([58;97;117;116;104;111;114;105;116;121],[101;120;97;109;112;108;101;46;99;111;109],false)].

(* a naked CONTINUATION for a stream that was reset and forgotten is answered with RST_STREAM even when closed *)
Theorem C19_continuation_after_close_refuted :
  let c := run (conn_new cfgc)
             [OInitiate; OSendHeaders 1 req 13 false None None None; OResetStream 1 0; OOpenOutbound;
              OCloseConnection 0 None 0; ODrain] in
  closed c /\ c_out (fst (step c (OReceive [(RContinuation 1, 0)]))) = [FRstStream 1 5].
Proof. vm_compute. split; reflexivity. Qed.

Print Assumptions C19_continuation_after_close_refuted.
