(* Model/Connection.v — H2Connection (connection.py): public API and frame handlers as one step function. *)
From H2 Require Import Base.Prelude Base.PyDict Model.FsmTypes Gen.Consts Gen.Tables Gen.Guards
  Model.Types Model.Windows Model.WmHist Model.SettingsV Model.Settings Model.StreamFSM Model.Headers
  Model.Stream Model.ConnState.

Definition CM := M conn.

Definition conn_new (cfg : config) : conn :=
  let loc := settings_new (cfg_client cfg) local_initial_values in
  let rem := settings_new (negb (cfg_client cfg)) [] in
  mkconn cfg C_IDLE [] [] 0 0 loc rem
         (s_initial_window_size rem) (wm_new (s_initial_window_size loc))
         (s_max_frame_size rem) (s_max_frame_size loc) []
         DEFAULT_MAX_HEADER_LIST_SIZE [] [] 4096 [].

Definition client (c : conn) : bool := cfg_client (c_cfg c).

(* ---- connection state machine ---- *)
Definition cfsm (i : cinput) : CM unit :=
  fun c => match conn_transition (c_state c) i with
           | Some t => (cset_state c t, Ok tt)
           | None => (cset_state c C_CLOSED, perr)
           end.

(* ---- output ---- *)
Definition body_len (f : frame) : Z :=
  match f with
  | FHeaders _ _ _ p _ chunk => chunk + match p with Some _ => 5 | None => 0 end
  | FContinuation _ _ chunk => chunk
  | FPushPromise _ _ _ _ chunk => 4 + chunk
  | FData _ len _ pad => len + match pad with Some p => p + 1 | None => 0 end
  | FSettings _ vals => 6 * zlen vals
  | FWindowUpdate _ _ => 4
  | FPing _ _ => 8
  | FRstStream _ _ => 4
  | FPriority _ _ => 5
  | FGoAway _ _ dbg => 8 + dbg
  | FAltSvc _ origin field => 2 + zlen origin + zlen field
  end.

(* _prepare_for_sending: the bytes are appended first, the size assertion comes after *)
Definition prepare_for_sending (fs : list frame) : CM unit :=
  match fs with
  | [] => ret tt
  | _ =>
      fun c =>
        let c1 := cset_out c (c_out c ++ fs) in
        if forallb (fun f => body_len f <=? c_max_out_frame c) fs then (c1, Ok tt)
        else (c1, Crash AssertionError)
  end.

(* ---- stream table ---- *)
Definition closed_insert (sid : Z) (cb : option closedby) (d : dict (option closedby)) : dict (option closedby) :=
  let d1 := dset sid cb d in
  if g_closed_limit (zlen d1) MAX_CLOSED_STREAMS
  then drop_oldest (Z.to_nat (zlen d1 - MAX_CLOSED_STREAMS)) d1 else d1.

(* _open_streams(remainder): counts, and moves every closed stream to _closed_streams *)
Definition open_streams (remainder : Z) : CM Z :=
  fun c =>
    let ss := c_streams c in
    let count := zlen (filter (fun kv => s_open (snd kv) && (fst kv mod 2 =? remainder)) ss) in
    let dead := filter (fun kv => negb (s_open (snd kv) && (fst kv mod 2 =? remainder)) && s_closed (snd kv)) ss in
    let keep := filter (fun kv => negb (negb (s_open (snd kv) && (fst kv mod 2 =? remainder)) && s_closed (snd kv))) ss in
    let closed' := fold_left (fun d kv => closed_insert (fst kv) (s_closed_by (snd kv)) d) dead (c_closed c) in
    (cset_closed (cset_streams c keep) closed', Ok count).

Definition open_outbound_streams : CM Z := c <- get ;; open_streams (b2z (client c)).
Definition open_inbound_streams : CM Z := c <- get ;; open_streams (b2z (negb (client c))).

Definition is_outbound (c : conn) (sid : Z) : bool := sid mod 2 =? b2z (client c).
Definition highest_for (c : conn) (sid : Z) : Z := if is_outbound c sid then c_hi_out c else c_hi_in c.

Definition begin_new_stream (sid allowed : Z) : CM unit :=
  c <- get ;;
  if g_begin_low sid (highest_for c sid) then fail StreamIDTooLowError (exn_code StreamIDTooLowError) sid false
  else if g_begin_parity sid allowed then lift_res perr
  else
    modify (fun c =>
      let s := stream_new sid (s_initial_window_size (c_local c)) (s_initial_window_size (c_remote c)) (c_max_out_frame c) in
      let c1 := cset_streams c (dset sid s (c_streams c)) in
      if is_outbound c sid then cset_hi_out c1 sid else cset_hi_in c1 sid).

Definition get_or_create_stream (sid allowed : Z) : CM unit :=
  c <- get ;; if dmem sid (c_streams c) then ret tt else begin_new_stream sid allowed.

(* _get_stream_by_id: succeeds iff the id is in [streams] *)
Definition get_stream_by_id (sid : Z) : CM stream :=
  c <- get ;;
  match dget sid (c_streams c) with
  | Some s => ret s
  | None =>
      if g_get_stream_nosuch sid (highest_for c sid)
      then fail NoSuchStreamError (exn_code NoSuchStreamError) sid false
      else lift_res (scerr sid false)
  end.

(* run a stream method on streams[sid] (which must exist); the object is mutated in place *)
Definition with_stream {A} (sid : Z) (f : SM A) : CM A :=
  fun c => match dget sid (c_streams c) with
           | None => (c, Crash KeyError)
           | Some s => let '(s', r) := f s in (cset_streams c (dset sid s' (c_streams c)), r)
           end.

Definition stream_closed_by (c : conn) (sid : Z) : option closedby :=
  match dget sid (c_streams c) with
  | Some s => s_closed_by s
  | None => match dget sid (c_closed c) with Some cb => cb | None => None end
  end.
Definition closed_by_reset (c : conn) (sid : Z) : bool :=
  match stream_closed_by c sid with Some CB_RECV_RST_STREAM | Some CB_SEND_RST_STREAM => true | _ => false end.
Definition closed_by_end (c : conn) (sid : Z) : bool :=
  match stream_closed_by c sid with Some CB_RECV_END_STREAM | Some CB_SEND_END_STREAM => true | _ => false end.

(* ---- _add_frame_priority ---- *)
Definition add_frame_priority (sid : Z) (w d : option Z) (e : option bool) : res prio :=
  if match d with Some dep => g_prio_self dep sid | None => false end then perr
  else if g_prio_weight (opt_default 0 w) (match w with Some _ => true | None => false end) then perr
  else Ok (opt_default 0 d, match w with Some x => x - 1 | None => 15 end, opt_default false e).

Definition log_enc (e : option enc_entry) : CM unit :=
  match e with Some l => modify (fun c => cset_enc_log c (l :: c_enc_log c)) | None => ret tt end.

(* ================================ public API ================================ *)
Definition initiate_connection : CM unit :=
  cfsm CI_SEND_SETTINGS ;;;
  modify (fun c => cset_out c (c_out c ++ [FSettings false (s_items (c_local c))])).

Definition api_send_headers (sid : Z) (hs : list hitem) (L : Z) (end_stream : bool)
           (pw pd : option Z) (pe : option bool) : CM unit :=
  c0 <- get ;;
  (* fix 12650a7: only clients open streams by sending headers *)
  (if client c0 then ret tt else (get_stream_by_id sid ;;; ret tt)) ;;;
  (if dmem sid (c_streams c0) then ret tt
   else n <- open_outbound_streams ;;
        c <- get ;;
        if g_send_headers_mcs n (s_max_concurrent_streams (c_remote c)) true
        then fail TooManyStreamsError (exn_code TooManyStreamsError) 0 false else ret tt) ;;;
  cfsm CI_SEND_HEADERS ;;;
  c1 <- get ;;
  get_or_create_stream sid (b2z (client c1)) ;;;
  c2 <- get ;;
  r <- with_stream sid (fun s => let '(s', (r, e)) := send_headers (c_cfg c2) hs L end_stream s in (s', Ok (r, e))) ;;
  log_enc (snd r) ;;;
  frames <- lift_res (fst r) ;;
  let present := match pw, pd, pe with None, None, None => false | _, _, _ => true end in
  frames2 <- (if present then
                if negb (client c2) then fail RFC1122Error 0 0 false
                else match frames with
                     | FHeaders fsid es eh _ h ch :: rest =>
                         p <- lift_res (add_frame_priority fsid pw pd pe) ;;
                         ret (FHeaders fsid es eh (Some p) h ch :: rest)
                     | _ => crash IndexError
                     end
              else ret frames) ;;
  prepare_for_sending frames2.

Definition local_flow_control_window (sid : Z) : CM Z :=
  s <- get_stream_by_id sid ;; c <- get ;; ret (Z.min (c_out_win c) (s_out_win s)).

Definition remote_flow_control_window (sid : Z) : CM Z :=
  s <- get_stream_by_id sid ;; c <- get ;; ret (Z.min (wm_cur (c_in_wm c)) (wm_cur (s_in_wm s))).

Definition api_send_data (sid len : Z) (end_stream : bool) (pad : option Z) : CM unit :=
  (if g_send_data_pad (opt_default 0 pad) (match pad with Some _ => true | None => false end)
   then crash ValueError else ret tt) ;;;
  let fs := len + match pad with Some p => p + 1 | None => 0 end in
  w <- local_flow_control_window sid ;;
  c <- get ;;
  (if g_send_data_flow fs w then fail FlowControlError (exn_code FlowControlError) 0 false
   else if g_send_data_frame fs w (c_max_out_frame c) then fail FrameTooLargeError (exn_code FrameTooLargeError) 0 false
   else ret tt) ;;;
  cfsm CI_SEND_DATA ;;;
  frames <- with_stream sid (send_data len end_stream pad) ;;
  prepare_for_sending frames ;;;
  modify (fun c => cset_out_win c (c_out_win c - fs)) ;;;
  c' <- get ;; if c_out_win c' <? 0 then crash AssertionError else ret tt.

Definition api_end_stream (sid : Z) : CM unit :=
  cfsm CI_SEND_DATA ;;;
  get_stream_by_id sid ;;;
  frames <- with_stream sid end_stream ;;
  prepare_for_sending frames.

Definition lift_cwm {A} (f : wm -> wm * res A) : CM A :=
  fun c => let '(w, r) := f (c_in_wm c) in (cset_in_wm c w, r).

Definition api_increment_window (inc : Z) (sid : option Z) : CM unit :=
  (if g_inc_range inc then crash ValueError else ret tt) ;;;
  cfsm CI_SEND_WINDOW_UPDATE ;;;
  frames <- match sid with
            | Some i => get_stream_by_id i ;;; with_stream i (increase_flow_control_window inc)
            | None => lift_cwm (fun w => window_opened w inc) ;;; ret [FWindowUpdate 0 inc]
            end ;;
  prepare_for_sending frames.

Definition api_push_stream (sid promised : Z) (hs : list hitem) (L : Z) : CM unit :=
  c <- get ;;
  (if s_enable_push (c_remote c) =? 0 then lift_res perr else ret tt) ;;;
  cfsm CI_SEND_PUSH_PROMISE ;;;
  get_stream_by_id sid ;;;
  (if g_push_recursive sid then lift_res perr else ret tt) ;;;
  begin_new_stream promised 0 ;;;
  c2 <- get ;;
  r <- with_stream sid (fun s => let '(s', (r, e)) := push_stream_in_band (c_cfg c2) promised hs L s in (s', Ok (r, e))) ;;
  log_enc (snd r) ;;;
  frames <- lift_res (fst r) ;;
  fs2 <- with_stream promised locally_pushed ;;
  prepare_for_sending (frames ++ fs2).

Definition api_ping (payload : bytes) : CM unit :=
  (if g_ping_len (zlen payload) true then crash ValueError else ret tt) ;;;
  cfsm CI_SEND_PING ;;;
  prepare_for_sending [FPing false payload].

Definition api_reset_stream (sid code : Z) : CM unit :=
  cfsm CI_SEND_RST_STREAM ;;;
  get_stream_by_id sid ;;;
  frames <- with_stream sid (reset_stream code) ;;
  prepare_for_sending frames.

Definition api_close_connection (code : Z) (last : option Z) (dbg : Z) : CM unit :=
  cfsm CI_SEND_GOAWAY ;;;
  c <- get ;;
  prepare_for_sending [FGoAway (opt_default (c_hi_in c) last) code dbg].

Definition lift_local {A} (f : settings -> settings * res A) : CM A :=
  fun c => let '(s, r) := f (c_local c) in (cset_local c s, r).
Definition lift_remote {A} (f : settings -> settings * res A) : CM A :=
  fun c => let '(s, r) := f (c_remote c) in (cset_remote c s, r).

Definition api_update_settings (kvs : list (Z * Z)) : CM unit :=
  cfsm CI_SEND_SETTINGS ;;;
  lift_local (supdate kvs) ;;;
  (* hyperframe 6.1 serialises each identifier `& 0xFF`: what reaches the wire (and the peer) *)
  prepare_for_sending [FSettings false (map (fun kv => (fst kv mod 256, snd kv)) kvs)].

Definition api_advertise_alt_svc (field : bytes) (origin : option bytes) (sid : option Z) : CM unit :=
  match origin, sid with
  | Some _, Some _ => crash ValueError
  | None, None => crash ValueError                   (* fix c0a4c40 *)
  | _, _ =>
      c <- get ;;
      (if client c then lift_res perr else ret tt) ;;;   (* fix 4e7b916: only servers advertise *)
      cfsm CI_SEND_ALTERNATIVE_SERVICE ;;;
      frames <- match origin, sid with
                | Some o, _ => ret [FAltSvc 0 o field]
                | None, Some i => get_stream_by_id i ;;; with_stream i (advertise_alt_svc field)
                | None, None => crash ValueError
                end ;;
      prepare_for_sending frames
  end.

Definition api_prioritize (sid : Z) (w d : option Z) (e : option bool) : CM unit :=
  c <- get ;;
  if negb (client c) then fail RFC1122Error 0 0 false
  else
    cfsm CI_SEND_PRIORITY ;;;
    (if sid =? 0 then crash ForeignError else ret tt) ;;;
    p <- lift_res (add_frame_priority sid w d e) ;;
    prepare_for_sending [FPriority sid p].

Definition api_acknowledge_received_data (n sid : Z) : CM unit :=
  (if g_ack_sid sid then crash ValueError else ret tt) ;;;
  (if g_ack_size n then crash ValueError else ret tt) ;;;
  c <- get ;;
  if cstate_eqb (c_state c) C_CLOSED then ret tt       (* a closed connection emits nothing *)
  else
    (* the stream is looked up first: an unknown id raises before anything is credited *)
    (match dget sid (c_streams c) with
     | Some _ => ret tt
     | None => if g_get_stream_nosuch sid (highest_for c sid)
               then fail NoSuchStreamError (exn_code NoSuchStreamError) sid false
               else ret tt
     end) ;;;
    o <- lift_cwm (fun w => let '(w', o) := process_bytes w n in (w', Ok o)) ;;
    let f1 := match wm_increment o with Some inc => [FWindowUpdate 0 inc] | None => [] end in
    f2 <- match dget sid (c_streams c) with
          | Some s => if s_open s then with_stream sid (acknowledge_received_data n) else ret []
          | None => ret []
          end ;;
    prepare_for_sending (f1 ++ f2).

Definition api_next_stream_id : CM Z :=
  c <- get ;;
  let nxt := if c_hi_out c =? 0 then (if client c then 1 else 2) else c_hi_out c + 2 in
  if g_next_id_exhausted nxt then fail NoAvailableStreamIDError (exn_code NoAvailableStreamIDError) 0 false
  else ret nxt.

(* ================================ receiving ================================ *)
Definition for_streams (f : stream -> stream * res unit) : CM unit :=
  fun c =>
    let fix go (l : dict stream) : dict stream * res unit :=
        match l with
        | [] => ([], Ok tt)
        | (k, s) :: r =>
            let '(s', res1) := f s in
            match res1 with
            | Ok _ => let '(r', res2) := go r in ((k, s') :: r', res2)
            | _ => ((k, s') :: r, res1)
            end
        end in
    let '(ss, r) := go (c_streams c) in (cset_streams c ss, r).

Definition flow_control_change_from_settings (old new : Z) : CM unit :=
  for_streams (fun s => match guard_increment_window (s_out_win s) (new - old) with
                        | Ok w => (set_out_win s w, Ok tt)
                        | Err e c i b => (s, Err e c i b)
                        | Crash p => (s, Crash p)
                        end).

Definition acknowledge_settings : CM (list frame) :=
  cfsm CI_SEND_SETTINGS ;;;
  ch <- lift_remote (fun s => let '(s', ch) := sacknowledge s in (s', Ok ch)) ;;
  match changed_lookup SC_INITIAL_WINDOW_SIZE ch with
  | Some (old, new) => flow_control_change_from_settings (opt_default 0 old) new
  | None => ret tt
  end ;;;
  match changed_lookup SC_HEADER_TABLE_SIZE ch with
  | Some (_, new) => modify (fun c => cset_enc_table_size c new)
  | None => ret tt
  end ;;;
  match changed_lookup SC_MAX_FRAME_SIZE ch with
  | Some (_, new) =>
      modify (fun c => cset_streams (cset_max_out_frame c new) (dmapv (fun s => set_max_out_frame s new) (c_streams c)))
  | None => ret tt
  end ;;;
  ret [FSettings true []].

Definition local_settings_acked : CM (list (Z * option Z * Z)) :=
  ch <- lift_local (fun s => let '(s', ch) := sacknowledge s in (s', Ok ch)) ;;
  match changed_lookup SC_INITIAL_WINDOW_SIZE ch with
  | Some (old, new) => for_streams (inbound_iws_change (new - opt_default 0 old))
  | None => ret tt
  end ;;;
  match changed_lookup SC_MAX_HEADER_LIST_SIZE ch with
  | Some (_, new) => modify (fun c => cset_dec_max_hls c new)
  | None => ret tt
  end ;;;
  match changed_lookup SC_MAX_FRAME_SIZE ch with
  | Some (_, new) => modify (fun c => cset_max_in_frame c new)
  | None => ret tt
  end ;;;
  ret ch.

Definition decode_headers (d : hdec) : CM (list hitem) :=
  modify (fun c => cset_dec_log c (d :: c_dec_log c)) ;;;
  c <- get ;;
  match d with
  | HDecodeError => lift_res perr
  | HDecoded hs =>
      if hl_size hs >? c_dec_max_hls c
      then fail DenialOfServiceError (exn_code DenialOfServiceError) 0 false
      else ret hs
  end.

Definition recv_priority (sid : Z) (p : prio) : CM (list event) :=
  cfsm CI_RECV_PRIORITY ;;;
  let '(dep, w, ex) := p in
  if g_recv_prio_self dep sid then lift_res perr
  else ret [EPriorityUpdated sid (w + 1) dep ex].

Definition set_prio_upd (e : event) (off : Z) : event :=
  match e with
  | ERequestReceived s h en _ => ERequestReceived s h en (Some off)
  | EResponseReceived s h en _ => EResponseReceived s h en (Some off)
  | ETrailersReceived s h en _ => ETrailersReceived s h en (Some off)
  | EInformationalResponseReceived s h _ => EInformationalResponseReceived s h (Some off)
  | _ => e
  end.

Definition recv_headers (sid : Z) (es : bool) (p : option prio) (d : hdec) : CM (list frame * list event) :=
  c0 <- get ;;
  (if dmem sid (c_streams c0) then ret tt
   else n <- open_inbound_streams ;;
        c <- get ;;
        if g_recv_headers_mcs n (s_max_concurrent_streams (c_local c)) true
        then fail TooManyStreamsError (exn_code TooManyStreamsError) 0 false else ret tt) ;;;
  hs <- decode_headers d ;;
  cfsm CI_RECV_HEADERS ;;;
  c1 <- get ;;
  (* fix 09dbf89: a client refuses HEADERS that would open a server-initiated stream *)
  (if g_recv_headers_unpromised sid (c_hi_in c1) (client c1) (negb (dmem sid (c_streams c1)))
   then lift_res perr else ret tt) ;;;
  get_or_create_stream sid (b2z (negb (client c1))) ;;;
  evs <- with_stream sid (receive_headers (c_cfg c1) hs es) ;;
  match p with
  | None => ret ([], evs)
  | Some pr =>
      pe <- recv_priority sid pr ;;
      match evs with
      | e0 :: rest => ret ([], set_prio_upd e0 (zlen evs) :: rest ++ pe)
      | [] => crash IndexError
      end
  end.

Definition recv_push_promise (sid promised : Z) (d : hdec) : CM (list frame * list event) :=
  c0 <- get ;;
  (if s_enable_push (c_local c0) =? 0 then lift_res perr else ret tt) ;;;
  hs <- decode_headers d ;;
  cfsm CI_RECV_PUSH_PROMISE ;;;
  c <- get ;;
  match dget sid (c_streams c) with
  | None =>
      match stream_closed_by c sid with
      | Some CB_SEND_RST_STREAM => ret ([FRstStream promised EC_REFUSED_STREAM], [])
      | _ => lift_res perr
      end
  | Some _ =>
      if g_recv_push_recursive sid then lift_res perr
      else
        fun c' =>
          let '(c2, r) := with_stream sid (receive_push_promise_in_band (c_cfg c) promised hs) c' in
          match r with
          | Err StreamClosedError _ _ _ => (c2, Ok ([FRstStream promised EC_REFUSED_STREAM], []))
          | Err e co i b => (c2, Err e co i b)
          | Crash q => (c2, Crash q)
          | Ok evs =>
              (begin_new_stream promised 0 ;;;
               with_stream promised (remotely_pushed hs) ;;;
               ret ([], evs)) c2
          end
  end.

Definition recv_data (sid len fclen : Z) (es : bool) : CM (list frame * list event) :=
  cfsm CI_RECV_DATA ;;;
  lift_cwm (fun w => window_consumed w fclen) ;;;
  fun c =>
    let '(c1, r) := (get_stream_by_id sid ;;; with_stream sid (receive_data len fclen es)) c in
    match r with
    | Ok evs => (c1, Ok ([], evs))
    | Err StreamClosedError code esid rst =>
        (* _handle_data_on_closed_stream *)
        let '(w', o) := process_bytes (c_in_wm c1) fclen in
        let f1 := match wm_increment o with Some inc => [FWindowUpdate 0 inc] | None => [] end in
        (cset_in_wm c1 w',
         Ok (f1 ++ [FRstStream esid code], if rst then [EStreamReset esid EC_STREAM_CLOSED false] else []))
    | Err e co i b => (c1, Err e co i b)
    | Crash q => (c1, Crash q)
    end.

Definition changed_event (c : conn) (kvs : list (Z * Z)) : list (Z * option Z * Z) :=
  map (fun kv => (fst kv, sget (fst kv) (c_remote c), snd kv)) kvs.

Definition recv_settings (ack : bool) (vals : list (Z * Z)) : CM (list frame * list event) :=
  cfsm CI_RECV_SETTINGS ;;;
  if ack then
    ch <- local_settings_acked ;; ret ([], [ESettingsAcknowledged ch])
  else
    let kvs := pairs_to_dict vals [] in
    lift_remote (supdate kvs) ;;;
    c <- get ;;
    let ev := ERemoteSettingsChanged (changed_event c kvs) in
    fs <- acknowledge_settings ;;
    ret (fs, [ev]).

Definition recv_window_update (sid inc : Z) : CM (list frame * list event) :=
  cfsm CI_RECV_WINDOW_UPDATE ;;;
  if negb (sid =? 0) then
    fun c =>
      let '(c1, r) := (get_stream_by_id sid ;;; with_stream sid (receive_window_update inc)) c in
      match r with
      | Err StreamClosedError _ _ _ => (c1, Ok ([], []))
      | _ => (c1, r)
      end
  else
    c <- get ;;
    w <- lift_res (guard_increment_window (c_out_win c) inc) ;;
    modify (fun c => cset_out_win c w) ;;;
    ret ([], [EWindowUpdated 0 inc]).

Definition recv_ping (ack : bool) (payload : bytes) : CM (list frame * list event) :=
  cfsm CI_RECV_PING ;;;
  if ack then ret ([], [EPingAckReceived payload])
  else ret ([FPing true payload], [EPingReceived payload]).

Definition recv_rst_stream (sid code : Z) : CM (list frame * list event) :=
  cfsm CI_RECV_RST_STREAM ;;;
  c <- get ;;
  match dget sid (c_streams c) with
  | None => ret ([], [])
  | Some _ => evs <- with_stream sid (stream_reset code) ;; ret ([], evs)
  end.

Definition recv_goaway (last code dbg : Z) : CM (list frame * list event) :=
  cfsm CI_RECV_GOAWAY ;;;
  modify (fun c => cset_out c []) ;;;
  ret ([], [EConnectionTerminated code last dbg]).

Definition recv_naked_continuation (sid : Z) : CM (list frame * list event) :=
  get_stream_by_id sid ;;;
  with_stream sid receive_continuation ;;;
  crash AssertionError.

Definition recv_alt_svc (sid : Z) (origin field : bytes) : CM (list frame * list event) :=
  cfsm CI_RECV_ALTERNATIVE_SERVICE ;;;
  c <- get ;;
  if negb (sid =? 0) then
    match dget sid (c_streams c) with
    | None => ret ([], [])
    | Some _ => evs <- with_stream sid (receive_alt_svc origin field) ;; ret ([], evs)
    end
  else
    match origin with
    | [] => ret ([], [])
    | _ => if negb (client c) then ret ([], []) else ret ([], [EAltSvcAvailable (Some origin) field])
    end.

Definition dispatch (f : rframe) : CM (list frame * list event) :=
  match f with
  | RHeaders sid es p d => recv_headers sid es p d
  | RPushPromise sid promised d => recv_push_promise sid promised d
  | RData sid len fclen es => recv_data sid len fclen es
  | RSettings ack vals => recv_settings ack vals
  | RWindowUpdate sid inc => recv_window_update sid inc
  | RPing ack payload => recv_ping ack payload
  | RRstStream sid code => recv_rst_stream sid code
  | RPriority sid p => evs <- recv_priority sid p ;; ret ([], evs)
  | RGoAway last code dbg => recv_goaway last code dbg
  | RContinuation sid => recv_naked_continuation sid
  | RAltSvc sid origin field => recv_alt_svc sid origin field
  | RUnknown ft sid => ret ([], [EUnknownFrameReceived ft])
  | RTooLarge => fail FrameTooLargeError (exn_code FrameTooLargeError) 0 false
  | RBadBody k =>
      if k =? 0 then lift_res perr
      else if k =? 1 then fail FrameDataMissingError (exn_code FrameDataMissingError) 0 false
      else crash ForeignError        (* InvalidPaddingError: handled in receive_data *)
  end.

(* _receive_frame *)
Definition receive_frame (f : rframe) : CM (list event) :=
  fun c =>
    let '(c1, r) := dispatch f c in
    match r with
    | Ok (frames, evs) => (prepare_for_sending frames ;;; ret evs) c1
    | Err StreamClosedError code sid rst =>
        if closed_by_reset c1 sid
        then (prepare_for_sending [FRstStream sid code] ;;;
              ret (if rst then [EStreamReset sid EC_STREAM_CLOSED false] else [])) c1
        else (c1, Err StreamClosedError code sid rst)
    | Err StreamIDTooLowError code sid rst =>
        if closed_by_reset c1 sid then (prepare_for_sending [FRstStream sid EC_STREAM_CLOSED] ;;; ret []) c1
        else if closed_by_end c1 sid then (c1, scerr sid false)
        else (c1, Err StreamIDTooLowError code sid rst)
    | Err e code sid rst => (c1, Err e code sid rst)
    | Crash p => (c1, Crash p)
    end.

Definition terminate_connection (code : Z) : CM unit :=
  c <- get ;;
  cfsm CI_SEND_GOAWAY ;;;
  prepare_for_sending [FGoAway (c_hi_in c) code 0].

(* hyperframe's Frame.__init__ (via parse_frame_header): stream association of each frame type *)
Definition bad_stream_association (f : rframe) : bool :=
  match f with
  | RHeaders sid _ _ _ | RPushPromise sid _ _ | RData sid _ _ _ | RRstStream sid _ | RPriority sid _
  | RContinuation sid => sid =? 0
  | _ => false
  end.
(* PushPromiseFrame.parse_body: the promised id must be even and non-zero (InvalidDataError) *)
Definition bad_promised_id (f : rframe) : bool :=
  match f with
  | RPushPromise _ promised _ => (promised =? 0) || negb (promised mod 2 =? 0)
  | _ => false
  end.

(* what FrameBuffer.__next__ does with the frame at the head of the buffer *)
Inductive fbres := FBYield | FBReject (r : rframe).
Definition frame_buffer_check (limit : Z) (f : rframe) (blen : Z) : fbres :=
  if bad_stream_association f then FBReject (RBadBody 0)
  else if g_fb_len blen limit then FBReject RTooLarge
  else if bad_promised_id f then FBReject (RBadBody 0)
  else match f with RBadBody _ | RTooLarge => FBReject f | _ => FBYield end.

(* receive_data: the new bytes are appended to the buffer; frames are taken from its head one by
   one; a frame the buffer rejects stays there.  The frame-size limit in force is the acknowledged
   MAX_FRAME_SIZE at the moment each frame is taken (an ACK updates the buffer's limit at once).
   No handler reads or writes the byte buffer, so the frames still to come are threaded as an argument
   and written back to c_inbuf when the call returns. *)

(* the except clauses of receive_data *)
Definition recv_except (c1 : conn) (res1 : res (list event)) : conn * res (list event) :=
  match res1 with
  | Ok evs => (c1, Ok evs)
  | Err e code sid rst =>
      if is_protocol_error e then
        let '(c2, res2) := terminate_connection code c1 in
        match res2 with
        | Ok _ => (c2, Err e code sid rst)
        | Err e2 a b d => (c2, Err e2 a b d)
        | Crash p => (c2, Crash p)
        end
      else (c1, Err e code sid rst)
  | Crash ForeignError =>
      (* InvalidPaddingError *)
      let '(c2, res2) := terminate_connection EC_PROTOCOL_ERROR c1 in
      match res2 with
      | Ok _ => (c2, perr)
      | Err e2 a b d => (c2, Err e2 a b d)
      | Crash p => (c2, Crash p)
      end
  | Crash p => (c1, Crash p)
  end.

(* -> final state, events or the exception, frames left in the buffer *)
Fixpoint recv_core (fs : list (rframe * Z)) (acc : list event) (c : conn) : conn * res (list event) * list (rframe * Z) :=
  match fs with
  | [] => (c, Ok acc, [])
  | (f, blen) :: rest =>
      match frame_buffer_check (c_max_in_frame c) f blen with
      | FBReject r =>
          let '(c1, res1) := (dispatch r ;;; ret []) c in
          match res1 with
          | Ok evs => recv_core rest (acc ++ evs) c1
          | _ => let '(c2, r2) := recv_except c1 res1 in (c2, r2, (f, blen) :: rest)
          end
      | FBYield =>
          let '(c1, res1) := receive_frame f c in
          match res1 with
          | Ok evs => recv_core rest (acc ++ evs) c1
          | _ => let '(c2, r2) := recv_except c1 res1 in (c2, r2, rest)
          end
      end
  end.

Definition api_receive (fs : list (rframe * Z)) : CM (list event) :=
  fun c => let '(c', r, rem) := recv_core (c_inbuf c ++ fs) [] c in (cset_inbuf c' rem, r).

(* initiate_upgrade_connection; [hdr]: the settings carried by the HTTP2-Settings value (servers) *)
Definition api_initiate_upgrade (hdr : option (list (Z * Z))) : CM (list (Z * Z)) :=
  initiate_connection ;;;
  c <- get ;;
  (if client c then ret tt
   else match hdr with
        | Some vals => recv_settings false vals ;;; ret tt
        | None => ret tt
        end) ;;;
  cfsm (if client c then CI_SEND_HEADERS else CI_RECV_HEADERS) ;;;
  begin_new_stream 1 1 ;;;
  with_stream 1 (upgrade (client c)) ;;;
  c' <- get ;;
  ret (if client c then s_items (c_local c') else []).

(* ================================ operations ================================ *)
Inductive op :=
| OInitiate
| OInitiateUpgrade (hdr : option (list (Z * Z)))
| OSendHeaders (sid : Z) (hs : list hitem) (L : Z) (end_stream : bool) (pw pd : option Z) (pe : option bool)
| OSendData (sid len : Z) (end_stream : bool) (pad : option Z)
| OEndStream (sid : Z)
| OIncrementWindow (inc : Z) (sid : option Z)
| OPushStream (sid promised : Z) (hs : list hitem) (L : Z)
| OPing (payload : bytes)
| OResetStream (sid code : Z)
| OCloseConnection (code : Z) (last : option Z) (dbg : Z)
| OUpdateSettings (kvs : list (Z * Z))
| OAdvertiseAltSvc (field : bytes) (origin : option bytes) (sid : option Z)
| OPrioritize (sid : Z) (w d : option Z) (e : option bool)
| OAcknowledge (n sid : Z)
| ONextStreamId
| OLocalWindow (sid : Z)
| ORemoteWindow (sid : Z)
| OOpenOutbound
| OOpenInbound
| ODrain                      (* data_to_send() *)
| OReceive (fs : list (rframe * Z)).

Inductive answer := ANone | AZ (z : Z) | AEvents (evs : list event) | ASettings (vals : list (Z * Z)).

Definition as_none (m : CM unit) : CM answer := m ;;; ret ANone.
Definition as_z (m : CM Z) : CM answer := z <- m ;; ret (AZ z).

Definition step (c : conn) (o : op) : conn * res answer :=
  match o with
  | OInitiate => as_none initiate_connection c
  | OInitiateUpgrade hdr => (v <- api_initiate_upgrade hdr ;; ret (ASettings v)) c
  | OSendHeaders sid hs L es pw pd pe => as_none (api_send_headers sid hs L es pw pd pe) c
  | OSendData sid len es pad => as_none (api_send_data sid len es pad) c
  | OEndStream sid => as_none (api_end_stream sid) c
  | OIncrementWindow inc sid => as_none (api_increment_window inc sid) c
  | OPushStream sid promised hs L => as_none (api_push_stream sid promised hs L) c
  | OPing payload => as_none (api_ping payload) c
  | OResetStream sid code => as_none (api_reset_stream sid code) c
  | OCloseConnection code last dbg => as_none (api_close_connection code last dbg) c
  | OUpdateSettings kvs => as_none (api_update_settings kvs) c
  | OAdvertiseAltSvc field origin sid => as_none (api_advertise_alt_svc field origin sid) c
  | OPrioritize sid w d e => as_none (api_prioritize sid w d e) c
  | OAcknowledge n sid => as_none (api_acknowledge_received_data n sid) c
  | ONextStreamId => as_z api_next_stream_id c
  | OLocalWindow sid => as_z (local_flow_control_window sid) c
  | ORemoteWindow sid => as_z (remote_flow_control_window sid) c
  | OOpenOutbound => as_z open_outbound_streams c
  | OOpenInbound => as_z open_inbound_streams c
  | ODrain => (cset_out c [], Ok ANone)
  | OReceive fs => (evs <- api_receive fs ;; ret (AEvents evs)) c
  end.

Definition run (c : conn) (os : list op) : conn := fold_left (fun c o => fst (step c o)) os c.
