(* Model/Headers.v — h2/utilities.py header pipelines over byte strings.
   The Python pipelines are chains of generators consumed lazily (by the HPACK encoder when sending,
   by list() when receiving): header k passes every stage before header k+1 is looked at, and the
   end-of-block checks run when the source is exhausted.  The functions below therefore return the
   prefix that reached the consumer together with the outcome. *)
From H2 Require Import Base.Prelude Model.Types Gen.Consts Gen.Guards.

Definition B (l : list Z) : bytes := l.
Definition b_authority : bytes := [58;97;117;116;104;111;114;105;116;121].
Definition b_method : bytes := [58;109;101;116;104;111;100].
Definition b_path : bytes := [58;112;97;116;104].
Definition b_scheme : bytes := [58;115;99;104;101;109;101].
Definition b_status : bytes := [58;115;116;97;116;117;115].
Definition b_protocol : bytes := [58;112;114;111;116;111;99;111;108].
Definition b_host : bytes := [104;111;115;116].
Definition b_te : bytes := [116;101].
Definition b_trailers : bytes := [116;114;97;105;108;101;114;115].
Definition b_cookie : bytes := [99;111;111;107;105;101].
Definition b_content_length : bytes := [99;111;110;116;101;110;116;45;108;101;110;103;116;104].
Definition b_CONNECT : bytes := [67;79;78;78;69;67;84].
Definition b_HEAD : bytes := [72;69;65;68].

Definition mem_bytes (x : bytes) (l : list bytes) : bool := existsb (bytes_eqb x) l.
Definition is_ws (c : Z) : bool := existsb (Z.eqb c) WHITESPACE.
Definition is_upper (c : Z) : bool := (65 <=? c) && (c <=? 90).
Definition lower_byte (c : Z) : Z := if is_upper c then c + 32 else c.
Definition lower (b : bytes) : bytes := map lower_byte b.
Fixpoint lstrip (b : bytes) : bytes := match b with c :: r => if is_ws c then lstrip r else b | [] => [] end.
Definition strip (b : bytes) : bytes := rev (lstrip (rev (lstrip b))).
Definition starts_colon (b : bytes) : bool := match b with 58 :: _ => true | _ => false end.

Record hflags := mkhflags { hf_trailer : bool; hf_response : bool; hf_push : bool }.

(* ---- helpers used by H2Stream ---- *)
Fixpoint is_informational_response (hs : list header) : bool :=
  match hs with
  | [] => false
  | (n, v) :: r =>
      if negb (starts_colon n) then false
      else if bytes_eqb n b_status then (match v with 49 :: _ => true | _ => false end)
      else is_informational_response r
  end.

Fixpoint authority_from_headers (hs : list header) : option bytes :=
  match hs with [] => None | (n, v) :: r => if bytes_eqb n b_authority then Some v else authority_from_headers r end.

Fixpoint extract_method_header (hs : list header) : option bytes :=
  match hs with [] => None | (n, v) :: r => if bytes_eqb n b_method then Some v else extract_method_header r end.

(* int(v, 10) on a bytes value: optional sign and surrounding whitespace are accepted by Python, '_' separators too;
   the model accepts plain digit strings and an optional leading '+'/'-' and treats everything else as ValueError. *)
Fixpoint digits_val (acc : Z) (b : bytes) : option Z :=
  match b with
  | [] => Some acc
  | c :: r => if (48 <=? c) && (c <=? 57) then digits_val (acc * 10 + (c - 48)) r else None
  end.
Definition parse_int (b : bytes) : option Z :=
  match strip b with
  | [] => None
  | 43 :: r => match r with [] => None | _ => digits_val 0 r end
  | 45 :: r => match r with [] => None | _ => option_map Z.opp (digits_val 0 r) end
  | r => digits_val 0 r
  end.

Fixpoint find_content_length (hs : list header) : option bytes :=
  match hs with [] => None | (n, v) :: r => if bytes_eqb n b_content_length then Some v else find_content_length r end.

(* ---- the validation stages, one header at a time ---- *)
Record vstate := mkvs {
  vs_pseudo : list bytes;      (* seen_pseudo_header_fields *)
  vs_regular : bool;           (* seen_regular_header *)
  vs_method : option bytes;
  vs_authority : option bytes;
  vs_host : option bytes
}.
Definition vs0 : vstate := mkvs [] false None None None.

Inductive vres := VOk (s : vstate) | VProtocolError | VIndexError | VUnicodeError.

Definition skip_req_checks (f : hflags) : bool := hf_response f || hf_trailer f.

Definition check_upper (n : bytes) : bool := existsb is_upper n.                       (* true = reject *)
Definition check_ws (n v : bytes) : vres :=
  match n with
  | [] => VProtocolError                                                              (* an empty name is refused *)
  | c :: _ =>
      if is_ws c || is_ws (last n 0) then VProtocolError
      else match v with
           | [] => VOk vs0
           | d :: _ => if is_ws d || is_ws (last v 0) then VProtocolError else VOk vs0
           end
  end.
Definition check_te (n v : bytes) : bool := bytes_eqb n b_te && negb (bytes_eqb (lower v) b_trailers).
Definition check_conn (n : bytes) : bool := mem_bytes n CONNECTION_HEADERS.

Definition step_pseudo (s : vstate) (n v : bytes) : vres :=
  if starts_colon n then
    if mem_bytes n (vs_pseudo s) then VProtocolError
    else if vs_regular s then VProtocolError
    else if negb (mem_bytes n ALLOWED_PSEUDO_HEADER_FIELDS) then VProtocolError
    else VOk (mkvs (n :: vs_pseudo s) (vs_regular s)
                   (if bytes_eqb n b_method then Some v else vs_method s) (vs_authority s) (vs_host s))
  else VOk (mkvs (vs_pseudo s) true (vs_method s) (vs_authority s) (vs_host s)).

Definition step_host (f : hflags) (s : vstate) (n v : bytes) : vstate :=
  if skip_req_checks f then s
  else if bytes_eqb n b_authority then mkvs (vs_pseudo s) (vs_regular s) (vs_method s) (Some v) (vs_host s)
  else if bytes_eqb n b_host then mkvs (vs_pseudo s) (vs_regular s) (vs_method s) (vs_authority s) (Some v)
  else s.

Definition check_path (f : hflags) (n v : bytes) : bool :=
  negb (skip_req_checks f) && bytes_eqb n b_path && match v with [] => true | _ => false end.

(* one header through the stages shared by both directions: te, connection, pseudo, host/authority, path *)
Definition step_common (f : hflags) (s : vstate) (n v : bytes) : vres :=
  if check_te n v then VProtocolError
  else if check_conn n then VProtocolError
  else match step_pseudo s n v with
       | VOk s1 => if check_path f n v then VProtocolError else VOk (step_host f s1 n v)
       | r => r
       end.

Definition step_inbound (f : hflags) (s : vstate) (n v : bytes) : vres :=
  if check_upper n then VProtocolError
  else match check_ws n v with
       | VOk _ => step_common f s n v
       | r => r
       end.

Definition has (n : bytes) (s : vstate) : bool := mem_bytes n (vs_pseudo s).

(* _check_pseudo_header_field_acceptability, then _validate_host_authority_header's epilogue *)
Definition end_checks (f : hflags) (s : vstate) : bool :=   (* true = reject *)
  let ps := vs_pseudo s in
  if hf_trailer f && negb (match ps with [] => true | _ => false end) then true
  else if hf_response f then
    negb (has b_status s) || existsb (fun p => mem_bytes p REQUEST_ONLY_HEADERS) ps
  else if negb (hf_trailer f) then
    negb (has b_path s) || negb (has b_method s) || negb (has b_scheme s)
    || existsb (fun p => mem_bytes p RESPONSE_ONLY_HEADERS) ps
    || (negb (match vs_method s with Some m => bytes_eqb m b_CONNECT | None => false end)
        && existsb (fun p => mem_bytes p CONNECT_REQUEST_ONLY_HEADERS) ps)
    || match vs_authority s, vs_host s with
       | None, None => true
       | Some a, Some h => negb (bytes_eqb a h)
       | _, _ => false
       end
  else false.

Inductive pres := PAll | PProtocolError | PIndexError | PUnicodeError.

(* run a per-header step over a list; returns how many headers passed all stages *)
Fixpoint run_steps (step : vstate -> bytes -> bytes -> vres) (s : vstate) (hs : list hitem) (passed : list hitem)
  : list hitem * pres * vstate :=
  match hs with
  | [] => (rev passed, PAll, s)
  | (n, v, ni) :: r =>
      match step s n v with
      | VOk s1 => run_steps step s1 r ((n, v, ni) :: passed)
      | VProtocolError => (rev passed, PProtocolError, s)
      | VIndexError => (rev passed, PIndexError, s)
      | VUnicodeError => (rev passed, PUnicodeError, s)
      end
  end.

(* ---- outbound ---- *)
Definition secure (h : hitem) : hitem :=
  let '(n, v, ni) := h in
  if mem_bytes n SECURE_HEADERS then (n, v, true)
  else if g_secure_cookie (zlen v) (bytes_eqb n b_cookie) then (n, v, true)
  else h.

Definition normalize_outbound (hs : list hitem) : list hitem :=
  map secure
    (filter (fun h => negb (mem_bytes (fst (fst h)) CONNECTION_HEADERS))
       (map (fun h => let '(n, v, ni) := h in (strip (lower n), strip v, ni)) hs)).

(* what the encoder consumed, and whether the call raised *)
Definition outbound_pipeline (cfg : config) (f : hflags) (hs : list hitem) : list hitem * pres :=
  let hs1 := if cfg_normalize_out cfg then normalize_outbound hs else hs in
  if cfg_validate_out cfg then
    let '(passed, r, s) := run_steps (step_common f) vs0 hs1 [] in
    match r with
    | PAll => if end_checks f s then (passed, PProtocolError) else (passed, PAll)
    | _ => (passed, r)
    end
  else (hs1, PAll).

(* ---- inbound ---- *)
Fixpoint join_cookies (cs : list bytes) : bytes :=
  match cs with [] => [] | [c] => c | c :: r => c ++ [59; 32] ++ join_cookies r end.

Definition combine_cookies (hs : list hitem) : list hitem :=
  let cookies := map (fun h => snd (fst h)) (filter (fun h => bytes_eqb (fst (fst h)) b_cookie) hs) in
  let others := filter (fun h => negb (bytes_eqb (fst (fst h)) b_cookie)) hs in
  match cookies with [] => others | _ => others ++ [(b_cookie, join_cookies cookies, true)] end.

(* under the generator convention: bytes >= 128 only ever are 0xFE / 0xFF, which no UTF-8 text contains *)
Definition undecodable (b : bytes) : bool := existsb (fun c => c >=? 128) b.

Inductive ires := IOk (hs : list hitem) | IProtocolError | IIndexError | IUnicodeError.

(* the last stage, _decode_headers(headers, encoding), is per header too *)
Definition step_inbound_full (cfg : config) (f : hflags) (s : vstate) (n v : bytes) : vres :=
  match (if cfg_validate_in cfg then step_inbound f s n v else VOk s) with
  | VOk s1 => if cfg_header_encoding cfg && (undecodable n || undecodable v) then VUnicodeError else VOk s1
  | r => r
  end.

Definition inbound_pipeline (cfg : config) (f : hflags) (hs : list hitem) : ires :=
  let hs1 := if cfg_normalize_in cfg then combine_cookies hs else hs in
  let '(passed, r, s) := run_steps (step_inbound_full cfg f) vs0 hs1 [] in
  match r with
  | PAll => if cfg_validate_in cfg && end_checks f s then IProtocolError else IOk hs1
  | PProtocolError => IProtocolError
  | PIndexError => IIndexError
  | PUnicodeError => IUnicodeError
  end.

Definition plain (hs : list hitem) : list header := map fst hs.

(* RFC 7541 4.1 size of a header list, as hpack's decoder accumulates it *)
Definition hl_size (hs : list hitem) : Z :=
  fold_right (fun h acc => zlen (fst (fst h)) + zlen (snd (fst h)) + 32 + acc) 0 hs.
