(* Model/Settings.v — h2.settings.Settings: per-key deques of values, head = value in force. *)
From H2 Require Import Base.Prelude Base.PyDict Gen.Consts Model.SettingsV.

Definition settings := dict (list (option Z)).

Definition settings_defaults (client : bool) : settings :=
  map (fun kv => (fst kv, [Some (snd kv)])) (if client then default_settings_client else default_settings_server).

(* Settings(client, initial_values): values are validated, then replace the deque *)
Fixpoint settings_init_values (s : settings) (init : list (Z * Z)) : settings * res unit :=
  match init with
  | [] => (s, Ok tt)
  | (k, v) :: r =>
      let c := validate_setting k v in
      if negb (c =? 0) then (s, Err InvalidSettingsValueError c 0 false)
      else settings_init_values (dset k [Some v] s) r
  end.

Definition settings_new (client : bool) (init : list (Z * Z)) : settings :=
  fst (settings_init_values (settings_defaults client) init).

(* self[key]: KeyError when absent or when the head is the None placeholder *)
Definition sget (k : Z) (s : settings) : option Z :=
  match dget k s with Some (Some v :: _) => Some v | _ => None end.

(* self[key] = value *)
Definition ssetitem (k v : Z) (s : settings) : settings * res unit :=
  let c := validate_setting k v in
  if negb (c =? 0) then (s, Err InvalidSettingsValueError c 0 false)
  else
    let items := match dget k s with Some q => q | None => [None] end in
    (dset k (items ++ [Some v]) s, Ok tt).

(* MutableMapping.update: one __setitem__ per pair, in order; stops at the first invalid one
   with the earlier ones already queued *)
Fixpoint supdate (kvs : list (Z * Z)) (s : settings) : settings * res unit :=
  match kvs with
  | [] => (s, Ok tt)
  | (k, v) :: r =>
      let '(s1, res1) := ssetitem k v s in
      match res1 with Ok _ => supdate r s1 | _ => (s1, res1) end
  end.

(* acknowledge(): every key with a pending value moves one step; returns {key: (old, new)} in key order *)
Fixpoint sacknowledge (s : settings) : settings * list (Z * option Z * Z) :=
  match s with
  | [] => ([], [])
  | (k, q) :: r =>
      let '(r', ch) := sacknowledge r in
      match q with
      | old :: (Some new :: _) as q' => ((k, q') :: r', (k, old, new) :: ch)
      | old :: (None :: _) as q' => ((k, q') :: r', ch)      (* unreachable: None is only ever a head *)
      | _ => ((k, q) :: r', ch)
      end
  end.

Definition s_enable_push (s : settings) : Z := opt_default 0 (sget SC_ENABLE_PUSH s).
Definition s_initial_window_size (s : settings) : Z := opt_default 0 (sget SC_INITIAL_WINDOW_SIZE s).
Definition s_max_frame_size (s : settings) : Z := opt_default 0 (sget SC_MAX_FRAME_SIZE s).
Definition s_max_concurrent_streams (s : settings) : Z :=
  opt_default DEFAULT_MAX_CONCURRENT_STREAMS_UNSET (sget SC_MAX_CONCURRENT_STREAMS s).
Definition s_items (s : settings) : list (Z * Z) :=
  flat_map (fun kq => match sget (fst kq) s with Some v => [(fst kq, v)] | None => [] end) s.

Definition changed_lookup (k : Z) (ch : list (Z * option Z * Z)) : option (option Z * Z) :=
  match find (fun c => fst (fst c) =? k) ch with Some c => Some (snd (fst c), snd c) | None => None end.

(* a Python dict built from a list of pairs: first position of a key, last value *)
Fixpoint pairs_to_dict (kvs : list (Z * Z)) (acc : dict Z) : dict Z :=
  match kvs with [] => acc | (k, v) :: r => pairs_to_dict r (dset k v acc) end.
