(* Model/StreamFSM.v — H2StreamStateMachine: process_input over the generated transition table and
   hand-written semantics of the 24 side-effect functions (stream.py).  Tied to the code by the
   exhaustive correspondence over all 31 920 configurations (harness/fsm_corr.py). *)
From H2 Require Import Base.Prelude Model.FsmTypes Gen.Consts Gen.Tables.

(* the six flags; Python's None/True flags are bools, [client] is None/True/False *)
Record sm := mksm {
  sm_state : sstate;
  sm_client : option bool;
  sm_hs : bool;   (* headers_sent *)
  sm_ts : bool;   (* trailers_sent *)
  sm_hr : bool;   (* headers_received *)
  sm_tr : bool;   (* trailers_received *)
  sm_cb : option closedby
}.

Definition sm_new : sm := mksm S_IDLE None false false false false None.

(* events produced by the state machine (fields are filled in by the callers) *)
Inductive sev :=
| SE_RequestSent | SE_ResponseSent | SE_TrailersSent | SE_PushedRequestSent
| SE_RequestReceived | SE_ResponseReceived | SE_TrailersReceived | SE_InformationalResponseReceived
| SE_DataReceived | SE_WindowUpdated | SE_StreamEnded | SE_StreamReset
| SE_PushedStreamReceived | SE_AltSvc.

Definition set_state (m : sm) (s : sstate) : sm :=
  mksm s (sm_client m) (sm_hs m) (sm_ts m) (sm_hr m) (sm_tr m) (sm_cb m).
Definition set_cb (m : sm) (c : closedby) : sm :=
  mksm (sm_state m) (sm_client m) (sm_hs m) (sm_ts m) (sm_hr m) (sm_tr m) (Some c).

Definition perr {A} : res A := Err ProtocolError (exn_code ProtocolError) 0 false.
Definition scerr {A} (sid : Z) (rst : bool) : res A := Err StreamClosedError (exn_code StreamClosedError) sid rst.
Definition assert_fail {A} : res A := Crash AssertionError.

Definition client_is (m : sm) (b : bool) : bool :=
  match sm_client m with Some c => Bool.eqb c b | None => false end.
Definition client_none (m : sm) : bool := match sm_client m with None => true | _ => false end.

Definition run_effect (sid : Z) (e : effect) (m : sm) : sm * res (list sev) :=
  let st := sm_state m in
  match e with
  | E_none => (m, Ok [])
  | E_request_sent =>
      (mksm st (Some true) true (sm_ts m) (sm_hr m) (sm_tr m) (sm_cb m), Ok [SE_RequestSent])
  | E_response_sent =>
      if negb (sm_hs m) then
        if client_is m true || client_none m then (m, perr)
        else (mksm st (sm_client m) true (sm_ts m) (sm_hr m) (sm_tr m) (sm_cb m), Ok [SE_ResponseSent])
      else if sm_ts m then (m, assert_fail)
      else (mksm st (sm_client m) (sm_hs m) true (sm_hr m) (sm_tr m) (sm_cb m), Ok [SE_TrailersSent])
  | E_request_received =>
      if sm_hr m then (m, assert_fail) else if sm_tr m then (m, assert_fail)
      else (mksm st (Some false) (sm_hs m) (sm_ts m) true (sm_tr m) (sm_cb m), Ok [SE_RequestReceived])
  | E_response_received =>
      if negb (sm_hr m) then
        if client_is m true
        then (mksm st (sm_client m) (sm_hs m) (sm_ts m) true (sm_tr m) (sm_cb m), Ok [SE_ResponseReceived])
        else (m, assert_fail)
      else if sm_tr m then (m, assert_fail)
      else (mksm st (sm_client m) (sm_hs m) (sm_ts m) (sm_hr m) true (sm_cb m), Ok [SE_TrailersReceived])
  | E_data_received => if negb (sm_hr m) then (m, perr) else (m, Ok [SE_DataReceived])
  | E_window_updated => (m, Ok [SE_WindowUpdated])
  | E_stream_half_closed => (m, Ok [SE_StreamEnded])
  | E_stream_ended => (set_cb m CB_RECV_END_STREAM, Ok [SE_StreamEnded])
  | E_stream_reset => (set_cb m CB_RECV_RST_STREAM, Ok [SE_StreamReset])
  | E_send_new_pushed_stream =>
      if client_none m
      then (mksm st (Some false) (sm_hs m) (sm_ts m) true (sm_tr m) (sm_cb m), Ok [])
      else (m, assert_fail)
  | E_recv_new_pushed_stream =>
      if client_none m
      then (mksm st (Some true) true (sm_ts m) (sm_hr m) (sm_tr m) (sm_cb m), Ok [])
      else (m, assert_fail)
  | E_send_push_promise => if client_is m true then (m, perr) else (m, Ok [SE_PushedRequestSent])
  | E_recv_push_promise => if client_is m true then (m, Ok [SE_PushedStreamReceived]) else (m, perr)
  | E_send_end_stream => (set_cb m CB_SEND_END_STREAM, Ok [])
  | E_send_reset_stream => (set_cb m CB_SEND_RST_STREAM, Ok [])
  | E_reset_stream_on_error => (set_cb m CB_SEND_RST_STREAM, scerr sid true)
  | E_recv_on_closed_stream => (m, scerr sid false)
  | E_send_on_closed_stream => (m, scerr sid false)
  | E_recv_push_on_closed_stream =>
      match sm_cb m with
      | None => (m, assert_fail)
      | Some CB_SEND_RST_STREAM => (m, scerr sid false)
      | Some _ => (m, perr)
      end
  | E_send_push_on_closed_stream => (m, perr)
  | E_send_informational_response => if sm_hs m then (m, perr) else (m, Ok [SE_ResponseSent])
  | E_recv_informational_response => if sm_hr m then (m, perr) else (m, Ok [SE_InformationalResponseReceived])
  | E_recv_alt_svc =>
      if client_is m false then (m, Ok []) else if sm_hr m then (m, Ok []) else (m, Ok [SE_AltSvc])
  | E_send_alt_svc => if sm_hs m then (m, perr) else (m, Ok [])
  end.

Definition process_input (sid : Z) (m : sm) (i : sinput) : sm * res (list sev) :=
  match stream_transition (sm_state m) i with
  | None => (set_state m S_CLOSED, perr)
  | Some (eff, tgt) =>
      let '(m2, r) := run_effect sid eff (set_state m tgt) in
      match r with
      | Ok evs => (m2, Ok evs)
      | Err _ _ _ _ => (set_state m2 S_CLOSED, r)         (* every h2 exception raised here is a ProtocolError *)
      | Crash AssertionError => (set_state m2 S_CLOSED, perr)
      | Crash _ => (m2, r)
      end
  end.

(* encodings used by the exhaustive correspondence *)
Definition sev_code (e : sev) : Z :=
  match e with
  | SE_RequestSent => 1 | SE_ResponseSent => 2 | SE_TrailersSent => 3 | SE_PushedRequestSent => 4
  | SE_RequestReceived => 5 | SE_ResponseReceived => 6 | SE_TrailersReceived => 7
  | SE_InformationalResponseReceived => 8 | SE_DataReceived => 9 | SE_WindowUpdated => 10
  | SE_StreamEnded => 11 | SE_StreamReset => 12 | SE_PushedStreamReceived => 13 | SE_AltSvc => 14
  end.
Definition sstate_code (s : sstate) : Z :=
  match s with S_IDLE => 0 | S_RESERVED_REMOTE => 1 | S_RESERVED_LOCAL => 2 | S_OPEN => 3
  | S_HALF_CLOSED_REMOTE => 4 | S_HALF_CLOSED_LOCAL => 5 | S_CLOSED => 6 end.
Definition cb_code (c : option closedby) : Z :=
  match c with None => 0 | Some CB_SEND_END_STREAM => 1 | Some CB_RECV_END_STREAM => 2
  | Some CB_SEND_RST_STREAM => 3 | Some CB_RECV_RST_STREAM => 4 end.
Definition optb_code (c : option bool) : Z := match c with None => 0 | Some true => 1 | Some false => 2 end.
Definition b2z (b : bool) : Z := if b then 1 else 0.
Definition exn_code_z (e : h2exn) : Z :=
  match e with ProtocolError => 1 | StreamClosedError => 2 | _ => 3 end.

(* one configuration -> [state; client; hs; ts; hr; tr; cb; outcome...] *)
Definition fsm_obs (m : sm) (i : sinput) : list Z :=
  let '(m', r) := process_input 7 m i in
  [sstate_code (sm_state m'); optb_code (sm_client m'); b2z (sm_hs m'); b2z (sm_ts m'); b2z (sm_hr m'); b2z (sm_tr m'); cb_code (sm_cb m')]
  ++ match r with
     | Ok evs => 0 :: map sev_code evs
     | Err e c s b => [100 + exn_code_z e; c; s; b2z b]
     | Crash _ => [200]
     end.

Definition all_optb : list (option bool) := [None; Some true; Some false].
Definition all_b : list bool := [false; true].
Definition all_cb : list (option closedby) := None :: map Some all_closedby.

Definition all_sm : list sm :=
  flat_map (fun s => flat_map (fun c => flat_map (fun hs => flat_map (fun ts => flat_map (fun hr =>
  flat_map (fun tr => map (fun cb => mksm s c hs ts hr tr cb) all_cb) all_b) all_b) all_b) all_b) all_optb) all_sstate.

Definition all_fsm_obs : list (list Z) :=
  flat_map (fun m => map (fun i => fsm_obs m i) all_sinput) all_sm.
