(* Model/SettingsV.v — hand model of settings._validate_setting. *)
From H2 Require Import Base.Prelude Gen.Consts.

Definition in01 (v : Z) : bool := (v =? 0) || (v =? 1).

(* 0 = accepted, otherwise the error code to report *)
Definition validate_setting (id v : Z) : Z :=
  if id =? SC_ENABLE_PUSH then (if in01 v then 0 else EC_PROTOCOL_ERROR)
  else if id =? SC_INITIAL_WINDOW_SIZE then (if (0 <=? v) && (v <=? 2147483647) then 0 else EC_FLOW_CONTROL_ERROR)
  else if id =? SC_MAX_FRAME_SIZE then (if (16384 <=? v) && (v <=? 16777215) then 0 else EC_PROTOCOL_ERROR)
  else if id =? SC_MAX_HEADER_LIST_SIZE then (if v <? 0 then EC_PROTOCOL_ERROR else 0)
  else if id =? SC_ENABLE_CONNECT_PROTOCOL then (if in01 v then 0 else EC_PROTOCOL_ERROR)
  else 0.
