(* Model/FrameBuffer.v — h2/frame_buffer.py over bytes: preamble check, 9-byte header, "not enough bytes yet",
   length check, body parse, header-block folding (HEADERS / PUSH_PROMISE + CONTINUATIONs).
   The two parsers of hyperframe are Section variables with NO hypothesis: the chunking theorem
   (Proofs/C21Proofs.v) holds for any parser.  Model/Wire.v instantiates them for the correspondence run. *)
From H2 Require Import Base.Prelude Gen.Consts Gen.Guards Model.Types.

Inductive fberr := EProtocol | EFrameTooLarge | EFrameDataMissing | EInvalidPadding.
Inductive bres := BOk (frag : bytes) | BInvalidData | BInvalidFrame | BInvalidPadding.

(* a frame as yielded to the connection: type, flag byte, stream id, body length, and for header-block
   frames the (unpadded) block fragment / for the others the body *)
Record wframe := mkwf { wf_type : Z; wf_flags : Z; wf_sid : Z; wf_len : Z; wf_frag : bytes }.

Section FB.
Variable parse_hdr : bytes -> option (nat * Z * Z * Z).      (* 9 bytes -> length, type, flags, stream id; None: invalid header *)
Variable parse_body : Z -> Z -> Z -> bytes -> bres.          (* type, flags, stream id, body *)
(* whoever receives the frames (H2Connection._receive_frame and everything behind it, HPACK state included):
   any state, any reaction; the frame-size limit in force is read from that state before every frame *)
Variables (S E : Type).
Variable limit : S -> Z.
Variable consume : S -> wframe -> S * option E.

Definition END_HEADERS : Z := 4.
Definition has_flag (fl bit : Z) : bool := Z.testbit fl (Z.log2 bit).
Definition is_header_start (f : wframe) : bool := (wf_type f =? 1) || (wf_type f =? 5).
Definition is_continuation (f : wframe) : bool := wf_type f =? 9.

(* _update_header_buffer: (new buffer, frame to yield if any), or an error together with the buffer it leaves behind
   (the frame has been appended when the backlog test fails) *)
Definition update_header_buffer (h : list wframe) (f : wframe) : (fberr * list wframe) + (list wframe * option wframe) :=
  match h with
  | first :: _ =>
      if negb (is_continuation f && (wf_sid f =? wf_sid first)) then inl (EProtocol, h)
      else
        let h' := h ++ [f] in
        if g_fb_backlog (zlen h') true then inl (EProtocol, h')
        else if has_flag (wf_flags f) END_HEADERS
             then inr ([], Some (mkwf (wf_type first) (Z.lor (wf_flags first) END_HEADERS) (wf_sid first) (wf_len first)
                                      (concat (map wf_frag h'))))
             else inr (h', None)
  | [] =>
      if is_header_start f && negb (has_flag (wf_flags f) END_HEADERS) then inr ([f], None)
      else inr ([], Some f)
  end.

(* a failure leaves the buffer as it was, except that a frame refused by _update_header_buffer has already been taken out *)
Inductive step := Stop | Fail (e : fberr) (h : list wframe) (rest : bytes) | Adv (o : option wframe) (h : list wframe) (rest : bytes).

(* one pass of __next__ over the head of the buffer (without the self-recursion) *)
Definition step1 (maxf : Z) (h : list wframe) (d : bytes) : step :=
  if g_fb_hdr (Z.of_nat (length d)) then Stop
  else match parse_hdr (firstn 9 d) with
       | None => Fail EProtocol h d
       | Some (len, ty, fl, sid) =>
           if g_fb_body (Z.of_nat (length d)) (Z.of_nat len) then Stop
           else if g_fb_len (Z.of_nat len) maxf then Fail EFrameTooLarge h d
           else match parse_body ty fl sid (firstn len (skipn 9 d)) with
                | BInvalidData => Fail EProtocol h d
                | BInvalidFrame => Fail EFrameDataMissing h d
                | BInvalidPadding => Fail EInvalidPadding h d
                | BOk frag =>
                    match update_header_buffer h (mkwf ty fl sid (Z.of_nat len) frag) with
                    | inl (e, h') => Fail e h' (skipn (len + 9) d)
                    | inr (h', o) => Adv o h' (skipn (len + 9) d)
                    end
                end
       end.

(* the loop of receive_data, `for frame in self.incoming_buffer: self._receive_frame(frame)`, until the bytes at hand
   are used up, the buffer raises (inl) or the receiver raises (inr; the frame has left the buffer by then) *)
Fixpoint drain (fuel : nat) (s : S) (h : list wframe) (d : bytes) : S * option (fberr + E) * (list wframe * bytes) :=
  match fuel with
  | O => (s, None, (h, d))
  | Datatypes.S n =>
      match step1 (limit s) h d with
      | Stop => (s, None, (h, d))
      | Fail e h' r => (s, Some (inl e), (h', r))
      | Adv None h' r => drain n s h' r
      | Adv (Some f) h' r =>
          let '(s', x) := consume s f in
          match x with
          | None => drain n s' h' r
          | Some e => (s', Some (inr e), (h', r))
          end
      end
  end.

Definition drain_all (s : S) (h : list wframe) (d : bytes) := drain (Datatypes.S (length d)) s h d.

(* feeding chunk by chunk, draining after every chunk, as receive_data does; after an exception the rest is only buffered *)
Fixpoint feed (s : S) (h : list wframe) (buf : bytes) (cs : list bytes) : S * option (fberr + E) * (list wframe * bytes) :=
  match cs with
  | [] => (s, None, (h, buf))
  | c :: cs' =>
      let '(s1, e, (h1, r)) := drain_all s h (buf ++ c) in
      match e with
      | Some x => (s1, Some x, (h1, r ++ concat cs'))
      | None => feed s1 h1 r cs'
      end
  end.
End FB.

(* the receiver that only collects the frames, under a fixed limit *)
Definition collect (s : list wframe) (f : wframe) : list wframe * option Empty_set := (s ++ [f], None).

(* ---- the client preface (servers only): checked incrementally by add_data ---- *)
(* [pre]: what is still expected.  -> None on mismatch, else (still expected, payload bytes to append) *)
Definition add_data_preface (pre : bytes) (data : bytes) : option (bytes * bytes) :=
  let n := Nat.min (length pre) (length data) in
  if bytes_eqb (firstn n pre) (firstn n data) then Some (skipn n pre, skipn n data) else None.

Fixpoint add_all_preface (pre : bytes) (cs : list bytes) : option (bytes * bytes) :=
  match cs with
  | [] => Some (pre, [])
  | c :: cs' =>
      match add_data_preface pre c with
      | None => None
      | Some (pre', payload) =>
          match add_all_preface pre' cs' with
          | None => None
          | Some (pre'', rest) => Some (pre'', payload ++ rest)
          end
      end
  end.

(* ---- data_to_send(amount): Python slicing of the output buffer ---- *)
Definition py_slice_to (amount : Z) (buf : bytes) : bytes :=
  if 0 <=? amount then firstn (Z.to_nat amount) buf
  else firstn (length buf - Z.to_nat (- amount)) buf.
Definition py_slice_from (amount : Z) (buf : bytes) : bytes :=
  if 0 <=? amount then skipn (Z.to_nat amount) buf
  else skipn (length buf - Z.to_nat (- amount)) buf.
Definition data_to_send (amount : option Z) (buf : bytes) : bytes * bytes :=   (* returned, remaining *)
  match amount with
  | None => (buf, [])
  | Some a => (py_slice_to a buf, py_slice_from a buf)
  end.
Fixpoint reads (amounts : list (option Z)) (buf : bytes) : list bytes * bytes :=
  match amounts with
  | [] => ([], buf)
  | a :: r => let '(x, buf') := data_to_send a buf in let '(xs, rest) := reads r buf' in (x :: xs, rest)
  end.
