(* Model/Types.v — frames, events, configuration, the state+exception monad. *)
From H2 Require Import Base.Prelude Base.PyDict Model.FsmTypes.

Definition bytes := list Z.                       (* each element 0..255 *)
Definition header := (bytes * bytes)%type.        (* name, value *)
(* a header as handed to the HPACK encoder / received from the decoder: never-indexed flag *)
Definition hitem := (bytes * bytes * bool)%type.

Fixpoint bytes_eqb (a b : bytes) : bool :=
  match a, b with
  | [], [] => true
  | x :: a', y :: b' => (x =? y) && bytes_eqb a' b'
  | _, _ => false
  end.

Lemma bytes_eqb_eq a b : bytes_eqb a b = true <-> a = b.
Proof.
  revert b. induction a as [|x a IH]; destruct b as [|y b]; cbn [bytes_eqb]; split; intros H; try reflexivity; try discriminate.
  - apply andb_true_iff in H. destruct H as [H1 H2]. apply Z.eqb_eq in H1. apply IH in H2. subst. reflexivity.
  - injection H as -> ->. rewrite Z.eqb_refl. cbn [andb]. apply IH. reflexivity.
Qed.

Definition zlen {A} (l : list A) : Z := Z.of_nat (length l).

Record config := mkconfig {
  cfg_client : bool;
  cfg_validate_out : bool;
  cfg_normalize_out : bool;
  cfg_validate_in : bool;
  cfg_normalize_in : bool;
  cfg_header_encoding : bool       (* a text encoding (utf-8) is configured *)
}.

(* priority fields as carried on the wire: depends_on, weight byte (0..255), exclusive *)
Definition prio := (Z * Z * bool)%type.

(* frames in the output buffer.  Header blocks carry the list given to the encoder and the length
   of the chunk of the encoded block in this frame. *)
Inductive frame :=
| FHeaders (sid : Z) (end_stream end_headers : bool) (p : option prio) (hs : list hitem) (chunk : Z)
| FContinuation (sid : Z) (end_headers : bool) (chunk : Z)
| FPushPromise (sid promised : Z) (end_headers : bool) (hs : list hitem) (chunk : Z)
| FData (sid len : Z) (end_stream : bool) (pad : option Z)
| FSettings (ack : bool) (vals : list (Z * Z))
| FWindowUpdate (sid inc : Z)
| FPing (ack : bool) (payload : bytes)
| FRstStream (sid code : Z)
| FPriority (sid : Z) (p : prio)
| FGoAway (last code dbg : Z)                       (* dbg: length of the additional data *)
| FAltSvc (sid : Z) (origin field : bytes).

(* received frames, after FrameBuffer: HEADERS/PUSH_PROMISE + CONTINUATIONs already merged.
   [hdec]: what the HPACK decoder makes of the block. *)
Inductive hdec := HDecoded (hs : list hitem) | HDecodeError.

Inductive rframe :=
| RHeaders (sid : Z) (end_stream : bool) (p : option prio) (d : hdec)
| RPushPromise (sid promised : Z) (d : hdec)
| RData (sid len fclen : Z) (end_stream : bool)      (* payload length, flow-controlled length *)
| RSettings (ack : bool) (vals : list (Z * Z))
| RWindowUpdate (sid inc : Z)
| RPing (ack : bool) (payload : bytes)
| RRstStream (sid code : Z)
| RPriority (sid : Z) (p : prio)
| RGoAway (last code dbg : Z)
| RContinuation (sid : Z)
| RAltSvc (sid : Z) (origin field : bytes)
| RUnknown (ftype sid : Z)
(* frames FrameBuffer itself rejects: body longer than the limit / unparsable *)
| RTooLarge
| RBadBody (kind : Z).   (* 0 InvalidDataError -> ProtocolError, 1 InvalidFrameError -> FrameDataMissingError, 2 InvalidPaddingError *)

(* events; related-event fields are offsets (>= 1) to a later event of the same returned list *)
Inductive event :=
| ERequestReceived (sid : Z) (hs : list hitem) (ended prio_upd : option Z)
| EResponseReceived (sid : Z) (hs : list hitem) (ended prio_upd : option Z)
| ETrailersReceived (sid : Z) (hs : list hitem) (ended prio_upd : option Z)
| EInformationalResponseReceived (sid : Z) (hs : list hitem) (prio_upd : option Z)
| EDataReceived (sid len fclen : Z) (ended : option Z)
| EWindowUpdated (sid delta : Z)
| ERemoteSettingsChanged (ch : list (Z * option Z * Z))
| EPingReceived (payload : bytes)
| EPingAckReceived (payload : bytes)
| EStreamEnded (sid : Z)
| EStreamReset (sid code : Z) (remote : bool)
| EPushedStreamReceived (pushed parent : Z) (hs : list hitem)
| ESettingsAcknowledged (ch : list (Z * option Z * Z))
| EPriorityUpdated (sid weight dep : Z) (excl : bool)
| EConnectionTerminated (code last dbg : Z)
| EAltSvcAvailable (origin : option bytes) (field : bytes)
| EUnknownFrameReceived (ftype : Z).

(* ---- state + exception monad; the state reached so far is returned on every path ---- *)
Definition M (S A : Type) := S -> S * res A.
Definition ret {S A} (a : A) : M S A := fun s => (s, Ok a).
Definition fail {S A} (e : h2exn) (code sid : Z) (rst : bool) : M S A := fun s => (s, Err e code sid rst).
Definition crash {S A} (p : pyexn) : M S A := fun s => (s, Crash p).
Definition bind {S A B} (m : M S A) (k : A -> M S B) : M S B :=
  fun s => let '(s1, r) := m s in
           match r with
           | Ok a => k a s1
           | Err e c i b => (s1, Err e c i b)
           | Crash p => (s1, Crash p)
           end.
Definition get {S} : M S S := fun s => (s, Ok s).
Definition put {S} (s' : S) : M S unit := fun _ => (s', Ok tt).
Definition modify {S} (f : S -> S) : M S unit := fun s => (f s, Ok tt).
Definition lift_res {S A} (r : res A) : M S A := fun s => (s, r).

Declare Scope monad_scope.
Notation "x <- m ;; k" := (bind m (fun x => k)) (at level 61, m at next level, right associativity) : monad_scope.
Notation "m ;;; k" := (bind m (fun _ => k)) (at level 61, right associativity) : monad_scope.
Open Scope monad_scope.

Definition when {S} (b : bool) (m : M S unit) : M S unit := if b then m else ret tt.
