(* Model/WmHist.v — histories of operations on one WindowManager, with ghost totals.
   The four operations are exactly the ways hyper-h2 drives a manager:
     Consume n : DATA of flow-controlled length n received        (window_consumed)
     Ack n     : the application acknowledges n bytes             (process_bytes; auto-ack of DATA on closed streams too)
     Open n    : increment_flow_control_window(n)                 (window_opened)
     Delta d   : local INITIAL_WINDOW_SIZE changed by d and acked (H2Stream._inbound_flow_control_change_from_settings) *)
From H2 Require Import Base.Prelude Gen.Consts Model.Windows.

Inductive wop := Consume (n : Z) | Ack (n : Z) | Open (n : Z) | Delta (d : Z).

Record gh := mkgh {
  g_w : wm;
  g_C : Z;          (* total flow-controlled bytes received *)
  g_A : Z;          (* total bytes acknowledged *)
  g_K : Z;          (* total of the WINDOW_UPDATE increments emitted automatically *)
  g_incs : list Z   (* those increments, newest first *)
}.

Definition gh_init (m : Z) : gh := mkgh (wm_new m) 0 0 0 [].

(* stream-level reaction to a local INITIAL_WINDOW_SIZE change *)
Definition wm_delta (w : wm) (d : Z) : wm * res unit :=
  let new_max := wm_max w + d in
  let '(w1, r) := window_opened w d in
  match r with
  | Ok _ => (mkwm new_max (wm_cur w1) (wm_bp w1), Ok tt)
  | _ => (w1, r)
  end.

(* [None]: the operation raised (a connection error for Consume/Delta, an exception for Open). *)
Definition wstep (g : gh) (o : wop) : option gh :=
  match o with
  | Consume n =>
      let '(w, r) := window_consumed (g_w g) n in
      if is_ok r then Some (mkgh w (g_C g + n) (g_A g) (g_K g) (g_incs g)) else None
  | Ack n =>
      let '(w, o) := process_bytes (g_w g) n in
      match wm_increment o with
      | Some inc => Some (mkgh w (g_C g) (g_A g + n) (g_K g + inc) (inc :: g_incs g))
      | None => Some (mkgh w (g_C g) (g_A g + n) (g_K g) (g_incs g))
      end
  | Open n =>
      let '(w, r) := window_opened (g_w g) n in
      if is_ok r then Some (mkgh w (g_C g) (g_A g) (g_K g) (g_incs g)) else None
  | Delta d =>
      let '(w, r) := wm_delta (g_w g) d in
      if is_ok r then Some (mkgh w (g_C g) (g_A g) (g_K g) (g_incs g)) else None
  end.

Fixpoint wrun (g : gh) (os : list wop) : option gh :=
  match os with
  | [] => Some g
  | o :: os' => match wstep g o with Some g' => wrun g' os' | None => None end
  end.

(* argument ranges the callers guarantee (guards g_ack_size, g_inc_range; frame lengths are >= 0;
   a Delta keeps the maximum non-negative because INITIAL_WINDOW_SIZE itself is >= 0) *)
Definition wf_wop (g : gh) (o : wop) : Prop :=
  match o with
  | Consume n => 0 <= n
  | Ack n => 0 <= n /\ g_A g + n <= g_C g        (* never acknowledges more than was received *)
  | Open n => 1 <= n <= MAX_WINDOW_INCREMENT
  | Delta d => 0 <= wm_max (g_w g) + d
  end.

Fixpoint wf_hist (g : gh) (os : list wop) : Prop :=
  match os with
  | [] => True
  | o :: os' => wf_wop g o /\ match wstep g o with Some g' => wf_hist g' os' | None => True end
  end.

Definition no_negative_delta (os : list wop) : Prop :=
  Forall (fun o => match o with Delta d => 0 <= d | _ => True end) os.
Definition no_delta (os : list wop) : Prop :=
  Forall (fun o => match o with Delta _ => False | _ => True end) os.
Definition no_open (os : list wop) : Prop :=
  Forall (fun o => match o with Open _ => False | _ => True end) os.

(* ---- executable traces, for the correspondence run (evaluated by vm_compute) ---- *)
(* result code of one operation: -1 nothing returned, -2 raised, z >= 0 the value returned *)
Definition wstep_obs (w : wm) (o : wop) : wm * Z :=
  match o with
  | Consume n => let '(w', r) := window_consumed w n in (w', if is_ok r then -1 else -2)
  | Ack n => let '(w', r) := process_bytes w n in (w', match r with Some z => z | None => -1 end)
  | Open n => let '(w', r) := window_opened w n in (w', if is_ok r then -1 else -2)
  | Delta d => let '(w', r) := wm_delta w d in (w', if is_ok r then -1 else -2)
  end.

(* the trace stops after the first raising operation, like the objects it mirrors are abandoned *)
Fixpoint wtrace (w : wm) (os : list wop) : list Z :=
  match os with
  | [] => []
  | o :: os' =>
      let '(w', c) := wstep_obs w o in
      c :: wm_max w' :: wm_cur w' :: wm_bp w' :: (if c =? -2 then [] else wtrace w' os')
  end.
