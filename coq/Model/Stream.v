(* Model/Stream.v — H2Stream (stream.py): methods as state+exception computations over [stream]. *)
From H2 Require Import Base.Prelude Base.PyDict Model.FsmTypes Gen.Consts Gen.Tables Gen.Guards
  Model.Types Model.Windows Model.WmHist Model.StreamFSM Model.Headers.

Record stream := mkstream {
  s_id : Z;
  s_sm : sm;
  s_out_win : Z;                 (* outbound_flow_control_window *)
  s_in_wm : wm;                  (* _inbound_window_manager *)
  s_max_out_frame : Z;           (* max_outbound_frame_size *)
  s_exp_cl : option Z;           (* _expected_content_length *)
  s_act_cl : Z;                  (* _actual_content_length *)
  s_authority : option bytes;    (* _authority *)
  s_method : option bytes        (* request_method *)
}.

Definition stream_new (sid in_win out_win max_out : Z) : stream :=
  mkstream sid sm_new out_win (wm_new in_win) max_out None 0 None None.

Definition set_sm (s : stream) (m : sm) : stream :=
  mkstream (s_id s) m (s_out_win s) (s_in_wm s) (s_max_out_frame s) (s_exp_cl s) (s_act_cl s) (s_authority s) (s_method s).
Definition set_out_win (s : stream) (w : Z) : stream :=
  mkstream (s_id s) (s_sm s) w (s_in_wm s) (s_max_out_frame s) (s_exp_cl s) (s_act_cl s) (s_authority s) (s_method s).
Definition set_in_wm (s : stream) (w : wm) : stream :=
  mkstream (s_id s) (s_sm s) (s_out_win s) w (s_max_out_frame s) (s_exp_cl s) (s_act_cl s) (s_authority s) (s_method s).
Definition set_max_out_frame (s : stream) (z : Z) : stream :=
  mkstream (s_id s) (s_sm s) (s_out_win s) (s_in_wm s) z (s_exp_cl s) (s_act_cl s) (s_authority s) (s_method s).
Definition set_cl (s : stream) (e : option Z) (a : Z) : stream :=
  mkstream (s_id s) (s_sm s) (s_out_win s) (s_in_wm s) (s_max_out_frame s) e a (s_authority s) (s_method s).
Definition set_authority (s : stream) (a : option bytes) : stream :=
  mkstream (s_id s) (s_sm s) (s_out_win s) (s_in_wm s) (s_max_out_frame s) (s_exp_cl s) (s_act_cl s) a (s_method s).
Definition set_method (s : stream) (m : option bytes) : stream :=
  mkstream (s_id s) (s_sm s) (s_out_win s) (s_in_wm s) (s_max_out_frame s) (s_exp_cl s) (s_act_cl s) (s_authority s) m.

Definition SM := M stream.

Definition fsm (i : sinput) : SM (list sev) :=
  fun s => let '(m, r) := process_input (s_id s) (s_sm s) i in (set_sm s m, r).

Definition s_open (s : stream) : bool := stream_open (sm_state (s_sm s)).
Definition s_closed (s : stream) : bool := sstate_eqb (sm_state (s_sm s)) S_CLOSED.
Definition s_closed_by (s : stream) : option closedby := sm_cb (s_sm s).
Definition s_client (s : stream) : bool := client_is (s_sm s) true.       (* truthiness of state_machine.client *)

Definition hd_is (e : sev) (evs : list sev) : bool :=
  match evs with x :: _ => Z.eqb (sev_code x) (sev_code e) | [] => false end.

(* _build_hdr_validation_flags(events): events[0] — IndexError on an empty list *)
Definition build_flags (evs : list sev) : res hflags :=
  match evs with
  | [] => Crash IndexError
  | e :: _ =>
      Ok (mkhflags
            (match e with SE_TrailersSent | SE_TrailersReceived => true | _ => false end)
            (match e with SE_ResponseSent | SE_ResponseReceived | SE_InformationalResponseReceived => true | _ => false end)
            (match e with SE_PushedStreamReceived | SE_PushedRequestSent => true | _ => false end))
  end.

(* ---- the HPACK encoder as seen by the model ----
   [enc] : what a call hands to Encoder.encode: the headers consumed (a prefix when validation raises
   half-way) and the length of the encoded block, supplied by the harness from the real encoder. *)
Record enc_result := mkenc { enc_consumed : list hitem; enc_ok : bool }.

(* split a block of length L into chunk lengths of at most mx (mx > 0): header_blocks *)
Fixpoint chunks (fuel : nat) (L mx : Z) : list Z :=
  match fuel with
  | O => []
  | S f => if L <=? 0 then [] else if L <=? mx then [L] else mx :: chunks f (L - mx) mx
  end.
Definition header_blocks (L mx : Z) : list Z := chunks (Z.to_nat (L / (Z.max mx 1)) + 2) L mx.

(* _build_headers_frames: (consumed-by-encoder, frames) ; header_blocks[0] on an empty list is an IndexError *)
Definition build_headers_frames (cfg : config) (f : hflags) (hs : list hitem) (L : Z)
           (first : bool -> list hitem -> Z -> frame) (s : stream)
  : list hitem * res (list frame) :=
  let '(consumed, r) := outbound_pipeline cfg f hs in
  match r with
  | PProtocolError => (consumed, perr)
  | PIndexError => (consumed, Crash IndexError)
  | PUnicodeError => (consumed, Crash UnicodeDecodeError)
  | PAll =>
      match header_blocks L (s_max_out_frame s) with
      | [] => (consumed, Ok [first true consumed 0])      (* an empty block is sent as one empty frame *)
      | [c] => (consumed, Ok [first true consumed c])
      | c :: rest =>
          (consumed,
           Ok (first false consumed c ::
               (fix go (l : list Z) : list frame :=
                  match l with
                  | [] => []
                  | [x] => [FContinuation (s_id s) true x]
                  | x :: r => FContinuation (s_id s) false x :: go r
                  end) rest))
      end
  end.

(* the ghost log entry a header-sending call leaves: what the encoder consumed *)
Definition enc_entry := list hitem.

Definition set_end_stream (fs : list frame) : list frame :=
  match fs with
  | FHeaders sid _ eh p hs c :: r => FHeaders sid true eh p hs c :: r
  | _ => fs
  end.

(* send_headers: returns frames and the encoder log entry (Some even when the call raises after encoding) *)
Definition send_headers (cfg : config) (hs : list hitem) (L : Z) (end_stream : bool)
  : stream -> stream * (res (list frame) * option enc_entry) :=
  fun s =>
  let info := negb (s_client s) && is_informational_response (plain hs) in
  if info && end_stream then (s, (perr, None))
  else
    let '(s1, r1) := fsm (if info then SI_SEND_INFORMATIONAL_HEADERS else SI_SEND_HEADERS) s in
    match r1 with
    | Err e c i b => (s1, (Err e c i b, None))
    | Crash p => (s1, (Crash p, None))
    | Ok evs =>
        match build_flags evs with
        | Ok f =>
            let '(consumed, rf) := build_headers_frames cfg f hs L (fun eh h c => FHeaders (s_id s1) false eh None h c) s1 in
            match rf with
            | Ok frames =>
                let '(s2, r2) := (if end_stream then fsm SI_SEND_END_STREAM s1 else (s1, Ok [])) in
                match r2 with
                | Ok _ =>
                    let frames2 := if end_stream then set_end_stream frames else frames in
                    if sm_ts (s_sm s2) && negb end_stream then (s2, (perr, Some consumed))
                    else
                      let s3 := if s_client s2 && match s_authority s2 with None => true | _ => false end
                                then set_authority s2 (authority_from_headers (plain hs)) else s2 in
                      (set_method s3 (extract_method_header (plain hs)), (Ok frames2, Some consumed))
                | Err e c i b => (s2, (Err e c i b, Some consumed))
                | Crash p => (s2, (Crash p, Some consumed))
                end
            | Err e c i b => (s1, (Err e c i b, Some consumed))
            | Crash p => (s1, (Crash p, Some consumed))
            end
        | Err e c i b => (s1, (Err e c i b, None))
        | Crash p => (s1, (Crash p, None))
        end
    end.

Definition push_stream_in_band (cfg : config) (promised : Z) (hs : list hitem) (L : Z)
  : stream -> stream * (res (list frame) * option enc_entry) :=
  fun s =>
  let '(s1, r1) := fsm SI_SEND_PUSH_PROMISE s in
  match r1 with
  | Err e c i b => (s1, (Err e c i b, None))
  | Crash p => (s1, (Crash p, None))
  | Ok evs =>
      match build_flags evs with
      | Ok f =>
          let '(consumed, rf) := build_headers_frames cfg f hs L (fun eh h c => FPushPromise (s_id s1) promised eh h c) s1 in
          (s1, (rf, Some consumed))
      | Err e c i b => (s1, (Err e c i b, None))
      | Crash p => (s1, (Crash p, None))
      end
  end.

Definition locally_pushed : SM (list frame) :=
  evs <- fsm SI_SEND_PUSH_PROMISE ;;
  match evs with [] => ret [] | _ => crash AssertionError end.

Definition send_data (len : Z) (end_stream : bool) (pad : option Z) : SM (list frame) :=
  fsm SI_SEND_DATA ;;;
  (if end_stream then fsm SI_SEND_END_STREAM else ret []) ;;;
  let fc := len + match pad with Some p => p + 1 | None => 0 end in
  modify (fun s => set_out_win s (s_out_win s - fc)) ;;;
  s <- get ;;
  if s_out_win s <? 0 then crash AssertionError
  else ret [FData (s_id s) len end_stream pad].

Definition end_stream : SM (list frame) :=
  fsm SI_SEND_END_STREAM ;;;
  s <- get ;; ret [FData (s_id s) 0 true None].

Definition advertise_alt_svc (field : bytes) : SM (list frame) :=
  fsm SI_SEND_ALTERNATIVE_SERVICE ;;;
  s <- get ;; ret [FAltSvc (s_id s) [] field].

Definition lift_wm {A} (f : wm -> wm * res A) : SM A :=
  fun s => let '(w, r) := f (s_in_wm s) in (set_in_wm s w, r).

Definition increase_flow_control_window (inc : Z) : SM (list frame) :=
  fsm SI_SEND_WINDOW_UPDATE ;;;
  lift_wm (fun w => window_opened w inc) ;;;
  s <- get ;; ret [FWindowUpdate (s_id s) inc].

(* received header lists after the processing pipeline *)
Definition process_received_headers (cfg : config) (f : hflags) (hs : list hitem) : res (list hitem) :=
  match inbound_pipeline cfg f hs with
  | IOk h => Ok h
  | IProtocolError => perr
  | IIndexError => Crash IndexError
  | IUnicodeError => perr                       (* _decode_headers turns UnicodeDecodeError into ProtocolError *)
  end.

Definition receive_push_promise_in_band (cfg : config) (promised : Z) (hs : list hitem) : SM (list event) :=
  evs <- fsm SI_RECV_PUSH_PROMISE ;;
  (match evs with [] => lift_res perr | _ => ret tt end) ;;;      (* a parent that is still idle: ProtocolError *)
  f <- lift_res (build_flags evs) ;;
  h <- lift_res (process_received_headers cfg f hs) ;;
  s <- get ;; ret [EPushedStreamReceived promised (s_id s) h].

Definition remotely_pushed (hs : list hitem) : SM unit :=
  fsm SI_RECV_PUSH_PROMISE ;;;
  modify (fun s => set_authority s (authority_from_headers (plain hs))).

(* _initialize_content_length *)
Definition initialize_content_length (hs : list hitem) : SM unit :=
  s <- get ;;
  if match s_method s with Some m => bytes_eqb m b_HEAD | None => false end
  then put (set_cl s (Some 0) (s_act_cl s))
  else match find_content_length (plain hs) with
       | None => ret tt
       | Some v => match parse_int v with
                   | Some n => put (set_cl s (Some n) (s_act_cl s))
                   | None => lift_res perr
                   end
       end.

Definition hdr_event (s : stream) (e : sev) (h : list hitem) (ended : option Z) : res event :=
  match e with
  | SE_RequestReceived => Ok (ERequestReceived (s_id s) h ended None)
  | SE_ResponseReceived => Ok (EResponseReceived (s_id s) h ended None)
  | SE_TrailersReceived => Ok (ETrailersReceived (s_id s) h ended None)
  | SE_InformationalResponseReceived => Ok (EInformationalResponseReceived (s_id s) h None)
  | _ => Crash AssertionError
  end.

Definition receive_headers (cfg : config) (hs : list hitem) (end_stream : bool) : SM (list event) :=
  let info := is_informational_response (plain hs) in
    evs <- fsm (if info then SI_RECV_INFORMATIONAL_HEADERS else SI_RECV_HEADERS) ;;
    (* fix 415bf1d: END_STREAM on a 1xx block is refused after the state machine was asked *)
    (if info && end_stream then lift_res perr else ret tt) ;;;
    es <- (if end_stream then fsm SI_RECV_END_STREAM else ret []) ;;
    (* events[0].stream_ended = es_events[0] : IndexError when either list is empty *)
    match evs, (if end_stream then es else [SE_StreamEnded]) with
    | [], _ => crash IndexError
    | _, [] => crash IndexError
    | e0 :: _, _ =>
        (if info then ret tt else initialize_content_length hs) ;;;     (* a 1xx block says nothing about the final message *)
        (if hd_is SE_TrailersReceived evs && negb end_stream then lift_res perr else ret tt) ;;;
        f <- lift_res (build_flags evs) ;;
        h <- lift_res (process_received_headers cfg f hs) ;;
        s <- get ;;
        ev <- lift_res (hdr_event s e0 h (if end_stream then Some 1 else None)) ;;
        ret (ev :: (if end_stream then [EStreamEnded (s_id s)] else []))
    end.

Definition track_content_length (len : Z) (end_stream : bool) : SM unit :=
  fun s =>
    let actual := s_act_cl s + len in
    let s1 := set_cl s (s_exp_cl s) actual in
    match s_exp_cl s with
    | Some expected =>
        if expected <? actual then (s1, Err InvalidBodyLengthError (exn_code InvalidBodyLengthError) 0 false)
        else if end_stream && negb (expected =? actual) then (s1, Err InvalidBodyLengthError (exn_code InvalidBodyLengthError) 0 false)
        else (s1, Ok tt)
    | None => (s1, Ok tt)
    end.

Definition receive_data (len fclen : Z) (end_stream : bool) : SM (list event) :=
  evs <- fsm SI_RECV_DATA ;;
  lift_wm (fun w => window_consumed w fclen) ;;;
  track_content_length len end_stream ;;;
  es <- (if end_stream then fsm SI_RECV_END_STREAM else ret []) ;;
  match evs, (if end_stream then es else [SE_StreamEnded]) with
  | [], _ => crash IndexError
  | _, [] => crash IndexError
  | _, _ =>
      s <- get ;;
      ret (EDataReceived (s_id s) len fclen (if end_stream then Some 1 else None)
           :: (if end_stream then [EStreamEnded (s_id s)] else []))
  end.

Definition reset_stream (code : Z) : SM (list frame) :=
  fsm SI_SEND_RST_STREAM ;;;
  s <- get ;; ret [FRstStream (s_id s) code].

Definition receive_window_update (inc : Z) : SM (list frame * list event) :=
  evs <- fsm SI_RECV_WINDOW_UPDATE ;;
  s <- get ;;
  match evs with
  | [] => ret ([], [])
  | _ =>
      match guard_increment_window (s_out_win s) inc with
      | Ok w => put (set_out_win s w) ;;; ret ([], [EWindowUpdated (s_id s) inc])
      | _ =>
          fs <- reset_stream EC_FLOW_CONTROL_ERROR ;;
          ret (fs, [EStreamReset (s_id s) EC_FLOW_CONTROL_ERROR false])
      end
  end.

Definition receive_continuation : SM unit :=
  fsm SI_RECV_CONTINUATION ;;; crash AssertionError.

Definition receive_alt_svc (origin field : bytes) : SM (list event) :=
  match origin with
  | _ :: _ => ret []
  | [] =>
      evs <- fsm SI_RECV_ALTERNATIVE_SERVICE ;;
      s <- get ;;
      match evs with
      | [] => ret []
      | _ => ret [EAltSvcAvailable (s_authority s) field]
      end
  end.

Definition stream_reset (code : Z) : SM (list event) :=
  evs <- fsm SI_RECV_RST_STREAM ;;
  s <- get ;;
  match evs with [] => ret [] | _ => ret [EStreamReset (s_id s) code true] end.

Definition acknowledge_received_data (n : Z) : SM (list frame) :=
  fun s =>
    let '(w, o) := process_bytes (s_in_wm s) n in
    (set_in_wm s w, Ok match wm_increment o with Some inc => [FWindowUpdate (s_id s) inc] | None => [] end).

Definition inbound_iws_change (d : Z) : SM unit := lift_wm (fun w => wm_delta w d).

Definition upgrade (client_side : bool) : SM unit :=
  s <- get ;;
  if negb (s_id s =? 1) then crash AssertionError
  else fsm (if client_side then SI_UPGRADE_CLIENT else SI_UPGRADE_SERVER) ;;; ret tt.
