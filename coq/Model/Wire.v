(* Model/Wire.v — the parts of hyperframe 6.1 that decide how h2's FrameBuffer reacts to bytes:
   the 9-byte frame header and, per frame type, whether parse_body succeeds or raises InvalidDataError /
   InvalidFrameError / InvalidPaddingError, and which block fragment a header-block frame carries.
   hyperframe is an external library: this re-statement is tied to it by the correspondence run of C21 / C17. *)
From H2 Require Import Base.Prelude Model.Types Model.FrameBuffer.

Definition be (bs : bytes) : Z := fold_left (fun acc b => acc * 256 + b) bs 0.

(* parse_frame_header: None when Frame.__init__ rejects the stream association (InvalidDataError) *)
Definition needs_stream (ty : Z) : bool := existsb (Z.eqb ty) [0; 1; 2; 3; 5; 9].
Definition needs_no_stream (ty : Z) : bool := existsb (Z.eqb ty) [4; 6; 7].

Definition parse_hdr (h : bytes) : option (nat * Z * Z * Z) :=
  match h with
  | [l1; l2; l3; ty; fl; s1; s2; s3; s4] =>
      let len := be [l1; l2; l3] in
      let sid := be [s1; s2; s3; s4] mod 2147483648 in
      if needs_stream ty && (sid =? 0) then None
      else if needs_no_stream ty && negb (sid =? 0) then None
      else Some (Z.to_nat len, ty, fl, sid)
  | _ => None
  end.

Definition bit (fl b : Z) : bool := Z.testbit fl (Z.log2 b).
Definition zl (b : bytes) : Z := Z.of_nat (length b).
Definition slice (a b : Z) (d : bytes) : bytes :=       (* d[a:b] for 0 <= a; b may be negative or below a *)
  let b' := if b <? 0 then Z.max 0 (zl d + b) else Z.min b (zl d) in
  if b' <=? a then [] else firstn (Z.to_nat (b' - a)) (skipn (Z.to_nat a) d).

(* padding prefix: (consumed, pad_length) or InvalidFrameError when the byte is missing *)
Definition padding (padded : bool) (d : bytes) : option (Z * Z) :=
  if padded then match d with p :: _ => Some (1, p) | [] => None end else Some (0, 0).

Definition parse_body (ty fl sid : Z) (d : bytes) : bres :=
  if ty =? 0 then                                           (* DATA *)
    match padding (bit fl 8) d with
    | None => BInvalidFrame
    | Some (k, pad) =>
        if negb (pad =? 0) && (pad >=? zl d) then BInvalidPadding else BOk (slice k (zl d - pad) d)
    end
  else if ty =? 1 then                                      (* HEADERS *)
    match padding (bit fl 8) d with
    | None => BInvalidFrame
    | Some (k, pad) =>
        let d1 := skipn (Z.to_nat k) d in
        let pk := if bit fl 32 then 5 else 0 in
        if bit fl 32 && (zl d1 <? 5) then BInvalidFrame
        else if negb (pad =? 0) && (pad >=? zl d1) then BInvalidPadding
        else BOk (slice pk (zl d1 - pad) d1)
    end
  else if ty =? 2 then (if zl d =? 5 then BOk d else BInvalidFrame)                    (* PRIORITY *)
  else if ty =? 3 then (if zl d =? 4 then BOk d else BInvalidFrame)                    (* RST_STREAM *)
  else if ty =? 4 then                                                                 (* SETTINGS *)
    if bit fl 1 && (0 <? zl d) then BInvalidData
    else if zl d mod 6 =? 0 then BOk d else BInvalidFrame
  else if ty =? 5 then                                      (* PUSH_PROMISE *)
    match padding (bit fl 8) d with
    | None => BInvalidFrame
    | Some (k, pad) =>
        if zl d <? k + 4 then BInvalidFrame
        else
          let pr := be (slice k (k + 4) d) in
          if (pr =? 0) || negb (pr mod 2 =? 0) then BInvalidData
          else if negb (pad =? 0) && (pad >=? zl d) then BInvalidPadding
          else BOk (slice (k + 4) (zl d - pad) d)
    end
  else if ty =? 6 then (if zl d =? 8 then BOk d else BInvalidFrame)                    (* PING *)
  else if ty =? 7 then (if zl d <? 8 then BInvalidFrame else BOk d)                    (* GOAWAY *)
  else if ty =? 8 then                                                                 (* WINDOW_UPDATE *)
    if negb (zl d =? 4) then BInvalidFrame
    else let inc := be d in if (1 <=? inc) && (inc <=? 2147483647) then BOk d else BInvalidData
  else if ty =? 9 then BOk d                                                           (* CONTINUATION *)
  else if ty =? 10 then                                                                (* ALTSVC *)
    if zl d <? 2 then BInvalidFrame
    else let ol := be (firstn 2 d) in if zl d - 2 <? ol then BInvalidFrame else BOk d
  else BOk d.                                                                          (* extension frames *)

(* executable traces for the correspondence run *)
Definition err_code (e : fberr) : Z :=
  match e with EProtocol => 1 | EFrameTooLarge => 2 | EFrameDataMissing => 3 | EInvalidPadding => 4 end.
Definition wf_obs (f : wframe) : list Z := [wf_type f; wf_flags f; wf_sid f; wf_len f; zl (wf_frag f)].

(* feed chunks to a buffer whose preamble is [pre]; -> per chunk: frames yielded, error code (0 none, 9 bad preamble) *)
Fixpoint feed_obs (maxf : Z) (pre : bytes) (h : list wframe) (buf : bytes) (cs : list bytes) : list (list (list Z) * Z) :=
  match cs with
  | [] => []
  | c :: cs' =>
      match add_data_preface pre c with
      | None => [([], 9)]
      | Some (pre', payload) =>
          let '(fs, e, (h1, r)) := drain_all parse_hdr parse_body (list wframe) Empty_set (fun _ => maxf) collect [] h (buf ++ payload) in
          (map wf_obs fs, match e with Some (inl x) => err_code x | _ => 0 end)
          :: feed_obs maxf pre' h1 r cs'      (* after an exception later calls go on with the same buffer *)
      end
  end.
