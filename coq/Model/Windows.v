(* Model/Windows.v — hand model of h2/windows.py (WindowManager) and utilities.guard_increment_window.
   Tied to the code by Proofs/GenEq.v (extensional equality with the AST-translated kernels). *)
From H2 Require Import Base.Prelude Gen.Consts.

Record wm := mkwm { wm_max : Z; wm_cur : Z; wm_bp : Z }.

Definition wm_new (m : Z) : wm := mkwm m m 0.

Definition fc_err {A} : res A := Err FlowControlError (exn_code FlowControlError) 0 false.

(* The subtraction happens before the check: a raising call leaves the reduced window behind. *)
Definition window_consumed (w : wm) (n : Z) : wm * res unit :=
  let c := wm_cur w - n in
  (mkwm (wm_max w) c (wm_bp w), if c <? 0 then fc_err else Ok tt).

(* The overflow check comes first: a raising call changes nothing. *)
Definition window_opened (w : wm) (n : Z) : wm * res unit :=
  let c := wm_cur w + n in
  if c >? LARGEST_FLOW_CONTROL_WINDOW then (w, fc_err)
  else (mkwm (Z.max (wm_max w) c) c (wm_bp w), Ok tt).

(* [None]: nothing processed yet.  [Some 0]: no update due. *)
Definition maybe_update_window (w : wm) : wm * option Z :=
  if wm_bp w =? 0 then (w, None)
  else
    let room := wm_max w - wm_cur w in
    if ((wm_cur w =? 0) && (wm_bp w >? Z.min 1024 (wm_max w / 4))) || (wm_bp w >=? wm_max w / 2)
    then let inc := Z.min (wm_bp w) room in (mkwm (wm_max w) (wm_cur w + inc) 0, Some inc)
    else (w, Some 0).

Definition process_bytes (w : wm) (n : Z) : wm * option Z :=
  maybe_update_window (mkwm (wm_max w) (wm_cur w) (wm_bp w + n)).

(* What the callers do with the answer: `if increment:` *)
Definition wm_increment (o : option Z) : option Z :=
  match o with Some z => if z =? 0 then None else Some z | None => None end.

Definition guard_increment_window (cur inc : Z) : res Z :=
  if cur + inc >? LARGEST_FLOW_CONTROL_WINDOW then fc_err else Ok (cur + inc).
