(* Model/Obs.v — observations of a step as trees of integers, and their hash.
   harness/obs.py builds the same trees from the real H2Connection; the two hashes are compared
   step by step (the hash only keeps the cases files small; a mismatch is re-run printing full trees). *)
From H2 Require Import Base.Prelude Base.PyDict Model.FsmTypes Gen.Consts Model.Types Model.Windows
  Model.Settings Model.StreamFSM Model.Stream Model.ConnState Model.Connection.

Inductive tree := TN (z : Z) | TL (l : list tree).

Definition P61 : Z := 2305843009213693951.   (* 2^61 - 1 *)

Fixpoint thash (t : tree) : Z :=
  match t with
  | TN z => (z * 31 + 7) mod P61
  | TL l => (fix go (l : list tree) (h : Z) : Z :=
               match l with
               | [] => h
               | x :: r => go r ((h * 1000003 + thash x) mod P61)
               end) l 13
  end.

Definition tb (b : bool) : tree := TN (if b then 1 else 0).
Definition tbytes (b : bytes) : tree := TL (map TN b).
Definition topt {A} (f : A -> tree) (o : option A) : tree := match o with Some a => TL [f a] | None => TL [] end.
Definition thitem (h : hitem) : tree := let '(n, v, ni) := h in TL [tbytes n; tbytes v; tb ni].
Definition thitems (hs : list hitem) : tree := TL (map thitem hs).
Definition tprio (p : prio) : tree := let '(d, w, e) := p in TL [TN d; TN w; tb e].
Definition tpairs (l : list (Z * Z)) : tree := TL (map (fun kv => TL [TN (fst kv); TN (snd kv)]) l).
Definition tchanges (l : list (Z * option Z * Z)) : tree :=
  TL (map (fun c => TL [TN (fst (fst c)); topt TN (snd (fst c)); TN (snd c)]) l).

Definition tframe (f : frame) : tree :=
  match f with
  | FHeaders sid es eh p hs ch => TL [TN 1; TN sid; tb es; tb eh; topt tprio p; thitems hs; TN ch]
  | FContinuation sid eh ch => TL [TN 9; TN sid; tb eh; TN ch]
  | FPushPromise sid pr eh hs ch => TL [TN 5; TN sid; TN pr; tb eh; thitems hs; TN ch]
  | FData sid len es pad => TL [TN 0; TN sid; TN len; tb es; topt TN pad]
  | FSettings ack vals => TL [TN 4; tb ack; tpairs vals]
  | FWindowUpdate sid inc => TL [TN 8; TN sid; TN (inc mod 2147483648)]   (* as serialised: & 0x7FFFFFFF *)
  | FPing ack pl => TL [TN 6; tb ack; tbytes pl]
  | FRstStream sid code => TL [TN 3; TN sid; TN code]
  | FPriority sid p => TL [TN 2; TN sid; tprio p]
  | FGoAway last code dbg => TL [TN 7; TN last; TN code; TN dbg]
  | FAltSvc sid o fl => TL [TN 10; TN sid; tbytes o; tbytes fl]
  end.

(* hyperframe serialises stream ids `& 0x7FFFFFFF`: the observation is what reaches the wire *)
Definition ws (sid : Z) : Z := sid mod 2147483648.
Definition wire_frame (f : frame) : frame :=
  match f with
  | FHeaders sid es eh p hs ch => FHeaders (ws sid) es eh p hs ch
  | FContinuation sid eh ch => FContinuation (ws sid) eh ch
  | FPushPromise sid pr eh hs ch => FPushPromise (ws sid) (ws pr) eh hs ch
  | FData sid len es pad => FData (ws sid) len es pad
  | FWindowUpdate sid inc => FWindowUpdate (ws sid) inc
  | FRstStream sid code => FRstStream (ws sid) code
  | FPriority sid p => FPriority (ws sid) p
  | FAltSvc sid o fl => FAltSvc (ws sid) o fl
  | _ => f
  end.

Definition tevent (e : event) : tree :=
  match e with
  | ERequestReceived sid hs en pu => TL [TN 1; TN sid; thitems hs; topt TN en; topt TN pu]
  | EResponseReceived sid hs en pu => TL [TN 2; TN sid; thitems hs; topt TN en; topt TN pu]
  | ETrailersReceived sid hs en pu => TL [TN 3; TN sid; thitems hs; topt TN en; topt TN pu]
  | EInformationalResponseReceived sid hs pu => TL [TN 4; TN sid; thitems hs; topt TN pu]
  | EDataReceived sid len fc en => TL [TN 5; TN sid; TN len; TN fc; topt TN en]
  | EWindowUpdated sid d => TL [TN 6; TN sid; TN d]
  | ERemoteSettingsChanged ch => TL [TN 7; tchanges ch]
  | EPingReceived pl => TL [TN 8; tbytes pl]
  | EPingAckReceived pl => TL [TN 9; tbytes pl]
  | EStreamEnded sid => TL [TN 10; TN sid]
  | EStreamReset sid code rem => TL [TN 11; TN sid; TN code; tb rem]
  | EPushedStreamReceived pushed parent hs => TL [TN 12; TN pushed; TN parent; thitems hs]
  | ESettingsAcknowledged ch => TL [TN 13; tchanges ch]
  | EPriorityUpdated sid w d ex => TL [TN 14; TN sid; TN w; TN d; tb ex]
  | EConnectionTerminated code last dbg => TL [TN 15; TN code; TN last; TN dbg]
  | EAltSvcAvailable o fl => TL [TN 16; topt tbytes o; tbytes fl]
  | EUnknownFrameReceived ft => TL [TN 17; TN ft]
  end.

Definition h2exn_idx (e : h2exn) : Z :=
  match e with
  | ProtocolError => 0 | FrameTooLargeError => 1 | FrameDataMissingError => 2 | TooManyStreamsError => 3
  | FlowControlError => 4 | StreamIDTooLowError => 5 | NoAvailableStreamIDError => 6 | NoSuchStreamError => 7
  | StreamClosedError => 8 | InvalidSettingsValueError => 9 | InvalidBodyLengthError => 10
  | UnsupportedFrameError => 11 | DenialOfServiceError => 12 | RFC1122Error => 13
  end.
Definition pyexn_idx (e : pyexn) : Z :=
  match e with
  | ValueError => 0 | TypeError => 1 | KeyError => 2 | IndexError => 3 | AssertionError => 4
  | UnicodeDecodeError => 5 | ForeignError => 6
  end.

Definition tanswer (a : answer) : tree :=
  match a with
  | ANone => TL []
  | AZ z => TL [TN z]
  | AEvents evs => TL (map tevent evs)
  | ASettings vals => tpairs vals
  end.

(* the error code of RFC1122Error (not a ProtocolError) is not observable: normalised to 0 *)
Definition tres (r : res answer) : tree :=
  match r with
  | Ok a => TL [TN 0; tanswer a]
  | Err e code _ _ => TL [TN 1; TN (h2exn_idx e); TN (if is_protocol_error e then code else 0)]
  | Crash p => TL [TN 2; TN (pyexn_idx p)]
  end.

(* read-only probes taken after every step, in separately hashed parts so that each property can
   compare its own projection *)
Definition per_stream (c : conn) (f : stream -> list tree) : tree :=
  TL (map (fun kv => TL (TN (fst kv) :: f (snd kv))) (c_streams c)).

Definition tprobe (c : conn) : list tree :=
  [ (* 3 connection state *)
    TN (match c_state c with C_IDLE => 0 | C_CLIENT_OPEN => 1 | C_SERVER_OPEN => 2 | C_CLOSED => 3 end);
    (* 4 tables *)
    TL [TN (zlen (c_streams c)); TL (map (fun kv => TL [TN (fst kv); TN (cb_code (snd kv))]) (c_closed c))];
    (* 5 stream id watermarks *)
    TL [TN (c_hi_in c); TN (c_hi_out c)];
    (* 6 connection flow control *)
    TL [TN (c_out_win c); TN (wm_cur (c_in_wm c)); TN (wm_max (c_in_wm c)); TN (wm_bp (c_in_wm c))];
    (* 7 limits *)
    TL [TN (c_max_out_frame c); TN (c_max_in_frame c); TN (c_dec_max_hls c); TN (c_enc_table_size c)];
    (* 8 stream state machines *)
    per_stream c (fun s => [TN (sstate_code (sm_state (s_sm s))); TN (optb_code (sm_client (s_sm s)));
                            tb (sm_hs (s_sm s)); tb (sm_ts (s_sm s)); tb (sm_hr (s_sm s)); tb (sm_tr (s_sm s));
                            TN (cb_code (sm_cb (s_sm s)))]);
    (* 9 stream flow control *)
    per_stream c (fun s => [TN (s_out_win s); TN (wm_cur (s_in_wm s)); TN (wm_max (s_in_wm s)); TN (wm_bp (s_in_wm s))]);
    (* 10 stream bookkeeping *)
    per_stream c (fun s => [TN (s_max_out_frame s); topt TN (s_exp_cl s); TN (s_act_cl s);
                            topt tbytes (s_authority s); topt tbytes (s_method s)]);
    (* 11, 12 settings *)
    TL (map (fun kq => TL [TN (fst kq); TL (map (topt TN) (snd kq))]) (c_local c));
    TL (map (fun kq => TL [TN (fst kq); TL (map (topt TN) (snd kq))]) (c_remote c)) ].

(* observation of one step: 0 outcome, 1 pending output, 2 encoder log growth, 3.. state probes *)
Definition strip_headers (f : frame) : frame :=
  match f with
  | FHeaders sid es eh p _ ch => FHeaders sid es eh p [] ch
  | FPushPromise sid pr eh _ ch => FPushPromise sid pr eh [] ch
  | _ => f
  end.
Definition header_lists (fs : list frame) : list (list hitem) :=
  flat_map (fun f => match f with FHeaders _ _ _ _ hs _ | FPushPromise _ _ _ hs _ => [hs] | _ => [] end) fs.

(* 0 outcome, 1 pending output (structure), 2 encoder log growth, 3..12 probes,
   13 header lists of the pending output's header blocks (as an independent HPACK decoder reads them) *)
Definition obs_parts (c c' : conn) (r : res answer) : list tree :=
  [tres r; TL (map (fun f => tframe (wire_frame (strip_headers f))) (c_out c'));
   TL (map thitems (firstn (length (c_enc_log c') - length (c_enc_log c)) (c_enc_log c')))]
  ++ tprobe c' ++ [TL (map thitems (header_lists (c_out c')))].

Definition step_obs (c : conn) (o : op) : conn * list Z :=
  let '(c', r) := step c o in (c', map thash (obs_parts c c' r)).

Fixpoint run_obs (c : conn) (os : list op) : list (list Z) :=
  match os with
  | [] => []
  | o :: r => let '(c', h) := step_obs c o in h :: run_obs c' r
  end.

Fixpoint run_trees (c : conn) (os : list op) : list (list tree) :=
  match os with
  | [] => []
  | o :: r => let '(c', res1) := step c o in obs_parts c c' res1 :: run_trees c' r
  end.
