(* Model/FsmTypes.v — state / input / side-effect alphabets of the two state machines.
   Hand-written; translator/reflect.py fails closed if the enums in the code differ. *)
From H2 Require Import Base.Prelude.

Inductive cstate := C_IDLE | C_CLIENT_OPEN | C_SERVER_OPEN | C_CLOSED.
Definition cstate_eqb (a b : cstate) : bool :=
  match a, b with
  | C_IDLE, C_IDLE
  | C_CLIENT_OPEN, C_CLIENT_OPEN
  | C_SERVER_OPEN, C_SERVER_OPEN
  | C_CLOSED, C_CLOSED => true
  | _, _ => false
  end.
Lemma cstate_eqb_eq a b : cstate_eqb a b = true <-> a = b.
Proof. destruct a, b; cbn; split; intros H; try reflexivity; discriminate. Qed.

Definition all_cstate : list cstate := [C_IDLE; C_CLIENT_OPEN; C_SERVER_OPEN; C_CLOSED].
Lemma all_cstate_complete x : In x all_cstate.
Proof. destruct x; cbn; tauto. Qed.

Inductive cinput := CI_SEND_HEADERS | CI_SEND_PUSH_PROMISE | CI_SEND_DATA | CI_SEND_GOAWAY | CI_SEND_WINDOW_UPDATE | CI_SEND_PING | CI_SEND_SETTINGS | CI_SEND_RST_STREAM | CI_SEND_PRIORITY | CI_RECV_HEADERS | CI_RECV_PUSH_PROMISE | CI_RECV_DATA | CI_RECV_GOAWAY | CI_RECV_WINDOW_UPDATE | CI_RECV_PING | CI_RECV_SETTINGS | CI_RECV_RST_STREAM | CI_RECV_PRIORITY | CI_SEND_ALTERNATIVE_SERVICE | CI_RECV_ALTERNATIVE_SERVICE.
Definition cinput_eqb (a b : cinput) : bool :=
  match a, b with
  | CI_SEND_HEADERS, CI_SEND_HEADERS
  | CI_SEND_PUSH_PROMISE, CI_SEND_PUSH_PROMISE
  | CI_SEND_DATA, CI_SEND_DATA
  | CI_SEND_GOAWAY, CI_SEND_GOAWAY
  | CI_SEND_WINDOW_UPDATE, CI_SEND_WINDOW_UPDATE
  | CI_SEND_PING, CI_SEND_PING
  | CI_SEND_SETTINGS, CI_SEND_SETTINGS
  | CI_SEND_RST_STREAM, CI_SEND_RST_STREAM
  | CI_SEND_PRIORITY, CI_SEND_PRIORITY
  | CI_RECV_HEADERS, CI_RECV_HEADERS
  | CI_RECV_PUSH_PROMISE, CI_RECV_PUSH_PROMISE
  | CI_RECV_DATA, CI_RECV_DATA
  | CI_RECV_GOAWAY, CI_RECV_GOAWAY
  | CI_RECV_WINDOW_UPDATE, CI_RECV_WINDOW_UPDATE
  | CI_RECV_PING, CI_RECV_PING
  | CI_RECV_SETTINGS, CI_RECV_SETTINGS
  | CI_RECV_RST_STREAM, CI_RECV_RST_STREAM
  | CI_RECV_PRIORITY, CI_RECV_PRIORITY
  | CI_SEND_ALTERNATIVE_SERVICE, CI_SEND_ALTERNATIVE_SERVICE
  | CI_RECV_ALTERNATIVE_SERVICE, CI_RECV_ALTERNATIVE_SERVICE => true
  | _, _ => false
  end.
Lemma cinput_eqb_eq a b : cinput_eqb a b = true <-> a = b.
Proof. destruct a, b; cbn; split; intros H; try reflexivity; discriminate. Qed.

Definition all_cinput : list cinput := [CI_SEND_HEADERS; CI_SEND_PUSH_PROMISE; CI_SEND_DATA; CI_SEND_GOAWAY; CI_SEND_WINDOW_UPDATE; CI_SEND_PING; CI_SEND_SETTINGS; CI_SEND_RST_STREAM; CI_SEND_PRIORITY; CI_RECV_HEADERS; CI_RECV_PUSH_PROMISE; CI_RECV_DATA; CI_RECV_GOAWAY; CI_RECV_WINDOW_UPDATE; CI_RECV_PING; CI_RECV_SETTINGS; CI_RECV_RST_STREAM; CI_RECV_PRIORITY; CI_SEND_ALTERNATIVE_SERVICE; CI_RECV_ALTERNATIVE_SERVICE].
Lemma all_cinput_complete x : In x all_cinput.
Proof. destruct x; cbn; tauto. Qed.

Inductive sstate := S_IDLE | S_RESERVED_REMOTE | S_RESERVED_LOCAL | S_OPEN | S_HALF_CLOSED_REMOTE | S_HALF_CLOSED_LOCAL | S_CLOSED.
Definition sstate_eqb (a b : sstate) : bool :=
  match a, b with
  | S_IDLE, S_IDLE
  | S_RESERVED_REMOTE, S_RESERVED_REMOTE
  | S_RESERVED_LOCAL, S_RESERVED_LOCAL
  | S_OPEN, S_OPEN
  | S_HALF_CLOSED_REMOTE, S_HALF_CLOSED_REMOTE
  | S_HALF_CLOSED_LOCAL, S_HALF_CLOSED_LOCAL
  | S_CLOSED, S_CLOSED => true
  | _, _ => false
  end.
Lemma sstate_eqb_eq a b : sstate_eqb a b = true <-> a = b.
Proof. destruct a, b; cbn; split; intros H; try reflexivity; discriminate. Qed.

Definition all_sstate : list sstate := [S_IDLE; S_RESERVED_REMOTE; S_RESERVED_LOCAL; S_OPEN; S_HALF_CLOSED_REMOTE; S_HALF_CLOSED_LOCAL; S_CLOSED].
Lemma all_sstate_complete x : In x all_sstate.
Proof. destruct x; cbn; tauto. Qed.

Inductive sinput := SI_SEND_HEADERS | SI_SEND_PUSH_PROMISE | SI_SEND_RST_STREAM | SI_SEND_DATA | SI_SEND_WINDOW_UPDATE | SI_SEND_END_STREAM | SI_RECV_HEADERS | SI_RECV_PUSH_PROMISE | SI_RECV_RST_STREAM | SI_RECV_DATA | SI_RECV_WINDOW_UPDATE | SI_RECV_END_STREAM | SI_RECV_CONTINUATION | SI_SEND_INFORMATIONAL_HEADERS | SI_RECV_INFORMATIONAL_HEADERS | SI_SEND_ALTERNATIVE_SERVICE | SI_RECV_ALTERNATIVE_SERVICE | SI_UPGRADE_CLIENT | SI_UPGRADE_SERVER.
Definition sinput_eqb (a b : sinput) : bool :=
  match a, b with
  | SI_SEND_HEADERS, SI_SEND_HEADERS
  | SI_SEND_PUSH_PROMISE, SI_SEND_PUSH_PROMISE
  | SI_SEND_RST_STREAM, SI_SEND_RST_STREAM
  | SI_SEND_DATA, SI_SEND_DATA
  | SI_SEND_WINDOW_UPDATE, SI_SEND_WINDOW_UPDATE
  | SI_SEND_END_STREAM, SI_SEND_END_STREAM
  | SI_RECV_HEADERS, SI_RECV_HEADERS
  | SI_RECV_PUSH_PROMISE, SI_RECV_PUSH_PROMISE
  | SI_RECV_RST_STREAM, SI_RECV_RST_STREAM
  | SI_RECV_DATA, SI_RECV_DATA
  | SI_RECV_WINDOW_UPDATE, SI_RECV_WINDOW_UPDATE
  | SI_RECV_END_STREAM, SI_RECV_END_STREAM
  | SI_RECV_CONTINUATION, SI_RECV_CONTINUATION
  | SI_SEND_INFORMATIONAL_HEADERS, SI_SEND_INFORMATIONAL_HEADERS
  | SI_RECV_INFORMATIONAL_HEADERS, SI_RECV_INFORMATIONAL_HEADERS
  | SI_SEND_ALTERNATIVE_SERVICE, SI_SEND_ALTERNATIVE_SERVICE
  | SI_RECV_ALTERNATIVE_SERVICE, SI_RECV_ALTERNATIVE_SERVICE
  | SI_UPGRADE_CLIENT, SI_UPGRADE_CLIENT
  | SI_UPGRADE_SERVER, SI_UPGRADE_SERVER => true
  | _, _ => false
  end.
Lemma sinput_eqb_eq a b : sinput_eqb a b = true <-> a = b.
Proof. destruct a, b; cbn; split; intros H; try reflexivity; discriminate. Qed.

Definition all_sinput : list sinput := [SI_SEND_HEADERS; SI_SEND_PUSH_PROMISE; SI_SEND_RST_STREAM; SI_SEND_DATA; SI_SEND_WINDOW_UPDATE; SI_SEND_END_STREAM; SI_RECV_HEADERS; SI_RECV_PUSH_PROMISE; SI_RECV_RST_STREAM; SI_RECV_DATA; SI_RECV_WINDOW_UPDATE; SI_RECV_END_STREAM; SI_RECV_CONTINUATION; SI_SEND_INFORMATIONAL_HEADERS; SI_RECV_INFORMATIONAL_HEADERS; SI_SEND_ALTERNATIVE_SERVICE; SI_RECV_ALTERNATIVE_SERVICE; SI_UPGRADE_CLIENT; SI_UPGRADE_SERVER].
Lemma all_sinput_complete x : In x all_sinput.
Proof. destruct x; cbn; tauto. Qed.

Inductive effect := E_none | E_request_sent | E_response_sent | E_request_received | E_response_received | E_data_received | E_window_updated | E_stream_half_closed | E_stream_ended | E_stream_reset | E_send_new_pushed_stream | E_recv_new_pushed_stream | E_send_push_promise | E_recv_push_promise | E_send_end_stream | E_send_reset_stream | E_reset_stream_on_error | E_recv_on_closed_stream | E_send_on_closed_stream | E_recv_push_on_closed_stream | E_send_push_on_closed_stream | E_send_informational_response | E_recv_informational_response | E_recv_alt_svc | E_send_alt_svc.
Definition effect_eqb (a b : effect) : bool :=
  match a, b with
  | E_none, E_none
  | E_request_sent, E_request_sent
  | E_response_sent, E_response_sent
  | E_request_received, E_request_received
  | E_response_received, E_response_received
  | E_data_received, E_data_received
  | E_window_updated, E_window_updated
  | E_stream_half_closed, E_stream_half_closed
  | E_stream_ended, E_stream_ended
  | E_stream_reset, E_stream_reset
  | E_send_new_pushed_stream, E_send_new_pushed_stream
  | E_recv_new_pushed_stream, E_recv_new_pushed_stream
  | E_send_push_promise, E_send_push_promise
  | E_recv_push_promise, E_recv_push_promise
  | E_send_end_stream, E_send_end_stream
  | E_send_reset_stream, E_send_reset_stream
  | E_reset_stream_on_error, E_reset_stream_on_error
  | E_recv_on_closed_stream, E_recv_on_closed_stream
  | E_send_on_closed_stream, E_send_on_closed_stream
  | E_recv_push_on_closed_stream, E_recv_push_on_closed_stream
  | E_send_push_on_closed_stream, E_send_push_on_closed_stream
  | E_send_informational_response, E_send_informational_response
  | E_recv_informational_response, E_recv_informational_response
  | E_recv_alt_svc, E_recv_alt_svc
  | E_send_alt_svc, E_send_alt_svc => true
  | _, _ => false
  end.
Lemma effect_eqb_eq a b : effect_eqb a b = true <-> a = b.
Proof. destruct a, b; cbn; split; intros H; try reflexivity; discriminate. Qed.

Definition all_effect : list effect := [E_none; E_request_sent; E_response_sent; E_request_received; E_response_received; E_data_received; E_window_updated; E_stream_half_closed; E_stream_ended; E_stream_reset; E_send_new_pushed_stream; E_recv_new_pushed_stream; E_send_push_promise; E_recv_push_promise; E_send_end_stream; E_send_reset_stream; E_reset_stream_on_error; E_recv_on_closed_stream; E_send_on_closed_stream; E_recv_push_on_closed_stream; E_send_push_on_closed_stream; E_send_informational_response; E_recv_informational_response; E_recv_alt_svc; E_send_alt_svc].
Lemma all_effect_complete x : In x all_effect.
Proof. destruct x; cbn; tauto. Qed.

Inductive closedby := CB_SEND_END_STREAM | CB_RECV_END_STREAM | CB_SEND_RST_STREAM | CB_RECV_RST_STREAM.
Definition closedby_eqb (a b : closedby) : bool :=
  match a, b with
  | CB_SEND_END_STREAM, CB_SEND_END_STREAM
  | CB_RECV_END_STREAM, CB_RECV_END_STREAM
  | CB_SEND_RST_STREAM, CB_SEND_RST_STREAM
  | CB_RECV_RST_STREAM, CB_RECV_RST_STREAM => true
  | _, _ => false
  end.
Lemma closedby_eqb_eq a b : closedby_eqb a b = true <-> a = b.
Proof. destruct a, b; cbn; split; intros H; try reflexivity; discriminate. Qed.

Definition all_closedby : list closedby := [CB_SEND_END_STREAM; CB_RECV_END_STREAM; CB_SEND_RST_STREAM; CB_RECV_RST_STREAM].
Lemma all_closedby_complete x : In x all_closedby.
Proof. destruct x; cbn; tauto. Qed.
