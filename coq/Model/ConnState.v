(* Model/ConnState.v — the H2Connection state record and its field setters (setters written by a script at authoring time; plain Gallina). *)
From H2 Require Import Base.Prelude Base.PyDict Model.FsmTypes Model.Types Model.Windows Model.Settings Model.StreamFSM Model.Stream.

Record conn := mkconn {
  c_cfg : config;
  c_state : cstate;
  c_streams : dict stream;
  c_closed : dict (option closedby);
  c_hi_in : Z;
  c_hi_out : Z;
  c_local : settings;
  c_remote : settings;
  c_out_win : Z;
  c_in_wm : wm;
  c_max_out_frame : Z;
  c_max_in_frame : Z;
  c_out : list frame;
  c_dec_max_hls : Z;
  c_enc_log : list (list hitem);
  c_dec_log : list hdec;
  c_enc_table_size : Z;
  c_inbuf : list (rframe * Z)
}.
(* c_out: frames appended to _data_to_send since the last drain, oldest first.
   c_enc_log / c_dec_log: ghost logs (never read by the model's control flow): what Encoder.encode consumed per call
   (newest first) and what was handed to Decoder.decode.  c_enc_table_size: encoder.header_table_size.
   c_inbuf: frames received but not yet consumed from incoming_buffer (a frame FrameBuffer rejects stays at the head). *)
Definition cset_cfg (c : conn) (v : config) : conn := mkconn v (c_state c) (c_streams c) (c_closed c) (c_hi_in c) (c_hi_out c) (c_local c) (c_remote c) (c_out_win c) (c_in_wm c) (c_max_out_frame c) (c_max_in_frame c) (c_out c) (c_dec_max_hls c) (c_enc_log c) (c_dec_log c) (c_enc_table_size c) (c_inbuf c).
Definition cset_state (c : conn) (v : cstate) : conn := mkconn (c_cfg c) v (c_streams c) (c_closed c) (c_hi_in c) (c_hi_out c) (c_local c) (c_remote c) (c_out_win c) (c_in_wm c) (c_max_out_frame c) (c_max_in_frame c) (c_out c) (c_dec_max_hls c) (c_enc_log c) (c_dec_log c) (c_enc_table_size c) (c_inbuf c).
Definition cset_streams (c : conn) (v : dict stream) : conn := mkconn (c_cfg c) (c_state c) v (c_closed c) (c_hi_in c) (c_hi_out c) (c_local c) (c_remote c) (c_out_win c) (c_in_wm c) (c_max_out_frame c) (c_max_in_frame c) (c_out c) (c_dec_max_hls c) (c_enc_log c) (c_dec_log c) (c_enc_table_size c) (c_inbuf c).
Definition cset_closed (c : conn) (v : dict (option closedby)) : conn := mkconn (c_cfg c) (c_state c) (c_streams c) v (c_hi_in c) (c_hi_out c) (c_local c) (c_remote c) (c_out_win c) (c_in_wm c) (c_max_out_frame c) (c_max_in_frame c) (c_out c) (c_dec_max_hls c) (c_enc_log c) (c_dec_log c) (c_enc_table_size c) (c_inbuf c).
Definition cset_hi_in (c : conn) (v : Z) : conn := mkconn (c_cfg c) (c_state c) (c_streams c) (c_closed c) v (c_hi_out c) (c_local c) (c_remote c) (c_out_win c) (c_in_wm c) (c_max_out_frame c) (c_max_in_frame c) (c_out c) (c_dec_max_hls c) (c_enc_log c) (c_dec_log c) (c_enc_table_size c) (c_inbuf c).
Definition cset_hi_out (c : conn) (v : Z) : conn := mkconn (c_cfg c) (c_state c) (c_streams c) (c_closed c) (c_hi_in c) v (c_local c) (c_remote c) (c_out_win c) (c_in_wm c) (c_max_out_frame c) (c_max_in_frame c) (c_out c) (c_dec_max_hls c) (c_enc_log c) (c_dec_log c) (c_enc_table_size c) (c_inbuf c).
Definition cset_local (c : conn) (v : settings) : conn := mkconn (c_cfg c) (c_state c) (c_streams c) (c_closed c) (c_hi_in c) (c_hi_out c) v (c_remote c) (c_out_win c) (c_in_wm c) (c_max_out_frame c) (c_max_in_frame c) (c_out c) (c_dec_max_hls c) (c_enc_log c) (c_dec_log c) (c_enc_table_size c) (c_inbuf c).
Definition cset_remote (c : conn) (v : settings) : conn := mkconn (c_cfg c) (c_state c) (c_streams c) (c_closed c) (c_hi_in c) (c_hi_out c) (c_local c) v (c_out_win c) (c_in_wm c) (c_max_out_frame c) (c_max_in_frame c) (c_out c) (c_dec_max_hls c) (c_enc_log c) (c_dec_log c) (c_enc_table_size c) (c_inbuf c).
Definition cset_out_win (c : conn) (v : Z) : conn := mkconn (c_cfg c) (c_state c) (c_streams c) (c_closed c) (c_hi_in c) (c_hi_out c) (c_local c) (c_remote c) v (c_in_wm c) (c_max_out_frame c) (c_max_in_frame c) (c_out c) (c_dec_max_hls c) (c_enc_log c) (c_dec_log c) (c_enc_table_size c) (c_inbuf c).
Definition cset_in_wm (c : conn) (v : wm) : conn := mkconn (c_cfg c) (c_state c) (c_streams c) (c_closed c) (c_hi_in c) (c_hi_out c) (c_local c) (c_remote c) (c_out_win c) v (c_max_out_frame c) (c_max_in_frame c) (c_out c) (c_dec_max_hls c) (c_enc_log c) (c_dec_log c) (c_enc_table_size c) (c_inbuf c).
Definition cset_max_out_frame (c : conn) (v : Z) : conn := mkconn (c_cfg c) (c_state c) (c_streams c) (c_closed c) (c_hi_in c) (c_hi_out c) (c_local c) (c_remote c) (c_out_win c) (c_in_wm c) v (c_max_in_frame c) (c_out c) (c_dec_max_hls c) (c_enc_log c) (c_dec_log c) (c_enc_table_size c) (c_inbuf c).
Definition cset_max_in_frame (c : conn) (v : Z) : conn := mkconn (c_cfg c) (c_state c) (c_streams c) (c_closed c) (c_hi_in c) (c_hi_out c) (c_local c) (c_remote c) (c_out_win c) (c_in_wm c) (c_max_out_frame c) v (c_out c) (c_dec_max_hls c) (c_enc_log c) (c_dec_log c) (c_enc_table_size c) (c_inbuf c).
Definition cset_out (c : conn) (v : list frame) : conn := mkconn (c_cfg c) (c_state c) (c_streams c) (c_closed c) (c_hi_in c) (c_hi_out c) (c_local c) (c_remote c) (c_out_win c) (c_in_wm c) (c_max_out_frame c) (c_max_in_frame c) v (c_dec_max_hls c) (c_enc_log c) (c_dec_log c) (c_enc_table_size c) (c_inbuf c).
Definition cset_dec_max_hls (c : conn) (v : Z) : conn := mkconn (c_cfg c) (c_state c) (c_streams c) (c_closed c) (c_hi_in c) (c_hi_out c) (c_local c) (c_remote c) (c_out_win c) (c_in_wm c) (c_max_out_frame c) (c_max_in_frame c) (c_out c) v (c_enc_log c) (c_dec_log c) (c_enc_table_size c) (c_inbuf c).
Definition cset_enc_log (c : conn) (v : list (list hitem)) : conn := mkconn (c_cfg c) (c_state c) (c_streams c) (c_closed c) (c_hi_in c) (c_hi_out c) (c_local c) (c_remote c) (c_out_win c) (c_in_wm c) (c_max_out_frame c) (c_max_in_frame c) (c_out c) (c_dec_max_hls c) v (c_dec_log c) (c_enc_table_size c) (c_inbuf c).
Definition cset_dec_log (c : conn) (v : list hdec) : conn := mkconn (c_cfg c) (c_state c) (c_streams c) (c_closed c) (c_hi_in c) (c_hi_out c) (c_local c) (c_remote c) (c_out_win c) (c_in_wm c) (c_max_out_frame c) (c_max_in_frame c) (c_out c) (c_dec_max_hls c) (c_enc_log c) v (c_enc_table_size c) (c_inbuf c).
Definition cset_enc_table_size (c : conn) (v : Z) : conn := mkconn (c_cfg c) (c_state c) (c_streams c) (c_closed c) (c_hi_in c) (c_hi_out c) (c_local c) (c_remote c) (c_out_win c) (c_in_wm c) (c_max_out_frame c) (c_max_in_frame c) (c_out c) (c_dec_max_hls c) (c_enc_log c) (c_dec_log c) v (c_inbuf c).
Definition cset_inbuf (c : conn) (v : list (rframe * Z)) : conn := mkconn (c_cfg c) (c_state c) (c_streams c) (c_closed c) (c_hi_in c) (c_hi_out c) (c_local c) (c_remote c) (c_out_win c) (c_in_wm c) (c_max_out_frame c) (c_max_in_frame c) (c_out c) (c_dec_max_hls c) (c_enc_log c) (c_dec_log c) (c_enc_table_size c) v.
