(* Spec/Rfc812.v — RFC 7540 section 8.1.2 (HTTP header fields) as a predicate on a WHOLE header list, written from the RFC
   text: field syntax (8.1.2), connection-specific fields (8.1.2.2), pseudo-header placement, uniqueness and role
   (8.1.2.1, 8.1.2.3, 8.1.2.4), RFC 8441 (:protocol with CONNECT).  Literal byte strings; independent of h2's one-pass,
   stateful validators, which Proofs/C15Proofs.v relates to it. *)
From H2 Require Import Base.Prelude Model.Types.

Definition s_authority : bytes := [58;97;117;116;104;111;114;105;116;121].
Definition s_method : bytes := [58;109;101;116;104;111;100].
Definition s_path : bytes := [58;112;97;116;104].
Definition s_scheme : bytes := [58;115;99;104;101;109;101].
Definition s_status : bytes := [58;115;116;97;116;117;115].
Definition s_protocol : bytes := [58;112;114;111;116;111;99;111;108].
Definition s_host : bytes := [104;111;115;116].
Definition s_te : bytes := [116;101].
Definition s_trailers : bytes := [116;114;97;105;108;101;114;115].
Definition s_CONNECT : bytes := [67;79;78;78;69;67;84].
(* connection, keep-alive, proxy-connection, transfer-encoding, upgrade *)
Definition connection_specific : list bytes :=
  [[99;111;110;110;101;99;116;105;111;110]; [107;101;101;112;45;97;108;105;118;101];
   [112;114;111;120;121;45;99;111;110;110;101;99;116;105;111;110];
   [116;114;97;110;115;102;101;114;45;101;110;99;111;100;105;110;103]; [117;112;103;114;97;100;101]].
Definition known_pseudo : list bytes := [s_authority; s_method; s_path; s_protocol; s_scheme; s_status].
Definition request_pseudo : list bytes := [s_authority; s_method; s_path; s_protocol; s_scheme].

Definition ws (c : Z) : bool := existsb (Z.eqb c) [9; 10; 11; 12; 13; 32].
Definition upper (c : Z) : bool := (65 <=? c) && (c <=? 90).
Definition low (c : Z) : Z := if upper c then c + 32 else c.
Definition is_in (x : bytes) (l : list bytes) : bool := existsb (bytes_eqb x) l.
Definition pseudo (n : bytes) : bool := match n with 58 :: _ => true | _ => false end.

Definition no_surrounding_ws (b : bytes) : bool :=
  match b with [] => true | c :: _ => negb (ws c) && negb (ws (last b 0)) end.

(* what kind of block: trailers / a response (final, informational) / a request (also the request of a PUSH_PROMISE) *)
Inductive block := Request | Response | Trailers.

(* one field, whatever surrounds it *)
Definition field_ok (k : block) (n v : bytes) : bool :=
  negb (match n with [] => true | _ => false end) &&           (* names are not empty *)
  negb (existsb upper n) &&                                     (* "MUST be converted to lowercase" *)
  no_surrounding_ws n && no_surrounding_ws v &&
  negb (is_in n connection_specific) &&                         (* 8.1.2.2 *)
  negb (bytes_eqb n s_te && negb (bytes_eqb (map low v) s_trailers)) &&
  negb (match k with Request => bytes_eqb n s_path && (match v with [] => true | _ => false end) | _ => false end).  (* 8.1.2.3 *)

Definition names (hs : list hitem) : list bytes := map (fun h => fst (fst h)) hs.
Definition pseudo_names (hs : list hitem) : list bytes := filter pseudo (names hs).
(* "All pseudo-header fields MUST appear in the header block before regular header fields" *)
Fixpoint pseudo_first (ns : list bytes) : bool :=
  match ns with
  | [] => true
  | n :: r => if pseudo n then pseudo_first r else negb (existsb pseudo r)
  end.
Fixpoint no_dup (l : list bytes) : bool := match l with [] => true | x :: r => negb (is_in x r) && no_dup r end.

Fixpoint value_of (n : bytes) (hs : list hitem) : option bytes :=      (* the last field of that name *)
  match hs with
  | [] => None
  | (n', v, _) :: r => match value_of n r with Some x => Some x | None => if bytes_eqb n' n then Some v else None end
  end.

Definition role_ok (k : block) (hs : list hitem) : bool :=
  let ps := pseudo_names hs in
  match k with
  | Trailers => match ps with [] => true | _ => false end                              (* 8.1: trailers carry no pseudo-header *)
  | Response => is_in s_status ps && negb (existsb (fun p => is_in p request_pseudo) ps)   (* 8.1.2.4 *)
  | Request =>
      is_in s_method ps && is_in s_scheme ps && is_in s_path ps && negb (is_in s_status ps) &&   (* 8.1.2.3 *)
      (negb (is_in s_protocol ps) || match value_of s_method hs with Some m => bytes_eqb m s_CONNECT | None => false end) &&  (* RFC 8441 *)
      match value_of s_authority hs, value_of s_host hs with
      | None, None => false                 (* h2's choice: an origin must be named *)
      | Some a, Some h => bytes_eqb a h     (* they must agree *)
      | _, _ => true
      end
  end.

Definition conformant (k : block) (hs : list hitem) : bool :=
  forallb (fun h => field_ok k (fst (fst h)) (snd (fst h))) hs &&
  pseudo_first (names hs) && no_dup (pseudo_names hs) && forallb (fun p => is_in p known_pseudo) (pseudo_names hs) &&
  role_ok k hs.
