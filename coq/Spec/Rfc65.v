(* Spec/Rfc65.v — RFC 7540 section 6.5.2 / RFC 8441 section 3: which SETTINGS values are legal and
   which error code an illegal one must produce.  Written from the RFC text with literal numbers,
   independent of the constants dumped from the code. *)
From H2 Require Import Base.Prelude.

(* identifiers: 1 HEADER_TABLE_SIZE, 2 ENABLE_PUSH, 3 MAX_CONCURRENT_STREAMS, 4 INITIAL_WINDOW_SIZE,
   5 MAX_FRAME_SIZE, 6 MAX_HEADER_LIST_SIZE, 8 ENABLE_CONNECT_PROTOCOL *)
Definition setting_ok (id v : Z) : Prop :=
  (id = 2 -> v = 0 \/ v = 1) /\
  (id = 8 -> v = 0 \/ v = 1) /\
  (id = 4 -> v <= 2^31 - 1) /\
  (id = 5 -> 2^14 <= v <= 2^24 - 1).

(* "Values above the maximum flow-control window size of 2^31-1 MUST be treated as a connection
   error of type FLOW_CONTROL_ERROR" (code 3); every other illegal value: PROTOCOL_ERROR (code 1). *)
Definition mandated_code (id : Z) : Z := if id =? 4 then 3 else 1.

Definition constrained_ids : list Z := [2; 4; 5; 8].
