(* Spec/Rfc51.v — RFC 7540 section 5.1 (stream states) as a reference machine, written from the RFC text,
   independent of h2's transition table.  States are the RFC's seven; a closed stream remembers how it was closed
   (the RFC distinguishes the cases).  Inputs are h2's stream inputs, read as the RFC events they stand for. *)
From H2 Require Import Base.Prelude Model.FsmTypes.

Inductive reaction :=
| Accept (s : sstate)        (* permitted; the stream is then in state s *)
| Refuse                     (* a local action the RFC does not permit in this state *)
| StreamError (code : Z)     (* peer's frame: stream error (RST_STREAM) *)
| ConnError (code : Z)       (* peer's frame: connection error (GOAWAY) *)
| Ignore                     (* peer's frame: must be ignored *)
| Neutral.                   (* outside section 5.1 (ALTSVC, RFC 7838): may be carried out, refused or ignored, but never moves the stream *)

Definition PROTOCOL_ERROR : Z := 1.
Definition STREAM_CLOSED : Z := 5.

Definition is_send (i : sinput) : bool :=
  match i with
  | SI_SEND_HEADERS | SI_SEND_PUSH_PROMISE | SI_SEND_RST_STREAM | SI_SEND_DATA | SI_SEND_WINDOW_UPDATE | SI_SEND_END_STREAM
  | SI_SEND_INFORMATIONAL_HEADERS | SI_SEND_ALTERNATIVE_SERVICE | SI_UPGRADE_CLIENT | SI_UPGRADE_SERVER => true
  | _ => false
  end.

Definition rfc (s : sstate) (cb : option closedby) (i : sinput) : reaction :=
  match i with
  (* "CONTINUATION frames MUST be preceded by a HEADERS or PUSH_PROMISE frame without END_HEADERS": a CONTINUATION that
     reaches the stream machine is not part of a header block (6.10): connection error PROTOCOL_ERROR *)
  | SI_RECV_CONTINUATION => ConnError PROTOCOL_ERROR
  | SI_SEND_ALTERNATIVE_SERVICE | SI_RECV_ALTERNATIVE_SERVICE => Neutral
  | _ =>
  match s with
  | S_IDLE =>
      (* "Sending or receiving a HEADERS frame causes the stream to become open"; PUSH_PROMISE reserves;
         "Receiving any frame other than HEADERS or PRIORITY on a stream in this state MUST be treated as a
         connection error of type PROTOCOL_ERROR"; 3.2: the Upgrade request is stream 1, half-closed from the client *)
      match i with
      | SI_SEND_HEADERS | SI_RECV_HEADERS => Accept S_OPEN
      | SI_SEND_PUSH_PROMISE => Accept S_RESERVED_LOCAL
      | SI_RECV_PUSH_PROMISE => Accept S_RESERVED_REMOTE
      | SI_UPGRADE_CLIENT => Accept S_HALF_CLOSED_LOCAL
      | SI_UPGRADE_SERVER => Accept S_HALF_CLOSED_REMOTE
      | _ => if is_send i then Refuse else ConnError PROTOCOL_ERROR
      end
  | S_RESERVED_LOCAL =>
      (* "The endpoint can send a HEADERS frame [-> half-closed (remote)]. Either endpoint can send a RST_STREAM [-> closed].
         An endpoint MUST NOT send any type of frame other than HEADERS, RST_STREAM, or PRIORITY in this state.
         A PRIORITY or WINDOW_UPDATE frame MAY be received in this state. Receiving any type of frame other than
         RST_STREAM, PRIORITY, or WINDOW_UPDATE ... connection error of type PROTOCOL_ERROR" *)
      match i with
      | SI_SEND_HEADERS => Accept S_HALF_CLOSED_REMOTE
      | SI_SEND_RST_STREAM | SI_RECV_RST_STREAM => Accept S_CLOSED
      | SI_RECV_WINDOW_UPDATE => Accept S_RESERVED_LOCAL
      | _ => if is_send i then Refuse else ConnError PROTOCOL_ERROR
      end
  | S_RESERVED_REMOTE =>
      (* "Receiving a HEADERS frame causes the stream to transition to half-closed (local). Either endpoint can send a
         RST_STREAM. An endpoint MAY send a PRIORITY frame. An endpoint MUST NOT send any type of frame other than
         RST_STREAM, WINDOW_UPDATE, or PRIORITY. Receiving any type of frame other than HEADERS, RST_STREAM, or PRIORITY
         ... connection error of type PROTOCOL_ERROR" *)
      match i with
      | SI_RECV_HEADERS => Accept S_HALF_CLOSED_LOCAL
      | SI_SEND_RST_STREAM | SI_RECV_RST_STREAM => Accept S_CLOSED
      | SI_SEND_WINDOW_UPDATE => Accept S_RESERVED_REMOTE
      | _ => if is_send i then Refuse else ConnError PROTOCOL_ERROR
      end
  | S_OPEN =>
      (* "may be used by both peers to send frames of any type"; END_STREAM half-closes; RST_STREAM closes *)
      match i with
      | SI_SEND_END_STREAM => Accept S_HALF_CLOSED_LOCAL
      | SI_RECV_END_STREAM => Accept S_HALF_CLOSED_REMOTE
      | SI_SEND_RST_STREAM | SI_RECV_RST_STREAM => Accept S_CLOSED
      | SI_UPGRADE_CLIENT | SI_UPGRADE_SERVER => Refuse
      | _ => Accept S_OPEN
      end
  | S_HALF_CLOSED_LOCAL =>
      (* "cannot be used for sending frames other than WINDOW_UPDATE, PRIORITY, and RST_STREAM"; "An endpoint can receive
         any type of frame"; END_STREAM from the peer or RST_STREAM from either closes *)
      match i with
      | SI_SEND_WINDOW_UPDATE => Accept S_HALF_CLOSED_LOCAL
      | SI_SEND_RST_STREAM | SI_RECV_RST_STREAM | SI_RECV_END_STREAM => Accept S_CLOSED
      | _ => if is_send i then Refuse else Accept S_HALF_CLOSED_LOCAL
      end
  | S_HALF_CLOSED_REMOTE =>
      (* "If an endpoint receives additional frames, other than WINDOW_UPDATE, PRIORITY, or RST_STREAM, for a stream that is
         in this state, it MUST respond with a stream error of type STREAM_CLOSED"; "can be used by the endpoint to send
         frames of any type" *)
      match i with
      | SI_RECV_WINDOW_UPDATE => Accept S_HALF_CLOSED_REMOTE
      | SI_RECV_RST_STREAM | SI_SEND_RST_STREAM | SI_SEND_END_STREAM => Accept S_CLOSED
      | SI_UPGRADE_CLIENT | SI_UPGRADE_SERVER => Refuse
      | _ => if is_send i then Accept S_HALF_CLOSED_REMOTE else StreamError STREAM_CLOSED
      end
  | S_CLOSED =>
      (* "An endpoint MUST NOT send frames other than PRIORITY on a closed stream."
         after receiving RST_STREAM: any frame other than PRIORITY is a stream error STREAM_CLOSED;
         after receiving END_STREAM: any frame is a connection error STREAM_CLOSED;
         "WINDOW_UPDATE or RST_STREAM frames can be received in this state for a short period after a DATA or HEADERS frame
          containing an END_STREAM flag is sent ... endpoints MUST ignore";
         "An endpoint MUST ignore frames that it receives on closed streams after it has sent a RST_STREAM frame" *)
      if is_send i then Refuse
      else match cb with
           | Some CB_RECV_RST_STREAM => StreamError STREAM_CLOSED
           | Some CB_RECV_END_STREAM => ConnError STREAM_CLOSED
           | Some CB_SEND_RST_STREAM => Ignore
           | Some CB_SEND_END_STREAM =>
               match i with
               | SI_RECV_WINDOW_UPDATE | SI_RECV_RST_STREAM => Ignore
               | _ => ConnError STREAM_CLOSED      (* the peer had ended the stream before we did *)
               end
           | None => ConnError STREAM_CLOSED
           end
  end
  end.
