#!/usr/bin/env python3
"""Regenerate coq/Gen/*.v from REPO's working tree.  Exit 0 ok, 2 translator failed closed."""
import json
import os
import sys
import traceback

HERE = os.path.dirname(os.path.abspath(__file__))
sys.path.insert(0, HERE)
import reflect  # noqa: E402
import pyast2coq  # noqa: E402
import guards  # noqa: E402

VERIF = os.path.dirname(HERE)


def write_if_changed(path, text):
    try:
        if open(path).read() == text:
            return False
    except FileNotFoundError:
        pass
    tmp = path + '.tmp'
    with open(tmp, 'w') as f:
        f.write(text)
    os.replace(tmp, path)
    return True


def main():
    repo = os.environ.get('VERIF_REPO', '/repo')
    gen = os.path.join(VERIF, 'coq', 'Gen')
    os.makedirs(gen, exist_ok=True)
    errfile = os.path.join(VERIF, '_build', 'translator_error.json')
    os.makedirs(os.path.dirname(errfile), exist_ok=True)
    errors = []
    changed = []
    mods = None
    try:
        mods = reflect.load_h2(repo)
    except Exception as e:  # import failure of the code under test
        errors.append({'part': 'import', 'error': '%s: %s' % (type(e).__name__, e), 'trace': traceback.format_exc()})
    if mods is not None:
        for fname, fn in (('Tables.v', lambda: reflect.gen_tables(mods)),
                          ('Consts.v', lambda: reflect.gen_consts(mods)),
                          ('Kernels.v', lambda: pyast2coq.gen_kernels(repo, mods)),
                          ('Guards.v', lambda: guards.gen_guards(repo, mods))):
            try:
                if write_if_changed(os.path.join(gen, fname), fn()):
                    changed.append(fname)
            except reflect.TranslatorError as e:
                errors.append({'part': fname, 'error': str(e)})
            except Exception as e:
                errors.append({'part': fname, 'error': '%s: %s' % (type(e).__name__, e), 'trace': traceback.format_exc()})
    with open(errfile, 'w') as f:
        json.dump({'errors': errors, 'changed': changed}, f, indent=1)
    for e in errors:
        print('TRANSLATOR-ERROR %s: %s' % (e['part'], e['error']))
    return 2 if errors else 0


if __name__ == '__main__':
    sys.exit(main())
