"""T1b: fail-closed translation of the integer kernels of hyper-h2 from Python AST to Gallina.

Accepted subset (anything else raises TranslatorError):
  statements : docstring, logger call, x = e, self.f = e, x += e, x -= e, if/elif/else,
               raise C(...), return [e], return self.m(), assert e
  expressions: int literals, None, True/False, names, declared self.fields, declared constants,
               + - * // ** (constant folding for **), comparisons and chains, in / not in a tuple,
               and / or / not, min / max, `x is None`, `x is not None`
Types: Z, bool, optZ (Optional[int]).  Truthiness of a Z is `<> 0`, of an optZ is `is not None and <> 0`.

Output is direct-style Gallina: the state is the tuple of declared fields; statement lists
are translated with the rest of the body as continuation, so an early raise / return needs no
monad, and every exit returns the field values *at that point* (a mutation made before a
failing check stays visible).
"""
import ast
import os

from reflect import TranslatorError


class Ctx:
    def __init__(self, spec, consts, exn_codes):
        self.spec = spec
        self.consts = consts          # source text -> int
        self.exn_codes = exn_codes    # class name -> int
        self.fields = {src: (coq, ty) for src, coq, ty in spec.get('fields', [])}
        self.field_order = [coq for _, coq, _ in spec.get('fields', [])]
        self.types = {coq: ty for _, coq, ty in spec.get('fields', [])}
        for py, ty in spec.get('params', []):
            self.types[py] = ty
        self.ret = spec['ret']
        self.calls = spec.get('calls', {})

    def state(self):
        if not self.field_order:
            return 'tt'
        return '(' + ', '.join(self.field_order) + ')'


def err(node, msg):
    raise TranslatorError('%s (line %s: %s)' % (msg, getattr(node, 'lineno', '?'), ast.unparse(node)[:80]))


def fold_const(ctx, e):
    """Return an int if e is a constant expression, else None."""
    if isinstance(e, ast.Constant) and isinstance(e.value, int) and not isinstance(e.value, bool):
        return e.value
    src = ast.unparse(e)
    if src in ctx.consts:
        return ctx.consts[src]
    if isinstance(e, ast.BinOp):
        l, r = fold_const(ctx, e.left), fold_const(ctx, e.right)
        if l is not None and r is not None:
            if isinstance(e.op, ast.Pow) and r >= 0:
                return l ** r
            if isinstance(e.op, ast.Add):
                return l + r
            if isinstance(e.op, ast.Sub):
                return l - r
            if isinstance(e.op, ast.Mult):
                return l * r
    if isinstance(e, ast.UnaryOp) and isinstance(e.op, ast.USub):
        v = fold_const(ctx, e.operand)
        if v is not None:
            return -v
    return None


def zlit(n):
    return str(n) if n >= 0 else '(%d)' % n


def expr(ctx, e, env):
    """-> (coq text, type)."""
    c = fold_const(ctx, e)
    if c is not None:
        return zlit(c), 'Z'
    if isinstance(e, ast.Constant):
        if e.value is None:
            return 'None', 'optZ'
        if e.value is True:
            return 'true', 'bool'
        if e.value is False:
            return 'false', 'bool'
        err(e, 'unsupported constant')
    if isinstance(e, ast.Name):
        if e.id in env:
            return env[e.id]
        err(e, 'unknown name')
    if isinstance(e, ast.Attribute):
        src = ast.unparse(e)
        if src in ctx.fields:
            coq, _ = ctx.fields[src]
            return env[coq]
        err(e, 'undeclared attribute')
    if isinstance(e, ast.BinOp):
        l, lt = expr(ctx, e.left, env)
        r, rt = expr(ctx, e.right, env)
        if lt != 'Z' or rt != 'Z':
            err(e, 'arithmetic on non-int')
        op = {ast.Add: '+', ast.Sub: '-', ast.Mult: '*', ast.FloorDiv: '/'}.get(type(e.op))
        if op is None:
            err(e, 'unsupported operator')
        if op == '/':
            d = fold_const(ctx, e.right)
            if d is None or d <= 0:
                err(e, 'floor division by a non-constant or non-positive divisor')
        return '(%s %s %s)' % (l, op, r), 'Z'
    if isinstance(e, ast.UnaryOp) and isinstance(e.op, ast.Not):
        return '(negb %s)' % truth(ctx, e.operand, env), 'bool'
    if isinstance(e, ast.BoolOp):
        parts = [truth(ctx, v, env) for v in e.values]
        return '(' + (' && ' if isinstance(e.op, ast.And) else ' || ').join(parts) + ')', 'bool'
    if isinstance(e, ast.Compare):
        parts = []
        left = e.left
        for op, right in zip(e.ops, e.comparators):
            if isinstance(op, (ast.Is, ast.IsNot)):
                if not (isinstance(right, ast.Constant) and right.value is None):
                    err(e, 'is / is not only against None')
                l, lt = expr(ctx, left, env)
                if lt != 'optZ':
                    err(e, '`is None` on a non-optional')
                t = '(match %s with Some _ => false | None => true end)' % l
                parts.append(t if isinstance(op, ast.Is) else '(negb %s)' % t)
            elif isinstance(op, (ast.In, ast.NotIn)):
                if not isinstance(right, ast.Tuple):
                    err(e, '`in` only against a tuple')
                l, lt = expr(ctx, left, env)
                if lt != 'Z':
                    err(e, '`in` on a non-int')
                alts = []
                for el in right.elts:
                    r, rt = expr(ctx, el, env)
                    if rt != 'Z':
                        err(e, '`in` tuple of non-ints')
                    alts.append('(%s =? %s)' % (l, r))
                t = '(' + ' || '.join(alts) + ')'
                parts.append(t if isinstance(op, ast.In) else '(negb %s)' % t)
            else:
                l, lt = expr(ctx, left, env)
                r, rt = expr(ctx, right, env)
                if lt != 'Z' or rt != 'Z':
                    err(e, 'comparison of non-ints')
                sym = {ast.Lt: '<?', ast.LtE: '<=?', ast.Gt: '>?', ast.GtE: '>=?', ast.Eq: '=?'}.get(type(op))
                if sym:
                    parts.append('(%s %s %s)' % (l, sym, r))
                elif isinstance(op, ast.NotEq):
                    parts.append('(negb (%s =? %s))' % (l, r))
                else:
                    err(e, 'unsupported comparison')
            left = right
        return ('(' + ' && '.join(parts) + ')' if len(parts) > 1 else parts[0]), 'bool'
    if isinstance(e, ast.Call) and isinstance(e.func, ast.Name) and e.func.id in ('min', 'max') and len(e.args) == 2 and not e.keywords:
        a, at = expr(ctx, e.args[0], env)
        b, bt = expr(ctx, e.args[1], env)
        if at != 'Z' or bt != 'Z':
            err(e, 'min/max of non-ints')
        return '(Z.%s %s %s)' % (e.func.id, a, b), 'Z'
    if isinstance(e, ast.IfExp):
        t = truth(ctx, e.test, env)
        a, at = expr(ctx, e.body, env)
        b, bt = expr(ctx, e.orelse, env)
        if at != bt:
            err(e, 'conditional expression with branches of different type')
        return '(if %s then %s else %s)' % (t, a, b), at
    err(e, 'unsupported expression')


def truth(ctx, e, env):
    t, ty = expr(ctx, e, env)
    if ty == 'bool':
        return t
    if ty == 'Z':
        return '(negb (%s =? 0))' % t
    if ty == 'optZ':
        return '(truthy_optZ %s)' % t
    err(e, 'no truthiness for type ' + ty)


def is_skippable(s):
    if isinstance(s, ast.Expr):
        if isinstance(s.value, ast.Constant) and isinstance(s.value.value, str):
            return True
        if isinstance(s.value, ast.Call):
            f = ast.unparse(s.value.func)
            if f.startswith('self.config.logger.'):
                return True
    if isinstance(s, ast.Pass):
        return True
    return False


def ret_value(ctx, text, ty, node):
    want = ctx.ret
    if want == 'unit':
        err(node, 'value returned from a unit function')
    if want == ty:
        return text
    if want == 'optZ' and ty == 'Z':
        return '(Some %s)' % text
    err(node, 'return type mismatch: %s vs %s' % (ty, want))


def state_text(ctx, env):
    if not ctx.field_order:
        return 'tt'
    return '(' + ', '.join(env[f][0] for f in ctx.field_order) + ')'


def stmts(ctx, body, env, depth):
    ind = '  ' * depth
    if not body:
        dflt = {'unit': 'tt', 'optZ': 'None'}.get(ctx.ret)
        if dflt is None:
            raise TranslatorError('%s: control reaches the end of a function returning %s' % (ctx.spec['name'], ctx.ret))
        return '%s(%s, Ok %s)' % (ind, state_text(ctx, env), dflt)
    s, rest = body[0], body[1:]
    if is_skippable(s):
        return stmts(ctx, rest, env, depth)
    if isinstance(s, (ast.Assign, ast.AugAssign)):
        if isinstance(s, ast.Assign):
            if len(s.targets) != 1:
                err(s, 'multiple assignment')
            tgt, val = s.targets[0], s.value
            v, vt = expr(ctx, val, env)
        else:
            tgt = s.target
            cur, ct = expr(ctx, tgt, env)
            inc, it = expr(ctx, s.value, env)
            if ct != 'Z' or it != 'Z' or not isinstance(s.op, (ast.Add, ast.Sub)):
                err(s, 'unsupported augmented assignment')
            v, vt = '(%s %s %s)' % (cur, '+' if isinstance(s.op, ast.Add) else '-', inc), 'Z'
        src = ast.unparse(tgt)
        if src in ctx.fields:
            name, fty = ctx.fields[src]
            if fty == 'optZ' and vt == 'Z':
                v, vt = '(Some %s)' % v, 'optZ'
            if fty != vt:
                err(s, 'field %s : %s assigned a %s' % (src, fty, vt))
        elif isinstance(tgt, ast.Name):
            name = tgt.id
        else:
            err(s, 'unsupported assignment target')
        env2 = dict(env)
        fresh = name
        env2[name] = (fresh, vt)
        return '%slet %s := %s in\n%s' % (ind, fresh, v, stmts(ctx, rest, env2, depth))
    if isinstance(s, ast.If):
        # `if x is not None:` on an optZ local/param: bind the payload
        t = s.test
        if (isinstance(t, ast.Compare) and len(t.ops) == 1 and isinstance(t.ops[0], (ast.IsNot, ast.Is))
                and isinstance(t.comparators[0], ast.Constant) and t.comparators[0].value is None):
            x, xt = expr(ctx, t.left, env)
            if xt != 'optZ':
                err(s, '`is None` test on a non-optional')
            key = None
            if isinstance(t.left, ast.Name):
                key = t.left.id
            elif ast.unparse(t.left) in ctx.fields:
                key = None  # fields are not narrowed
            env_some = dict(env)
            bind = '_'
            if key is not None:
                bind = key + "'"
                env_some[key] = (bind, 'Z')
            some_body, none_body = (s.body, s.orelse) if isinstance(t.ops[0], ast.IsNot) else (s.orelse, s.body)
            a = stmts(ctx, list(some_body) + rest, env_some, depth + 1)
            b = stmts(ctx, list(none_body) + rest, env, depth + 1)
            return '%smatch %s with\n%s| Some %s =>\n%s\n%s| None =>\n%s\n%send' % (ind, x, ind, bind, a, ind, b, ind)
        c = truth(ctx, s.test, env)
        a = stmts(ctx, list(s.body) + rest, env, depth + 1)
        b = stmts(ctx, list(s.orelse) + rest, env, depth + 1)
        return '%sif %s then\n%s\n%selse\n%s' % (ind, c, a, ind, b)
    if isinstance(s, ast.Raise):
        e = s.exc
        name = e.func.id if isinstance(e, ast.Call) and isinstance(e.func, ast.Name) else (e.id if isinstance(e, ast.Name) else None)
        if name not in ctx.exn_codes:
            err(s, 'raise of an unknown exception class')
        return '%s(%s, Err %s %s 0 false)' % (ind, state_text(ctx, env), name, zlit(ctx.exn_codes[name]))
    if isinstance(s, ast.Return):
        if s.value is None:
            if ctx.ret == 'unit':
                return '%s(%s, Ok tt)' % (ind, state_text(ctx, env))
            if ctx.ret == 'optZ':
                return '%s(%s, Ok None)' % (ind, state_text(ctx, env))
            err(s, 'bare return in a function returning ' + ctx.ret)
        if isinstance(s.value, ast.Call):
            f = ast.unparse(s.value.func)
            if f in ctx.calls:
                if s.value.args or s.value.keywords:
                    err(s, 'call with arguments')
                return '%s%s %s' % (ind, ctx.calls[f], ' '.join(env[x][0] for x in ctx.field_order))
        v, vt = expr(ctx, s.value, env)
        return '%s(%s, Ok %s)' % (ind, state_text(ctx, env), ret_value(ctx, v, vt, s))
    if isinstance(s, ast.Expr) and isinstance(s.value, ast.Call) and ast.unparse(s.value.func) in ctx.spec.get('stmt_calls', {}):
        callee = ctx.spec['stmt_calls'][ast.unparse(s.value.func)]
        if s.value.keywords:
            err(s, 'keyword arguments in call')
        args = []
        for a_ in s.value.args:
            v, vt = expr(ctx, a_, env)
            if vt != 'Z':
                err(s, 'non-int argument')
            args.append(v)
        cur = ' '.join(env[f][0] for f in ctx.field_order)
        pat = ', '.join(ctx.field_order)
        env2 = dict(env)
        for f in ctx.field_order:
            env2[f] = (f, env[f][1])
        return ('%smatch %s %s %s with\n%s| ((%s), Ok _) =>\n%s\n%s| (st, Err e c s b) => (st, Err e c s b)\n%s| (st, Crash p) => (st, Crash p)\n%send'
                % (ind, callee, cur, ' '.join(args), ind, pat, stmts(ctx, rest, env2, depth + 1), ind, ind, ind))
    if isinstance(s, ast.Assert):
        c = truth(ctx, s.test, env)
        return '%sif %s then\n%s\n%selse\n%s  (%s, Crash AssertionError)' % (
            ind, c, stmts(ctx, rest, env, depth + 1), ind, ind, state_text(ctx, env))
    err(s, 'unsupported statement')


def find_func(mod, qual):
    body = mod.body
    node = None
    for p in qual.split('.'):
        for n in body:
            if isinstance(n, (ast.ClassDef, ast.FunctionDef)) and n.name == p:
                node = n
                body = n.body
                break
        else:
            raise TranslatorError('function %s not found' % qual)
    if not isinstance(node, ast.FunctionDef):
        raise TranslatorError('%s is not a function' % qual)
    return node


COQTY = {'Z': 'Z', 'bool': 'bool', 'optZ': 'option Z', 'unit': 'unit'}


def translate(repo, spec, consts, exn_codes):
    path = os.path.join(repo, 'src', 'h2', spec['file'])
    mod = ast.parse(open(path).read())
    fn = find_func(mod, spec['qual'])
    a = fn.args
    if a.vararg or a.kwarg or a.kwonlyargs or a.posonlyargs:
        raise TranslatorError('%s: unsupported signature' % spec['qual'])
    pynames = [x.arg for x in a.args if x.arg != 'self']
    if pynames != [p for p, _ in spec.get('params', [])]:
        raise TranslatorError('%s: parameters changed: %r' % (spec['qual'], pynames))
    ctx = Ctx(spec, consts, exn_codes)
    env = {}
    for _, coq, ty in spec.get('fields', []):
        env[coq] = (coq, ty)
    for p, ty in spec.get('params', []):
        env[p] = (p, ty)
    # local constants declared inside the function body (e.g. LARGEST_FLOW_CONTROL_WINDOW = 2**31 - 1)
    body = stmts(ctx, fn.body, env, 1)
    binders = ''.join(' (%s : %s)' % (c, COQTY[t]) for _, c, t in spec.get('fields', []))
    for p, ty in spec.get('params', []):
        binders += ' (%s : %s)' % (p, COQTY[ty])
    stty = ' * '.join(COQTY[t] for _, _, t in spec.get('fields', [])) or 'unit'
    return '(* %s : %s *)\nDefinition %s%s : (%s) * res %s :=\n%s.\n' % (
        spec['file'], spec['qual'], spec['name'], binders, stty, '(%s)' % COQTY[ctx.ret], body)


WM_FIELDS = [('self.max_window_size', 'mx', 'Z'), ('self.current_window_size', 'cur', 'Z'),
             ('self._bytes_processed', 'bp', 'Z')]

KERNELS = [
    dict(name='k_maybe_update_window', file='windows.py', qual='WindowManager._maybe_update_window',
         fields=WM_FIELDS, params=[], ret='optZ'),
    dict(name='k_window_consumed', file='windows.py', qual='WindowManager.window_consumed',
         fields=WM_FIELDS, params=[('size', 'Z')], ret='unit'),
    dict(name='k_window_opened', file='windows.py', qual='WindowManager.window_opened',
         fields=WM_FIELDS, params=[('size', 'Z')], ret='unit'),
    dict(name='k_process_bytes', file='windows.py', qual='WindowManager.process_bytes',
         fields=WM_FIELDS, params=[('size', 'Z')], ret='optZ',
         calls={'self._maybe_update_window': 'k_maybe_update_window'}),
    dict(name='k_stream_iws_delta', file='stream.py', qual='H2Stream._inbound_flow_control_change_from_settings',
         fields=[('self._inbound_window_manager.max_window_size', 'mx', 'Z'),
                 ('self._inbound_window_manager.current_window_size', 'cur', 'Z'),
                 ('self._inbound_window_manager._bytes_processed', 'bp', 'Z')],
         params=[('delta', 'Z')], ret='unit',
         stmt_calls={'self._inbound_window_manager.window_opened': 'k_window_opened'}),
    dict(name='k_guard_increment_window', file='utilities.py', qual='guard_increment_window',
         fields=[], params=[('current', 'Z'), ('increment', 'Z')], ret='Z'),
    dict(name='k_validate_setting', file='settings.py', qual='_validate_setting',
         fields=[], params=[('setting', 'Z'), ('value', 'Z')], ret='Z'),
    dict(name='k_track_content_length', file='stream.py', qual='H2Stream._track_content_length',
         fields=[('self._actual_content_length', 'actual_cl', 'Z'), ('self._expected_content_length', 'expected_cl', 'optZ')],
         params=[('length', 'Z'), ('end_stream', 'bool')], ret='unit'),
    dict(name='k_get_next_available_stream_id', file='connection.py', qual='H2Connection.get_next_available_stream_id',
         fields=[('self.highest_outbound_stream_id', 'hi_out', 'Z'), ('self.config.client_side', 'client_side', 'bool')],
         params=[], ret='Z'),
]


def gen_kernels(repo, mods):
    consts = {}
    for m in mods['settings'].SettingCodes:
        consts['SettingCodes.' + m.name] = int(m)
    for m in mods['errors'].ErrorCodes:
        consts['ErrorCodes.' + m.name] = int(m)
    consts['LARGEST_FLOW_CONTROL_WINDOW'] = int(mods['windows'].LARGEST_FLOW_CONTROL_WINDOW)
    consts['self.HIGHEST_ALLOWED_STREAM_ID'] = int(mods['connection'].H2Connection.HIGHEST_ALLOWED_STREAM_ID)
    exn_codes = {}
    ex = mods['exceptions']
    for name in ('ProtocolError', 'FlowControlError', 'NoAvailableStreamIDError', 'InvalidBodyLengthError',
                 'FrameTooLargeError', 'TooManyStreamsError'):
        exn_codes[name] = int(getattr(ex, name).error_code)
    out = ['(* GENERATED by translator/pyast2coq.py from the Python AST of /repo/src/h2. Do not edit. *)',
           'From H2 Require Import Base.Prelude.', '']
    for spec in KERNELS:
        sp = dict(spec)
        c2 = dict(consts)
        if spec['qual'] == 'guard_increment_window':
            # the function rebinds LARGEST_FLOW_CONTROL_WINDOW locally; let the body's own assignment define it
            c2.pop('LARGEST_FLOW_CONTROL_WINDOW')
        out.append(translate(repo, sp, c2, exn_codes))
    return '\n'.join(out)
