"""T1c: guard extraction.  For each designated site (a `raise`, or an `if`/`while` test) compute the
path condition under which it fires, abstract every maximal non-arithmetic sub-expression to a
parameter, and emit it as a Gallina bool function.  The hand model *calls* these functions, so the
comparison operators and constants of these checks are the code's own on every run.

Parameters are pinned per site (by source text) so that `a > b` rewritten as `b < a` yields the
same definition up to commutation, while a new sub-expression fails closed.
"""
import ast
import os

from reflect import TranslatorError
from pyast2coq import find_func


def raise_sites(fn):
    out = []

    def walk(stmts, path):
        for s in stmts:
            if isinstance(s, ast.Raise):
                e = s.exc
                name = e.func.id if isinstance(e, ast.Call) and isinstance(e.func, ast.Name) else getattr(e, 'id', '?')
                out.append((name, list(path)))
            elif isinstance(s, ast.If):
                walk(s.body, path + [(s.test, True)])
                walk(s.orelse, path + [(s.test, False)])
            elif isinstance(s, (ast.For, ast.While, ast.With, ast.Try)):
                for blk in ('body', 'orelse', 'finalbody'):
                    walk(getattr(s, blk, []) or [], path)
                for h in getattr(s, 'handlers', []) or []:
                    walk(h.body, path)
    walk(fn.body, [])
    return out


def test_sites(fn):
    """All if / while tests in source order (pre-order)."""
    out = []
    for node in ast.walk(fn):
        if isinstance(node, (ast.If, ast.While)):
            out.append(node)
    out.sort(key=lambda n: (n.lineno, n.col_offset))
    return [n.test for n in out]


def unparse(e):
    for n in ast.walk(e):
        if isinstance(n, ast.Constant) and getattr(n, 'kind', None) == 'u':
            n.kind = None
    return ast.unparse(e)


class Abstr:
    def __init__(self, site, consts):
        self.site = site
        self.consts = consts
        self.zp = list(site.get('z', []))
        self.bp = list(site.get('b', []))

    def const(self, e):
        if isinstance(e, ast.Constant) and isinstance(e.value, int) and not isinstance(e.value, bool):
            return e.value
        src = unparse(e)
        if src in self.consts:
            return self.consts[src]
        if isinstance(e, ast.BinOp):
            l, r = self.const(e.left), self.const(e.right)
            if l is not None and r is not None:
                if isinstance(e.op, ast.Pow) and r >= 0:
                    return l ** r
                if isinstance(e.op, ast.Sub):
                    return l - r
                if isinstance(e.op, ast.Add):
                    return l + r
        return None

    def z(self, e):
        c = self.const(e)
        if c is not None:
            return str(c) if c >= 0 else '(%d)' % c
        if isinstance(e, ast.BinOp):
            op = {ast.Add: '+', ast.Sub: '-', ast.Mult: '*', ast.FloorDiv: '/', ast.Mod: 'mod'}.get(type(e.op))
            if op:
                return '(%s %s %s)' % (self.z(e.left), op, self.z(e.right))
        src = unparse(e)
        if src not in self.zp:
            raise TranslatorError('guard %s: new integer sub-expression `%s` (known: %r)' % (self.site['name'], src, self.zp))
        return 'z%d' % self.zp.index(src)

    def bparam(self, e):
        src = unparse(e)
        if src not in self.bp:
            raise TranslatorError('guard %s: new boolean sub-expression `%s` (known: %r)' % (self.site['name'], src, self.bp))
        return 'b%d' % self.bp.index(src)

    def b(self, e):
        if isinstance(e, ast.BoolOp):
            return '(' + (' && ' if isinstance(e.op, ast.And) else ' || ').join(self.b(v) for v in e.values) + ')'
        if isinstance(e, ast.UnaryOp) and isinstance(e.op, ast.Not):
            return '(negb %s)' % self.b(e.operand)
        if isinstance(e, ast.Compare):
            parts = []
            left = e.left
            for op, right in zip(e.ops, e.comparators):
                sym = {ast.Lt: '<?', ast.LtE: '<=?', ast.Gt: '>?', ast.GtE: '>=?', ast.Eq: '=?'}.get(type(op))
                if sym:
                    parts.append('(%s %s %s)' % (self.z(left), sym, self.z(right)))
                elif isinstance(op, ast.NotEq):
                    parts.append('(negb (%s =? %s))' % (self.z(left), self.z(right)))
                else:
                    return self.bparam(e)
                left = right
            return '(' + ' && '.join(parts) + ')' if len(parts) > 1 else parts[0]
        return self.bparam(e)


C, F, U, S = 'connection.py', 'frame_buffer.py', 'utilities.py', 'stream.py'
SITES = [
    dict(name='g_send_data_pad', file=C, qual='H2Connection.send_data', exc='ValueError', ord=0,
         z=['pad_length'], b=['pad_length is not None']),
    dict(name='g_send_data_flow', file=C, qual='H2Connection.send_data', exc='FlowControlError', ord=0,
         z=['frame_size', 'self.local_flow_control_window(stream_id)'], b=[]),
    dict(name='g_send_data_frame', file=C, qual='H2Connection.send_data', exc='FrameTooLargeError', ord=0,
         z=['frame_size', 'self.local_flow_control_window(stream_id)', 'self.max_outbound_frame_size'], b=[]),
    dict(name='g_begin_low', file=C, qual='H2Connection._begin_new_stream', exc='StreamIDTooLowError', ord=0,
         z=['stream_id', 'highest_stream_id'], b=[]),
    dict(name='g_begin_parity', file=C, qual='H2Connection._begin_new_stream', exc='ProtocolError', ord=0,
         z=['stream_id', 'int(allowed_ids)'], b=[]),
    dict(name='g_get_stream_nosuch', file=C, qual='H2Connection._get_stream_by_id', exc='NoSuchStreamError', ord=0,
         z=['stream_id', 'highest_stream_id'], b=[]),
    dict(name='g_inc_range', file=C, qual='H2Connection.increment_flow_control_window', exc='ValueError', ord=0,
         z=['increment'], b=[]),
    dict(name='g_send_headers_mcs', file=C, qual='H2Connection.send_headers', exc='TooManyStreamsError', ord=0,
         z=['self.open_outbound_streams', 'max_open_streams'], b=['stream_id not in self.streams']),
    dict(name='g_recv_headers_mcs', file=C, qual='H2Connection._receive_headers_frame', exc='TooManyStreamsError', ord=0,
         z=['self.open_inbound_streams', 'max_open_streams'], b=['frame.stream_id not in self.streams']),
    dict(name='g_recv_headers_unpromised', file=C, qual='H2Connection._receive_headers_frame', exc='ProtocolError', ord=0,
         z=['frame.stream_id', 'self.highest_inbound_stream_id'], b=['self.config.client_side', 'frame.stream_id not in self.streams']),
    dict(name='g_ping_len', file=C, qual='H2Connection.ping', exc='ValueError', ord=0,
         z=['len(opaque_data)'], b=['isinstance(opaque_data, bytes)']),
    dict(name='g_ack_sid', file=C, qual='H2Connection.acknowledge_received_data', exc='ValueError', ord=0,
         z=['stream_id'], b=[]),
    dict(name='g_ack_size', file=C, qual='H2Connection.acknowledge_received_data', exc='ValueError', ord=1,
         z=['acknowledged_size'], b=[]),
    dict(name='g_prio_self', file=C, qual='_add_frame_priority', exc='ProtocolError', ord=0,
         z=['depends_on', 'frame.stream_id'], b=[]),
    dict(name='g_prio_weight', file=C, qual='_add_frame_priority', exc='ProtocolError', ord=1,
         z=['weight'], b=['weight is not None']),
    dict(name='g_recv_prio_self', file=C, qual='H2Connection._receive_priority_frame', exc='ProtocolError', ord=0,
         z=['event.depends_on', 'frame.stream_id'], b=[]),
    dict(name='g_push_recursive', file=C, qual='H2Connection.push_stream', exc='ProtocolError', ord=1,
         z=['stream_id'], b=[]),
    dict(name='g_recv_push_recursive', file=C, qual='H2Connection._receive_push_promise_frame', exc='ProtocolError', ord=2,
         z=['frame.stream_id'], b=[]),
    dict(name='g_next_id_exhausted', file=C, qual='H2Connection.get_next_available_stream_id', exc='NoAvailableStreamIDError', ord=0,
         z=['next_stream_id'], b=[]),
    dict(name='g_fb_len', file=F, qual='FrameBuffer._validate_frame_length', exc='FrameTooLargeError', ord=0,
         z=['length', 'self.max_frame_size'], b=[]),
    dict(name='g_fb_hdr', file=F, qual='FrameBuffer.__next__', exc='StopIteration', ord=0,
         z=['len(self.data)'], b=[]),
    dict(name='g_fb_body', file=F, qual='FrameBuffer.__next__', exc='StopIteration', ord=1,
         z=['len(self.data)', 'length'], b=[]),
    dict(name='g_fb_backlog', file=F, qual='FrameBuffer._update_header_buffer', exc='ProtocolError', ord=1,
         z=['len(self._headers_buffer)'], b=['self._headers_buffer']),
    dict(name='g_closed_limit', file=U, qual='SizeLimitDict._check_size_limit', test=1,
         z=['len(self)', 'self._size_limit'], b=[]),
    dict(name='g_secure_cookie', file=U, qual='_secure_headers', test=1,
         z=['len(header[1])'], b=["header[0] in (b'cookie', 'cookie')"]),
    dict(name='g_wm_init', file='windows.py', qual='WindowManager.__init__', assert_=0,
         z=['max_window_size'], b=[]),
]


def gen_guards(repo, mods):
    consts = {
        'CONTINUATION_BACKLOG': int(mods['frame_buffer'].CONTINUATION_BACKLOG),
        'self.MAX_WINDOW_INCREMENT': int(mods['connection'].H2Connection.MAX_WINDOW_INCREMENT),
        'self.HIGHEST_ALLOWED_STREAM_ID': int(mods['connection'].H2Connection.HIGHEST_ALLOWED_STREAM_ID),
        'LARGEST_FLOW_CONTROL_WINDOW': int(mods['windows'].LARGEST_FLOW_CONTROL_WINDOW),
    }
    out = ['(* GENERATED by translator/guards.py: path conditions of designated raise sites / tests. Do not edit. *)',
           'From H2 Require Import Base.Prelude.', '']
    cache = {}
    for site in SITES:
        path = os.path.join(repo, 'src', 'h2', site['file'])
        if path not in cache:
            cache[path] = ast.parse(open(path).read())
        fn = find_func(cache[path], site['qual'])
        a = Abstr(site, consts)
        if 'exc' in site:
            sites = [s for s in raise_sites(fn) if s[0] == site['exc']]
            if len(sites) <= site['ord']:
                raise TranslatorError('guard %s: raise site %s #%d not found in %s' % (
                    site['name'], site['exc'], site['ord'], site['qual']))
            conds = sites[site['ord']][1]
            terms = [a.b(t) if pol else '(negb %s)' % a.b(t) for t, pol in conds]
            what = 'raises %s #%d' % (site['exc'], site['ord'])
        elif 'test' in site:
            tests = test_sites(fn)
            if len(tests) <= site['test']:
                raise TranslatorError('guard %s: test #%d not found in %s' % (site['name'], site['test'], site['qual']))
            terms = [a.b(tests[site['test']])]
            what = 'test #%d' % site['test']
        else:
            asserts = sorted((n for n in ast.walk(fn) if isinstance(n, ast.Assert)), key=lambda n: n.lineno)
            if len(asserts) <= site['assert_']:
                raise TranslatorError('guard %s: assert #%d not found' % (site['name'], site['assert_']))
            terms = [a.b(asserts[site['assert_']].test)]
            what = 'assert #%d' % site['assert_']
        binders = ''.join(' (z%d : Z)' % i for i in range(len(a.zp))) + ''.join(' (b%d : bool)' % i for i in range(len(a.bp)))
        doc = '; '.join(['z%d = `%s`' % (i, s) for i, s in enumerate(a.zp)] + ['b%d = `%s`' % (i, s) for i, s in enumerate(a.bp)])
        out.append('(* %s %s when: %s *)' % (site['qual'], what, doc))
        out.append('Definition %s%s : bool := %s.\n' % (site['name'], binders, ' && '.join(terms) or 'true'))
    return '\n'.join(out)
