#!/bin/bash
# Runs the repository's stable baseline with the guard OFF and checks every stable_pass test passes.
unset H2_VERIF
cd /repo && /venv/bin/python -m pytest -ra -q -p no:cacheprovider --timeout=900 --continue-on-collection-errors --junitxml=/tmp/h2_baseline_junit.xml > /tmp/h2_baseline.log 2>&1
/venv/bin/python - <<'PY'
import json, sys, xml.etree.ElementTree as ET
b = json.load(open('/root/.vp/BASELINE.json'))
want = set(b['stable_pass'])
t = ET.parse('/tmp/h2_baseline_junit.xml')
passed = set()
for tc in t.iter('testcase'):
    if not any(ch.tag in ('failure', 'error', 'skipped') for ch in tc):
        cls = tc.get('classname'); name = tc.get('name')
        parts = cls.split('.')
        # classname test.test_x.TestY -> test.test_x.TestY::name ; module-level: test.test_x::name
        passed.add(cls + '::' + name)
missing = sorted(want - passed)
print('stable_pass: %d, passing now: %d, missing: %d' % (len(want), len(want & passed), len(missing)))
for m in missing[:20]: print('  MISSING', m)
sys.exit(1 if missing else 0)
PY
