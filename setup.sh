#!/bin/bash
# Build the framework from files on disk only (offline).  Run once in /verif after a fresh restore.
set -e
cd "$(dirname "$0")"
export PYTHONHASHSEED=0
mkdir -p _build evidence replays
# no escape hatches anywhere in the development
if grep -rnE '\b(Admitted|admit|Axiom|Parameter|Conjecture|Admit Obligations|Unset Guard|bypass_check|Unset Universe|Unset Positivity)\b' coq --include='*.v' | grep -v '^coq/Gen/' | grep -vE '\(\*.*(Admitted|Axiom|Parameter).*\*\)'; then
  echo "forbidden vernacular found" >&2; exit 1
fi
/venv/bin/python translator/gen.py
cd coq
coq_makefile -f _CoqProject -o Makefile > /dev/null
timeout 3000 make -j16 > ../_build/setup_make.log 2>&1 || { tail -40 ../_build/setup_make.log; exit 1; }
echo "setup ok: $(ls */*.vo | wc -l) .vo files"
