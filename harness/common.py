"""Shared machinery of every check: regenerate Gen/*.v, build the property's proof closure,
evaluate model definitions inside Coq, violation / known-finding protocol, evidence files."""
import fcntl
import hashlib
import json
import os
import re
import subprocess
import sys
import time

VERIF = os.path.dirname(os.path.dirname(os.path.abspath(__file__)))
REPO = os.environ.get('VERIF_REPO', '/repo')
COQ = os.path.join(VERIF, 'coq')
BUILD = os.path.join(VERIF, '_build')
PY = '/venv/bin/python'

TRUSTED_BASE = [
    'Coq 8.16.1 kernel (coqc); vm_compute used for finite decisions and for evaluating the model; no native_compute',
    'axioms: none declared; Print Assumptions output of every property theorem is recorded in axioms[]',
    'translator /verif/translator (reflect.py: run-time dump of FSM tables/constants; pyast2coq.py: AST->Gallina for integer kernels; guards.py: path conditions of raise sites) is trusted to print what it read',
    'correspondence harness /verif/harness (Python driver of the real h2 objects from /repo/src, generators, comparison) is differential testing: sampled, not exhaustive unless exhaustive=true',
    'no extraction: the model is evaluated inside Coq by vm_compute on generated cases files',
    'modelled not verified: CPython int/bytes/dict/deque semantics, hpack and hyperframe (external oracles), logging, exception messages',
]


def env_for_impl(hashseed='0'):
    e = dict(os.environ)
    e['PYTHONPATH'] = os.path.join(REPO, 'src')
    e['PYTHONHASHSEED'] = str(hashseed)
    e['H2_VERIF'] = '1'
    return e


class Lock:
    def __enter__(self):
        os.makedirs(BUILD, exist_ok=True)
        self.f = open(os.path.join(BUILD, '.lock'), 'w')
        fcntl.flock(self.f, fcntl.LOCK_EX)
        return self

    def __exit__(self, *a):
        fcntl.flock(self.f, fcntl.LOCK_UN)
        self.f.close()


def regen():
    """Run the translator on REPO's working tree.  -> list of error dicts (empty = ok)."""
    p = subprocess.run([PY, os.path.join(VERIF, 'translator', 'gen.py')], env=env_for_impl(),
                       capture_output=True, text=True, timeout=120)
    try:
        info = json.load(open(os.path.join(BUILD, 'translator_error.json')))
    except Exception:
        info = {'errors': [{'part': 'gen.py', 'error': 'translator crashed: ' + (p.stderr or p.stdout)[-2000:]}]}
    if p.returncode not in (0, 2):
        info.setdefault('errors', []).append({'part': 'gen.py', 'error': 'exit %d: %s' % (p.returncode, p.stderr[-2000:])})
    return info.get('errors', [])


def ensure_makefile():
    mk = os.path.join(COQ, 'Makefile')
    cp = os.path.join(COQ, '_CoqProject')
    if not os.path.exists(mk) or os.path.getmtime(mk) < os.path.getmtime(cp):
        subprocess.run(['coq_makefile', '-f', '_CoqProject', '-o', 'Makefile'], cwd=COQ, check=True,
                       capture_output=True)


def enclosing_lemma(path, line):
    try:
        lines = open(path).read().split('\n')
    except Exception:
        return None
    for i in range(min(line, len(lines)) - 1, -1, -1):
        m = re.match(r'\s*(Theorem|Lemma|Corollary|Example|Definition|Fixpoint|Remark|Fact)\s+([A-Za-z0-9_\']+)', lines[i])
        if m:
            return m.group(2)
    return None


def build(targets, timeout=1500):
    """make the given .vo targets (full .vo build).  -> dict(ok, log, failed_file, failed_lemma, error)."""
    ensure_makefile()
    p = subprocess.run(['timeout', str(timeout), 'make', '-j16'] + targets, cwd=COQ,
                       capture_output=True, text=True)
    log = p.stdout + p.stderr
    r = {'ok': p.returncode == 0, 'log': log}
    if not r['ok']:
        m = re.search(r'File "\./([^"]+)", line (\d+), characters [\d-]+:\s*\n(Error:.*?)(?:\n\n|\nmake|\Z)', log, re.S)
        if m:
            r['failed_file'] = m.group(1)
            r['failed_line'] = int(m.group(2))
            r['error'] = m.group(3).strip()[:600]
            r['failed_lemma'] = enclosing_lemma(os.path.join(COQ, m.group(1)), int(m.group(2)))
        else:
            r['error'] = log[-800:]
    return r


EVAL_MODULES = ['Model/Obs.vo', 'Model/Wire.vo', 'Model/FrameBuffer.vo', 'Model/WmHist.vo', 'Model/SettingsV.vo', 'Model/StreamFSM.vo',
                'Gen/Kernels.vo', 'Spec/Rfc51.vo', 'Spec/Rfc812.vo']


def property_build(pid):
    """Build Properties/<pid>.vo, always re-checking the property file itself so that the
    Print Assumptions output is captured on every run."""
    vo = os.path.join(COQ, 'Properties', pid + '.vo')
    if os.path.exists(vo):
        os.remove(vo)
    # the modules the correspondence evaluates (scratch files Require them) are rebuilt with the property's closure: a regenerated
    # Gen/*.v that the property's own proofs do not depend on would otherwise leave them stale ("inconsistent assumptions")
    r = build(['Properties/%s.vo' % pid] + EVAL_MODULES)
    src = open(os.path.join(COQ, 'Properties', pid + '.v')).read()
    theorems = re.findall(r'^\s*(?:Theorem|Corollary)\s+([A-Za-z0-9_\']+)', src, re.M)
    examples = re.findall(r'^\s*Example\s+([A-Za-z0-9_\']+)', src, re.M)
    r['theorems'] = theorems
    r['examples'] = examples
    ax = []
    if r['ok']:
        # output of Print Assumptions, in order
        chunks = re.split(r'(?=Closed under the global context|Axioms:)', r['log'])
        for c in chunks:
            if c.startswith('Closed under the global context'):
                ax.append('Closed under the global context')
            elif c.startswith('Axioms:'):
                ax.append(' '.join(c.split('\n\n')[0].split()))
    r['assumptions'] = ax
    return r


def coq_eval(name, text, timeout=900):
    """Compile a scratch file that Requires the model; return its stdout."""
    d = os.path.join(BUILD, 'scratch')
    os.makedirs(d, exist_ok=True)
    path = os.path.join(d, name + '.v')
    with open(path, 'w') as f:
        f.write(text)
    p = subprocess.run(['timeout', str(timeout), 'coqc', '-Q', COQ, 'H2', '-Q', d, 'Scratch', path],
                       capture_output=True, text=True, cwd=d)
    if p.returncode != 0:
        raise RuntimeError('coqc failed on %s: %s' % (path, (p.stdout + p.stderr)[-3000:]))
    return p.stdout


def coq_eval_many(jobs, timeout=1800, par=16):
    """jobs: list of (name, text).  Compiles them in parallel; -> {name: stdout}."""
    d = os.path.join(BUILD, 'scratch')
    os.makedirs(d, exist_ok=True)
    procs = []
    out = {}
    pending = list(jobs)
    running = []
    while pending or running:
        while pending and len(running) < par:
            name, text = pending.pop(0)
            path = os.path.join(d, name + '.v')
            with open(path, 'w') as f:
                f.write(text)
            fo = open(path + '.out', 'w')
            p = subprocess.Popen(['bash', '-c', 'ulimit -s unlimited 2>/dev/null; exec timeout %d coqc -Q %s H2 -Q %s Scratch %s' % (timeout, COQ, d, path)],
                                 stdout=fo, stderr=subprocess.STDOUT, text=True, cwd=d)
            running.append((name, path, p, fo))
        still = []
        for name, path, p, fo in running:
            if p.poll() is None:
                still.append((name, path, p, fo))
            else:
                fo.close()
                so = open(path + '.out').read()
                if p.returncode != 0:
                    raise RuntimeError('coqc failed on %s: %s' % (path, so[-3000:]))
                out[name] = so
        running = still
        if running:
            time.sleep(0.05)
    return out


def parse_zlist(s):
    """Parse Coq's printing of a list of Z / nat: `= [1; 2; 3]%Z : list Z` (possibly wrapped)."""
    m = re.search(r'=\s*(\[.*?\])(?:%[A-Za-z]+)?\s*:', s, re.S)
    if not m:
        raise ValueError('no list in coq output: ' + s[:300])
    body = m.group(1).strip()[1:-1].strip()
    if not body:
        return []
    return [int(x.replace('%Z', '').replace('(', '').replace(')', '').strip()) for x in body.split(';')]


def parse_eval_outputs(s):
    """Split the stdout of a scratch file into the `= ... : type` answers, whitespace-normalised."""
    parts = re.split(r'\n\s*=\s', '\n' + s)
    res = []
    for p in parts[1:]:
        res.append(' '.join(('= ' + p).split()))
    return res


# ----------------------------------------------------------------------------------------------
# known findings

def load_known_findings(pid):
    """-> (findings, fixed) for this property.  Never written at run time."""
    path = os.path.join(VERIF, 'known_findings.txt')
    findings, fixed = [], []
    if os.path.exists(path):
        for line in open(path):
            line = line.strip()
            if not line or line.startswith('#'):
                continue
            m = re.match(r'finding: property=(\S+) id=(\S+) (.*)$', line)
            if m and m.group(1) == pid:
                fid = m.group(2)
                spec = {}
                jp = os.path.join(VERIF, 'known_findings', fid + '.json')
                if os.path.exists(jp):
                    spec = json.load(open(jp))
                findings.append({'id': fid, 'what': m.group(3), 'spec': spec})
            m = re.match(r'fixed: property=(\S+) (\S+) (.*)$', line)
            if m and m.group(1) == pid:
                fixed.append({'commit': m.group(2), 'what': m.group(3)})
    return findings, fixed


class Run:
    """One run of one property's check."""

    def __init__(self, pid, tier, seed):
        self.pid = pid
        self.tier = tier
        self.seed = seed
        self.t0 = time.time()
        self.violations = []       # (replay_path, concrete)
        self.known_hits = []
        self.breaks = []           # proof / correspondence / translator breaks (dicts)
        self.cov = {}
        self.findings, self.fixed = load_known_findings(pid)

    # -- violation protocol --------------------------------------------------------------
    def write_replay(self, obj):
        os.makedirs(os.path.join(VERIF, 'replays'), exist_ok=True)
        blob = json.dumps(obj, sort_keys=True, default=str)
        h = hashlib.sha1(blob.encode()).hexdigest()[:12]
        path = os.path.join(VERIF, 'replays', '%s-%s.json' % (self.pid, h))
        obj = dict(obj)
        obj['property'] = self.pid
        with open(path, 'w') as f:
            json.dump(obj, f, indent=1, sort_keys=True, default=str)
        return os.path.relpath(path, VERIF)

    def violation(self, replay, concrete=True):
        """replay: dict describing the failing input (concrete) or the obligation that broke."""
        path = self.write_replay(replay)
        self.violations.append((path, concrete))
        line = 'VIOLATION property=%s replay=%s' % (self.pid, path)
        if not concrete:
            line += ' no-failing-input-found'
        print(line, flush=True)

    def known(self, finding, detail=''):
        self.known_hits.append(finding['id'])
        print('KNOWN-FINDING: property=%s %s%s' % (self.pid, finding['what'], (' [' + detail + ']') if detail else ''), flush=True)

    def match_known(self, key):
        """key: canonical string identifying the failing input/call site."""
        for f in self.findings:
            keys = f['spec'].get('keys', [])
            if key in keys:
                return f
        return None

    # -- evidence ------------------------------------------------------------------------
    def finish(self, level, coverage, assumptions=None):
        wall = time.time() - self.t0
        ev = {
            'property_id': self.pid,
            'tier': self.tier,
            'seed': int(self.seed),
            'level': level,
            'coverage': coverage,
            'assumptions': assumptions or [],
            'wall_s': round(wall, 2),
            'violations': len(self.violations),
            'known_findings_hit': sorted(set(self.known_hits)),
        }
        os.makedirs(os.path.join(VERIF, 'evidence'), exist_ok=True)
        with open(os.path.join(VERIF, 'evidence', self.pid + '.json'), 'w') as f:
            json.dump(ev, f, indent=1, default=str)
        status = 'FAIL' if self.violations else 'ok'
        print('%s %s tier=%s seed=%s wall=%.1fs violations=%d known=%d' % (
            self.pid, status, self.tier, self.seed, wall, len(self.violations), len(set(self.known_hits))), flush=True)
        return 1 if self.violations else 0


def proof_stage(run, extra_targets=()):
    """Regenerate Gen/*.v, build the property's closure.  Records breaks; returns build info."""
    with Lock():
        errs = regen()
        for e in errs:
            run.breaks.append({'kind': 'translator', 'part': e.get('part'), 'error': e.get('error')})
        r = property_build(run.pid)
    if not r['ok']:
        run.breaks.append({'kind': 'proof', 'file': r.get('failed_file'), 'line': r.get('failed_line'),
                           'lemma': r.get('failed_lemma'), 'error': r.get('error')})
    return r


def proof_coverage(r, extra_obligations=0):
    nth = len(r.get('theorems', []))
    cov = {
        'obligations': nth + extra_obligations,
        'discharged': (nth + extra_obligations) if r['ok'] else 0,
        'checker_cmd': 'make -C /verif/coq Properties/<id>.vo  (coqc 8.16.1, full .vo build, Print Assumptions after every theorem)',
        'trusted_base': list(TRUSTED_BASE),
        'theorems': r.get('theorems', []),
        'examples_nonvacuity': r.get('examples', []),
        'axioms': r.get('assumptions', []),
    }
    return cov
