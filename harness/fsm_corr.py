"""Exhaustive correspondence of H2StreamStateMachine.process_input with Model/StreamFSM.v over the
complete finite configuration space (7 states x 3 client values x 2^4 flags x 5 closed_by x 19 inputs = 31 920)."""
import re

from harness import common

EV = {'_RequestSent': 1, '_ResponseSent': 2, '_TrailersSent': 3, '_PushedRequestSent': 4, 'RequestReceived': 5,
      'ResponseReceived': 6, 'TrailersReceived': 7, 'InformationalResponseReceived': 8, 'DataReceived': 9,
      'WindowUpdated': 10, 'StreamEnded': 11, 'StreamReset': 12, 'PushedStreamReceived': 13,
      'AlternativeServiceAvailable': 14}


def impl_all():
    import h2.stream as S
    import h2.exceptions as X
    out = []
    states = list(S.StreamState)
    # model order of all_sstate: IDLE, RESERVED_REMOTE, RESERVED_LOCAL, OPEN, HALF_CLOSED_REMOTE, HALF_CLOSED_LOCAL, CLOSED (enum order)
    cbs = [None] + list(S.StreamClosedBy)
    for st in states:
        for cl in (None, True, False):
            for hs in (None, True):
                for ts in (None, True):
                    for hr in (None, True):
                        for tr in (None, True):
                            for cb in cbs:
                                for inp in S.StreamInputs:
                                    m = S.H2StreamStateMachine(7)
                                    m.state, m.client = st, cl
                                    m.headers_sent, m.trailers_sent = hs, ts
                                    m.headers_received, m.trailers_received = hr, tr
                                    m.stream_closed_by = cb
                                    try:
                                        r = m.process_input(inp)
                                        res = [0] + [EV[type(e).__name__] for e in (r or [])]
                                    except X.StreamClosedError as e:
                                        evs = e._events
                                        ok = (evs == [] or (len(evs) == 1 and type(evs[0]).__name__ == 'StreamReset'
                                                            and evs[0].stream_id == 7 and int(evs[0].error_code) == 5 and evs[0].remote_reset is False))
                                        res = [102, int(e.error_code), e.stream_id, (1 if evs else 0) if ok else 99]
                                    except X.ProtocolError as e:
                                        res = [101 if type(e) is X.ProtocolError else 103, int(e.error_code), 0, 0]
                                    except Exception:  # noqa
                                        res = [200]
                                    cbc = 0 if m.stream_closed_by is None else int(m.stream_closed_by.value) + 1
                                    clc = 0 if m.client is None else (1 if m.client else 2)
                                    out.append([int(m.state), clc, int(bool(m.headers_sent)), int(bool(m.trailers_sent)),
                                                int(bool(m.headers_received)), int(bool(m.trailers_received)), cbc] + res)
    return out


def model_all():
    text = ('From H2 Require Import Base.Prelude Model.StreamFSM.\n'
            'Eval vm_compute in all_fsm_obs.\n')
    s = common.coq_eval('fsm_all', text)
    s = ' '.join(s.split())
    body = s[s.index('= [') + 2:]
    return [[int(x.replace('(', '').replace(')', '').strip()) for x in inner.split(';')]
            for inner in re.findall(r'\[([^\[\]]+)\]', body)]


def describe(idx):
    import h2.stream as S
    inputs = list(S.StreamInputs)
    i = idx % len(inputs)
    r = idx // len(inputs)
    cb = r % 5; r //= 5
    tr = r % 2; r //= 2
    hr = r % 2; r //= 2
    ts = r % 2; r //= 2
    hs = r % 2; r //= 2
    cl = r % 3; r //= 3
    return {'state': S.StreamState(r).name, 'client': [None, True, False][cl], 'headers_sent': bool(hs), 'trailers_sent': bool(ts),
            'headers_received': bool(hr), 'trailers_received': bool(tr),
            'closed_by': ([None] + [c.name for c in S.StreamClosedBy])[cb], 'input': inputs[i].name}


def run():
    """-> (n_configs, list of disagreements)"""
    impl = impl_all()
    model = model_all()
    dis = []
    if len(impl) != len(model):
        return len(impl), [{'what': 'configuration count differs', 'impl': len(impl), 'model': len(model)}]
    for k, (a, b) in enumerate(zip(impl, model)):
        if a != b:
            dis.append({'config': describe(k), 'impl': a, 'model': b})
    return len(impl), dis
