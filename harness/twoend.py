"""Two real h2 endpoints (client and server) connected back to back (C01).  Programs are lists of API calls on either side and
deliveries of the bytes in flight, in order-preserving chunks, in any interleaving of the two directions.  Calls that raise are
skipped.  Oracle: no receive_data call raises (unless that endpoint has itself closed the connection), and the events each
receiver reports are exactly what the successful calls of the sender predict."""
import random

REQS = [[(':method', 'GET'), (':path', '/'), (':scheme', 'https'), (':authority', 'example.com')],
        [(':method', 'POST'), (':path', '/p'), (':scheme', 'https'), (':authority', 'example.com'), ('x-a', 'b')],
        [(':method', 'HEAD'), (':path', '/'), (':scheme', 'https'), (':authority', 'example.com')],
        [(':method', 'GET'), (':path', '/'), (':scheme', 'https'), (':authority', 'example.com'), ('cookie', 'a=b'), ('cookie', 'c=d')],
        [(':method', 'GET'), (':path', '/'), (':scheme', 'https'), (':authority', 'example.com'), ('X-Upper', ' v ')],
        [(':METHOD', 'GET'), (':path', '/'), (':scheme', 'https'), (':authority', 'example.com')]]
BAD_REQS = [[(':method', 'GET'), (':path', '/'), (':scheme', 'https')],
            [(':method', 'GET'), (':path', '/'), (':scheme', 'https'), (':authority', 'a'), ('te', 'gzip')],
            [(':method', 'GET'), (':path', ''), (':scheme', 'https'), (':authority', 'a')],
            [('x', 'y'), (':method', 'GET'), (':path', '/'), (':scheme', 'https'), (':authority', 'a')]]
RESPS = [[(':status', '200'), ('server', 'x')], [(':status', '404')], [(':status', '204')], [(':status', '200'), ('content-type', 'text/plain')]]
INFOS = [[(':status', '100')], [(':status', '103'), ('link', '</a>')], [(':STATUS', '100')]]
TRAILERS = [[('x-trailer', '1')], [('x-checksum', 'abc'), ('x-b', 'c')]]
BAD_TRAILERS = [[('x-t', '1'), ('te', 'gzip')], [(':status', '200')]]


def norm(hs):
    """the documented normalisation of what arrives: names lower-cased and stripped, values stripped (outbound), cookies joined (inbound)"""
    out = []
    for n, v in hs:
        n = n.encode() if isinstance(n, str) else bytes(n)
        v = v.encode() if isinstance(v, str) else bytes(v)
        out.append((n.lower().strip(), v.strip()))
    cookies = [v for n, v in out if n == b'cookie']
    if cookies:
        out = [(n, v) for n, v in out if n != b'cookie'] + [(b'cookie', b'; '.join(cookies))]
    return out


class End:
    def __init__(self, client):
        import h2.connection
        import h2.config
        self.client = client
        self.c = h2.connection.H2Connection(config=h2.config.H2Configuration(client_side=client))
        self.wire = b''          # bytes emitted and not yet delivered
        self.expect = []         # events the peer must report, in order
        self.closed_by_me = False
        self.next_sid = 1 if client else 2
        self.streams = {}        # sid -> dict(phase, ended) for streams we may send on

    def flush(self):
        self.wire += self.c.data_to_send()


def ev_tuple(e):
    n = type(e).__name__
    if n in ('RequestReceived', 'ResponseReceived', 'TrailersReceived', 'InformationalResponseReceived'):
        return (n, e.stream_id, tuple((bytes(a), bytes(b)) for a, b in e.headers))
    if n == 'DataReceived':
        return (n, e.stream_id, bytes(e.data), e.flow_controlled_length)
    if n == 'StreamEnded':
        return (n, e.stream_id)
    if n == 'StreamReset':
        return (n, e.stream_id, int(e.error_code), e.remote_reset)
    if n == 'PushedStreamReceived':
        return (n, e.pushed_stream_id, e.parent_stream_id, tuple((bytes(a), bytes(b)) for a, b in e.headers))
    if n == 'PingReceived':
        return (n, bytes(e.ping_data))
    if n == 'PriorityUpdated':
        return (n, e.stream_id, e.weight, e.depends_on, e.exclusive)
    if n == 'RemoteSettingsChanged':
        return (n, tuple(sorted((int(k), v.new_value) for k, v in e.changed_settings.items())))
    if n == 'WindowUpdated':
        return (n, e.stream_id, e.delta)
    if n == 'ConnectionTerminated':
        return (n, int(e.error_code), e.last_stream_id, bytes(e.additional_data or b''))
    if n == 'AlternativeServiceAvailable':
        return (n, e.origin, bytes(e.field_value))
    return (n,)


RESPONSES = ('SettingsAcknowledged', 'PingAckReceived')       # produced by the library's own automatic replies


def gen_call(rnd, me, peer, dirty=False, focus=None):
    """-> (description, thunk, expected peer events if the call succeeds)"""
    c = me.c
    k = rnd.random()
    H = lambda hs: tuple(norm(hs))
    if focus == 'push-iws' and rnd.random() < 0.45:
        # pushes, INITIAL_WINDOW_SIZE changes by the client while pushed streams are still reserved, then responses and DATA on them
        if me.client:
            kv = {4: rnd.choice([100, 1, 4000, 70000])}
            return ('update_settings(%r)' % kv, lambda: c.update_settings(kv), ('settings', kv))
        k = rnd.choice([0.1, 0.25, 0.25, 0.4])
    if me.client:
        if k < 0.22:
            bad = dirty and rnd.random() < 0.15
            hs = rnd.choice(BAD_REQS if bad else REQS)
            sid = me.next_sid
            es = rnd.random() < 0.4
            prio = rnd.random() < 0.15

            def f():
                kw = dict(priority_weight=7, priority_depends_on=0, priority_exclusive=False) if prio else {}
                if bad:
                    me.streams[sid] = {'ended': False, 'trailers': False, 'final': True, 'head': False}     # the application goes on using the stream
                    me.next_sid = sid + 2
                c.send_headers(sid, hs, end_stream=es, **kw)
                me.next_sid = sid + 2
                me.streams[sid] = {'ended': es, 'trailers': False, 'final': True, 'head': dict(hs).get(':method') == 'HEAD'}
            ev = [('RequestReceived', sid, H(hs))] + ([('StreamEnded', sid)] if es else []) + ([('PriorityUpdated', sid, 7, 0, False)] if prio else [])
            return ('send_headers(%d, request%s%s)' % (sid, ' BAD' if bad else '', ', END_STREAM' if es else ''), f, ev)
    else:
        pushed_open = [x for x, st in me.streams.items() if st.get('pushed') and not st.get('final') and not st['ended']]
        if k < 0.22 and (peer_streams(me) or pushed_open):
            sid = rnd.choice(peer_streams(me) + pushed_open + pushed_open)
            st = me.streams.setdefault(sid, {'ended': False, 'trailers': False, 'final': False})
            if st.get('final') and not dirty:
                return ('ping', lambda: c.ping(b'\x01' * 8), [('PingReceived', b'\x01' * 8)])
            kind = rnd.choice(['info', 'final', 'final', 'final'])
            if kind == 'info':
                hs = rnd.choice(INFOS if dirty else INFOS[:2])

                def f():
                    c.send_headers(sid, hs)
                return ('send_headers(%d, 1xx)' % sid, f, [('InformationalResponseReceived', sid, H(hs))])
            hs = rnd.choice(RESPS)
            es = rnd.random() < 0.3

            def f():
                c.send_headers(sid, hs, end_stream=es)
                st['final'] = True
                st['ended'] = es
            return ('send_headers(%d, response%s)' % (sid, ', END_STREAM' if es else ''), f, [('ResponseReceived', sid, H(hs))] + ([('StreamEnded', sid)] if es else []))
        if k < 0.28 and peer_streams(me):
            parent = rnd.choice(peer_streams(me))
            pid = me.next_sid
            hs = rnd.choice(REQS[:3])

            def f():
                c.push_stream(parent, pid, hs)
                me.next_sid = pid + 2
                me.streams[pid] = {'ended': False, 'trailers': False, 'final': False, 'pushed': True}
            return ('push_stream(%d, %d)' % (parent, pid), f, [('PushedStreamReceived', pid, parent, H(hs))])
    mine = [s for s, st in me.streams.items() if not st['ended'] and (dirty or st.get('final')) and not head_stream(me, peer, s)]
    if k < 0.45 and mine:
        sid = rnd.choice(mine)
        try:
            w = c.local_flow_control_window(sid)
        except Exception:
            w = 0
        n = rnd.choice([0, 1, 10, 1000, 16384])
        pad = rnd.choice([None, None, 0, 3])
        n = max(0, min(n, w - (0 if pad is None else pad + 1), c.max_outbound_frame_size - (0 if pad is None else pad + 1)))
        es = rnd.random() < 0.3
        data = bytes([65 + (sid % 26)]) * n

        def f():
            c.send_data(sid, data, end_stream=es, pad_length=pad)
            me.streams[sid]['ended'] = es
        return ('send_data(%d, %d bytes%s)' % (sid, n, ', END_STREAM' if es else ''), f,
                [('DataReceived', sid, data, n + (0 if pad is None else pad + 1))] + ([('StreamEnded', sid)] if es else []))
    if k < 0.52 and [x for x in mine if me.streams[x].get('final')]:
        sid = rnd.choice([x for x in mine if me.streams[x].get('final')])
        bad = dirty and rnd.random() < 0.25
        hs = rnd.choice(BAD_TRAILERS if bad else TRAILERS)
        es = (not dirty) or rnd.random() < 0.8

        def f():
            c.send_headers(sid, hs, end_stream=es)
            me.streams[sid]['ended'] = es
        return ('send_headers(%d, trailers%s)' % (sid, '' if es else ' without END_STREAM'), f, [('TrailersReceived', sid, H(hs)), ('StreamEnded', sid)])
    if k < 0.58 and mine:
        sid = rnd.choice(mine)

        def f():
            c.end_stream(sid)
            me.streams[sid]['ended'] = True
        return ('end_stream(%d)' % sid, f, [('DataReceived', sid, b'', 0), ('StreamEnded', sid)])
    if k < 0.64:
        pl = bytes(rnd.randrange(256) for _ in range(8))
        return ('ping', lambda: c.ping(pl), [('PingReceived', pl)])
    if k < 0.72:
        kv = rnd.choice([{4: rnd.choice([100, 65535, 100000])}, {3: rnd.choice([1, 50])}, {1: rnd.choice([0, 4096])}, {5: rnd.choice([16384, 20000])},
                         {6: 65536}, {2: 0} if me.client else {8: 1}])
        return ('update_settings(%r)' % kv, lambda: c.update_settings(kv), ('settings', kv))
    if k < 0.8:
        sid = rnd.choice([None] + [s for s in list(me.streams) + peer_streams(me)][:6])
        n = rnd.choice([1, 100, 70000])
        return ('increment_flow_control_window(%d, %r)' % (n, sid), lambda: c.increment_flow_control_window(n, sid), [('WindowUpdated', sid or 0, n)])
    if k < 0.84 and me.client and me.streams:
        sid = rnd.choice(list(me.streams))
        w = rnd.choice([1, 16, 256])
        return ('prioritize(%d, %d)' % (sid, w), lambda: c.prioritize(sid, weight=w, depends_on=0, exclusive=False), [('PriorityUpdated', sid, w, 0, False)])
    if k < 0.88 and not me.client:
        return ('advertise_alternative_service', lambda: c.advertise_alternative_service(b'h2=":443"', origin=b'example.com'),
                [('AlternativeServiceAvailable', b'example.com', b'h2=":443"')])
    if k < 0.9:
        def f():
            c.close_connection(error_code=2)
            me.closed_by_me = True
        return ('close_connection', f, 'goaway')
    return ('ping', lambda: c.ping(b'\x00' * 8), [('PingReceived', b'\x00' * 8)])


def head_stream(me, peer, sid):
    """the request on this stream was HEAD: a server application must not send a body (its business, not the library's)"""
    st = (peer.streams if not me.client else me.streams).get(sid)
    return bool(st and st.get('head'))


def peer_streams(me):
    return [sid for sid, s in me.c.streams.items() if sid % 2 == (0 if me.client else 1) and s.state_machine.state.name in ('OPEN', 'HALF_CLOSED_REMOTE')]


def run_program(seed, n_steps=40, dirty=False, focus=None):
    """-> None if the exchange is faithful, else a dict describing the first discrepancy; plus the script (for the replay file)"""
    import h2.exceptions
    rnd = random.Random(seed)
    A, B = End(True), End(False)
    A.c.initiate_connection()
    B.c.initiate_connection()
    A.flush()
    B.flush()
    script = []
    got = {id(A): [], id(B): []}        # events each endpoint reported (filtered)

    def deliver(src, dst, n):
        chunk, src.wire = src.wire[:n], src.wire[n:]
        if not chunk or dst.closed_by_me:
            return None
        try:
            evs = dst.c.receive_data(chunk)
        except h2.exceptions.ProtocolError as e:
            dst.flush()
            if dst.closed_by_me:
                src.wire = b''
                return None
            return {'what': 'receive_data raised although every byte came from successful calls of the peer', 'exception': '%s: %s' % (type(e).__name__, e)}
        except Exception as e:  # noqa
            return {'what': 'receive_data raised a non-protocol exception', 'exception': repr(e)}
        dst.flush()
        for e in evs:
            t = ev_tuple(e)
            if t[0] in RESPONSES:
                continue
            got[id(dst)].append(t)
        return None

    def settle():
        for _ in range(6):
            for src, dst in ((A, B), (B, A)):
                while src.wire:
                    r = deliver(src, dst, rnd.choice([len(src.wire), 1, 7, 100, 9]))
                    if r:
                        return r
        return None

    r = settle()
    if r:
        return dict(r, script=script), script
    got[id(A)].clear()          # the initial SETTINGS exchange
    got[id(B)].clear()
    for step in range(n_steps):
        me, peer = (A, B) if rnd.random() < 0.5 else (B, A)
        who = 'client' if me.client else 'server'
        if me.closed_by_me or peer.closed_by_me:
            break
        desc, thunk, exp = gen_call(rnd, me, peer, dirty, focus)
        if desc == 'close_connection':
            # everything in flight is delivered first: what reaches an endpoint after it closed the connection is exempt
            r = settle()
            script.append('deliver everything')
            if r:
                return dict(r, script=script, step=step), script
        try:
            thunk()
            ok = True
        except (h2.exceptions.H2Error, ValueError, KeyError, TypeError, AssertionError) as e:
            ok = False
            desc += ' -> raised %s' % type(e).__name__
        me.flush()
        script.append('%s: %s' % (who, desc))
        if ok:
            if exp == 'goaway':
                me.expect.append(('ConnectionTerminated', 2, None, b''))
            elif isinstance(exp, tuple) and exp[0] == 'settings':
                me.expect.append(('RemoteSettingsChanged', tuple(sorted(exp[1].items()))))
            else:
                me.expect.extend(exp)
        # deliveries: sometimes partial, sometimes complete, in either direction
        for _ in range(rnd.choice([0, 1, 2])):
            src, dst = (A, B) if rnd.random() < 0.5 else (B, A)
            if src.wire:
                n = rnd.choice([len(src.wire), len(src.wire), 1, 5, 9, 50])
                r = deliver(src, dst, n)
                script.append('deliver %d bytes %s' % (n, 'client->server' if src is A else 'server->client'))
                if r:
                    return dict(r, script=script, step=step), script
        if rnd.random() < 0.6:
            r = settle()
            script.append('deliver everything')
            if r:
                return dict(r, script=script, step=step), script
    r = settle()
    if r:
        return dict(r, script=script), script
    for me, peer, name in ((A, B, 'server'), (B, A, 'client')):
        want = list(me.expect)
        have = got[id(peer)]
        # WindowUpdated events also come from the peer's automatic flow-control acknowledgements: extra ones are not judged
        hv = list(have)
        i = 0
        missing = None
        for w in want:
            if w[0] == 'ConnectionTerminated':
                m = next((k for k in range(i, len(hv)) if hv[k][0] == 'ConnectionTerminated' and hv[k][1] == w[1]), None)
            elif w[0] == 'RemoteSettingsChanged':
                m = next((k for k in range(i, len(hv)) if hv[k][0] == w[0] and set(w[1]) <= set(hv[k][1])), None)
            else:
                m = next((k for k in range(i, len(hv)) if hv[k] == w), None)
            if m is None and w[0] == 'WindowUpdated' and w[1] != 0:
                continue        # the receiver may already have closed that stream: WINDOW_UPDATE is then ignored
            if m is None:
                missing = w
                break
            skipped = [x for x in hv[i:m] if x[0] not in ('WindowUpdated',)]
            if skipped:
                return {'what': 'the %s reported events that no successful call of its peer explains, or out of order' % name, 'unexplained': [str(x)[:200] for x in skipped[:3]],
                        'next_expected': str(w)[:200], 'script': script}, script
            i = m + 1
        if missing is not None:
            return {'what': 'a successful send was not reproduced by the %s\'s events' % name, 'missing': str(missing)[:300],
                    'reported_after': [str(x)[:160] for x in hv[i:i + 4]], 'script': script}, script
        rest = [x for x in hv[i:] if x[0] != 'WindowUpdated']
        if rest:
            return {'what': 'the %s reported events that no successful call of its peer explains' % name, 'unexplained': [str(x)[:200] for x in rest[:3]], 'script': script}, script
    return None, script


FINDINGS = {
    'F-C01-1': 'after a send_headers / push_stream call raised, a later header block from the same endpoint is rejected by the peer (HPACK contexts out of step)',
    'F-C01-2': 'a call that raised changed the state of its stream (closed it, or left it open), so later successful sends on that stream are rejected or dropped by the peer',
    'F-C01-3': 'several update_settings calls in flight, one of them changing HEADER_TABLE_SIZE or ENABLE_PUSH: acknowledgements are matched per identifier, not per frame (F-C11-1), so the later change takes effect too early and the peer\'s next header block / legitimately sent PUSH_PROMISE is rejected',
    'F-C01-4': 'a server sends DATA / END_STREAM before any response headers: accepted locally, the client raises ProtocolError',
    'F-C01-6': 'a 1xx header list written with an upper-case pseudo-header name (\':STATUS\') is treated as a final response by the sender (is_informational_response runs before normalisation) and as an informational one by the receiver',
    'F-C01-5': 'after a local INITIAL_WINDOW_SIZE decrease made a stream\'s receive window negative (legal, RFC 7540 6.9.2), an empty DATA frame from the peer is a FlowControlError ("window shrunk below 0")',
}


def classify(r, script):
    """-> id of the known finding that explains this discrepancy, or None"""
    import re
    text = str(r.get('exception', '')) + ' ' + str(r.get('missing', '')) + ' ' + str(r.get('unexplained', ''))
    raised = [s for s in script if '-> raised' in s]
    hdr_raised = [s for s in raised if 'send_headers' in s or 'push_stream' in s]
    if 'cannot receive data before headers' in text:
        return 'F-C01-4'
    if 'INFORMATIONAL' in text and any('1xx' in x and 'raised' not in x for x in script):
        return 'F-C01-6'
    if 'shrunk below 0' in text and any('update_settings({4:' in x for x in script):
        # the listed finding is about an EMPTY frame on a legally negative window; a sender overrunning the window is something else
        sends = [x for x in script if ('send_data(' in x or 'end_stream(' in x) and 'raised' not in x]
        if sends and ('end_stream(' in sends[-1] or ', 0 bytes' in sends[-1]):
            return 'F-C01-5'
    if ('did not shrink table size' in text or 'exceeded max allowable table size' in text) and sum(1 for s in script if 'update_settings(' in s) >= 2 and any('update_settings({1:' in s for s in script):
        return 'F-C01-3'
    if 'Received pushed stream' in text and sum(1 for s in script if 'client: update_settings(' in s) >= 2 and any('update_settings({2: 0})' in s for s in script):
        return 'F-C01-3'      # ENABLE_PUSH = 0 applied by the acknowledgement of an EARLIER frame: a push sent legitimately before the server saw it is refused
    if hdr_raised and ('Error decoding header block' in text or 'duplicate pseudo-header' in text or 'missing mandatory' in text or 'pseudo-header' in text):
        return 'F-C01-1'
    sids = set(re.findall(r'(?:send_headers|push_stream|send_data|end_stream)\((\d+)', ' '.join(raised)))
    m = re.findall(r"(?:NoSuchStreamError: |, )(\d+)", text)
    if hdr_raised and ('NoSuchStreamError' in text or 'StreamIDTooLowError' in text or 'Invalid input' in text or 'StreamClosedError' in text or 'Invalid stream ID' in text or 'missing mandatory' in text
                       or 'DataReceived' in text or 'TrailersReceived' in text or 'StreamEnded' in text or 'ResponseReceived' in text or 'StreamReset' in text
                       or 'InformationalResponseReceived' in text or 'PushedStreamReceived' in text):
        return 'F-C01-2'
    if hdr_raised and ('pseudo-header' in text or 'headers' in text):
        return 'F-C01-1'
    if hdr_raised:
        return 'F-C01-2'      # every later discrepancy in a program where a header-carrying call raised half-way is attributed to it
    return None
