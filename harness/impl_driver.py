"""Drives a real h2.connection.H2Connection with model-level operations and builds, after every
operation, the same observation trees as coq/Model/Obs.v.

Operations are Python tuples mirroring the constructors of Model.Connection.op:
  ('Initiate',) ('InitiateUpgrade', hdr|None) ('SendHeaders', sid, hs, L, es, pw, pd, pe)
  ('SendData', sid, len, es, pad) ('EndStream', sid) ('IncrementWindow', inc, sid|None)
  ('PushStream', sid, promised, hs, L) ('Ping', payload) ('ResetStream', sid, code)
  ('CloseConnection', code, last|None, dbg) ('UpdateSettings', kvs) ('AdvertiseAltSvc', field, origin|None, sid|None)
  ('Prioritize', sid, w, d, e) ('Acknowledge', n, sid) ('NextStreamId',) ('LocalWindow', sid) ('RemoteWindow', sid)
  ('OpenOutbound',) ('OpenInbound',) ('Drain',) ('Receive', [(rframe, blen), ...])
hs: list of (name bytes, value bytes, never_indexed bool).  L (encoded block length) is filled in by the driver.
rframes: ('Headers', sid, es, prio|None, hdec) ('PushPromise', sid, promised, hdec) ('Data', sid, len, fclen, es)
  ('Settings', ack, vals) ('WindowUpdate', sid, inc) ('Ping', ack, payload) ('RstStream', sid, code)
  ('Priority', sid, prio) ('GoAway', last, code, dbg) ('Continuation', sid) ('AltSvc', sid, origin, field)
  ('Unknown', ftype, sid) ('TooLarge',) ('BadBody', kind)
hdec: ('Decoded', hs) | ('DecodeError',)
Receive entries may carry wire-level hints in a 3rd element (dict): pad, split (continuation chunking), raw bytes.
"""
import base64
import struct

import hpack
from hpack import HeaderTuple, NeverIndexedHeaderTuple

from harness import wire

P61 = 2305843009213693951


def thash(t):
    if isinstance(t, int):
        return (t * 31 + 7) % P61
    h = 13
    for x in t:
        h = (h * 1000003 + thash(x)) % P61
    return h


def tb(b):
    return 1 if b else 0


def tbytes(b):
    if isinstance(b, str):
        b = b.encode('utf-8')
    return list(b)


def topt(f, o):
    return [] if o is None else [f(o)]


def tint(x):
    return int(x)


def thitem(h):
    return [tbytes(h[0]), tbytes(h[1]), tb(isinstance(h, NeverIndexedHeaderTuple) or (len(h) > 2 and h[2] is True))]


def thitems(hs):
    return [thitem(h) for h in hs]


def tprio(p):
    return [p[0], p[1], tb(p[2])]


H2EXN = ['ProtocolError', 'FrameTooLargeError', 'FrameDataMissingError', 'TooManyStreamsError', 'FlowControlError',
         'StreamIDTooLowError', 'NoAvailableStreamIDError', 'NoSuchStreamError', 'StreamClosedError',
         'InvalidSettingsValueError', 'InvalidBodyLengthError', 'UnsupportedFrameError', 'DenialOfServiceError', 'RFC1122Error']
PYEXN = ['ValueError', 'TypeError', 'KeyError', 'IndexError', 'AssertionError', 'UnicodeDecodeError']
STATE_CODE = {'IDLE': 0, 'RESERVED_REMOTE': 1, 'RESERVED_LOCAL': 2, 'OPEN': 3, 'HALF_CLOSED_REMOTE': 4, 'HALF_CLOSED_LOCAL': 5, 'CLOSED': 6}
CB_CODE = {None: 0, 'SEND_END_STREAM': 1, 'RECV_END_STREAM': 2, 'SEND_RST_STREAM': 3, 'RECV_RST_STREAM': 4}


class EncSpy:
    """Wraps conn.encoder.encode: records what the encoder consumed (also when the generator raises) and the block length."""

    def __init__(self, enc):
        self.enc = enc
        self.calls = []     # list of (consumed list, block length or None)
        orig = enc.encode

        def encode(headers, huffman=True):
            consumed = []

            def gen():
                for h in headers:
                    consumed.append(h)
                    yield h
            try:
                out = orig(gen(), huffman)
            except BaseException:
                self.calls.append((consumed, None))
                raise
            self.calls.append((consumed, len(out)))
            return out
        enc.encode = encode


class Impl:
    def __init__(self, cfg):
        import h2.connection
        import h2.config
        self.cfg = cfg
        self.h2 = __import__('h2')
        c = h2.config.H2Configuration(
            client_side=cfg['client'], header_encoding=('utf-8' if cfg['header_encoding'] else None),
            validate_outbound_headers=cfg['validate_out'], normalize_outbound_headers=cfg['normalize_out'],
            validate_inbound_headers=cfg['validate_in'], normalize_inbound_headers=cfg['normalize_in'])
        self.conn = h2.connection.H2Connection(config=c)
        self.spy = EncSpy(self.conn.encoder)
        self.shadow_dec = hpack.Decoder()
        self.shadow_dec.max_allowed_table_size = 2 ** 32
        self.shadow_dec.max_header_list_size = 2 ** 62
        self.in_enc = hpack.Encoder()
        self.in_enc.header_table_size = 0          # stateless blocks: never out of sync with conn.decoder
        self.pending = []                          # parsed frames of the not yet drained output
        self.pending_len = 0
        self.block = None                          # header block being collected from the output
        self.preface_seen = False
        self.cleared = False
        self.sent_preface = False
        self.chunker = None                        # C21: bytes -> list of chunks fed to receive_data one by one
        orig_clear = self.conn.clear_outbound_data_buffer

        def clear():
            self.cleared = True
            self.pending = []
            self.pending_len = 0
            self.pending_bytes = b''
            orig_clear()
        self.conn.clear_outbound_data_buffer = clear

    # ---- output ------------------------------------------------------------------------------
    def _absorb_output(self):
        buf = bytes(self.conn._data_to_send)
        prev = getattr(self, 'pending_bytes', b'')
        if buf[:len(prev)] != prev:
            # the output buffer is expected to be append-only between drains: it was rewritten
            self.pending = [[97, len(prev), len(buf)]]
            self.pending_bytes = buf
            self.pending_len = len(buf)
            return
        new = buf[self.pending_len:]
        self.pending_len = len(buf)
        self.pending_bytes = buf
        if not new:
            return
        if self.cfg['client'] and not self.preface_seen and new.startswith(wire.PREFACE):
            self.preface_seen = True
            new = new[len(wire.PREFACE):]
        try:
            frames = wire.parse_all(new)
        except wire.WireError as e:
            # what was appended does not parse as HTTP/2 frames
            self.pending.append([96, tbytes(str(e)[:40])])
            return
        for f in frames:
            self.pending.append(self._tframe(f))

    def _tframe(self, f):
        t = f['type']
        fl = f.get('flags', set())
        if t in ('HEADERS', 'PUSH_PROMISE', 'CONTINUATION'):
            if t != 'CONTINUATION':
                self.block = {'data': b'', 'first': None}
            blk = self.block
            blk['data'] += f['block']
            if t == 'HEADERS':
                p = [tprio((f['depends_on'], f['weight_byte'], f['exclusive']))] if 'PRIORITY' in fl else []
                node = [1, f['sid'], tb('END_STREAM' in fl), tb('END_HEADERS' in fl), p, None, len(f['block'])]
                blk['first'] = node
                blk['slot'] = 5
            elif t == 'PUSH_PROMISE':
                node = [5, f['sid'], f['promised'], tb('END_HEADERS' in fl), None, len(f['block'])]
                blk['first'] = node
                blk['slot'] = 4
            else:
                node = [9, f['sid'], tb('END_HEADERS' in fl), len(f['block'])]
            if 'END_HEADERS' in fl:
                try:
                    hs = self.shadow_dec.decode(blk['data'], raw=True)
                    blk['first'][blk['slot']] = thitems(hs)
                except Exception as e:  # an undecodable block in the output
                    blk['first'][blk['slot']] = [[-1], tbytes(repr(e)[:40])]
                self.block = None
            return node
        if t == 'DATA':
            return [0, f['sid'], len(f['data']), tb('END_STREAM' in fl), topt(tint, f.get('pad_length'))]
        if t == 'SETTINGS':
            return [4, tb('ACK' in fl), [[k, v] for k, v in f['settings']]]
        if t == 'WINDOW_UPDATE':
            return [8, f['sid'], f['increment']]
        if t == 'PING':
            return [6, tb('ACK' in fl), tbytes(f['opaque'])]
        if t == 'RST_STREAM':
            return [3, f['sid'], f['error_code']]
        if t == 'PRIORITY':
            return [2, f['sid'], tprio((f['depends_on'], f['weight_byte'], f['exclusive']))]
        if t == 'GOAWAY':
            return [7, f['last_stream_id'], f['error_code'], len(f['debug'])]
        if t == 'ALTSVC':
            return [10, f['sid'], tbytes(f['origin']), tbytes(f['field'])]
        return [99, t if isinstance(t, int) else -1]

    def out_tree(self):
        """structure of the pending output: header lists blanked (they are observed separately)"""
        out = []
        for fr in self.pending:
            if fr[0] == 1:
                out.append(fr[:5] + [[]] + fr[6:])
            elif fr[0] == 5:
                out.append(fr[:4] + [[]] + fr[5:])
            else:
                out.append(fr)
        return out

    def out_headers(self):
        # header slots still None belong to a block whose END_HEADERS has not been emitted yet
        hl = []
        for fr in self.pending:
            if fr[0] == 1:
                hl.append(fr[5] if fr[5] is not None else [[-2]])
            elif fr[0] == 5:
                hl.append(fr[4] if fr[4] is not None else [[-2]])
        return hl

    # ---- events ------------------------------------------------------------------------------
    def _tevent(self, e, evs, idx):
        import h2.events as E
        n = type(e).__name__

        def off(attr):
            r = getattr(e, attr, None)
            if r is None:
                return []
            for j in range(len(evs)):
                if evs[j] is r:
                    return [j - idx]
            return [-1000]       # refers to an event that is not in the returned list
        if n in ('RequestReceived', 'ResponseReceived', 'TrailersReceived'):
            return [{'RequestReceived': 1, 'ResponseReceived': 2, 'TrailersReceived': 3}[n], e.stream_id, thitems(e.headers),
                    off('stream_ended'), off('priority_updated')]
        if n == 'InformationalResponseReceived':
            return [4, e.stream_id, thitems(e.headers), off('priority_updated')]
        if n == 'DataReceived':
            return [5, e.stream_id, len(e.data), e.flow_controlled_length, off('stream_ended')]
        if n == 'WindowUpdated':
            return [6, e.stream_id, e.delta]
        if n in ('RemoteSettingsChanged', 'SettingsAcknowledged'):
            ch = [[int(k), topt(tint, v.original_value), int(v.new_value)] for k, v in e.changed_settings.items()]
            return [7 if n == 'RemoteSettingsChanged' else 13, ch]
        if n == 'PingReceived':
            return [8, tbytes(e.ping_data)]
        if n == 'PingAckReceived':
            return [9, tbytes(e.ping_data)]
        if n == 'StreamEnded':
            return [10, e.stream_id]
        if n == 'StreamReset':
            return [11, e.stream_id, int(e.error_code), tb(e.remote_reset)]
        if n == 'PushedStreamReceived':
            return [12, e.pushed_stream_id, e.parent_stream_id, thitems(e.headers)]
        if n == 'PriorityUpdated':
            return [14, e.stream_id, e.weight, e.depends_on, tb(e.exclusive)]
        if n == 'ConnectionTerminated':
            return [15, int(e.error_code), e.last_stream_id, len(e.additional_data or b'')]
        if n == 'AlternativeServiceAvailable':
            return [16, topt(tbytes, e.origin), tbytes(e.field_value)]
        if n == 'UnknownFrameReceived':
            return [17, e.frame.type]
        return [98, tbytes(n)]

    # ---- probes ------------------------------------------------------------------------------
    def probe(self):
        c = self.conn
        st = {'IDLE': 0, 'CLIENT_OPEN': 1, 'SERVER_OPEN': 2, 'CLOSED': 3}[c.state_machine.state.name]

        def cb(x):
            return CB_CODE[None if x is None else x.name]

        def wm(w):
            return [w.current_window_size, w.max_window_size, w._bytes_processed]

        def per(f):
            return [[sid] + f(s) for sid, s in c.streams.items()]

        def cl(x):
            return 0 if x is None else (1 if x else 2)

        def deq(s):
            return [[int(k), [topt(tint, v) for v in q]] for k, q in s._settings.items()]
        return [
            st,
            [len(c.streams), [[sid, cb(v)] for sid, v in c._closed_streams.items()]],
            [c.highest_inbound_stream_id, c.highest_outbound_stream_id],
            [c.outbound_flow_control_window] + wm(c._inbound_flow_control_window_manager),
            [c.max_outbound_frame_size, c.max_inbound_frame_size, c.decoder.max_header_list_size, c.encoder.header_table_size],
            per(lambda s: [STATE_CODE[s.state_machine.state.name], cl(s.state_machine.client), tb(s.state_machine.headers_sent),
                           tb(s.state_machine.trailers_sent), tb(s.state_machine.headers_received),
                           tb(s.state_machine.trailers_received), cb(s.state_machine.stream_closed_by)]),
            per(lambda s: [s.outbound_flow_control_window] + wm(s._inbound_window_manager)),
            per(lambda s: [s.max_outbound_frame_size, topt(tint, s._expected_content_length), s._actual_content_length,
                           topt(tbytes, s._authority), topt(tbytes, s.request_method)]),
            deq(c.local_settings), deq(c.remote_settings),
        ]

    # ---- inbound wire building ------------------------------------------------------------------
    def _encode_block(self, hdec, hint):
        if hdec[0] == 'DecodeError':
            return hint.get('garbage', b'\xff\xff\xff\xff\xff\x7f')
        items = []
        for n, v, ni in hdec[1]:
            items.append(NeverIndexedHeaderTuple(n, v) if ni else HeaderTuple(n, v))
        return self.in_enc.encode(items, huffman=hint.get('huffman', False))

    def _wire_of(self, entry):
        rf = entry[0]
        hint = entry[2] if len(entry) > 2 else {}
        k = rf[0]
        if 'raw' in hint:
            return hint['raw']
        S = wire.serialize
        if k in ('Headers', 'PushPromise'):
            if k == 'Headers':
                _, sid, es, prio, hdec = rf
            else:
                _, sid, promised, hdec = rf
                es, prio = False, None
            block = self._encode_block(hdec, hint)
            split = hint.get('split', [])          # chunk lengths for HEADERS then CONTINUATIONs
            chunks = []
            pos = 0
            for n in split:
                chunks.append(block[pos:pos + n])
                pos += n
            chunks.append(block[pos:])
            out = b''
            for i, ch in enumerate(chunks):
                last = i == len(chunks) - 1
                fl = set()
                if last:
                    fl.add('END_HEADERS')
                if i == 0:
                    if k == 'Headers':
                        if es:
                            fl.add('END_STREAM')
                        f = {'type': 'HEADERS', 'sid': sid, 'flags': fl, 'block': ch}
                        if prio is not None:
                            fl.add('PRIORITY')
                            f.update(depends_on=prio[0], weight_byte=prio[1], exclusive=prio[2])
                    else:
                        f = {'type': 'PUSH_PROMISE', 'sid': sid, 'promised': promised, 'flags': fl, 'block': ch}
                    # hyperframe 6.1 rejects a padded HEADERS frame whose fragment is empty (its own padding
                    # rule, stricter than the RFC): such a frame is not generated
                    if 'pad' in hint and not (k == 'Headers' and hint['pad'] > 0 and len(ch) == 0 and prio is None):
                        fl.add('PADDED')
                        f['pad_length'] = hint['pad']
                else:
                    f = {'type': 'CONTINUATION', 'sid': sid, 'flags': fl, 'block': ch}
                out += S(f)
            return out
        if k == 'Data':
            _, sid, ln, fclen, es = rf
            f = {'type': 'DATA', 'sid': sid, 'flags': {'END_STREAM'} if es else set(), 'data': b'\0' * ln}
            if fclen != ln:
                f['flags'].add('PADDED')
                f['pad_length'] = fclen - ln - 1
            return S(f)
        if k == 'Settings':
            return S({'type': 'SETTINGS', 'sid': 0, 'flags': {'ACK'} if rf[1] else set(), 'settings': list(rf[2])})
        if k == 'WindowUpdate':
            return S({'type': 'WINDOW_UPDATE', 'sid': rf[1], 'increment': rf[2]})
        if k == 'Ping':
            return S({'type': 'PING', 'sid': 0, 'flags': {'ACK'} if rf[1] else set(), 'opaque': bytes(rf[2])})
        if k == 'RstStream':
            return S({'type': 'RST_STREAM', 'sid': rf[1], 'error_code': rf[2]})
        if k == 'Priority':
            return S({'type': 'PRIORITY', 'sid': rf[1], 'depends_on': rf[2][0], 'weight_byte': rf[2][1], 'exclusive': rf[2][2]})
        if k == 'GoAway':
            return S({'type': 'GOAWAY', 'sid': 0, 'last_stream_id': rf[1], 'error_code': rf[2], 'debug': b'd' * rf[3]})
        if k == 'Continuation':
            return S({'type': 'CONTINUATION', 'sid': rf[1], 'flags': {'END_HEADERS'}, 'block': b''})
        if k == 'AltSvc':
            return S({'type': 'ALTSVC', 'sid': rf[1], 'origin': bytes(rf[2]), 'field': bytes(rf[3])})
        if k == 'Unknown':
            return S({'type': rf[1], 'sid': rf[2], 'body': hint.get('body', b'xyz')})
        raise ValueError('no wire form for %r' % (rf,))

    # ---- one operation ---------------------------------------------------------------------------
    def apply(self, op):
        """-> (annotated op, observation parts as trees)"""
        c = self.conn
        k = op[0]
        self.cleared = False
        n_calls = len(self.spy.calls)
        ans = []
        res = None
        E = self.h2.exceptions if hasattr(self.h2, 'exceptions') else __import__('h2.exceptions').exceptions
        try:
            if k == 'Initiate':
                c.initiate_connection()
            elif k == 'InitiateUpgrade':
                hdr = op[1]
                arg = None
                if hdr is not None:
                    body = b''.join(struct.pack('>HL', a, b) for a, b in hdr)
                    arg = base64.urlsafe_b64encode(body)
                r = c.initiate_upgrade_connection(arg)
                if r is not None:
                    body = base64.urlsafe_b64decode(r)
                    ans = [[a, b] for a, b in (struct.unpack('>HL', body[i:i + 6]) for i in range(0, len(body), 6))]
            elif k == 'SendHeaders':
                _, sid, hs, L, es, pw, pd, pe = op
                c.send_headers(sid, self._user_headers(hs), end_stream=es, priority_weight=pw,
                               priority_depends_on=pd, priority_exclusive=pe)
            elif k == 'SendData':
                _, sid, ln, es, pad = op
                c.send_data(sid, b'\0' * ln, end_stream=es, pad_length=pad)
            elif k == 'EndStream':
                c.end_stream(op[1])
            elif k == 'IncrementWindow':
                c.increment_flow_control_window(op[1], stream_id=op[2])
            elif k == 'PushStream':
                _, sid, promised, hs, L = op
                c.push_stream(sid, promised, self._user_headers(hs))
            elif k == 'Ping':
                c.ping(bytes(op[1]))
            elif k == 'ResetStream':
                c.reset_stream(op[1], error_code=op[2])
            elif k == 'CloseConnection':
                c.close_connection(error_code=op[1], additional_data=(b'd' * op[3]) if op[3] else None, last_stream_id=op[2])
            elif k == 'UpdateSettings':
                c.update_settings(dict(op[1]))
            elif k == 'AdvertiseAltSvc':
                c.advertise_alternative_service(bytes(op[1]), origin=None if op[2] is None else bytes(op[2]), stream_id=op[3])
            elif k == 'Prioritize':
                c.prioritize(op[1], weight=op[2], depends_on=op[3], exclusive=op[4])
            elif k == 'Acknowledge':
                c.acknowledge_received_data(op[1], op[2])
            elif k == 'NextStreamId':
                ans = [c.get_next_available_stream_id()]
            elif k == 'LocalWindow':
                ans = [c.local_flow_control_window(op[1])]
            elif k == 'RemoteWindow':
                ans = [c.remote_flow_control_window(op[1])]
            elif k == 'OpenOutbound':
                ans = [c.open_outbound_streams]
            elif k == 'OpenInbound':
                ans = [c.open_inbound_streams]
            elif k == 'Drain':
                self._absorb_output()
                c.data_to_send()
                self.pending = []
                self.pending_len = 0
                self.pending_bytes = b''
            elif k == 'Receive':
                data = b''
                if not self.cfg['client'] and not self.sent_preface:
                    data += wire.PREFACE
                    self.sent_preface = True
                annotated = []
                for entry in op[1]:
                    w = self._wire_of(entry)
                    blen = 0
                    off = 0
                    while off + 9 <= len(w):
                        ln = (w[off] << 16) | (w[off + 1] << 8) | w[off + 2]
                        blen = max(blen, ln)
                        off += 9 + ln
                    annotated.append((entry[0], blen) + tuple(entry[2:]))
                    data += w
                op = ('Receive', annotated)
                if self.chunker is None:
                    evs = c.receive_data(data)
                else:
                    evs = []
                    for ch in self.chunker(data):
                        evs += c.receive_data(ch)
                ans = [self._tevent(e, evs, i) for i, e in enumerate(evs)]
            else:
                raise ValueError('unknown op ' + k)
            res = [0, ans]
        except Exception as e:  # noqa
            self.last_exc = '%s: %s' % (type(e).__name__, e)
            n = type(e).__name__
            if n in H2EXN and isinstance(e, self._h2error()):
                idx = H2EXN.index(n)
                code = int(getattr(e, 'error_code', 0) or 0) if n != 'RFC1122Error' else 0
                res = [1, idx, code]
            elif n in PYEXN:
                res = [2, PYEXN.index(n)]
            else:
                res = [2, 6]
        self._absorb_output()
        # annotate header-sending ops with the encoded block length observed on the real encoder
        enc_delta = []
        for consumed, ln in self.spy.calls[n_calls:]:
            enc_delta.append(thitems(consumed))
        aop = op
        if k in ('SendHeaders', 'PushStream'):
            L = 0
            for consumed, ln in self.spy.calls[n_calls:]:
                if ln is not None:
                    L = ln
            aop = (op[:3] + (L,) + op[4:]) if k == 'SendHeaders' else (op[:4] + (L,))
        enc_delta.reverse()   # model log is newest first
        parts = [res, self.out_tree(), enc_delta] + self.probe() + [self.out_headers()]
        return aop, parts

    def _h2error(self):
        import h2.exceptions
        return h2.exceptions.H2Error

    def _user_headers(self, hs):
        # the user supplies plain tuples (ASCII text given as str or as bytes alternately) or NeverIndexedHeaderTuple
        out = []
        plain = [(bytes(n), bytes(v)) for n, v, ni in hs if not ni]
        ascii_ok = all(all(c < 128 and c not in (0x1c, 0x1d, 0x1e, 0x1f) for c in n + v) for n, v in plain)
        as_text = ascii_ok and sum(len(n) + len(v) for n, v in plain) % 2 == 1     # one type per header list (str or bytes), see F-C14-2
        for i, (n, v, ni) in enumerate(hs):
            if ni:
                out.append(NeverIndexedHeaderTuple(bytes(n), bytes(v)))
            elif as_text:
                # (str or bytes is chosen per field NAME, so that two fields of one name never differ in type: h2 compares str and bytes
                #  names as different, finding F-C14-2, which the byte-string model cannot express)
                out.append((bytes(n).decode('ascii'), bytes(v).decode('ascii')))
            else:
                out.append((bytes(n), bytes(v)))
        return out


# ---- Coq printing of operations ------------------------------------------------------------------
def cz(n):
    return str(n) if n >= 0 else '(%d)' % n


def cb_(b):
    return 'true' if b else 'false'


def cbytes(b):
    return '[' + ';'.join(str(x) for x in bytes(b)) + ']'


def copt(f, o):
    return 'None' if o is None else '(Some %s)' % f(o)


def chs(hs):
    return '[' + ';'.join('(%s,%s,%s)' % (cbytes(n), cbytes(v), cb_(ni)) for n, v, ni in hs) + ']'


def cprio(p):
    return '(%s,%s,%s)' % (cz(p[0]), cz(p[1]), cb_(p[2]))


def cpairs(kvs):
    return '[' + ';'.join('(%s,%s)' % (cz(a), cz(b)) for a, b in kvs) + ']'


def chdec(d):
    return '(HDecoded %s)' % chs(d[1]) if d[0] == 'Decoded' else 'HDecodeError'


def crframe(rf):
    k = rf[0]
    if k == 'Headers':
        return '(RHeaders %s %s %s %s)' % (cz(rf[1]), cb_(rf[2]), copt(cprio, rf[3]), chdec(rf[4]))
    if k == 'PushPromise':
        return '(RPushPromise %s %s %s)' % (cz(rf[1]), cz(rf[2]), chdec(rf[3]))
    if k == 'Data':
        return '(RData %s %s %s %s)' % (cz(rf[1]), cz(rf[2]), cz(rf[3]), cb_(rf[4]))
    if k == 'Settings':
        return '(RSettings %s %s)' % (cb_(rf[1]), cpairs(rf[2]))
    if k == 'WindowUpdate':
        return '(RWindowUpdate %s %s)' % (cz(rf[1]), cz(rf[2]))
    if k == 'Ping':
        return '(RPing %s %s)' % (cb_(rf[1]), cbytes(rf[2]))
    if k == 'RstStream':
        return '(RRstStream %s %s)' % (cz(rf[1]), cz(rf[2]))
    if k == 'Priority':
        return '(RPriority %s %s)' % (cz(rf[1]), cprio(rf[2]))
    if k == 'GoAway':
        return '(RGoAway %s %s %s)' % (cz(rf[1]), cz(rf[2]), cz(rf[3]))
    if k == 'Continuation':
        return '(RContinuation %s)' % cz(rf[1])
    if k == 'AltSvc':
        return '(RAltSvc %s %s %s)' % (cz(rf[1]), cbytes(rf[2]), cbytes(rf[3]))
    if k == 'Unknown':
        return '(RUnknown %s %s)' % (cz(rf[1]), cz(rf[2]))
    if k == 'TooLarge':
        return 'RTooLarge'
    if k == 'BadBody':
        return '(RBadBody %s)' % cz(rf[1])
    raise ValueError(k)


def cop(op):
    k = op[0]
    if k == 'Initiate':
        return 'OInitiate'
    if k == 'InitiateUpgrade':
        return '(OInitiateUpgrade %s)' % copt(cpairs, op[1])
    if k == 'SendHeaders':
        return '(OSendHeaders %s %s %s %s %s %s %s)' % (cz(op[1]), chs(op[2]), cz(op[3]), cb_(op[4]), copt(cz, op[5]), copt(cz, op[6]), copt(cb_, op[7]))
    if k == 'SendData':
        return '(OSendData %s %s %s %s)' % (cz(op[1]), cz(op[2]), cb_(op[3]), copt(cz, op[4]))
    if k == 'EndStream':
        return '(OEndStream %s)' % cz(op[1])
    if k == 'IncrementWindow':
        return '(OIncrementWindow %s %s)' % (cz(op[1]), copt(cz, op[2]))
    if k == 'PushStream':
        return '(OPushStream %s %s %s %s)' % (cz(op[1]), cz(op[2]), chs(op[3]), cz(op[4]))
    if k == 'Ping':
        return '(OPing %s)' % cbytes(op[1])
    if k == 'ResetStream':
        return '(OResetStream %s %s)' % (cz(op[1]), cz(op[2]))
    if k == 'CloseConnection':
        return '(OCloseConnection %s %s %s)' % (cz(op[1]), copt(cz, op[2]), cz(op[3]))
    if k == 'UpdateSettings':
        return '(OUpdateSettings %s)' % cpairs(op[1])
    if k == 'AdvertiseAltSvc':
        return '(OAdvertiseAltSvc %s %s %s)' % (cbytes(op[1]), copt(cbytes, op[2]), copt(cz, op[3]))
    if k == 'Prioritize':
        return '(OPrioritize %s %s %s %s)' % (cz(op[1]), copt(cz, op[2]), copt(cz, op[3]), copt(cb_, op[4]))
    if k == 'Acknowledge':
        return '(OAcknowledge %s %s)' % (cz(op[1]), cz(op[2]))
    if k in ('NextStreamId', 'OpenOutbound', 'OpenInbound', 'Drain'):
        return 'O' + k
    if k == 'LocalWindow':
        return '(OLocalWindow %s)' % cz(op[1])
    if k == 'RemoteWindow':
        return '(ORemoteWindow %s)' % cz(op[1])
    if k == 'Receive':
        return '(OReceive [%s])' % ';'.join('(%s,%s)' % (crframe(e[0]), cz(e[1])) for e in op[1])
    raise ValueError(k)


def ccfg(cfg):
    return '(mkconfig %s %s %s %s %s %s)' % tuple(cb_(cfg[k]) for k in (
        'client', 'validate_out', 'normalize_out', 'validate_in', 'normalize_in', 'header_encoding'))
