"""The harness's own RFC 7540 frame codec (independent of hyperframe).

serialize(frame dict) -> bytes ;  parse_all(bytes) -> list of frame dicts (raises WireError).
Frame dict: {'type': name, 'sid': int, 'flags': set of names, ...fields}.
"""
import struct

PREFACE = b'PRI * HTTP/2.0\r\n\r\nSM\r\n\r\n'
TYPES = {0: 'DATA', 1: 'HEADERS', 2: 'PRIORITY', 3: 'RST_STREAM', 4: 'SETTINGS', 5: 'PUSH_PROMISE',
         6: 'PING', 7: 'GOAWAY', 8: 'WINDOW_UPDATE', 9: 'CONTINUATION', 10: 'ALTSVC'}
TYPE_IDS = {v: k for k, v in TYPES.items()}
FLAG_BITS = {
    'DATA': {'END_STREAM': 0x1, 'PADDED': 0x8},
    'HEADERS': {'END_STREAM': 0x1, 'END_HEADERS': 0x4, 'PADDED': 0x8, 'PRIORITY': 0x20},
    'PRIORITY': {}, 'RST_STREAM': {},
    'SETTINGS': {'ACK': 0x1},
    'PUSH_PROMISE': {'END_HEADERS': 0x4, 'PADDED': 0x8},
    'PING': {'ACK': 0x1}, 'GOAWAY': {}, 'WINDOW_UPDATE': {},
    'CONTINUATION': {'END_HEADERS': 0x4}, 'ALTSVC': {},
}


class WireError(Exception):
    pass


def header(length, ftype, flags, sid):
    return struct.pack('>BHBBL', (length >> 16) & 0xFF, length & 0xFFFF, ftype, flags, sid & 0x7FFFFFFF)


def prio_bytes(f):
    dep = f.get('depends_on', 0) & 0x7FFFFFFF
    if f.get('exclusive'):
        dep |= 0x80000000
    return struct.pack('>LB', dep, f.get('weight_byte', 15))


def serialize(f):
    t = f['type']
    if isinstance(t, int):
        return header(len(f.get('body', b'')), t, f.get('flagbyte', 0), f['sid']) + f.get('body', b'')
    bits = FLAG_BITS[t]
    fl = 0
    for name in f.get('flags', ()):
        fl |= bits[name]
    fl |= f.get('extra_flagbits', 0)
    pad = b''
    padlen = b''
    if 'PADDED' in f.get('flags', ()):
        padlen = bytes([f.get('pad_length', 0)])
        pad = b'\0' * f.get('pad_length', 0)
    if 'raw_body' in f:
        body = f['raw_body']
    elif t == 'DATA':
        body = padlen + f.get('data', b'') + pad
    elif t == 'HEADERS':
        body = padlen + (prio_bytes(f) if 'PRIORITY' in f.get('flags', ()) else b'') + f.get('block', b'') + pad
    elif t == 'PRIORITY':
        body = prio_bytes(f)
    elif t == 'RST_STREAM':
        body = struct.pack('>L', f.get('error_code', 0))
    elif t == 'SETTINGS':
        body = b''.join(struct.pack('>HL', k, v) for k, v in f.get('settings', []))
    elif t == 'PUSH_PROMISE':
        body = padlen + struct.pack('>L', f['promised'] & 0x7FFFFFFF) + f.get('block', b'') + pad
    elif t == 'PING':
        body = f.get('opaque', b'\0' * 8)
    elif t == 'GOAWAY':
        body = struct.pack('>LL', f.get('last_stream_id', 0) & 0x7FFFFFFF, f.get('error_code', 0)) + f.get('debug', b'')
    elif t == 'WINDOW_UPDATE':
        body = struct.pack('>L', f.get('increment', 0) & 0x7FFFFFFF)
    elif t == 'CONTINUATION':
        body = f.get('block', b'')
    elif t == 'ALTSVC':
        o = f.get('origin', b'')
        body = struct.pack('>H', len(o)) + o + f.get('field', b'')
    else:
        raise WireError('unknown type ' + str(t))
    ln = f.get('length_override', len(body))
    return header(ln, TYPE_IDS[t], fl, f['sid']) + body


def parse_one(buf, off):
    if len(buf) - off < 9:
        raise WireError('truncated frame header at %d' % off)
    hi, lo, ft, fl, sid = struct.unpack('>BHBBL', buf[off:off + 9])
    ln = (hi << 16) | lo
    if sid & 0x80000000:
        raise WireError('reserved bit set in stream id')
    body = buf[off + 9:off + 9 + ln]
    if len(body) != ln:
        raise WireError('truncated frame body at %d' % off)
    f = {'sid': sid, 'length': ln, 'flagbyte': fl}
    if ft not in TYPES:
        f.update(type=ft, body=body, flags=set())
        return f, off + 9 + ln
    t = TYPES[ft]
    flags = {n for n, b in FLAG_BITS[t].items() if fl & b}
    f.update(type=t, flags=flags)
    undefined = fl & ~sum(FLAG_BITS[t].values())
    f['undefined_flagbits'] = undefined
    p = body
    if 'PADDED' in flags:
        if not p:
            raise WireError('padded frame without pad length')
        pl = p[0]
        p = p[1:]
        if pl > len(p):
            raise WireError('padding longer than body')
        f['pad_length'] = pl
        if any(p[len(p) - pl:]):
            f['nonzero_padding'] = True
        p = p[:len(p) - pl]
    if t == 'DATA':
        if sid == 0:
            raise WireError('DATA on stream 0')
        f['data'] = p
        f['fc_len'] = ln
    elif t == 'HEADERS':
        if sid == 0:
            raise WireError('HEADERS on stream 0')
        if 'PRIORITY' in flags:
            if len(p) < 5:
                raise WireError('short priority in HEADERS')
            dep, w = struct.unpack('>LB', p[:5])
            f.update(exclusive=bool(dep >> 31), depends_on=dep & 0x7FFFFFFF, weight_byte=w)
            p = p[5:]
        f['block'] = p
    elif t == 'PRIORITY':
        if ln != 5 or sid == 0:
            raise WireError('bad PRIORITY')
        dep, w = struct.unpack('>LB', p)
        f.update(exclusive=bool(dep >> 31), depends_on=dep & 0x7FFFFFFF, weight_byte=w)
    elif t == 'RST_STREAM':
        if ln != 4 or sid == 0:
            raise WireError('bad RST_STREAM')
        f['error_code'] = struct.unpack('>L', p)[0]
    elif t == 'SETTINGS':
        if sid != 0 or ln % 6 or ('ACK' in flags and ln):
            raise WireError('bad SETTINGS')
        f['settings'] = [struct.unpack('>HL', p[i:i + 6]) for i in range(0, ln, 6)]
    elif t == 'PUSH_PROMISE':
        if sid == 0 or len(p) < 4:
            raise WireError('bad PUSH_PROMISE')
        pr = struct.unpack('>L', p[:4])[0]
        if pr >> 31:
            f['reserved_bit_in_promised_id'] = True      # malformed on the wire; judged by C02, tolerated here
        f['promised'] = pr & 0x7FFFFFFF
        f['block'] = p[4:]
    elif t == 'PING':
        if ln != 8 or sid != 0:
            raise WireError('bad PING')
        f['opaque'] = p
    elif t == 'GOAWAY':
        if ln < 8 or sid != 0:
            raise WireError('bad GOAWAY')
        last, code = struct.unpack('>LL', p[:8])
        if last >> 31:
            raise WireError('reserved bit in last stream id')
        f.update(last_stream_id=last, error_code=code, debug=p[8:])
    elif t == 'WINDOW_UPDATE':
        if ln != 4:
            raise WireError('bad WINDOW_UPDATE')
        inc = struct.unpack('>L', p)[0]
        if inc >> 31 or inc == 0:
            raise WireError('bad window increment')
        f['increment'] = inc
    elif t == 'CONTINUATION':
        if sid == 0:
            raise WireError('CONTINUATION on stream 0')
        f['block'] = p
    elif t == 'ALTSVC':
        if ln < 2:
            raise WireError('bad ALTSVC')
        ol = struct.unpack('>H', p[:2])[0]
        if ol > ln - 2:
            raise WireError('bad ALTSVC origin length')
        f.update(origin=p[2:2 + ol], field=p[2 + ol:])
    return f, off + 9 + ln


def parse_all(buf):
    off = 0
    out = []
    while off < len(buf):
        f, off = parse_one(buf, off)
        out.append(f)
    return out
