"""Generic T2 stage shared by the property checks: generate programs on the implementation, evaluate
the model in Coq, compare a projection, measure the input distribution, shrink a disagreement."""
import collections
import json
import os

from harness import common, t2

EV_NAMES = {1: 'RequestReceived', 2: 'ResponseReceived', 3: 'TrailersReceived', 4: 'InformationalResponseReceived', 5: 'DataReceived',
            6: 'WindowUpdated', 7: 'RemoteSettingsChanged', 8: 'PingReceived', 9: 'PingAckReceived', 10: 'StreamEnded', 11: 'StreamReset',
            12: 'PushedStreamReceived', 13: 'SettingsAcknowledged', 14: 'PriorityUpdated', 15: 'ConnectionTerminated',
            16: 'AlternativeServiceAvailable', 17: 'UnknownFrameReceived'}
FR_NAMES = {0: 'DATA', 1: 'HEADERS', 2: 'PRIORITY', 3: 'RST_STREAM', 4: 'SETTINGS', 5: 'PUSH_PROMISE', 6: 'PING', 7: 'GOAWAY',
            8: 'WINDOW_UPDATE', 9: 'CONTINUATION', 10: 'ALTSVC'}


def distribution(programs):
    d = {'ops': collections.Counter(), 'outcomes': collections.Counter(), 'events': collections.Counter(),
         'received_frames': collections.Counter(), 'emitted_frames': collections.Counter(), 'roles': collections.Counter()}
    from harness.impl_driver import H2EXN, PYEXN
    for p in programs:
        d['roles']['client' if p['cfg']['client'] else 'server'] += 1
        prev_out = 0
        for op, parts in zip(p['ops'], p['parts']):
            d['ops'][op[0]] += 1
            res = parts[0]
            if res[0] == 0:
                d['outcomes']['ok'] += 1
                if op[0] == 'Receive':
                    for e in res[1]:
                        d['events'][EV_NAMES.get(e[0], str(e[0]))] += 1
            elif res[0] == 1:
                d['outcomes'][H2EXN[res[1]]] += 1
            else:
                d['outcomes']['crash:' + (PYEXN + ['Foreign'])[res[1]]] += 1
            if op[0] == 'Receive':
                for e in op[1]:
                    d['received_frames'][e[0][0]] += 1
            out = parts[1]
            if op[0] == 'Drain':
                prev_out = 0
            for fr in out[prev_out:]:
                d['emitted_frames'][FR_NAMES.get(fr[0], str(fr[0]))] += 1
            prev_out = len(out) if op[0] != 'Drain' else 0
    return {k: dict(v.most_common()) for k, v in d.items()}


def light(p):
    """JSON-able program (bytes -> lists)"""
    def conv(x):
        if isinstance(x, (bytes, bytearray)):
            return {'b': list(x)}
        if isinstance(x, (list, tuple)):
            return [conv(y) for y in x]
        if isinstance(x, dict):
            return {k: conv(v) for k, v in x.items()}
        return x
    return {'cfg': p['cfg'], 'ops': conv(p['ops']), 'seed': p.get('seed')}


def unlight(d):
    def conv(x):
        if isinstance(x, dict) and set(x) == {'b'}:
            return bytes(x['b'])
        if isinstance(x, list):
            return tuple(conv(y) for y in x)
        if isinstance(x, dict):
            return {k: conv(v) for k, v in x.items()}
        return x
    ops = []
    for o in conv(d['ops']):
        o = tuple(o)
        if o[0] == 'Receive':
            ents = []
            for e in o[1]:
                hint = e[2] if len(e) > 2 else {}
                ents.append((e[0], None, dict(hint) if isinstance(hint, dict) else {}))
            o = ('Receive', ents)
        ops.append(o)
    return d['cfg'], ops


def rerun(cfg, ops, chunker=None):
    """Re-execute ops on a fresh implementation (annotations recomputed).
    chunker: bytes -> list of chunks; every Receive is then fed to receive_data piece by piece (C21)."""
    from harness.impl_driver import Impl, thash
    impl = Impl(cfg)
    impl.chunker = chunker
    out_ops, parts_all, cleared = [], [], []
    for op in ops:
        if op[0] == 'Receive':
            op = ('Receive', [(e[0], None) + tuple(e[2:]) for e in op[1]])
        aop, parts = impl.apply(t2._clamp(op))
        out_ops.append(aop)
        parts_all.append(parts)
        cleared.append(impl.cleared)
    return {'cfg': cfg, 'ops': out_ops, 'parts': parts_all, 'cleared': cleared,
            'hashes': [[thash(x) for x in parts] for parts in parts_all]}


def shrink(prog, parts, tag, budget=14):
    """Delta-debug a disagreeing program: keep the disagreement on the projection, drop ops."""
    def disagrees(p):
        try:
            mh = t2.model_hashes([p], tag + '_shr')
        except Exception:
            return None
        mm = t2.compare([p], mh, parts)
        return mm[0] if mm else None
    best = prog
    m = disagrees(best)
    if m is None:
        return prog, None
    best = rerun(best['cfg'], best['ops'][:m['step'] + 1])
    m = disagrees(best) or m
    i = len(best['ops']) - 2
    while i >= 0 and budget > 0:
        cand_ops = best['ops'][:i] + best['ops'][i + 1:]
        cand = rerun(best['cfg'], cand_ops)
        budget -= 1
        mm = disagrees(cand)
        if mm is not None:
            best, m = cand, mm
        i -= 1
    return best, m


def run_t2(run, n_programs, n_ops, parts, weights=None, rf_weights=None, cfg_fn=None, starts=('initiate',), tag=None,
           extra_programs=()):
    """-> dict(programs, mismatches, distribution, broke)"""
    tag = tag or run.pid
    programs = list(extra_programs)
    base = run.seed * 1000003
    for i in range(n_programs):
        seed = base + i
        cfg = cfg_fn(seed) if cfg_fn else None
        programs.append(t2.gen_program(seed, cfg=cfg, n_ops=n_ops, weights=weights, rf_weights=rf_weights,
                                       start=starts[i % len(starts)]))
    res = {'programs': programs, 'mismatches': [], 'model_error': None}
    try:
        mh = t2.model_hashes(programs, tag)
        res['mismatches'] = t2.compare(programs, mh, parts)
    except Exception as e:
        res['model_error'] = str(e)[-2000:]
        run.breaks.append({'kind': 'model-eval', 'error': res['model_error']})
    res['distribution'] = distribution(programs)
    return res


def report_mismatch(run, res, parts, oracle=None, tag=None):
    """A disagreement on the property's projection: shrink, diagnose, run the property oracle on the
    implementation trace, and raise the violation."""
    tag = tag or run.pid
    if not res['mismatches']:
        return False
    m = min(res['mismatches'], key=lambda x: x['step'])
    if oracle is not None:
        # prefer a disagreeing program on which the property oracle itself fires: that one is a failing input, not only a difference
        seen = set()
        for mm in sorted(res['mismatches'], key=lambda x: x['step'])[:60]:
            if mm['prog'] in seen:
                continue
            seen.add(mm['prog'])
            cand = res['programs'][mm['prog']]
            try:
                vs = oracle(cand)
            except Exception:  # noqa
                vs = None
            if vs and not isinstance(vs, dict):
                v = min(vs, key=lambda x: x.get('step', 0))
                st = v.get('step', len(cand['ops']) - 1)
                cut = rerun(cand['cfg'], cand['ops'][:st + 1])
                vcut = None
                try:
                    vcut = oracle(cut)
                except Exception:  # noqa
                    pass
                run.violation({'kind': 'correspondence+oracle', 'projection': [t2.PARTS[k] for k in parts],
                               'n_disagreeing_programs': len(res['mismatches']), 'rule': v.get('rule'), 'detail': v.get('detail'), 'step': st,
                               'program': light(cut if vcut else cand), 'model_differs_at_step': mm['step'],
                               'how_to_replay': './check %s --replay <this file>' % run.pid}, concrete=True)
                return True
    prog = res['programs'][m['prog']]
    small, sm = shrink(prog, parts, tag)
    if sm is None:
        small, sm = prog, m
    diag = t2.diagnose(small, sm, tag + '_diag')
    verdict = None
    if oracle is not None:
        try:
            verdict = oracle(small)
        except Exception as e:  # noqa
            verdict = {'oracle_error': repr(e)}
    concrete = bool(verdict) and not (isinstance(verdict, dict) and 'oracle_error' in verdict)
    run.violation({'kind': 'correspondence', 'projection': [t2.PARTS[k] for k in parts],
                   'n_disagreeing_programs': len(res['mismatches']),
                   'program': light(small), 'first_difference': diag, 'oracle_on_impl': verdict,
                   'how_to_replay': './check %s --replay <this file>' % run.pid}, concrete=concrete)
    return True


def coverage_of(res, nontrivial_fn, rule, samples_fn=None):
    progs = res['programs']
    nt = set()
    for p in progs:
        if nontrivial_fn(p):
            nt.add(json.dumps(light(p)['ops'], sort_keys=True, default=str))
    samples = []
    for p in progs[:400]:
        if nontrivial_fn(p) and len(samples) < 2:
            lp = light(p)
            samples.append({'cfg': lp['cfg'], 'ops': [repr(o)[:300] for o in p['ops'][:12]]})
    return {
        'evaluations': len(progs),
        'distinct_nontrivial': len(nt),
        'rule': rule,
        'samples': samples or [{'ops': [repr(o)[:300] for o in progs[0]['ops'][:12]]}] if progs else [],
        'input_distribution': res['distribution'],
        'traces_validated_against_impl': len(progs),
        'disagreements_checked': sum(len(p['ops']) for p in progs),
        'disagreements': len(res['mismatches']),
    }


def generic_replay(run, path, oracle=None):
    d = json.load(open(path))
    if 'program' not in d:
        print('replay file names a broken obligation:', json.dumps(d.get('broken_obligation'))[:2000])
        return 1
    cfg, ops = unlight(d['program'])
    p = rerun(cfg, ops)
    for op, parts in zip(p['ops'], p['parts']):
        print(repr(op)[:200], '->', parts[0] if parts[0][0] != 0 else ('ok', str(parts[0][1])[:200]))
    if oracle:
        print('oracle:', json.dumps(oracle(p), default=str)[:2000])
    return 0
