"""RFC 7540 8.1.2 as a predicate on a whole header list: a transliteration of coq/Spec/Rfc812.v used by the runtime oracles of
C14 / C15.  It is tied to the Coq text by spec_agreement(): the same lists are evaluated by both (inside Coq by vm_compute)."""
import random
import re

from harness import common

CONN = {b'connection', b'keep-alive', b'proxy-connection', b'transfer-encoding', b'upgrade'}
KNOWN = {b':authority', b':method', b':path', b':protocol', b':scheme', b':status'}
REQP = {b':authority', b':method', b':path', b':protocol', b':scheme'}
WS = set(b'\t\n\x0b\x0c\r ')


def nows(b):
    return not b or (b[0] not in WS and b[-1] not in WS)


def field_ok(kind, n, v):
    return (len(n) > 0 and not any(65 <= c <= 90 for c in n) and nows(n) and nows(v) and n not in CONN
            and not (n == b'te' and v.lower() != b'trailers') and not (kind == 'Request' and n == b':path' and v == b''))


def value_of(n, hs):
    r = None
    for a, b in hs:
        if a == n:
            r = b
    return r


def conformant(kind, hs):
    hs = [(bytes(n), bytes(v)) for n, v in hs]
    if not all(field_ok(kind, n, v) for n, v in hs):
        return False
    names = [n for n, v in hs]
    seen_regular = False
    for n in names:
        if n[:1] == b':':
            if seen_regular:
                return False
        else:
            seen_regular = True
    ps = [n for n in names if n[:1] == b':']
    if len(set(ps)) != len(ps) or not all(p in KNOWN for p in ps):
        return False
    if kind == 'Trailers':
        return not ps
    if kind == 'Response':
        return b':status' in ps and not any(p in REQP for p in ps)
    if not (b':method' in ps and b':scheme' in ps and b':path' in ps and b':status' not in ps):
        return False
    if b':protocol' in ps and value_of(b':method', hs) != b'CONNECT':
        return False
    a, h = value_of(b':authority', hs), value_of(b'host', hs)
    if a is None and h is None:
        return False
    if a is not None and h is not None:
        return a == h
    return True


def join_cookies(hs):
    cookies = [v for n, v in hs if n == b'cookie']
    if not cookies:
        return list(hs), False
    return [(n, v) for n, v in hs if n != b'cookie'] + [(b'cookie', b'; '.join(cookies))], True


# ---- a grammar of header lists over an adversarial alphabet -------------------------------------------
BASES = {
    'Request': [(b':method', b'GET'), (b':path', b'/'), (b':scheme', b'https'), (b':authority', b'example.com')],
    'Response': [(b':status', b'200')],
    'Trailers': [(b'x-trailer', b'1')],
}
EXTRA = [(b'x-a', b'b'), (b'accept', b'*/*'), (b'cookie', b'a=b'), (b'cookie', b'c=d'), (b'cookie', b''), (b'te', b'trailers'), (b'te', b'Trailers'), (b'te', b'gzip'),
         (b'host', b'example.com'), (b'host', b'other'), (b'host', b''), (b':authority', b''), (b'connection', b'close'), (b'keep-alive', b'1'), (b'upgrade', b'h2c'), (b'transfer-encoding', b'chunked'),
         (b'proxy-connection', b'x'), (b'', b'v'), (b'', b''), (b'X-Up', b'v'), (b'x-up', b'V'), (b' x', b'v'), (b'x ', b'v'), (b'x', b' v'), (b'x', b'v\t'), (b'x', b''),
         (b'x\n', b'v'), (b'x', b'\x0bv'), (b':status', b'200'), (b':status', b''), (b':method', b'GET'), (b':method', b'CONNECT'), (b':path', b''), (b':path', b'/x'),
         (b':scheme', b'http'), (b':authority', b'example.com'), (b':authority', b'other'), (b':protocol', b'websocket'), (b':unknown', b'v'), (b':', b''),
         (b'content-length', b'5'), (b'authorization', b'secret'), (b' authorization', b's'), (b'Proxy-Authorization ', b's'), (b'cookie', b'   short=cookie      '),
         (b'cookie ', b'a=b'), (b'cookie', b'a-cookie-of-twenty-b'), (b'cookie', b'a-cookie-of-19-byte'), (b'\xff\xfe', b'v'), (b'x', b'\xff\xfe')]       # (bytes >= 128 are only ever 0xFE / 0xFF: never valid UTF-8, the model's convention)


def gen_list(rnd, kind):
    hs = list(BASES[kind])
    if kind == 'Request' and rnd.random() < 0.25:
        # :authority / Host in all combinations, empty values included
        hs = hs[:3]
        a = rnd.choice([None, b'example.com', b'', b'other'])
        h = rnd.choice([None, b'example.com', b'', b'other'])
        if a is not None:
            hs.append((b':authority', a))
        if h is not None:
            hs.append((b'host', h))
        if rnd.random() < 0.7:
            return hs
    r = rnd.random()
    if r < 0.15:
        return hs
    for _ in range(rnd.choice([1, 1, 2, 3])):
        op = rnd.random()
        if op < 0.55:
            hs.insert(rnd.randrange(len(hs) + 1), rnd.choice(EXTRA))
        elif op < 0.7 and hs:
            del hs[rnd.randrange(len(hs))]
        elif op < 0.8 and len(hs) > 1:
            i, j = rnd.randrange(len(hs)), rnd.randrange(len(hs))
            hs[i], hs[j] = hs[j], hs[i]
        elif op < 0.9 and hs:
            hs.append(hs[rnd.randrange(len(hs))])
        elif hs:
            i = rnd.randrange(len(hs))
            n, v = hs[i]
            hs[i] = rnd.choice([(n.upper(), v), (n, v + b' '), (b' ' + n, v), (n, b''), (n.title(), v)])
    return hs


def cb(b):
    return '[' + ';'.join(str(x) for x in b) + ']'


def spec_agreement(seed, n):
    """-> (cases, list of disagreements between this file and coq/Spec/Rfc812.v)"""
    rnd = random.Random(seed)
    cases = []
    for i in range(n):
        kind = rnd.choice(['Request', 'Response', 'Trailers'])
        cases.append((kind, gen_list(rnd, rnd.choice(['Request', 'Response', 'Trailers']) if rnd.random() < 0.1 else kind)))
    jobs = []
    for sh in range(0, len(cases), 400):
        items = ['conformant %s [%s]' % (k, ';'.join('(%s,%s,false)' % (cb(a), cb(b)) for a, b in hs)) for k, hs in cases[sh:sh + 400]]
        jobs.append(('hdrspec_%d' % sh, 'From H2 Require Import Base.Prelude Model.Types Spec.Rfc812.\nEval vm_compute in [%s].\n' % ';\n'.join(items)))
    res = common.coq_eval_many(jobs)
    coq = []
    for name, _ in jobs:
        coq += re.findall(r'\b(true|false)\b', res[name][res[name].index('= ['):])
    dis = []
    for (k, hs), c in zip(cases, coq):
        if conformant(k, hs) != (c == 'true'):
            dis.append({'kind': k, 'headers': [[list(a), list(b)] for a, b in hs], 'python': conformant(k, hs), 'coq': c})
    return len(cases), dis
