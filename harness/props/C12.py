"""C12 — SETTINGS values are validated with the RFC-mandated error codes."""
import json
import random

from harness import common, wire

BOUNDARY_VALUES = [0, 1, 2, 3, 100, 4095, 4096, 16383, 16384, 16385, 65535, 65536,
                   2**24 - 2, 2**24 - 1, 2**24, 2**24 + 1, 2**31 - 2, 2**31 - 1, 2**31, 2**31 + 1, 2**32 - 2, 2**32 - 1]
IDS = [0, 1, 2, 3, 4, 5, 6, 7, 8, 9, 15, 16, 255, 256, 258, 1024, 65534, 65535]


def grid(run):
    rnd = random.Random(run.seed)
    n_rand = 300 if run.tier == 'quick' else 20000
    cases = [(i, v) for i in IDS for v in BOUNDARY_VALUES]
    for _ in range(n_rand):
        i = rnd.choice(IDS + [rnd.randrange(0, 65536)])
        v = rnd.choice([rnd.choice(BOUNDARY_VALUES) + rnd.choice([-1, 0, 1]), rnd.randrange(0, 2**32)])
        v = min(max(v, 0), 2**32 - 1)
        cases.append((i, v))
    return cases


def model_codes(cases, pid='C12'):
    """validate_setting (hand model) and k_validate_setting (translated today) inside Coq."""
    out = {}
    jobs = []
    for sh in range(0, len(cases), 2000):
        chunk = cases[sh:sh + 2000]
        text = ('From H2 Require Import Base.Prelude Gen.Kernels Model.SettingsV.\n'
                'Definition cases : list (Z * Z) := [%s].\n'
                'Eval vm_compute in map (fun c => validate_setting (fst c) (snd c)) cases.\n'
                'Eval vm_compute in map (fun c => match snd (k_validate_setting (fst c) (snd c)) with Ok z => z | _ => (-1) end) cases.\n'
                % '; '.join('(%d, %d)' % c for c in chunk))
        jobs.append(('%s_grid_%d' % (pid, sh), text))
    res = common.coq_eval_many(jobs)
    hand, gen = [], []
    for name, _ in jobs:
        outs = common.parse_eval_outputs(res[name])
        hand += common.parse_zlist(outs[0])
        gen += common.parse_zlist(outs[1])
    return hand, gen


def impl_kernel(i, v):
    from h2.settings import _validate_setting
    return int(_validate_setting(i, v))


def impl_receive(i, v):
    """A server receives SETTINGS {i: v} right after the preface."""
    import h2.connection, h2.config, h2.exceptions
    c = h2.connection.H2Connection(config=h2.config.H2Configuration(client_side=False))
    c.initiate_connection()
    c.data_to_send()
    data = wire.PREFACE + wire.serialize({'type': 'SETTINGS', 'sid': 0, 'settings': [(i, v)]})
    try:
        evs = c.receive_data(data)
    except h2.exceptions.ProtocolError as e:
        frames = wire.parse_all(c.data_to_send())
        return {'outcome': 'ProtocolError', 'code': int(e.error_code),
                'frames': [(f['type'], f.get('error_code')) for f in frames]}
    except Exception as e:  # noqa
        return {'outcome': type(e).__name__}
    frames = wire.parse_all(c.data_to_send())
    cur = None
    try:
        cur = c.remote_settings[i]
    except KeyError:
        pass
    return {'outcome': 'ok', 'frames': [(f['type'], sorted(f['flags'])) for f in frames], 'value_now': cur,
            'events': [type(e).__name__ for e in evs]}


def impl_update(i, v):
    import h2.connection, h2.config, h2.exceptions
    c = h2.connection.H2Connection(config=h2.config.H2Configuration(client_side=True))
    c.initiate_connection()
    c.data_to_send()
    try:
        c.update_settings({i: v})
    except h2.exceptions.InvalidSettingsValueError as e:
        return {'outcome': 'InvalidSettingsValueError', 'code': int(e.error_code), 'out': len(c.data_to_send()),
                'is_value_error': isinstance(e, ValueError)}
    except Exception as e:  # noqa
        return {'outcome': type(e).__name__}
    return {'outcome': 'ok', 'out': len(c.data_to_send())}


def impl_initial(i, v):
    import h2.settings, h2.exceptions
    try:
        s = h2.settings.Settings(client=True, initial_values={i: v})
    except h2.exceptions.InvalidSettingsValueError as e:
        return {'outcome': 'InvalidSettingsValueError', 'code': int(e.error_code)}
    except Exception as e:  # noqa
        return {'outcome': type(e).__name__}
    return {'outcome': 'ok', 'value_now': s[i]}


def impl_delta(window_inc, new_iws):
    """Client with stream 1 open; peer raises the stream window by window_inc, then changes IWS."""
    import h2.connection, h2.config, h2.exceptions
    c = h2.connection.H2Connection(config=h2.config.H2Configuration(client_side=True))
    c.initiate_connection()
    c.send_headers(1, [(':method', 'GET'), (':path', '/'), (':scheme', 'https'), (':authority', 'x')])
    c.data_to_send()
    data = wire.serialize({'type': 'SETTINGS', 'sid': 0, 'settings': []})
    if window_inc:
        data += wire.serialize({'type': 'WINDOW_UPDATE', 'sid': 1, 'increment': window_inc})
    c.receive_data(data)
    c.data_to_send()
    try:
        c.receive_data(wire.serialize({'type': 'SETTINGS', 'sid': 0, 'settings': [(4, new_iws)]}))
    except h2.exceptions.ProtocolError as e:
        frames = wire.parse_all(c.data_to_send())
        return {'outcome': 'ProtocolError', 'code': int(e.error_code),
                'frames': [(f['type'], f.get('error_code')) for f in frames]}
    return {'outcome': 'ok', 'window': c.streams[1].outbound_flow_control_window}


def impl_delta_state(state, window_inc, new_iws):
    """the same on a stream in another state: half-closed (local / remote), reserved (local: server after push_stream; remote:
    client after PUSH_PROMISE).  The peer raises the stream window by window_inc, then changes INITIAL_WINDOW_SIZE."""
    import h2.connection, h2.config, h2.exceptions, hpack
    S = wire.serialize
    REQ = [(':method', 'GET'), (':path', '/'), (':scheme', 'https'), (':authority', 'x')]
    enc = hpack.Encoder()
    client = state in ('half_closed_local', 'reserved_remote')
    c = h2.connection.H2Connection(config=h2.config.H2Configuration(client_side=client))
    c.initiate_connection()
    if client:
        c.send_headers(1, REQ, end_stream=(state == 'half_closed_local'))
        c.receive_data(S({'type': 'SETTINGS', 'sid': 0, 'settings': []}))
        sid = 1
        if state == 'reserved_remote':
            c.receive_data(S({'type': 'PUSH_PROMISE', 'sid': 1, 'promised': 2, 'flags': {'END_HEADERS'}, 'block': enc.encode(REQ)}))
            sid = 2
    else:
        c.receive_data(wire.PREFACE + S({'type': 'SETTINGS', 'sid': 0, 'settings': []}) +
                       S({'type': 'HEADERS', 'sid': 1, 'flags': {'END_HEADERS'} | ({'END_STREAM'} if state == 'half_closed_remote' else set()), 'block': enc.encode(REQ)}))
        sid = 1
        if state == 'reserved_local':
            c.push_stream(1, 2, REQ)
            sid = 2
    c.data_to_send()
    try:
        if window_inc:
            c.receive_data(S({'type': 'WINDOW_UPDATE', 'sid': sid, 'increment': window_inc}))
        c.data_to_send()
        c.receive_data(S({'type': 'SETTINGS', 'sid': 0, 'settings': [(4, new_iws)]}))
    except h2.exceptions.ProtocolError as e:
        frames = wire.parse_all(c.data_to_send())
        return {'outcome': 'ProtocolError', 'code': int(e.error_code), 'frames': [(f['type'], f.get('error_code')) for f in frames]}
    return {'outcome': 'ok', 'window': c.streams[sid].outbound_flow_control_window}


def expected_receive(code):
    if code == 0:
        return None
    return {'outcome': 'ProtocolError', 'code': code, 'frames': [('GOAWAY', code)]}


def check(run):
    r = common.proof_stage(run)
    cases = grid(run)
    disagreements = []
    samples = []
    n_eval = 0
    hand = gen = None
    try:
        hand, gen = model_codes(cases)
    except Exception as e:
        run.breaks.append({'kind': 'model-eval', 'error': str(e)[-1500:]})
    dist = {'accepted': 0, 'rejected': 0}
    if hand is not None:
        for k, (i, v) in enumerate(cases):
            n_eval += 1
            want = hand[k]
            dist['accepted' if want == 0 else 'rejected'] += 1
            obs = {'kernel': impl_kernel(i, v)}
            exp = {'kernel': want}
            if gen[k] != want:
                disagreements.append({'case': [i, v], 'what': 'translated kernel differs from hand model', 'gen': gen[k], 'hand': want})
            if obs['kernel'] != want:
                disagreements.append({'case': [i, v], 'what': '_validate_setting differs from model', 'impl': obs['kernel'], 'model': want})
            # connection-level reactions on a boundary-dense subset (all boundary cases, 1 in 8 random ones)
            if k < len(IDS) * len(BOUNDARY_VALUES) or k % 8 == 0:
                rcv = impl_receive(i, v)
                upd = impl_update(i, v)
                ini = impl_initial(i, v)
                if want == 0:
                    ok = (rcv['outcome'] == 'ok' and rcv['frames'] == [('SETTINGS', ['ACK'])] and rcv['value_now'] == v
                          and upd['outcome'] == 'ok' and upd['out'] > 0 and ini['outcome'] == 'ok' and ini['value_now'] == v)
                else:
                    ok = (rcv == expected_receive(want)
                          and upd['outcome'] == 'InvalidSettingsValueError' and upd['code'] == want and upd['out'] == 0
                          and ini['outcome'] == 'InvalidSettingsValueError' and ini['code'] == want)
                if not ok:
                    disagreements.append({'case': [i, v], 'what': 'connection-level reaction differs from model',
                                          'model_code': want, 'receive': rcv, 'update_settings': upd, 'initial_values': ini})
                if len(samples) < 6 and (want != 0 or k % 50 == 0):
                    samples.append({'setting': i, 'value': v, 'model_code': want, 'receive': rcv, 'update_settings': upd})
        # INITIAL_WINDOW_SIZE delta overflow
        M = 2**31 - 1
        for inc, iws in [(0, M), (1, M), (M - 65535, 65535), (M - 65535, 65536), (M - 65535 - 1, 65536), (M - 65535 - 1, 65537),
                         (1000, M - 1000), (1000, M - 999), (0, 0), (5, 0), (M - 65535, 0)]:
            n_eval += 1
            w = 65535 + inc
            overflow = w + (iws - 65535) > M
            got = impl_delta(inc, iws)
            exp = ({'outcome': 'ProtocolError', 'code': 3, 'frames': [('SETTINGS', None), ('GOAWAY', 3)]} if overflow
                   else {'outcome': 'ok', 'window': w + iws - 65535})
            if overflow and got.get('outcome') == 'ProtocolError':
                # the ACK is not emitted on the error path; accept either frame list that has exactly one GOAWAY(3)
                okf = [f for f in got['frames'] if f[0] == 'GOAWAY']
                same = got['code'] == 3 and okf == [('GOAWAY', 3)]
            else:
                same = (got == exp)
            if not same:
                disagreements.append({'case': ['delta', inc, iws], 'what': 'INITIAL_WINDOW_SIZE delta reaction differs from guard_increment_window model',
                                      'impl': got, 'model': exp})
        # ... and on streams in every state that has a send window (C06 F-C06-2: WINDOW_UPDATE is accepted on reserved streams)
        for state in ('half_closed_local', 'half_closed_remote', 'reserved_local', 'reserved_remote'):
            for inc, iws in [(M - 65535, 65536), (M - 65535, 65535), (0, M), (M - 65535 - 1, 65537), (1000, 0)]:
                n_eval += 1
                w = 65535 + inc
                overflow = w + (iws - 65535) > M
                got = impl_delta_state(state, inc, iws)
                if overflow:
                    same = got.get('outcome') == 'ProtocolError' and got['code'] == 3 and [f for f in got['frames'] if f[0] == 'GOAWAY'] == [('GOAWAY', 3)]
                else:
                    same = got == {'outcome': 'ok', 'window': w + iws - 65535}
                if not same:
                    disagreements.append({'case': ['delta', state, inc, iws], 'what': 'INITIAL_WINDOW_SIZE delta reaction on a %s stream differs from guard_increment_window model' % state,
                                          'impl': got, 'model': 'FLOW_CONTROL_ERROR' if overflow else w + iws - 65535})
    cov = common.proof_coverage(r, extra_obligations=2)   # + geneq_validate_setting, geneq_guard_increment_window
    cov.update({
        'evaluations': n_eval,
        'distinct_nontrivial': dist['rejected'],
        'rule': 'grid of setting identifiers x boundary-dense values (each range boundary +-1, 0, 2^32-1) plus seeded random pairs; '
                'non-trivial = the model rejects the value (error path exercised); every case is evaluated on the real '
                '_validate_setting, and boundary cases also through receive_data / update_settings / Settings(initial_values)',
        'samples': samples,
        'input_distribution': dist,
        'traces_validated_against_impl': n_eval,
        'disagreements_checked': n_eval,
        'disagreements': len(disagreements),
    })
    decide(run, r, disagreements)
    return run.finish('proof', cov, assumptions=['values and identifiers are Python ints; identifiers above 2^16-1 and values above 2^32-1 cannot be carried by a SETTINGS frame and are not generated'])


def decide(run, r, disagreements):
    """Violation protocol: a broken proof / translator / correspondence => search for a concrete failing input."""
    concrete = [d for d in disagreements if 'case' in d]
    if concrete:
        d = concrete[0]
        run.violation({'kind': 'correspondence', 'input': d['case'], 'detail': d,
                       'all_disagreements': disagreements[:20],
                       'how_to_replay': './check C12 --replay <this file>'}, concrete=True)
        return
    for b in run.breaks:
        # no disagreement on the grid: the property is no longer shown to hold, but no failing input was found
        run.violation({'kind': b['kind'], 'broken_obligation': b, 'searched': 'boundary grid of all range constants +-1 on the real implementation'},
                      concrete=False)
        return


def replay(run, path):
    d = json.load(open(path))
    case = d.get('input')
    if not case:
        print('replay file names a broken obligation, not an input:', json.dumps(d.get('broken_obligation')))
        return 1
    if case[0] == 'delta':
        print(json.dumps(impl_delta(case[1], case[2])))
    else:
        i, v = case
        print(json.dumps({'kernel': impl_kernel(i, v), 'receive': impl_receive(i, v), 'update_settings': impl_update(i, v),
                          'initial_values': impl_initial(i, v)}, default=str))
    return 0
