"""Shared skeleton of the checks that rest on the connection model: proof stage, T2 on the property's
projection with a focused generator, property oracle on the implementation traces, decision."""
import json

from harness import common, t2, t2check


def conn_check(run, spec):
    """spec: dict with
       parts        : indices of t2.PARTS compared for this property
       weights, rf_weights : generator focus
       n_quick, n_thorough, n_ops
       oracle(program) -> list of {'rule':..., 'step':..., 'detail':...} violations of the property on the implementation trace
       finding_of(violation) -> known-finding id or None
       nontrivial(program) -> bool ; rule : text
       starts, cfg_fn, extra_obligations, assumptions
       scenarios(run) -> list of hand-written programs (cfg, ops) run first (corpus / known-finding replays)
    """
    r = common.proof_stage(run)
    n = spec.get('n_quick', 300) if run.tier == 'quick' else spec.get('n_thorough', 6000)
    extra = []
    for cfg, ops in spec.get('scenarios', lambda run: [])(run):
        extra.append(t2check.rerun(cfg, ops))
    res = t2check.run_t2(run, n, spec.get('n_ops', 30), spec['parts'], weights=spec.get('weights'),
                         rf_weights=spec.get('rf_weights'), cfg_fn=spec.get('cfg_fn'), starts=spec.get('starts', ('initiate',)),
                         extra_programs=extra)
    extra_cov = spec['extra_stage'](run) if spec.get('extra_stage') else {}
    oracle = spec.get('oracle')
    finding_of = spec.get('finding_of', lambda v: None)
    new_violations = []
    known = {}
    if oracle:
        for p in res['programs']:
            for v in oracle(p):
                fid = finding_of(v)
                f = next((x for x in run.findings if x['id'] == fid), None) if fid else None
                if f is not None:
                    known.setdefault(fid, (f, v, p))
                else:
                    new_violations.append((v, p))
    for fid, (f, v, p) in known.items():
        run.known(f, 'e.g. step %s: %s' % (v.get('step'), str(v.get('detail'))[:160]))
    if new_violations:
        v, p = min(new_violations, key=lambda x: (x[0].get('step', 0), len(x[1]['ops'])))
        st = v.get('step', len(p['ops']) - 1)
        small = t2check.rerun(p['cfg'], p['ops'][:st + 1])
        run.violation({'kind': 'oracle', 'rule': v['rule'], 'detail': v.get('detail'), 'step': st,
                       'program': t2check.light(small), 'n_violations': len(new_violations),
                       'how_to_replay': './check %s --replay <this file>' % run.pid})
    if res['mismatches'] and spec.get('explained'):
        # disagreements that are the visible consequence of a listed known finding (the model cannot predict them)
        keep = []
        for m in res['mismatches']:
            if not spec['explained'](run, res['programs'][m['prog']], m):
                keep.append(m)
        res['explained_by_known_findings'] = len(res['mismatches']) - len(keep)
        res['mismatches'] = keep
    if res['mismatches'] and not run.violations:
        def orc(p):
            if not oracle:
                return None
            vs = [v for v in oracle(p) if finding_of(v) is None or not any(x['id'] == finding_of(v) for x in run.findings)]
            return vs or None
        t2check.report_mismatch(run, res, spec['parts'], oracle=orc)
    if run.breaks and not run.violations:
        # proof / translator / model break without any disagreement: search harder on the implementation
        found = False
        if oracle:
            res2 = t2check.run_t2(common.Run(run.pid, run.tier, run.seed + 1), max(n, 600), spec.get('n_ops', 30), spec['parts'],
                                  weights=spec.get('weights'), rf_weights=spec.get('rf_weights'), cfg_fn=spec.get('cfg_fn'),
                                  starts=spec.get('starts', ('initiate',)), tag=run.pid + '_search')
            for p in res2['programs']:
                vs = [v for v in oracle(p) if finding_of(v) is None or not any(x['id'] == finding_of(v) for x in run.findings)]
                if vs:
                    v = vs[0]
                    small = t2check.rerun(p['cfg'], p['ops'][:v.get('step', len(p['ops']) - 1) + 1])
                    run.violation({'kind': 'oracle-after-break', 'broken_obligation': run.breaks[0], 'rule': v['rule'],
                                   'detail': v.get('detail'), 'program': t2check.light(small)})
                    found = True
                    break
            if res2['mismatches'] and not found:
                found = t2check.report_mismatch(run, res2, spec['parts'], oracle=None, tag=run.pid + '_search')
        if not found:
            run.violation({'kind': run.breaks[0]['kind'], 'broken_obligation': run.breaks[0], 'all_breaks': run.breaks[:5],
                           'searched': 'property oracle and model/implementation comparison over %d generated programs' % (len(res['programs']) + max(n, 600))},
                          concrete=False)
    cov = common.proof_coverage(r, extra_obligations=spec.get('extra_obligations', 0))
    cov.update(t2check.coverage_of(res, spec.get('nontrivial', lambda p: True), spec.get('rule', '')))
    cov['projection'] = [t2.PARTS[k] for k in spec['parts']]
    cov.update(extra_cov)
    cov['oracle_violations_known'] = sorted(known)
    return run.finish('proof', cov, assumptions=spec.get('assumptions', []))


def conn_replay(run, path, oracle=None):
    return t2check.generic_replay(run, path, oracle)


# ---- helpers for oracles ---------------------------------------------------------------------
def new_frames(p):
    """per step: the frames appended to the output by that step (list of trees)"""
    out = []
    prev = []
    cleared = p.get('cleared') or [False] * len(p['ops'])
    for op, parts, clr in zip(p['ops'], p['parts'], cleared):
        cur = parts[1]
        if op[0] == 'Drain':
            out.append([])
            prev = []
            continue
        if not clr and len(cur) >= len(prev) and cur[:len(prev)] == prev:
            out.append(cur[len(prev):])
        else:
            out.append(cur)       # the buffer was cleared by a received GOAWAY during this step
        prev = cur
    return out


def ok(parts):
    return parts[0][0] == 0


def err_name(parts):
    from harness.impl_driver import H2EXN, PYEXN
    r = parts[0]
    if r[0] == 1:
        return H2EXN[r[1]]
    if r[0] == 2:
        return (PYEXN + ['Foreign'])[r[1]]
    return None
