"""C14 — Outbound header blocks are normalised and RFC 7540 section 8.1.2 conformant."""
import random

from harness import hdrspec, t2
from harness.props import _conn

PARTS = [0, 1, 2, 3]        # result, output structure, what the encoder consumed (the normalised lists), connection state
WEIGHTS = dict(send_headers=60, send_data=1, end_stream=1, increment=0.2, push=12, ping=0.2, reset=1, close=0.1,
               update_settings=0.3, altsvc=0.2, prioritize=0.2, ack=0.2, probe=0.2, drain=4, receive=18)

F1 = 'a header field with an empty name (empty, or only whitespace before trimming) is emitted: normalisation cannot repair it and the outbound validation does not refuse it'
SECURE = {b'authorization', b'proxy-authorization'}


def oracle(p):
    """re-executes the program and inspects every header block handed to the real HPACK encoder by a successful call"""
    from harness.impl_driver import Impl
    cfg = p['cfg']
    impl = Impl(cfg)
    client = cfg['client']
    bad = []
    sent = set()
    for i, op in enumerate(p['ops']):
        if op[0] == 'Receive':
            op = ('Receive', [(e[0], None) + tuple(e[2:]) for e in op[1]])
        n0 = len(impl.spy.calls)
        st = impl.conn.streams.get(op[1]) if op[0] == 'SendHeaders' else None
        already = bool(st is not None and st.state_machine.headers_sent)      # the library's own view: the next block on this stream is a trailer block
        aop, parts = impl.apply(t2._clamp(op))

        def V(rule, detail):
            bad.append({'rule': rule, 'step': i, 'detail': detail})
        if op[0] in ('SendHeaders', 'PushStream') and parts[0][0] == 0:
            calls = impl.spy.calls[n0:]
            if len(calls) != 1:
                V('a successful header-carrying call did not hand exactly one list to the encoder', {'calls': len(calls)})
                continue
            consumed = calls[0][0]
            tb = lambda x: x.encode('latin1') if isinstance(x, str) else bytes(x)
            hs = [(tb(h[0]), tb(h[1])) for h in consumed]
            flags = [getattr(h, 'indexable', True) for h in consumed]
            if op[0] == 'PushStream':
                kind = 'Request'
            elif already:
                kind = 'Trailers'
            elif client:
                kind = 'Request'
            else:
                kind = 'Response'
            if op[0] == 'SendHeaders' and not (kind == 'Response' and any(n == b':status' and v[:1] == b'1' for n, v in hs)):
                sent.add(op[1])
            if cfg['normalize_out']:
                for (n, v), idx in zip(hs, flags):
                    if n != n.lower() or not hdrspec.nows(n) or not hdrspec.nows(v):
                        V('an emitted header field is not lower-case / trimmed', {'field': [n.decode('latin1'), v.decode('latin1')]})
                    if n in hdrspec.CONN:
                        V('a connection-specific field was emitted', {'field': n.decode('latin1')})
                    if (n in SECURE or (n == b'cookie' and len(v) < 20)) and idx:
                        V('authorization / proxy-authorization / a short cookie was emitted as indexable', {'field': n.decode('latin1')})
            if cfg['normalize_out'] and cfg['validate_out']:
                if any(n == b'' for n, v in hs):
                    V(F1, {'headers': [[n.decode('latin1'), v.decode('latin1')] for n, v in hs][:8]})
                elif not hdrspec.conformant(kind, hs):
                    V('an emitted header block violates RFC 7540 8.1.2', {'kind': kind, 'headers': [[n.decode('latin1'), v.decode('latin1')] for n, v in hs][:10]})
    return bad


def finding_of(v):
    return 'F-C14-1' if v['rule'] == F1 else None


def scenarios(run):
    out = []
    rnd = random.Random(run.seed + 14)
    RX = lambda *fs: ('Receive', [(f, None, {}) for f in fs])
    n = 220 if run.tier == 'quick' else 6000
    H = lambda hs: [(a, b, False) for a, b in hs]
    for i in range(n):
        client = rnd.random() < 0.5
        cfg = t2.default_cfg(client, validate_out=rnd.random() < 0.85, normalize_out=rnd.random() < 0.85)
        if client:
            pos = rnd.choice(['first', 'first', 'trailers'])
            ops = [('Initiate',), RX(('Settings', False, []))]
            if pos == 'first':
                ops.append(('SendHeaders', 1, H(hdrspec.gen_list(rnd, 'Request')), 0, rnd.random() < 0.3, None, None, None))
            else:
                ops += [('SendHeaders', 1, t2.REQ, 0, False, None, None, None), ('SendHeaders', 1, H(hdrspec.gen_list(rnd, 'Trailers')), 0, True, None, None, None)]
        else:
            pos = rnd.choice(['first', 'first', 'info', 'trailers', 'push'])
            ops = [('Initiate',), RX(('Settings', False, [])), RX(('Headers', 1, False, None, ('Decoded', t2.REQ)))]
            if pos == 'first':
                ops.append(('SendHeaders', 1, H(hdrspec.gen_list(rnd, 'Response')), 0, rnd.random() < 0.3, None, None, None))
            elif pos == 'info':
                hs = [(a, b'103') if a == b':status' else (a, b) for a, b in hdrspec.gen_list(rnd, 'Response')]
                ops += [('SendHeaders', 1, H(hs), 0, False, None, None, None), ('SendHeaders', 1, t2.RESP, 0, False, None, None, None)]
            elif pos == 'trailers':
                ops += [('SendHeaders', 1, t2.RESP, 0, False, None, None, None), ('SendHeaders', 1, H(hdrspec.gen_list(rnd, 'Trailers')), 0, True, None, None, None)]
            else:
                ops.append(('PushStream', 1, 2, H(hdrspec.gen_list(rnd, 'Request')), 0))
        ops.append(('SendHeaders', 3 if client else 1, t2.REQ if client else t2.RESP, 0, False, None, None, None))
        out.append((cfg, ops))
    return out


F2 = 'a pseudo-header given once as str and once as bytes is not recognised as a duplicate by the outbound validation (both are emitted)'


def mixed_type_probe(run):
    """str and bytes spellings of one name in one list (the model works on byte strings: this is probed on the real object directly)"""
    import h2.connection
    import h2.exceptions
    accepted = []
    for a, b in ((':scheme', b':scheme'), (b':path', ':path'), (':method', b':method')):
        c = h2.connection.H2Connection()
        c.initiate_connection()
        hs = [(':method', 'GET'), (':path', '/'), (':scheme', 'https'), (':authority', 'a')]
        hs = [h for h in hs if h[0] != (a if isinstance(a, str) else a.decode())]
        val = dict([(':method', 'GET'), (':path', '/'), (':scheme', 'https')])[a if isinstance(a, str) else a.decode()]
        hs = [(a, val), (b, val)] + hs
        try:
            c.send_headers(1, hs)
            accepted.append(repr((a, b)))
        except h2.exceptions.ProtocolError:
            pass
    if accepted:
        f = next((x for x in run.findings if x['id'] == 'F-C14-2'), None)
        if f is not None:
            run.known(f, 'e.g. ' + accepted[0])
        else:
            run.violation({'kind': 'oracle', 'rule': F2, 'detail': accepted})
    return {'mixed_type_duplicates_accepted': len(accepted)}


def extra_stage(run):
    probe = mixed_type_probe(run)
    n, dis = hdrspec.spec_agreement(run.seed + 1, 1200 if run.tier == 'quick' else 20000)
    if dis:
        run.breaks.append({'kind': 'correspondence', 'what': 'harness/hdrspec.py (the runtime oracle) against coq/Spec/Rfc812.v', 'first': dis[0], 'n': len(dis)})
    return dict(probe, oracle_vs_coq_spec_lists=n, oracle_vs_coq_spec_disagreements=len(dis))


SPEC = dict(parts=PARTS, weights=WEIGHTS, n_quick=100, n_thorough=3000, n_ops=24, oracle=oracle, finding_of=finding_of, scenarios=scenarios, extra_stage=extra_stage,
            nontrivial=lambda p: any(op[0] in ('SendHeaders', 'PushStream') and parts[0][0] == 0 for op, parts in zip(p['ops'], p['parts'])),
            rule='header lists from the same adversarial grammar as C15 (mixed case, surrounding whitespace, every special field name, duplicates, orderings, empty names) sent as request, '
                 'response, informational, trailer and push blocks under each combination of the normalise / validate outbound options; what the real HPACK encoder was handed by every '
                 'successful call is compared with the model (encoder log) and judged by the rules the configuration promises: lower-case trimmed names and values, no connection-specific '
                 'fields, never-indexed marking, and the whole-list predicate of Spec/Rfc812.v; non-trivial = at least one successful header-carrying call',
            extra_obligations=1)


def check(run):
    return _conn.conn_check(run, SPEC)


def replay(run, path):
    return _conn.conn_replay(run, path, oracle)
