"""C24 — Alternative-service advertisements follow the RFC 7838 rules."""
from harness import t2
from harness.props import _conn

PARTS = [0, 1, 3, 8, 10]      # result, output, conn state, stream FSMs, stream misc (authority)
WEIGHTS = dict(send_headers=12, send_data=1, end_stream=2, increment=0.3, push=1, ping=0.2, reset=2, close=0.1,
               update_settings=0.3, altsvc=35, prioritize=0.3, ack=0.3, probe=0.3, drain=3, receive=40)
RF = dict(headers=25, push=2, data=4, settings=1, window_update=2, ping=0.3, rst=3, priority=1, goaway=0.1,
          continuation=0.3, altsvc=45, unknown=0.3, bad=0.2)

F_IDLE = 'a client-side connection that has not opened a stream yet emits ALTSVC (advertise_alternative_service accepted in state IDLE)'


def oracle(p):
    client = p['cfg']['client']
    bad = []
    prev = None
    reqauth = {}
    for i, (op, parts) in enumerate(zip(p['ops'], p['parts'])):
        okk = _conn.ok(parts)

        def V(rule, detail):
            bad.append({'rule': rule, 'step': i, 'detail': detail})
        if op[0] == 'SendHeaders' and okk and client and op[1] not in reqauth:
            for n, v, _ in op[2]:
                if bytes(n).lower().strip() in (b':authority',):
                    reqauth[op[1]] = bytes(v).strip()
        if op[0] == 'AdvertiseAltSvc':
            field, origin, sid = op[1], op[2], op[3]
            if okk:
                if client:
                    V(F_IDLE if (prev is None or prev[3] in (0, 2)) else 'a client emitted ALTSVC', {})
                if origin is not None and sid is not None:
                    V('an advertisement naming both an origin and a stream was accepted', {})
                if sid is not None and prev is not None:
                    ps = next((e for e in prev[8] if e[0] == sid), None)
                    if ps is None or not ps[5] or ps[3]:
                        V('a stream advertisement was accepted outside "request received, response headers not yet sent"', {'stream': sid, 'state': ps})
        if prev is not None and prev[3] in (1, 2) and op[0] == 'Receive' and len(op[1]) == 1 and op[1][0][0][0] == 'AltSvc':
            rf = op[1][0][0]
            sid, origin, field = rf[1], bytes(rf[2]), bytes(rf[3])
            if parts[0][0] != 0:
                V('an ALTSVC frame caused an exception', {'outcome': parts[0]})
            else:
                evs = [e for e in parts[0][1] if e[0] == 16]
                want = []
                if client:
                    if sid == 0 and origin:
                        want = [[16, [list(origin)], list(field)]]
                    elif sid != 0 and not origin:
                        ps = next((e for e in prev[8] if e[0] == sid), None)
                        if ps is not None and ps[2] == 1 and not ps[5] and ps[1] in (1, 3, 5):     # our own request, or a request promised to us
                            want = 'authority'
                if want == 'authority':
                    if len(evs) != 1 or evs[0][2] != list(field):
                        V('a stream-bound ALTSVC before the response headers was not reported', {'stream': sid, 'events': evs})
                    elif sid in reqauth and evs[0][1] != [list(reqauth[sid])]:
                        V('AlternativeServiceAvailable does not carry the :authority of the request', {'stream': sid, 'event_origin': evs[0][1], 'authority': list(reqauth[sid])})
                elif evs != want:
                    ps = next((e for e in prev[8] if e[0] == sid), None)
                    V('an ALTSVC frame that must be ignored was reported, or one that must be reported was not',
                      {'stream': sid, 'origin': list(origin), 'events': evs, 'expected': want,
                       'server_on_a_stream_it_opened_itself': bool(not client and sid % 2 == 0 and sid != 0 and ps is not None and ps[2] == 1)})
        prev = parts
    return bad


def finding_of(v):
    return None      # F_IDLE (was F-C24-1) is fixed by 4e7b916: reported as a violation if it returns


def scenarios(run):
    out = []
    RX = lambda *fs: ('Receive', [(f, None, {}) for f in fs])
    A = lambda origin, sid: ('AdvertiseAltSvc', b'h2=":443"', origin, sid)
    # fixed 12650a7 (was F-C24-2): a server that tries to open stream 4 itself must not report the ALTSVC frame it receives on it
    out.append((t2.default_cfg(False), [('Initiate',), ('SendHeaders', 4, t2.RESP, 0, False, None, None, None), RX(('AltSvc', 4, b'', b'h2=":8000"'))]))
    for client in (True, False):
        cfg = t2.default_cfg(client)
        z = list(t2.zoo(client))
        for sid in (0, 1, 3, 5, 7, 9, 2, 4, 11, 13, 40):
            for origin in (b'', b'example.com'):
                out.append((cfg, z + [RX(('AltSvc', sid, origin, b'h2=":443"'))]))
            if sid:
                out.append((cfg, z + [A(None, sid), A(b'example.com', sid)]))
        out.append((cfg, z + [A(b'example.com', None), A(None, None), A(b'', None)]))
        if client:
            # the request was followed by trailers: the advertisement still names the request's authority
            T = [(b'x-t', b'1', False)]
            out.append((cfg, z + [('SendHeaders', 13, t2.REQ, 0, False, None, None, None), ('SendHeaders', 13, T, 0, True, None, None, None),
                                  RX(('AltSvc', 13, b'', b'h2=":443"')), RX(('Headers', 13, False, None, ('Decoded', t2.RESP))), RX(('AltSvc', 13, b'', b'h2=":443"'))]))
    return out


SPEC = dict(parts=PARTS, weights=WEIGHTS, rf_weights=RF, n_quick=200, n_thorough=5000, n_ops=28, oracle=oracle, finding_of=finding_of, scenarios=scenarios,
            nontrivial=lambda p: any(op[0] == 'AdvertiseAltSvc' or (op[0] == 'Receive' and any(e[0][0] == 'AltSvc' for e in op[1])) for op in p['ops']),
            rule='alt-svc heavy programs: advertise_alternative_service with origin / stream / both / neither on every stream of the zoo and at every point of a message, ALTSVC frames on '
                 'stream 0 and stream-bound, with and without origin, on clients and servers; compared with the model and judged by the RFC 7838 rules; '
                 'non-trivial = at least one advertisement sent or received')


def check(run):
    return _conn.conn_check(run, SPEC)


def replay(run, path):
    return _conn.conn_replay(run, path, oracle)
