"""C18 — Every connection error emits exactly one GOAWAY with the RFC-mandated code."""
from harness import common, t2
from harness.props import _conn

PARTS = [0, 1, 3, 5]
WEIGHTS = dict(send_headers=10, send_data=4, end_stream=3, increment=1, push=2, ping=0.5, reset=3, close=0.3,
               update_settings=3, altsvc=0.3, prioritize=0.5, ack=1, probe=1, drain=4, receive=60)
RF = dict(headers=30, push=5, data=18, settings=10, window_update=10, ping=2, rst=4, priority=4, goaway=0.5,
          continuation=3, altsvc=1, unknown=1, bad=10)
R_COMPRESSION = 'an undecodable header block was reported with PROTOCOL_ERROR instead of COMPRESSION_ERROR'


def classify(op, prev):
    """Independent classification of the FIRST frame of a failing single-frame batch into the RFC error category.
    -> expected code or None when the category is not decided by this oracle."""
    if len(op[1]) != 1:
        return None
    e = op[1][0]
    rf, blen = e[0], e[1]
    k = rf[0]
    max_in = prev[7][1]
    if k == 'BadBody':
        return {0: 1, 1: 6, 2: 1}[rf[1]]
    if k in ('Headers', 'PushPromise', 'Data', 'RstStream', 'Priority', 'Continuation') and rf[1] == 0:
        return 1
    if blen is not None and blen > max_in:
        return 6
    if k in ('Headers', 'PushPromise') and rf[-1][0] == 'DecodeError':
        return 9
    if k == 'Data':
        cw = prev[6][1]
        sw = {s[0]: s[2] for s in prev[9]}.get(rf[1])
        if rf[3] > cw or (sw is not None and rf[3] > sw):
            return 3
    if k == 'WindowUpdate' and rf[1] == 0 and prev[6][0] + rf[2] > 2**31 - 1:
        return 3
    if k == 'Settings' and not rf[1]:
        for ident, v in rf[2]:
            if ident == 4 and v > 2**31 - 1:
                return 3
    return None


def oracle(p):
    bad = []
    frames = _conn.new_frames(p)
    prev = None
    peer_parity = 0 if p['cfg']['client'] else 1
    peer_max = 0      # highest id of the peer's parity that ever had a stream object: tracked here, not read from the library's watermark
    for i, (op, parts) in enumerate(zip(p['ops'], p['parts'])):
        ids = [e[0] for e in parts[8]] + [s for s, cb in parts[4][1]]
        peer_max = max([peer_max] + [x for x in ids if x % 2 == peer_parity and x > 0])
        if op[0] == 'Receive' and prev is not None:
            res = parts[0]
            goaways = [fr for fr in frames[i] if fr[0] == 7]
            if res[0] == 1:
                code = res[2]
                if len(goaways) != 1:
                    bad.append({'rule': 'a raising receive_data did not emit exactly one GOAWAY', 'step': i, 'detail': {'goaways': goaways, 'frames': frames[i][:4]}})
                else:
                    g = goaways[0]
                    if g[2] != code:
                        bad.append({'rule': 'GOAWAY error code differs from the exception code', 'step': i, 'detail': {'goaway': g, 'exception': res}})
                    if g[1] != parts[5][0] or (g[1] != peer_max and len(parts[4][1]) < 90):     # (the closed-stream memory is capped at 100)
                        bad.append({'rule': 'GOAWAY last_stream_id is not the highest stream id the peer opened', 'step': i,
                                    'detail': {'goaway': g, 'highest_inbound': parts[5][0], 'highest_peer_stream_seen': peer_max}})
                    if frames[i] and frames[i][-1][0] != 7:
                        bad.append({'rule': 'frames were emitted after the GOAWAY of a connection error', 'step': i, 'detail': frames[i][-2:]})
                if parts[3] != 3:
                    bad.append({'rule': 'the connection is not closed after a connection error', 'step': i, 'detail': parts[3]})
                want = classify(op, prev) if prev[3] != 3 and not prev_inbuf_dirty(p, i) else None
                if want is not None and want != code:
                    rule = R_COMPRESSION if want == 9 and code == 1 else 'error code differs from the RFC category of the violation'
                    bad.append({'rule': rule, 'step': i, 'detail': {'expected': want, 'got': code, 'frame': repr(op[1][0][0])[:200]}})
            elif res[0] == 0 and goaways:
                bad.append({'rule': 'GOAWAY emitted by a receive_data that did not raise', 'step': i, 'detail': goaways})
        prev = parts
    return bad


def prev_inbuf_dirty(p, i):
    """frames may be left over from an earlier failing batch: then the first frame handled is not this batch's"""
    return any(op[0] == 'Receive' and parts[0][0] != 0 for op, parts in zip(p['ops'][:i], p['parts'][:i]))


def finding_of(v):
    return 'F-C18-1' if v['rule'] == R_COMPRESSION else None


def scenarios(run):
    from harness import wire
    out = []
    RX = lambda f, hint=None: ('Receive', [(f, None, hint or {})])
    for client in (True, False):
        cfg = t2.default_cfg(client)
        # MAX_HEADER_LIST_SIZE lowered to 200 and acknowledged, so that a 372-byte list is oversized
        z = list(t2.zoo(client)) + [('UpdateSettings', [(6, 200)]), ('Receive', [(('Settings', True, []), None, {})]), ('Drain',)]
        big = ('Data', 1, 16385, 16385, False)
        viol = [RX(big), RX(('Data', 1, 70000, 70000, False)),
                RX(('Headers', 1, False, None, ('DecodeError',))),
                RX(('Headers', 13 if not client else 11, False, None, ('Decoded', [(b'x' * 40, b'y' * 300, False)]))),
                RX(('WindowUpdate', 0, 2**31 - 1)), RX(('Settings', False, [(4, 2**31)])), RX(('Settings', False, [(5, 1)])),
                RX(('Headers', 7, False, None, ('Decoded', t2.REQ if not client else t2.RESP))),       # after END_STREAM
                RX(('Data', 7, 1, 1, False)), RX(('Continuation', 1)), RX(('Priority', 3, (3, 0, False))),
                RX(('BadBody', 1), {'raw': wire.header(7, 6, 0, 0) + b'1234567'}), RX(('Data', 99, 1, 1, False))]
        for v in viol:
            out.append((cfg, z + [v, ('Drain',), RX(('Ping', False, b'12345678'))]))
        # a failing local call first (ids must not be booked), then a connection error
        out.append((cfg, [('Initiate',), RX(('Settings', False, [])) if client else RX(('Headers', 1, False, None, ('Decoded', t2.REQ))),
                          ('SendHeaders', 2 if client else 3, t2.REQ if client else t2.RESP, 0, False, None, None, None),
                          ('PushStream', 1, 3, t2.REQ, 0), RX(('Settings', False, [(2, 2)]))]))
    return out


SPEC = dict(parts=PARTS, weights=WEIGHTS, rf_weights=RF, n_quick=300, n_thorough=8000, n_ops=26, oracle=oracle, finding_of=finding_of,
            scenarios=scenarios,
            nontrivial=lambda p: any(op[0] == 'Receive' and parts[0][0] == 1 for op, parts in zip(p['ops'], p['parts'])),
            rule='violation-heavy received traffic (oversized frames, bad bodies and padding, window overruns and overflows, invalid settings, frames on '
                 'ended / reset / unknown streams, undecodable and oversized header blocks) after many streams; compared with the model on result, output, '
                 'connection state and watermarks; an independent classifier maps single-frame violations to RFC error categories; '
                 'non-trivial = at least one receive_data raised',
            extra_obligations=1)


def check(run):
    with common.Lock():
        common.build(['Properties/C18_refuted.vo'])
    return _conn.conn_check(run, SPEC)


def replay(run, path):
    return _conn.conn_replay(run, path, oracle)
