"""C27 — Peer-controlled retained state stays bounded."""
from harness import t2
from harness.props import _conn

PARTS = [0, 1, 4, 5, 7]
WEIGHTS = dict(send_headers=6, send_data=1, end_stream=3, increment=0.3, push=2, ping=0.3, reset=6, close=0.1,
               update_settings=3, altsvc=0.3, prioritize=0.5, ack=0.5, probe=8, drain=3, receive=66)
RF = dict(headers=40, push=3, data=6, settings=6, window_update=10, ping=1, rst=12, priority=14, goaway=0.1,
          continuation=1, altsvc=1, unknown=6, bad=0.5)


def hl_size(hs):
    return sum(len(n) + len(v) + 32 for n, v, _ in hs)


def oracle(p):
    bad = []
    prev = None
    for i, (op, parts) in enumerate(zip(p['ops'], p['parts'])):
        n_closed = len(parts[4][1])
        if n_closed > 65536:
            bad.append({'rule': 'the memory of closed streams exceeds its cap', 'step': i, 'detail': n_closed})
        if prev is not None and op[0] == 'Receive' and prev[3] in (1, 2) and _conn.ok(parts):
            kinds = {e[0][0] for e in op[1]}
            if kinds <= {'Priority', 'Unknown'} or (kinds <= {'Priority', 'Unknown', 'WindowUpdate', 'RstStream'} and
                                                   all(e[0][0] in ('Priority', 'Unknown') or not any(s[0] == e[0][1] for s in prev[8]) for e in op[1])):
                if parts[4][0] != prev[4][0] or parts[4][1] != prev[4][1]:
                    bad.append({'rule': 'frames that open no stream (PRIORITY / WINDOW_UPDATE / RST_STREAM on unknown ids / unknown types) allocated or moved stream state',
                                'step': i, 'detail': {'before': prev[4][0], 'after': parts[4][0], 'frames': [e[0][0] for e in op[1]]}})
        if prev is not None and op[0] == 'Receive' and prev[3] in (1, 2) and len(op[1]) == 1 and op[1][0][0][0] == 'Headers' \
                and op[1][0][0][4][0] == 'Decoded' and not any(o[0] == 'Receive' and q[0][0] != 0 for o, q in zip(p['ops'][:i], p['parts'][:i])):
            rf = op[1][0][0]
            known = any(s[0] == rf[1] for s in prev[8])
            # the limit in force is the acknowledged local MAX_HEADER_LIST_SIZE (read from the Settings object, never from the decoder
            # that is being judged); 65536 (hpack's default) when the setting was never sent
            acked = {k: (q[0][0] if q and q[0] else None) for k, q in prev[11]}.get(6)
            limit = acked if acked is not None else 65536
            if hl_size(rf[4][1]) > limit and (known or rf[1] != 0):
                if _conn.err_name(parts) not in ('DenialOfServiceError', 'TooManyStreamsError') or (_conn.err_name(parts) == 'DenialOfServiceError' and parts[0][2] != 11):
                    bad.append({'rule': 'a header list above the acknowledged MAX_HEADER_LIST_SIZE was not refused with ENHANCE_YOUR_CALM', 'step': i,
                                'detail': {'size': hl_size(rf[4][1]), 'limit': limit, 'outcome': parts[0]}})
        prev = parts
    return bad


def scenarios(run):
    out = []
    RX = lambda *fs: ('Receive', [(f, None, {}) for f in fs])
    for client in (True, False):
        cfg = t2.default_cfg(client)
        z = list(t2.zoo(client)) + [('OpenOutbound',)]
        junk = []
        for sid in (1, 2, 5, 7, 9, 13, 15, 101, 6, 8, 1001):
            junk += [RX(('Priority', sid, (0, 15, False))), RX(('RstStream', sid, 8)), RX(('Unknown', 0xFA, sid))]
        out.append((cfg, z + junk + [('OpenInbound',), ('OpenOutbound',)]))
        # MAX_HEADER_LIST_SIZE boundaries: limit 200 acknowledged, lists of size 199..201 (name 1 + value v + 32 per header)
        for total in (199, 200, 201):
            pad_v = total - 4 * 33 - (7 + 3) - (5 + 1) - (7 + 5) - (10 + 1)
            hs = t2.REQ if not client else t2.RESP
            base = hl_size(hs)
            extra = total - base - 32 - 1
            hs2 = list(hs) + [(b'x', b'v' * max(extra, 0), False)]
            sid = 13 if not client else 11
            out.append((cfg, list(t2.zoo(client)) + [('UpdateSettings', [(6, 200)]), RX(('Settings', True, [])), ('Drain',),
                                                      RX(('Headers', sid, False, None, ('Decoded', hs2)))]))
        # the same boundary when the acknowledgement that carries MAX_HEADER_LIST_SIZE also changes other settings (one frame or
        # several in flight), and when the cap is raised again afterwards
        for total in (200, 201):
            hs = t2.REQ if not client else t2.RESP
            hs2 = list(hs) + [(b'x', b'v' * max(total - hl_size(hs) - 33, 0), False)]
            sid = 13 if not client else 11
            ACK = RX(('Settings', True, []))
            for ups in ([[(4, 1000), (6, 200)]], [[(6, 200), (4, 70000)]], [[(5, 20000), (6, 200), (1, 0)]], [[(4, 100)], [(6, 200)]],
                        [[(6, 100000)], [(6, 200), (3, 50)]]):
                out.append((cfg, list(t2.zoo(client)) + [('UpdateSettings', u) for u in ups] + [ACK] * len(ups) +
                            [('Drain',), RX(('Headers', sid, False, None, ('Decoded', hs2)))]))
    return out


def extra_stage(run):
    """the CONTINUATION backlog: frame-buffer model against the real FrameBuffer, and the bound observed on the real buffer"""
    from harness import fb_corr
    return fb_corr.stage(run, 25 if run.tier == 'quick' else 400, 'bounded')


SPEC = dict(parts=PARTS, weights=WEIGHTS, rf_weights=RF, n_quick=260, n_thorough=4000, n_ops=40, oracle=oracle, scenarios=scenarios,
            extra_stage=extra_stage,
            nontrivial=lambda p: max(len(x[4][1]) for x in p['parts']) >= 1,
            rule='long peer frame sequences opening, closing, resetting and referencing streams (thorough tier: thousands of programs of 40 operations; the closed-stream '
                 'cap itself is covered by the theorem; the CONTINUATION backlog by the frame-buffer model compared with the real FrameBuffer on floods of 63..1200 CONTINUATION frames, the directed programs place header lists at MAX_HEADER_LIST_SIZE - 1 / exactly / + 1); compared with the model '
                 'on result, output, stream tables, ids and limits; non-trivial = at least one stream reached the closed-stream memory',
            extra_obligations=1)


def check(run):
    return _conn.conn_check(run, SPEC)


def replay(run, path):
    import json
    obj = json.load(open(path))
    if 'framebuffer_case' in obj:
        from harness import fb_corr
        bad = fb_corr.replay_case('bounded', obj['framebuffer_case'])
        if bad:
            run.violation(obj)
        return run.finish('proof', {'replayed': path, 'still_fails': bool(bad)})
    return _conn.conn_replay(run, path, oracle)
