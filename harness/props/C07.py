"""C07 — Received events per stream follow the HTTP message grammar for the role."""
from harness import t2
from harness.props import _conn

PARTS = [0, 3, 4, 8]     # result (the events), connection state, stream tables, stream state machines
WEIGHTS = dict(send_headers=8, send_data=2, end_stream=2, increment=0.5, push=1, ping=0.2, reset=3, close=0.1,
               update_settings=0.5, altsvc=0.3, prioritize=0.3, ack=0.5, probe=0.5, drain=2, receive=72)
RF = dict(headers=40, push=6, data=22, settings=1, window_update=3, ping=0.3, rst=7, priority=5, goaway=0.1,
          continuation=1, altsvc=1, unknown=0.5, bad=0.5)

F1 = 'a client reports RequestReceived (for HEADERS on a stream id the peer may open that was never promised)'
F2 = 'a server reports ResponseReceived on a stream it opened itself with send_headers (consequence of F-C08-1)'
NAMES = {1: 'RequestReceived', 2: 'ResponseReceived', 3: 'TrailersReceived', 4: 'InformationalResponseReceived', 5: 'DataReceived',
         10: 'StreamEnded', 11: 'StreamReset', 12: 'PushedStreamReceived', 14: 'PriorityUpdated'}


def oracle(p):
    client = p['cfg']['client']
    bad = []
    st = {}       # sid -> dict(phase, ended, reset)

    def S(sid):
        return st.setdefault(sid, {'phase': 'start', 'ended': False, 'reset': False})
    for i, (op, parts) in enumerate(zip(p['ops'], p['parts'])):
        if op[0] != 'Receive' or parts[0][0] != 0:
            continue
        evs = parts[0][1]

        def V(rule, detail):
            bad.append({'rule': rule, 'step': i, 'detail': detail})
        for j, e in enumerate(evs):
            k = e[0]
            if k not in NAMES:
                continue
            sid = e[1]
            s = S(sid)
            # related events: later in the same list, right type, same stream
            if k in (1, 2, 3):
                offs = [('stream_ended', e[3], 10), ('priority_updated', e[4], 14)]
            elif k == 4:
                offs = [('priority_updated', e[3], 14)]
            elif k == 5:
                offs = [('stream_ended', e[4], 10)]
            else:
                offs = []
            for name, o, want in offs:
                if o:
                    d = o[0]
                    if d < 1 or j + d >= len(evs) or evs[j + d][0] != want or evs[j + d][1] != sid:
                        V('the %s field of an event does not refer to a later %s event of the same stream in the same list' % (name, NAMES[want]),
                          {'event': NAMES[k], 'offset': d, 'stream': sid})
            if k == 3 and not e[3]:
                V('TrailersReceived without stream_ended', {'stream': sid})
            if s['reset'] and k != 14:
                V('an event other than PriorityUpdated follows StreamReset on the same stream', {'event': NAMES[k], 'stream': sid})
            if k == 14:
                continue
            if k == 11:
                if s['reset']:
                    V('a second StreamReset on the same stream', {'stream': sid})
                s['reset'] = True
                continue
            if client and k == 1:
                V(F1, {'stream': sid})
            if not client and k in (2, 4, 12):
                opened_by_us = any(o[0] == 'SendHeaders' and o[1] == sid and q[0][0] == 0 for o, q in zip(p['ops'][:i], p['parts'][:i]))
                V(F2 if (opened_by_us and k == 2) else 'a server reports %s' % NAMES[k], {'stream': sid})
            if s['ended'] and k in (1, 2, 3, 4, 5, 10):
                V('%s after StreamEnded on the same stream' % NAMES[k], {'stream': sid})
            ph = s['phase']
            if k == 4:
                if ph not in ('start',):
                    V('InformationalResponseReceived after the final response', {'stream': sid, 'phase': ph})
            elif k in (1, 2):
                if ph != 'start':
                    V('a second %s on the same stream' % NAMES[k], {'stream': sid, 'phase': ph})
                s['phase'] = 'headers'
            elif k == 5:
                if ph not in ('headers', 'data'):
                    V('DataReceived before final headers (or after trailers)', {'stream': sid, 'phase': ph})
                s['phase'] = 'data' if ph in ('headers', 'data') else ph
            elif k == 3:
                if ph not in ('headers', 'data'):
                    V('TrailersReceived without preceding headers (or twice)', {'stream': sid, 'phase': ph})
                s['phase'] = 'trailers'
            elif k == 10:
                s['ended'] = True
            elif k == 12:
                S(e[1])      # the promised stream starts its own message
    return bad


def finding_of(v):
    return None      # F1 (was F-C07-1) is fixed by 09dbf89, F2 (was F-C07-2) by 12650a7: reported as violations if they return


def scenarios(run):
    out = []
    RX = lambda *fs: ('Receive', [(f, None, {}) for f in fs])
    for client in (True, False):
        cfg = t2.default_cfg(client)
        z = list(t2.zoo(client))
        hs = t2.RESP if client else t2.REQ
        for sid in (1, 3, 2, 4, 11, 13, 6, 20):
            for f in (('Data', sid, 2, 2, False), ('Headers', sid, False, None, ('Decoded', hs)), ('Headers', sid, True, None, ('Decoded', hs)),
                      ('Headers', sid, False, None, ('Decoded', t2.REQ)), ('Headers', sid, True, None, ('Decoded', [(b'x-t', b'1', False)])),
                      ('Headers', sid, False, None, ('Decoded', [(b'x-t', b'1', False)])), ('RstStream', sid, 8)):
                out.append((cfg, z + [RX(f), RX(('Data', sid, 1, 1, True)), RX(('RstStream', sid, 8)), RX(('Priority', sid, (0, 5, False)))]))
    return out


SPEC = dict(parts=PARTS, weights=WEIGHTS, rf_weights=RF, n_quick=250, n_thorough=6000, n_ops=30, oracle=oracle, finding_of=finding_of,
            scenarios=scenarios,
            nontrivial=lambda p: sum(1 for parts in p['parts'] if parts[0][0] == 0 and isinstance(parts[0][1], list) and any(isinstance(e, list) and e and e[0] in (1, 2, 3, 5) for e in parts[0][1])) >= 2,
            rule='receive-heavy programs (HEADERS with / without END_STREAM, 1xx, trailers, DATA before HEADERS, frames after END_STREAM / RST_STREAM, PUSH_PROMISE, HEADERS on '
                 'never-promised even ids, PRIORITY in HEADERS) on clients and servers; the events of every receive_data call are compared with the model and run through a '
                 'per-stream grammar monitor (roles, order, at most one StreamEnded / StreamReset, related-event links, trailers carry stream_ended); '
                 'non-trivial = at least two calls produced message events',
            extra_obligations=1)


def check(run):
    return _conn.conn_check(run, SPEC)


def replay(run, path):
    return _conn.conn_replay(run, path, oracle)
