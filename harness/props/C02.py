"""C02 — Emitted bytes are well-formed HTTP/2 that encode exactly the calls."""
from harness import t2
from harness.props import _conn

PARTS = [0, 1, 3, 7]      # result, output structure (parsed by the independent decoder harness/wire.py), conn state, limits (header contents: C13 / C14)
WEIGHTS = dict(send_headers=20, send_data=14, end_stream=3, increment=5, push=5, ping=4, reset=4, close=1.5,
               update_settings=4, altsvc=2, prioritize=4, ack=2, probe=0.5, drain=4, receive=22)
RF = dict(headers=20, push=2, data=5, settings=40, window_update=15, ping=1, rst=2, priority=1, goaway=0.1,
          continuation=0.3, altsvc=0.3, unknown=0.3, bad=0.2)

F1 = 'close_connection with additional data larger than the peer\'s MAX_FRAME_SIZE emits an oversized GOAWAY (and then raises AssertionError)'
F2 = 'a HEADERS frame carrying priority fields exceeds the peer\'s MAX_FRAME_SIZE by up to 5 bytes (the block is split without counting them)'


def body_len(fr):
    t = fr[0]
    if t == 1:
        return fr[6] + (5 if fr[4] else 0)
    if t == 9:
        return fr[3]
    if t == 5:
        return 4 + fr[5]
    if t == 0:
        return fr[2] + ((fr[4][0] + 1) if fr[4] else 0)
    if t == 4:
        return 6 * len(fr[2])
    if t == 8 or t == 3:
        return 4
    if t == 6:
        return 8
    if t == 2:
        return 5
    if t == 7:
        return 8 + fr[3]
    if t == 10:
        return 2 + len(fr[2]) + len(fr[3])
    return 0


def oracle(p):
    bad = []
    frames = _conn.new_frames(p)
    prev = None
    open_block = None
    first_seen = False
    for i, (op, parts) in enumerate(zip(p['ops'], p['parts'])):
        okk = _conn.ok(parts)

        def V(rule, detail):
            bad.append({'rule': rule, 'step': i, 'detail': detail})
        new = frames[i]
        limit = prev[7][0] if prev is not None else 16384
        for fr in new:
            if fr[0] == 96 and op[0] == 'CloseConnection' and op[3] + 8 > limit:
                V(F1, {'length': op[3] + 8, 'limit': limit, 'note': 'the 24-bit length field overflowed: the bytes do not even parse'})
                continue
            if fr[0] in (96, 97, 99):
                V('the bytes appended to the output do not parse as HTTP/2 frames (or the buffer was rewritten)', {'marker': fr[:2]})
                continue
            if not first_seen:
                first_seen = True
                if fr[0] != 4 or fr[1]:
                    V('the first frame emitted is not a SETTINGS frame', {'frame': fr[:2]})
            n = body_len(fr)
            if n > limit:
                if fr[0] == 7:
                    V(F1, {'length': n, 'limit': limit})
                elif fr[0] == 1 and fr[4] and n - 5 <= limit:
                    V(F2, {'length': n, 'limit': limit})
                else:
                    V('a frame payload exceeds the peer\'s MAX_FRAME_SIZE', {'type': fr[0], 'length': n, 'limit': limit})
            if open_block is not None:
                if fr[0] != 9 or fr[1] != open_block:
                    V('a header block is interrupted (a frame other than CONTINUATION on the same stream follows a frame without END_HEADERS)', {'frame': fr[:2], 'block_stream': open_block})
                    open_block = None
                elif fr[2]:
                    open_block = None
            elif fr[0] == 9:
                V('a CONTINUATION frame outside a header block', {'stream': fr[1]})
            elif fr[0] == 1 and not fr[3]:
                open_block = fr[1]
            elif fr[0] == 5 and not fr[3]:
                open_block = fr[1]
        if open_block is not None and new:
            V('a call left a header block without END_HEADERS in the output', {'stream': open_block})
            open_block = None
        if not okk and new and prev is not None and prev[3] in (1, 2) and op[0] not in ('Receive',):
            if not any(fr[0] == 7 and body_len(fr) > limit for fr in new) and not any(fr[0] == 1 and fr[4] for fr in new) \
                    and not (op[0] == 'CloseConnection' and op[3] + 8 > limit):
                V('a call that raised appended frames to the output', {'op': op[0], 'frames': [fr[:2] for fr in new]})
        # each successful call appends exactly the frames it specifies (selection; the rest is compared with the model)
        if okk and prev is not None and prev[3] in (1, 2):
            k = op[0]
            want = None
            if k == 'Ping':
                want = [[6, 0, list(op[1])]]
            elif k == 'ResetStream':
                want = [[3, op[1], op[2]]]
            elif k == 'IncrementWindow':
                want = [[8, op[2] if op[2] is not None else 0, op[1]]]
            elif k == 'SendData':
                want = [[0, op[1], op[2], 1 if op[3] else 0, [op[4]] if op[4] is not None else []]]
            elif k == 'EndStream':
                want = [[0, op[1], 0, 1, []]]
            if want is not None and isinstance(want[0][1], int) and want[0][0] in (0, 3, 8):
                want[0][1] %= 2 ** 31      # the 31-bit stream id field (ids above 2^31-1 are accepted by the API: F-C09-1, judged there)
            if want is not None and [list(map(lambda x: list(x) if isinstance(x, (list, tuple, bytes)) else x, fr)) for fr in new] != want:
                V('a successful call did not append exactly the frame it specifies', {'op': k, 'expected': want, 'appended': new})
        prev = parts
    return bad


def finding_of(v):
    return 'F-C02-1' if v['rule'] == F1 else 'F-C02-2' if v['rule'] == F2 else None


def scenarios(run):
    out = []
    RX = lambda *fs: ('Receive', [(f, None, {}) for f in fs])
    H = lambda sid, hs, L, es=False, pw=None, pd=None, pe=None: ('SendHeaders', sid, hs, L, es, pw, pd, pe)
    big = lambda n: [(b'x-%d' % k, b'v' * 200, False) for k in range(n)]
    for client in (True, False):
        cfg = t2.default_cfg(client)
        z = list(t2.zoo(client))
        new = 13 if client else 1
        mine = t2.REQ if client else t2.RESP
        for mfs in (16384, 16385, 20000, 2 ** 24 - 1):
            pre = z + ([RX(('Settings', False, [(5, mfs)]))] if mfs != 16384 else [])
            # header blocks around the frame-size boundary (the real encoded length is measured by the harness), with and without priority
            for n in (70, 80, 85, 90, 170):
                out.append((cfg, pre + [H(new, list(mine) + big(n), 0)]))
                if client:
                    out.append((cfg, pre + [H(new, list(mine) + big(n), 0, False, 256, 0, True)]))
            for pad in (None, 0, 1, 255):
                for ln in (0, 1, 100, mfs - 256, mfs):
                    out.append((cfg, pre + [('SendData', 1 if client else 1, ln, False, pad)]))
            out.append((cfg, pre + [('CloseConnection', 0, None, mfs - 8), ]))
            if mfs < 2 ** 24 - 1:      # (one byte over the largest limit overflows the 24-bit length field: the output is then not parseable at all)
                out.append((cfg, pre + [('CloseConnection', 0, None, mfs - 7), ]))
        for w in (1, 16, 256):
            out.append((cfg, z + [('Prioritize', new, w, 0, False), ('Ping', list(b'abcdefgh')), ('IncrementWindow', 2 ** 31 - 1 - 65535, None)]))
    return out


SPEC = dict(parts=PARTS, weights=WEIGHTS, rf_weights=RF, n_quick=200, n_thorough=5000, n_ops=30, oracle=oracle, finding_of=finding_of, scenarios=scenarios,
            nontrivial=lambda p: max(len(parts[1]) for parts in p['parts']) >= 3,
            rule='send-heavy programs with the peer announcing MAX_FRAME_SIZE values across 2^14..2^24-1; header blocks sized around the frame-size boundary (with and without priority '
                 'fields), DATA with pad lengths 0 / 1 / 255 and lengths at the limit, GOAWAY debug data at the limit, priority weights 1 / 16 / 256; every byte appended to the output is '
                 'parsed by the independent decoder harness/wire.py, compared with the model frame by frame, and judged: parses, first frame SETTINGS, payload <= peer limit, header blocks '
                 'contiguous, failing calls append nothing, selected calls append exactly their frame; non-trivial = at least three frames pending at some point',
            extra_obligations=1)


def check(run):
    return _conn.conn_check(run, SPEC)


def replay(run, path):
    return _conn.conn_replay(run, path, oracle)
