"""C19 — A closed connection stays quiet."""
from harness import common, t2
from harness.props import _conn

PARTS = [0, 1, 3]
WEIGHTS = dict(send_headers=10, send_data=6, end_stream=3, increment=4, push=2, ping=3, reset=3, close=6,
               update_settings=3, altsvc=2, prioritize=2, ack=8, probe=3, drain=4, receive=40)
RF = dict(headers=16, push=2, data=14, settings=6, window_update=6, ping=4, rst=4, priority=3, goaway=8,
          continuation=4, altsvc=2, unknown=2, bad=2)

ACK_RULE = 'acknowledge_received_data emitted WINDOW_UPDATE on a closed connection'
CONT_RULE = 'a naked CONTINUATION for a reset stream was answered with RST_STREAM on a closed connection'


def oracle(p):
    bad = []
    frames = _conn.new_frames(p)
    prev = None
    seen_continuation = False
    for i, (op, parts) in enumerate(zip(p['ops'], p['parts'])):
        if op[0] == 'Receive' and any(e[0][0] == 'Continuation' for e in op[1]):
            seen_continuation = True      # it may stay buffered behind a failing frame and be handled by a later call
        was_closed = prev is not None and prev[3] == 3
        if was_closed:
            if parts[3] != 3:
                bad.append({'rule': 'a closed connection left the CLOSED state', 'step': i, 'detail': parts[3]})
            other = [fr for fr in frames[i] if fr[0] != 7]
            if other and op[0] != 'Drain':
                rule = 'a closed connection emitted a frame other than GOAWAY'
                if op[0] == 'Acknowledge' and all(fr[0] == 8 for fr in other):
                    rule = ACK_RULE
                elif op[0] == 'Receive' and all(fr[0] == 3 and fr[2] == 5 for fr in other) and seen_continuation:
                    rule = CONT_RULE
                bad.append({'rule': rule, 'step': i, 'detail': {'op': repr(op)[:200], 'frames': other[:3]}})
            if op[0] in ('SendHeaders', 'SendData', 'EndStream', 'IncrementWindow', 'PushStream', 'Ping', 'ResetStream',
                         'UpdateSettings', 'AdvertiseAltSvc', 'Prioritize') and _conn.ok(parts):
                bad.append({'rule': 'an emitting call succeeded on a closed connection', 'step': i, 'detail': repr(op)[:200]})
        if op[0] == 'Receive' and _conn.ok(parts) and any(ev[0] == 15 for ev in parts[0][1]):
            # a GOAWAY was received in this batch: everything pending before it must be gone
            if prev is not None and prev[1] and parts[1][:len(prev[1])] == prev[1] and len(prev[1]) > 0:
                bad.append({'rule': 'receiving GOAWAY did not discard the pending output', 'step': i, 'detail': prev[1][:2]})
        prev = parts
    return bad


def finding_of(v):
    # ACK_RULE was repaired in /repo (fixed: entry in known_findings.txt): it is reported again if it returns
    return {CONT_RULE: 'F-C19-2'}.get(v['rule'])


def scenarios(run):
    cfg = t2.default_cfg(True)
    w1 = [('Initiate',), ('SendHeaders', 1, t2.REQ, 0, False, None, None, None),
          ('Receive', [(('Settings', False, []), None, {}), (('Headers', 1, False, None, ('Decoded', t2.RESP)), None, {}),
                       (('Data', 1, 16384, 16384, False), None, {}), (('Data', 1, 16384, 16384, False), None, {}),
                       (('Data', 1, 16384, 16384, False), None, {})]),
          ('CloseConnection', 0, None, 0), ('Drain',), ('Acknowledge', 49152, 1)]
    w2 = [('Initiate',), ('SendHeaders', 1, t2.REQ, 0, False, None, None, None), ('ResetStream', 1, 0), ('OpenOutbound',),
          ('CloseConnection', 0, None, 0), ('Drain',), ('Receive', [(('Continuation', 1), None, {})])]
    return [(cfg, w1), (cfg, w2)]


SPEC = dict(parts=PARTS, weights=WEIGHTS, rf_weights=RF, n_quick=300, n_thorough=8000, n_ops=30, oracle=oracle,
            finding_of=finding_of, scenarios=scenarios,
            nontrivial=lambda p: any(parts[3] == 3 for parts in p['parts'][:-3]),
            rule='programs that close the connection by close_connection, by a received GOAWAY or by a connection error and then keep calling the API '
                 '(acknowledge_received_data and increment_flow_control_window included) and receiving frames; compared with the model on result, output '
                 'and connection state; non-trivial = at least three operations follow the transition to CLOSED',
            extra_obligations=0)


def check(run):
    with common.Lock():
        common.build(['Properties/C19_refuted.vo'])
    return _conn.conn_check(run, SPEC)


def replay(run, path):
    return _conn.conn_replay(run, path, oracle)
