"""C15 — Inbound header validation accepts exactly the conformant header blocks."""
import random

from harness import hdrspec, t2
from harness.props import _conn

PARTS = [0, 3, 8]      # result (the events carry the delivered header lists), connection state, stream FSMs
WEIGHTS = dict(send_headers=10, send_data=1, end_stream=1, increment=0.2, push=0.5, ping=0.2, reset=1, close=0.1,
               update_settings=0.3, altsvc=0.2, prioritize=0.2, ack=0.2, probe=0.2, drain=2, receive=80)
RF = dict(headers=70, push=8, data=4, settings=1, window_update=1, ping=0.3, rst=2, priority=1, goaway=0.1,
          continuation=0.3, altsvc=0.3, unknown=0.3, bad=0.3)


def kind_of(prev, client, rf):
    """which block a received HEADERS / PUSH_PROMISE is, from the stream state before it"""
    if rf[0] == 'PushPromise':
        return 'Request'
    st = next((e for e in prev[8] if e[0] == rf[1]), None)
    if st is not None and st[5]:          # headers already received on this stream: trailers
        return 'Trailers'
    return 'Response' if client else 'Request'


def oracle(p):
    cfg = p['cfg']
    client = cfg['client']
    bad = []
    prev = None
    for i, (op, parts) in enumerate(zip(p['ops'], p['parts'])):
        def V(rule, detail):
            bad.append({'rule': rule, 'step': i, 'detail': detail})
        if prev is not None and prev[3] in (0, 1, 2) and cfg['validate_in'] and op[0] == 'Receive' and len(op[1]) == 1:
            rf = op[1][0][0]
            if rf[0] in ('Headers', 'PushPromise') and rf[-1][0] == 'Decoded':
                hs = [(bytes(n), bytes(v)) for n, v, _ in rf[-1][1]]
                kind = kind_of(prev, client, rf)
                if parts[0][0] == 0:
                    # how the library itself classified the block (a client treats HEADERS on a never-promised even stream as a request: F-C07-1, judged there)
                    for ev in parts[0][1]:
                        if ev[0] in (1, 2, 3, 4) and ev[1] == rf[1] and rf[0] == 'Headers':
                            kind = {1: 'Request', 2: 'Response', 4: 'Response', 3: 'Trailers'}[ev[0]]
                delivered, joined = hdrspec.join_cookies(hs) if cfg['normalize_in'] else (hs, False)
                ok_spec = hdrspec.conformant(kind, delivered)
                decodable = not cfg['header_encoding'] or all(max(n + v, default=0) < 128 for n, v in delivered)
                if parts[0][0] == 2:
                    V('receive_data raised a non-protocol exception for a header block', {'outcome': parts[0]})
                elif not ok_spec or not decodable:
                    # "delivered" = a header-carrying event for that stream came out (a block answered with RST_STREAM or ignored was not delivered)
                    if parts[0][0] == 0 and any(ev[0] in (1, 2, 3, 4, 12) and (ev[1] == rf[1] or (ev[0] == 12 and ev[2] == rf[1])) for ev in parts[0][1]):
                        V('a header block that violates RFC 7540 8.1.2 was delivered', {'kind': kind, 'headers': [[n.decode('latin1'), v.decode('latin1')] for n, v in hs]})
                    elif _conn.err_name(parts) != 'ProtocolError' or parts[0][2] != 1:
                        # other ProtocolError subclasses come from rules outside 8.1.2 (stream state, content-length ...): not judged here
                        pass
                else:
                    if parts[0][0] == 1 and _conn.err_name(parts) == 'ProtocolError':
                        # a conformant block may still be refused by the stream state machine, the message grammar (1xx after final, trailers without END_STREAM),
                        # content-length, MAX_CONCURRENT_STREAMS ...: only judged when the state leaves no such reason
                        fresh = not any(e[0] == rf[1] for e in prev[8]) and not any(s == rf[1] for s, cb in prev[4][1])
                        if rf[0] == 'Headers' and not client and fresh and rf[1] % 2 == 1 and rf[1] > prev[5][0] and not rf[3] \
                                and hdrspec.value_of(b'content-length', hs) is None and len(prev[8]) < 50:
                            V('a header block that satisfies RFC 7540 8.1.2 was refused', {'kind': kind, 'headers': [[n.decode('latin1'), v.decode('latin1')] for n, v in hs]})
                    elif parts[0][0] == 0:
                        for ev in parts[0][1]:
                            if ev[0] in (1, 2, 3, 4) and ev[1] == rf[1]:
                                got = [(bytes(h[0]), bytes(h[1])) for h in ev[2]]
                                if got != delivered:
                                    V('the delivered headers differ from the decoded block (cookie fields joined when normalisation is on)', {'delivered': str(got)[:300], 'expected': str(delivered)[:300]})
                                if joined and ev[2] and not ev[2][-1][2]:
                                    V('the joined cookie field is not marked never-indexed', {})
        prev = parts
    return bad


def scenarios(run):
    out = []
    rnd = random.Random(run.seed + 15)
    RX = lambda *fs: ('Receive', [(f, None, {}) for f in fs])
    n = 220 if run.tier == 'quick' else 6000
    for i in range(n):
        client = rnd.random() < 0.5
        cfg = t2.default_cfg(client, validate_in=rnd.random() < 0.9, normalize_in=rnd.random() < 0.6, header_encoding=rnd.random() < 0.3)
        pos = rnd.choice(['first', 'first', 'trailers', 'info', 'push'] if client else ['first', 'first', 'first', 'trailers'])
        H = lambda hs: [(a, b, False) for a, b in hs]
        if not client:
            if pos == 'first':
                ops = [('Initiate',), RX(('Settings', False, [])), RX(('Headers', 1, rnd.random() < 0.3, None, ('Decoded', H(hdrspec.gen_list(rnd, 'Request')))))]
            else:
                ops = [('Initiate',), RX(('Settings', False, [])), RX(('Headers', 1, False, None, ('Decoded', t2.REQ))),
                       RX(('Headers', 1, True, None, ('Decoded', H(hdrspec.gen_list(rnd, 'Trailers')))))]
        else:
            pre = [('Initiate',), RX(('Settings', False, [])), ('SendHeaders', 1, t2.REQ, 0, False, None, None, None)]
            if pos == 'first':
                ops = pre + [RX(('Headers', 1, rnd.random() < 0.3, None, ('Decoded', H(hdrspec.gen_list(rnd, 'Response')))))]
            elif pos == 'info':
                hs = hdrspec.gen_list(rnd, 'Response')
                hs = [(a, b'103') if a == b':status' else (a, b) for a, b in hs]
                ops = pre + [RX(('Headers', 1, False, None, ('Decoded', H(hs)))), RX(('Headers', 1, False, None, ('Decoded', t2.RESP)))]
            elif pos == 'trailers':
                ops = pre + [RX(('Headers', 1, False, None, ('Decoded', t2.RESP))), RX(('Headers', 1, True, None, ('Decoded', H(hdrspec.gen_list(rnd, 'Trailers')))))]
            else:
                ops = pre + [RX(('PushPromise', 1, 2, ('Decoded', H(hdrspec.gen_list(rnd, 'Request')))))]
        out.append((cfg, ops))
    return out


def extra_stage(run):
    n, dis = hdrspec.spec_agreement(run.seed, 1200 if run.tier == 'quick' else 20000)
    if dis:
        run.breaks.append({'kind': 'correspondence', 'what': 'harness/hdrspec.py (the runtime oracle) against coq/Spec/Rfc812.v', 'first': dis[0], 'n': len(dis)})
    return {'oracle_vs_coq_spec_lists': n, 'oracle_vs_coq_spec_disagreements': len(dis)}


SPEC = dict(parts=PARTS, weights=WEIGHTS, rf_weights=RF, n_quick=120, n_thorough=3000, n_ops=24, oracle=oracle, scenarios=scenarios, extra_stage=extra_stage,
            nontrivial=lambda p: any(op[0] == 'Receive' and any(e[0][0] in ('Headers', 'PushPromise') for e in op[1]) for op in p['ops']),
            rule='header lists from a grammar over an adversarial alphabet (empty / upper-case / whitespace-wrapped names and values, every connection-specific field, te values, all '
                 'pseudo-headers duplicated / misplaced / unknown / missing, :authority and Host in all combinations, empty :path, :protocol with and without CONNECT, cookies, non-ASCII) '
                 'received as request, response, informational, trailer and pushed-request blocks under random validate / normalise / header_encoding configurations; compared with the '
                 'model (events carry the delivered lists) and judged by the whole-list predicate of Spec/Rfc812.v (transliterated in harness/hdrspec.py and cross-checked against the '
                 'Coq text on thousands of lists every run); non-trivial = a header block was received',
            extra_obligations=1)


def check(run):
    return _conn.conn_check(run, SPEC)


def replay(run, path):
    return _conn.conn_replay(run, path, oracle)
