"""C22 — Server push rules are enforced on both ends."""
from harness import t2
from harness.props import _conn

PARTS = [0, 1, 3, 4, 5, 8, 11, 12]   # result, output, conn state, tables, ids, stream FSMs, local / remote settings
WEIGHTS = dict(send_headers=12, send_data=1, end_stream=3, increment=0.3, push=30, ping=0.2, reset=3, close=0.1,
               update_settings=6, altsvc=0.2, prioritize=0.3, ack=0.3, probe=0.3, drain=3, receive=40)
RF = dict(headers=25, push=30, data=4, settings=14, window_update=2, ping=0.3, rst=4, priority=1, goaway=0.1,
          continuation=0.5, altsvc=0.3, unknown=0.3, bad=0.3)


def cur(settings_part, key, default):
    for k, q in settings_part:
        if k == key:
            v = q[0]
            return default if v == [] else v[0]
    return default


def oracle(p):
    client = p['cfg']['client']
    bad = []
    prev = None
    for i, (op, parts) in enumerate(zip(p['ops'], p['parts'])):
        okk = _conn.ok(parts)

        def V(rule, detail):
            bad.append({'rule': rule, 'step': i, 'detail': detail})
        if prev is not None and prev[3] in (1, 2):
            if op[0] == 'PushStream':
                sid, promised, hs = op[1], op[2], op[3]
                ps = next((e for e in prev[8] if e[0] == sid), None)
                conds = {'server': not client, 'peer_allows_push': cur(prev[12], 2, 1) != 0, 'parent_client_initiated': sid % 2 == 1,
                         'parent_open_or_half_closed_remote': ps is not None and ps[1] in (3, 4),
                         'promised_even_and_new': promised % 2 == 0 and promised > prev[5][1] and 0 < promised < 2 ** 31}
                if okk and not all(conds.values()):
                    V('push_stream succeeded although a push rule is violated', {'conditions': conds, 'parent': sid, 'promised': promised})
                valid_req = [tuple(h) for h in hs] == [tuple(h) for h in t2.REQ]
                if not okk and all(conds.values()) and valid_req and _conn.err_name(parts) not in ('TooManyStreamsError',):
                    V('push_stream was refused although every push rule is satisfied',
                      {'parent': sid, 'promised': promised, 'outcome': parts[0], 'conn_state': prev[3]})
            if op[0] == 'Receive' and len(op[1]) == 1 and op[1][0][0][0] == 'PushPromise' and op[1][0][0][3][0] == 'Decoded':
                rf = op[1][0][0]
                if client and cur(prev[11], 2, 1) == 0 and not (parts[0][0] == 1):
                    V('a client with push disabled accepted a PUSH_PROMISE', {'parent': rf[1], 'promised': rf[2]})
                if not client and parts[0][0] != 1:
                    V('a server accepted a PUSH_PROMISE', {'parent': rf[1]})
                if okk:
                    for ev in parts[0][1]:
                        if ev[0] == 12 and (ev[1] != rf[2] or ev[2] != rf[1]):
                            V('PushedStreamReceived carries the wrong ids', {'event': ev[:3], 'frame': [rf[1], rf[2]]})
                    if rf[1] % 2 == 0 and any(ev[0] == 12 for ev in parts[0][1]):
                        V('a push on a pushed stream was accepted', {'parent': rf[1]})
        prev = parts
    return bad


def scenarios(run):
    out = []
    RX = lambda *fs: ('Receive', [(f, None, {}) for f in fs])
    for client in (True, False):
        cfg = t2.default_cfg(client)
        z = list(t2.zoo(client))
        for sid in (1, 3, 5, 7, 9, 11, 2, 4, 13):
            for promised in (20, 2, 21, 0):
                if client:
                    out.append((cfg, z + [RX(('PushPromise', sid, promised, ('Decoded', t2.REQ))), RX(('Headers', promised, False, None, ('Decoded', t2.RESP))),
                                          RX(('PushPromise', promised, 40, ('Decoded', t2.REQ)))]))
                else:
                    out.append((cfg, z + [('PushStream', sid, promised, t2.REQ, 0), ('SendHeaders', promised, t2.RESP, 0, False, None, None, None),
                                          ('PushStream', promised, 40, t2.REQ, 0)]))
        if client:
            # push disabled and acknowledged: a PUSH_PROMISE on every kind of stream (reset and forgotten ones included) is a connection error
            for sid in (1, 3, 5, 7, 9, 2, 13, 40):
                out.append((cfg, z + [('UpdateSettings', [(2, 0)]), RX(('Settings', True, [])), ('OpenOutbound',), RX(('PushPromise', sid, 20, ('Decoded', t2.REQ)))]))
            out.append((cfg, z + [('UpdateSettings', [(2, 0)]), RX(('PushPromise', 1, 20, ('Decoded', t2.REQ)))]))                         # disabled, not yet acknowledged
            out.append((cfg, z + [('UpdateSettings', [(2, 0)]), RX(('Settings', True, [])), RX(('PushPromise', 1, 20, ('Decoded', t2.REQ)))]))
        else:
            # fixed 1fed9f8: an ALTSVC frame from the client before its first request must not disable push
            out.append((cfg, [('Initiate',), RX(('AltSvc', 0, b'example.com', b'h2=":443"')), RX(('Headers', 1, False, None, ('Decoded', t2.REQ))),
                              ('PushStream', 1, 2, t2.REQ, 0)]))
            # fixed 12650a7 (was F-C22-1): the server application tries to send HEADERS on a fresh even stream before the first request
            out.append((cfg, [('Initiate',), ('SendHeaders', 2, t2.RESP, 0, False, None, None, None), RX(('Headers', 3, False, None, ('Decoded', t2.REQ))),
                              ('PushStream', 3, 6, t2.REQ, 0)]))
            out.append((cfg, z + [RX(('Settings', False, [(2, 0)])), ('PushStream', 1, 20, t2.REQ, 0), RX(('Settings', False, [(2, 1)])), ('PushStream', 1, 20, t2.REQ, 0)]))
            out.append((cfg, z + [('PushStream', 1, 20, t2.BAD[0], 0), ('PushStream', 1, 20, t2.RESP, 0), ('PushStream', 1, 22, t2.REQ, 0), ('PushStream', 1, 20, t2.REQ, 0)]))
    return out


SPEC = dict(parts=PARTS, weights=WEIGHTS, rf_weights=RF, n_quick=200, n_thorough=5000, n_ops=30, oracle=oracle, scenarios=scenarios,
            nontrivial=lambda p: any(op[0] == 'PushStream' or (op[0] == 'Receive' and any(e[0][0] == 'PushPromise' for e in op[1])) for op in p['ops']),
            rule='push-heavy programs: push_stream on parents in every state (zoo) with promised ids new / used / odd / zero, ENABLE_PUSH toggled by either side with and without '
                 'acknowledgement, PUSH_PROMISE received on every kind of stream, pushes on pushed streams on both ends; compared with the model and judged by the push rules '
                 '(succeeds exactly when: server, peer allows push, client-initiated parent open / half-closed remote, promised even and new, valid request headers); '
                 'non-trivial = at least one push operation')


def check(run):
    return _conn.conn_check(run, SPEC)


def replay(run, path):
    return _conn.conn_replay(run, path, oracle)
