"""C08 — The library refuses to emit messages that violate HTTP/2 message rules."""
from harness import common, t2
from harness.props import _conn

PARTS = [0, 1, 3, 4, 8]     # result, output, connection state, stream tables, stream state machines (emitted header contents: C13 / C14)
WEIGHTS = dict(send_headers=30, send_data=12, end_stream=8, increment=1, push=8, ping=0.2, reset=2, close=0.1,
               update_settings=0.5, altsvc=5, prioritize=4, ack=0.5, probe=0.5, drain=3, receive=25)
RF = dict(headers=40, push=6, data=10, settings=3, window_update=5, ping=0.3, rst=4, priority=2, goaway=0.1,
          continuation=0.5, altsvc=1, unknown=0.5, bad=0.3)

FINDINGS = {
    'F-C08-1': 'a server opens a stream with send_headers (an even, never-promised stream id is accepted and HEADERS emitted)',
    'F-C08-2': 'DATA or END_STREAM is emitted before any response headers on a stream the peer opened',
    'F-C08-3': 'a client-side connection that has not opened a stream yet emits ALTSVC (advertise_alternative_service accepted in state IDLE)',
    'F-C08-4': 'a 1xx header list spelled with an upper-case or padded pseudo-header name is not recognised as informational (the test runs before normalisation): it is emitted as a final header block, END_STREAM included',
}


def is_info(hs):
    for n, v, _ in hs:
        if bytes(n).lower().strip() == b':status':
            return bytes(v).strip()[:1] == b'1'
    return False


def is_info_as_given(hs):
    """what the library sees before normalisation"""
    for n, v, _ in hs:
        if bytes(n)[:1] != b':':
            return False
        if bytes(n) == b':status':
            return bytes(v)[:1] == b'1'
    return False


def oracle(p):
    client = p['cfg']['client']
    bad = []
    st = {}          # sid -> phase of OUR message: start / info / final / data / trailers ; ended
    known = set()    # streams that exist (opened by the peer, by us, or promised)
    prev = None
    for i, (op, parts) in enumerate(zip(p['ops'], p['parts'])):
        okk = _conn.ok(parts)

        def V(rule, detail):
            bad.append({'rule': rule, 'step': i, 'detail': detail})
        if prev is not None:
            known |= {e[0] for e in prev[8]} | {s for s, cb in prev[4][1]}
        k = op[0]
        if okk and k == 'SendHeaders':
            sid, hs, es = op[1], op[2], op[4]
            s = st.setdefault(sid, {'phase': 'start', 'ended': False})
            info = (not client) and is_info(hs)
            new = sid not in known
            if new and not client:
                V(FINDINGS['F-C08-1'], {'stream': sid})
            # (the content of the block is checked only when the application left outbound validation on: C14)
            if new and client and p['cfg']['validate_out'] and not any(bytes(n).lower().strip() == b':method' for n, v, _ in hs):
                V('a client opened a stream with a header block that is not a request', {'stream': sid})
            if s['ended']:
                V('headers emitted after the stream was ended locally', {'stream': sid})
            if info and not is_info_as_given(hs):
                V(FINDINGS['F-C08-4'], {'stream': sid, 'end_stream': es})
                info = False
            if info:
                if s['phase'] not in ('start', 'info'):
                    V('an informational response emitted after the final response', {'stream': sid})
                if es:
                    V('an informational response emitted with END_STREAM', {'stream': sid})
                s['phase'] = 'info' if s['phase'] in ('start', 'info') else s['phase']
            elif s['phase'] in ('start', 'info'):
                s['phase'] = 'final'
            elif s['phase'] in ('final', 'data'):
                if not es:
                    V('trailers emitted without END_STREAM', {'stream': sid})
                s['phase'] = 'trailers'
            else:
                V('headers emitted after trailers', {'stream': sid})
            if es:
                s['ended'] = True
        elif okk and k in ('SendData', 'EndStream'):
            sid = op[1]
            s = st.setdefault(sid, {'phase': 'start', 'ended': False})
            if s['ended']:
                V('DATA / END_STREAM emitted after the stream was ended locally', {'stream': sid})
            if s['phase'] in ('start', 'info'):
                V(FINDINGS['F-C08-2'], {'stream': sid, 'op': k})
            elif s['phase'] == 'trailers':
                V('DATA emitted after trailers', {'stream': sid})
            else:
                s['phase'] = 'data'
            if k == 'EndStream' or (k == 'SendData' and op[3]):
                s['ended'] = True
        elif okk and k == 'PushStream':
            if client:
                V('a client emitted PUSH_PROMISE', {'stream': op[1]})
            st[op[2]] = {'phase': 'start', 'ended': False}
            known.add(op[2])
        elif okk and k == 'Prioritize' and not client:
            V('a server emitted PRIORITY', {'stream': op[1]})
        elif okk and k == 'AdvertiseAltSvc' and client:
            # (after the first one the state machine is SERVER_OPEN: same root cause)
            V(FINDINGS['F-C08-3'] if (prev is None or prev[3] in (0, 2)) else 'a client emitted ALTSVC', {})
        prev = parts
    return bad


def finding_of(v):
    for fid, rule in FINDINGS.items():
        if v['rule'] == rule:
            return fid
    return None


def scenarios(run):
    out = []
    RX = lambda *fs: ('Receive', [(f, None, {}) for f in fs])
    H = lambda sid, hs, es=False: ('SendHeaders', sid, hs, 0, es, None, None, None)
    T = [(b'x-trailer', b'1', False)]
    for client in (True, False):
        cfg = t2.default_cfg(client)
        z = list(t2.zoo(client))
        mine = t2.REQ if client else t2.RESP
        for sid in (1, 3, 11, 2, 4, 13, 6, 15):
            out.append((cfg, z + [('SendData', sid, 1, False, None), ('EndStream', sid), H(sid, mine), H(sid, t2.INFO), H(sid, T), H(sid, T, True), H(sid, T, True),
                                  ('SendData', sid, 1, False, None)]))
            out.append((cfg, z + [H(sid, t2.INFO), H(sid, t2.INFO, True), H(sid, mine), H(sid, t2.INFO), ('SendData', sid, 1, True, None), H(sid, T, True)]))
            out.append((cfg, z + [('PushStream', sid, 20, t2.REQ, 0), H(20, t2.RESP), ('Prioritize', sid, 5, 0, False), ('AdvertiseAltSvc', b'h2=":443"', None, sid)]))
        # header blocks the validation refuses, placed at every point of the message, followed by blocks that must stay refused
        BADT = [(b'x-checksum', b'abc', False), (b'te', b'gzip', False)]
        for sid in (1, 11, 4):
            out.append((cfg, z + [H(sid, mine), ('SendData', sid, 1, False, None), H(sid, BADT, True), H(sid, t2.INFO), H(sid, mine, True), H(sid, T, True)]))
            out.append((cfg, z + [H(sid, BADT), H(sid, mine), H(sid, BADT, True), H(sid, mine), ('SendData', sid, 1, False, None)]))
            out.append((cfg, z + [H(sid, t2.INFO), H(sid, BADT), H(sid, t2.INFO), H(sid, mine), H(sid, t2.BAD[3]), H(sid, mine)]))
        out.append((cfg, [('Initiate',), ('AdvertiseAltSvc', b'h2=":443"', b'example.com', None), H(1, t2.REQ), ('PushStream', 1, 2, t2.REQ, 0)]))
        out.append((cfg, [('Initiate',), RX(('Settings', False, [])), H(1, t2.RESP), H(2, t2.REQ), H(2, t2.RESP), H(1, t2.REQ), ('AdvertiseAltSvc', b'h2=":443"', b'example.com', None)]))
    return out


SPEC = dict(parts=PARTS, weights=WEIGHTS, rf_weights=RF, n_quick=250, n_thorough=6000, n_ops=30, oracle=oracle, finding_of=finding_of,
            scenarios=scenarios,
            nontrivial=lambda p: sum(1 for op, parts in zip(p['ops'], p['parts']) if op[0] in ('SendHeaders', 'SendData', 'EndStream', 'PushStream') and parts[0][0] == 0) >= 3,
            rule='send-heavy programs (send_headers with request / response / 1xx / trailer blocks with and without END_STREAM, send_data, end_stream, push_stream, prioritize, '
                 'advertise_alternative_service in any order on new, inbound, pushed and closed streams, clients and servers) compared with the model on result, output and '
                 'stream state machines, and judged by a per-stream monitor of what the application was allowed to emit; non-trivial = at least three accepted send operations',
            extra_obligations=2)


def check(run):
    with common.Lock():
        common.build(['Properties/C08_refuted.vo'])
    return _conn.conn_check(run, SPEC)


def replay(run, path):
    return _conn.conn_replay(run, path, oracle)
