"""C17 — Arbitrary peer bytes never produce a non-protocol exception."""
import json

from harness import bytefuzz, fb_corr, t2
from harness.props import _conn

PARTS = [0, 3]         # result (events / exception), connection state
WEIGHTS = dict(send_headers=8, send_data=2, end_stream=2, increment=0.5, push=1, ping=0.5, reset=2, close=0.3,
               update_settings=2, altsvc=0.3, prioritize=0.3, ack=0.5, probe=0.5, drain=2, receive=70)
RF = dict(headers=30, push=4, data=10, settings=6, window_update=5, ping=2, rst=4, priority=4, goaway=0.5,
          continuation=4, altsvc=2, unknown=4, bad=12)


def oracle(p):
    from harness.impl_driver import PYEXN
    bad = []
    for i, (op, parts) in enumerate(zip(p['ops'], p['parts'])):
        if op[0] == 'Receive' and parts[0][0] == 2:
            name = PYEXN[parts[0][1]] if parts[0][1] < len(PYEXN) else 'other'
            bad.append({'rule': 'receive_data raised %s, which is not a ProtocolError' % name, 'step': i, 'detail': parts[0]})
    return bad


def extra_stage(run):
    cov = fb_corr.stage(run, 25 if run.tier == 'quick' else 400, 'exceptions')
    n = 40000 if run.tier == 'quick' else 1500000
    stats, fails = bytefuzz.fuzz(run.seed, n)
    cov['byte_fuzz'] = stats
    cov['byte_fuzz_failures'] = len(fails)
    if fails:
        f = min(fails.values(), key=lambda x: sum(len(c) for c in x['chunks']))
        f = bytefuzz.shrink(f)
        run.violation({'kind': 'oracle', 'rule': 'receive_data raised %s, which is not a ProtocolError' % f['exception'], 'byte_case': f,
                       'distinct_failures': sorted(fails)[:10], 'how_to_replay': './check C17 --replay <this file>'})
    return cov


SPEC = dict(parts=PARTS, weights=WEIGHTS, rf_weights=RF, n_quick=200, n_thorough=5000, n_ops=26, oracle=oracle, extra_stage=extra_stage,
            nontrivial=lambda p: any(op[0] == 'Receive' and parts[0][0] == 1 for op, parts in zip(p['ops'], p['parts'])),
            rule='(a) programs heavy in malformed frames (bad padding, wrong lengths, wrong stream association, oversized, bad header lists: empty names, '
                 'non-UTF-8 bytes under header_encoding, upper case, whitespace, pseudo-header misuse; undecodable HPACK; CONTINUATION out of place) under random '
                 'client/server and validation / normalisation / header_encoding configurations, compared with the model on result and connection state, and judged '
                 'by the oracle "a Receive never ends in a Python exception"; (b) byte-level fuzzing of the real H2Connection.receive_data: plausible conversations '
                 'with deviant frames, arbitrary HPACK bytes, byte mutation, random bytes, random chunking, feeding continued after the connection died; '
                 '(c) the frame-buffer model against the real FrameBuffer incl. floods of up to 1200 CONTINUATION frames (recursion depth); '
                 'non-trivial = at least one receive_data call raised a ProtocolError',
            extra_obligations=2)


def check(run):
    return _conn.conn_check(run, SPEC)


def replay(run, path):
    obj = json.load(open(path))
    if 'byte_case' in obj:
        f = obj['byte_case']
        r = bytefuzz.run_case(f['cfg'], f['pre'], [bytes(c) for c in f['chunks']])
        if r is not None:
            run.violation(obj)
        return run.finish('proof', {'replayed': path, 'still_fails': r is not None})
    if 'framebuffer_case' in obj:
        bad = fb_corr.replay_case('exceptions', obj['framebuffer_case'])
        if bad:
            run.violation(obj)
        return run.finish('proof', {'replayed': path, 'still_fails': bool(bad)})
    return _conn.conn_replay(run, path, oracle)
