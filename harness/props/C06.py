"""C06 — Stream lifecycle follows the RFC 7540 section 5.1 state machine."""
import re

from harness import common, fsm_corr, t2
from harness.props import _conn

PARTS = [0, 1, 3, 4, 8]      # result, output, connection state, stream tables, stream state machines
WEIGHTS = dict(send_headers=10, send_data=5, end_stream=5, increment=3, push=4, ping=0.2, reset=5, close=0.1,
               update_settings=0.3, altsvc=2, prioritize=0.3, ack=0.5, probe=1, drain=3, receive=55)
RF = dict(headers=30, push=6, data=18, settings=1, window_update=10, ping=0.3, rst=10, priority=2, goaway=0.1,
          continuation=2, altsvc=3, unknown=0.5, bad=0.3)

INPUTS = ['SEND_HEADERS', 'SEND_PUSH_PROMISE', 'SEND_RST_STREAM', 'SEND_DATA', 'SEND_WINDOW_UPDATE', 'SEND_END_STREAM', 'RECV_HEADERS',
          'RECV_PUSH_PROMISE', 'RECV_RST_STREAM', 'RECV_DATA', 'RECV_WINDOW_UPDATE', 'RECV_END_STREAM', 'RECV_CONTINUATION',
          'SEND_INFORMATIONAL_HEADERS', 'RECV_INFORMATIONAL_HEADERS', 'SEND_ALTERNATIVE_SERVICE', 'RECV_ALTERNATIVE_SERVICE',
          'UPGRADE_CLIENT', 'UPGRADE_SERVER']
_RFC = {}

FINDINGS = {
    'F-C06-1': 'DATA on a reserved stream is answered with RST_STREAM(STREAM_CLOSED) instead of a connection error PROTOCOL_ERROR',
    'F-C06-2': 'WINDOW_UPDATE on a reserved (remote) stream is accepted instead of being a connection error PROTOCOL_ERROR',
    'F-C06-3': 'increment_flow_control_window on a reserved (local) stream is permitted (WINDOW_UPDATE emitted)',
    'F-C06-4': 'PUSH_PROMISE on a closed stream is a connection error PROTOCOL_ERROR instead of STREAM_CLOSED',
    'F-C06-5': '1xx HEADERS on a half-closed (remote) stream are a connection error PROTOCOL_ERROR instead of a stream error STREAM_CLOSED',
}


def rfc_table():
    """the reference machine, evaluated in Coq (single source: Spec/Rfc51.v) -> {(state, cb, input): ('accept', s) | ('refuse',) | ...}"""
    if _RFC:
        return _RFC
    text = ('From H2 Require Import Base.Prelude Model.FsmTypes Model.StreamFSM Spec.Rfc51 Proofs.C06Proofs.\n'
            'Definition rc (r : reaction) : list Z := match r with Accept s => [0; sstate_code s] | Refuse => [1; 0] | StreamError c => [2; c] '
            '| ConnError c => [3; c] | Ignore => [4; 0] | Neutral => [5; 0] end.\n'
            'Eval vm_compute in flat_map (fun s => flat_map (fun cb => map (fun i => [sstate_code s; cb_code cb; icode i] ++ rc (rfc s cb i)) all_sinput) all_cb) all_sstate.\n'
            'Eval vm_compute in divergences.\n')
    s = ' '.join(common.coq_eval('C06_rfc', text).split())
    parts = s.split('= [')
    rows = [[int(x) for x in inner.replace('(', '').replace(')', '').split(';')] for inner in re.findall(r'\[([^\[\]]+)\]', parts[1])]
    for st, cb, i, k, a in rows:
        _RFC[(st, cb, i)] = (k, a)
    div = [[int(x) for x in inner.replace('(', '').replace(')', '').split(';')] for inner in re.findall(r'\[([^\[\]]+)\]', parts[2])]
    _RFC['div'] = {(a, b, c): d for a, b, c, d in div}
    return _RFC


def pre_state(prev, sid):
    for e in prev[8]:
        if e[0] == sid:
            return e[1], e[7]
    for s, cb in prev[4][1]:
        if s == sid:
            return 6, cb
    return None


def is_info(rf, client):
    if rf[0] != 'Headers' or rf[4][0] != 'Decoded' or not client:
        return False
    for n, v, _ in rf[4][1]:
        if bytes(n) == b':status':
            return bytes(v)[:1] == b'1'
    return False


def oracle(p):
    T = rfc_table()
    bad = []
    frames = _conn.new_frames(p)
    client = p['cfg']['client']
    prev = None
    for i, (op, parts) in enumerate(zip(p['ops'], p['parts'])):
        if prev is not None and prev[3] in (1, 2):
            inp = sid = None
            if op[0] == 'Receive' and len(op[1]) == 1:
                rf = op[1][0][0]
                k = rf[0]
                if k == 'Headers' and rf[4][0] == 'Decoded' and rf[3] is None:
                    sid, inp = rf[1], 14 if is_info(rf, client) else 6
                elif k == 'Data' and rf[2] == rf[3]:
                    sid, inp = rf[1], 9
                elif k == 'RstStream':
                    sid, inp = rf[1], 8
                elif k == 'WindowUpdate' and rf[1] != 0:
                    sid, inp = rf[1], 10
                elif k == 'PushPromise' and rf[3][0] == 'Decoded':
                    sid, inp = rf[1], 7
            elif op[0] == 'IncrementWindow' and op[2] is not None and 1 <= op[1] <= 2 ** 31 - 1:
                sid, inp = op[2], 4
            if inp is not None:
                ps = pre_state(prev, sid)
                if ps is not None:
                    st, cb = ps
                    if st != 6:
                        cb = 0
                    if not (st == 6 and cb == 0):
                        want = T[(st, cb, inp)]
                        cat = T['div'].get((st, cb, inp))
                        rst = [fr for fr in frames[i] if fr[0] == 3 and fr[1] == sid]
                        if _conn.ok(parts):
                            got = ('stream', rst[0][2]) if rst else ('accept',)
                        elif parts[0][0] == 1:
                            got = ('conn', parts[0][2])
                        else:
                            got = ('crash',)
                        okk = True
                        if want[0] == 0:
                            okk = got == ('accept',) or got == (('refuse',) if inp == 4 else ('conn', 1)) or (inp == 4 and got[0] == 'conn') \
                                or got in (('conn', 3), ('conn', 6))        # flow-control / frame-size violations are judged by C03 / C04 / C18
                        elif want[0] == 1:
                            okk = got[0] == 'conn' and inp == 4
                        elif want[0] == 2:
                            okk = got == ('stream', want[1])
                        elif want[0] == 3:
                            okk = got == ('conn', want[1])
                        elif want[0] == 4:
                            okk = got == ('accept',)
                        if cat in (1, 2):
                            okk = True
                        if op[0] == 'Receive' and (got == ('conn', 6) or (got == ('conn', 3) and k == 'Data')
                                                   or (got == ('stream', 3) and k == 'WindowUpdate' and want[0] in (0, 4))):
                            okk = True
                        if op[0] == 'Receive' and k == 'PushPromise' and got == ('conn', 1) and (not client or rf[2] % 2 == 1 or rf[2] <= 0):
                            okk = True      # PUSH_PROMISE received by a server (8.2), or promising an id a server cannot use (5.1.1): PROTOCOL_ERROR whatever the state      # a frame above MAX_FRAME_SIZE / DATA beyond the connection window: judged by C18 / C04, whatever the stream state
                        if not okk:
                            rule = None
                            if cat == 3:
                                # a known finding is this exact reaction; any other reaction is a new violation
                                if inp == 9 and st in (1, 2) and got == ('stream', 5):
                                    rule = FINDINGS['F-C06-1']
                                elif inp == 10 and st == 1 and got == ('accept',):
                                    rule = FINDINGS['F-C06-2']
                                elif inp == 4 and st == 2 and got == ('accept',):
                                    rule = FINDINGS['F-C06-3']
                                elif inp == 7 and st == 6 and got == ('conn', 1):
                                    rule = FINDINGS['F-C06-4']
                                elif inp == 14 and st == 4 and got == ('conn', 1):
                                    rule = FINDINGS['F-C06-5']
                            bad.append({'rule': rule or 'the reaction to %s in stream state %d (closed_by %d) is not the one RFC 7540 section 5.1 prescribes' % (INPUTS[inp], st, cb),
                                        'step': i, 'detail': {'stream': sid, 'state': st, 'closed_by': cb, 'input': INPUTS[inp], 'rfc': want, 'observed': got}})
        prev = parts
    return bad


def finding_of(v):
    for fid, rule in FINDINGS.items():
        if v['rule'] == rule:
            return fid
    return None


def scenarios(run):
    out = []
    RX = lambda *fs: ('Receive', [(f, None, {}) for f in fs])
    for client in (True, False):
        cfg = t2.default_cfg(client)
        hs = t2.RESP if client else t2.REQ
        sids = [1, 3, 5, 7, 9, 2, 4, 11]
        for sid in sids:
            fs = [('Headers', sid, False, None, ('Decoded', hs)), ('Headers', sid, True, None, ('Decoded', hs)),
                  ('Data', sid, 3, 3, False), ('Data', sid, 0, 0, True), ('RstStream', sid, 8), ('WindowUpdate', sid, 10)]
            if client:
                fs += [('Headers', sid, False, None, ('Decoded', t2.INFO)), ('PushPromise', sid, 20, ('Decoded', t2.REQ))]
            for f in fs:
                out.append((cfg, list(t2.zoo(client)) + [RX(f)]))
            for lo in (('IncrementWindow', 5, sid), ('SendData', sid, 1, False, None), ('EndStream', sid), ('ResetStream', sid, 8),
                       ('SendHeaders', sid, t2.RESP if not client else t2.REQ, 0, False, None, None, None)):
                out.append((cfg, list(t2.zoo(client)) + [lo]))
    # a client stream the server has ended while the client is still sending (half-closed remote), then late frames from the server
    cfg = t2.default_cfg(True)
    for f in (('Headers', 13, False, None, ('Decoded', t2.INFO)), ('Headers', 13, False, None, ('Decoded', t2.RESP)), ('Data', 13, 1, 1, False),
              ('WindowUpdate', 13, 5), ('RstStream', 13, 8)):
        out.append((cfg, list(t2.zoo(True)) + [('SendHeaders', 13, t2.REQ_POST, 0, False, None, None, None),
                                                RX(('Headers', 13, True, None, ('Decoded', t2.RESP))), RX(f)]))
    return out


def extra_stage(run):
    n, dis = fsm_corr.run()
    if dis:
        run.breaks.append({'kind': 'correspondence', 'what': 'Model/StreamFSM.v (process_input over Gen/Tables.v) against H2StreamStateMachine.process_input, exhaustive',
                           'first': dis[0], 'n_disagreements': len(dis)})
    return {'fsm_configurations_compared_exhaustively': n, 'fsm_disagreements': len(dis)}


SPEC = dict(parts=PARTS, weights=WEIGHTS, rf_weights=RF, n_quick=150, n_thorough=4000, n_ops=30, oracle=oracle, finding_of=finding_of,
            scenarios=scenarios, extra_stage=extra_stage,
            nontrivial=lambda p: len({e[1] for parts in p['parts'] for e in parts[8]}) >= 3,
            rule='(a) the complete configuration space of H2StreamStateMachine.process_input (31 920 state x input pairs) compared with the model exhaustively; '
                 '(b) directed programs: every stream of a hand-built zoo (open, half-closed local / remote, reserved local / remote, closed by END_STREAM / our RST / the '
                 'peer\'s RST, cleaned up) x every stream frame (HEADERS with / without END_STREAM, 1xx HEADERS, DATA, RST_STREAM, WINDOW_UPDATE, PUSH_PROMISE) and local action, '
                 'clients and servers; (c) random programs; all compared with the connection model and judged by the RFC table evaluated from Spec/Rfc51.v '
                 '(accept / RST_STREAM code / GOAWAY code); non-trivial = streams in at least three different states',
            extra_obligations=1)


def check(run):
    return _conn.conn_check(run, SPEC)


def replay(run, path):
    return _conn.conn_replay(run, path, oracle)
