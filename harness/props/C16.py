"""C16 — Content-Length is enforced as RFC 7540 section 8.1.2.6 requires."""
from harness import common, t2
from harness.props import _conn

PARTS = [0, 3, 8, 10]      # result, connection state, stream state machines, stream misc (expected / actual content length, method)
WEIGHTS = dict(send_headers=10, send_data=1, end_stream=2, increment=0.3, push=0.5, ping=0.2, reset=1, close=0.1,
               update_settings=0.3, altsvc=0.2, prioritize=0.2, ack=0.5, probe=0.5, drain=2, receive=75)
RF = dict(headers=35, push=2, data=45, settings=1, window_update=2, ping=0.3, rst=3, priority=1, goaway=0.1,
          continuation=0.5, altsvc=0.5, unknown=0.3, bad=0.3)

FINDINGS = {
    'F-C16-1': 'a message with END_STREAM on its HEADERS frame and a non-zero content-length is accepted (no DATA, total 0)',
    'F-C16-2': 'a message ended by trailers whose DATA payload total differs from content-length is accepted',
    'F-C16-3': 'a 204 / 304 response carrying content-length and ended by an empty DATA frame is rejected although it has no payload',
    'F-C16-4': 'a response to a HEAD request that carried trailers is held to its content-length (the request method was forgotten)',
    'F-C16-5': 'a 204 / 304 response carrying DATA payload is accepted (no-content statuses are not special-cased; only content-length is enforced)',
}


def hget(hs, name):
    for n, v, _ in hs:
        if bytes(n) == name:
            return bytes(v)
    return None


def parse_cl(v):
    try:
        return int(v.decode('ascii').strip())
    except Exception:
        return None


def oracle(p):
    client = p['cfg']['client']
    bad = []
    st = {}          # inbound message per stream: cl, total, nocontent, phase
    method = {}      # client: request method sent per stream; trailers_sent per stream
    sent_trailers = set()
    for i, (op, parts) in enumerate(zip(p['ops'], p['parts'])):
        okk = _conn.ok(parts)

        def V(rule, detail):
            bad.append({'rule': rule, 'step': i, 'detail': detail})
        if op[0] == 'SendHeaders' and okk and client:
            m = hget(op[2], b':method')
            if op[1] not in method:
                method[op[1]] = m
            else:
                sent_trailers.add(op[1])
        if op[0] != 'Receive' or len(op[1]) != 1:
            if op[0] == 'Receive' and not okk:
                st.clear()        # a connection error: later judgments are moot
            continue
        rf = op[1][0][0]
        k = rf[0]
        if k == 'Headers' and rf[4][0] == 'Decoded':
            sid, es, hs = rf[1], rf[2], rf[4][1]
            s = st.get(sid)
            status = hget(hs, b':status')
            if s is None or s.get('phase') == 'info':
                if client and status is not None and status[:1] == b'1':
                    if okk:
                        st[sid] = {'phase': 'info'}
                    continue
                cl = hget(hs, b'content-length')
                n = parse_cl(cl) if cl is not None else None
                nocontent = client and (method.get(sid) == b'HEAD' or (status in (b'204', b'304')))
                s = {'phase': 'body', 'status_nocontent': client and status in (b'204', b'304') and method.get(sid) != b'HEAD', 'cl': n, 'has_cl': cl is not None, 'total': 0, 'nocontent': nocontent, 'head_trailers': client and method.get(sid) == b'HEAD' and sid in sent_trailers}
                if okk:
                    st[sid] = s
                if okk and es and s['has_cl'] and n not in (None, 0) and not nocontent:
                    V(FINDINGS['F-C16-1'], {'stream': sid, 'content_length': n})
                if es:
                    st.pop(sid, None)
            elif s.get('phase') == 'body':
                # trailers
                if okk and es and s['has_cl'] and s['cl'] is not None and not s['nocontent'] and s['total'] != s['cl']:
                    V(FINDINGS['F-C16-2'], {'stream': sid, 'content_length': s['cl'], 'payload': s['total']})
                if es or not okk:
                    st.pop(sid, None)
        elif k == 'Data':
            sid, ln, fclen, es = rf[1], rf[2], rf[3], rf[4]
            s = st.get(sid)
            if s is None or s.get('phase') != 'body' or parts[0][0] == 2:
                continue
            rejected_len = parts[0][0] == 1 and _conn.err_name(parts) == 'InvalidBodyLengthError'
            other_err = parts[0][0] == 1 and not rejected_len
            if other_err:
                st.clear()
                continue
            tot = s['total'] + ln
            if s['nocontent']:
                want_reject = tot > 0
            elif s['has_cl'] and s['cl'] is not None:
                want_reject = tot > s['cl'] or (es and tot != s['cl'])
            else:
                want_reject = False
            if want_reject and not rejected_len and s.get('status_nocontent') and not (s['has_cl'] and s['cl'] is not None and (tot > s['cl'] or (es and tot != s['cl']))):
                V(FINDINGS['F-C16-5'], {'stream': sid, 'payload': tot})
            elif want_reject and not rejected_len and s['head_trailers'] and not (s['has_cl'] and s['cl'] is not None and (tot > s['cl'] or (es and tot != s['cl']))):
                V(FINDINGS['F-C16-4'], {'stream': sid, 'payload': tot})
            elif want_reject and not rejected_len:
                V('DATA making the payload total differ from content-length (or payload on a no-content response) was accepted',
                  {'stream': sid, 'content_length': s['cl'], 'payload': tot, 'end_stream': es, 'no_content': s['nocontent']})
            if rejected_len and not want_reject:
                if s['nocontent'] and tot == 0 and not s['head_trailers']:
                    V(FINDINGS['F-C16-3'], {'stream': sid, 'content_length': s['cl']})
                elif s['head_trailers'] and tot == 0:
                    V(FINDINGS['F-C16-4'], {'stream': sid, 'content_length': s['cl']})
                else:
                    V('DATA was rejected although the payload total is within / equal to content-length', {'stream': sid, 'content_length': s['cl'], 'payload': tot, 'end_stream': es})
            s['total'] = tot
            if es or rejected_len:
                st.clear() if rejected_len else st.pop(sid, None)
        elif k == 'RstStream':
            st.pop(rf[1], None)
    return bad


def finding_of(v):
    for fid, rule in FINDINGS.items():
        if v['rule'] == rule:
            return fid
    return None


def scenarios(run):
    out = []
    RX = lambda *fs: ('Receive', [(f, None, {}) for f in fs])
    H = lambda sid, hs, es=False: ('SendHeaders', sid, hs, 0, es, None, None, None)
    B = lambda *kv: [(k.encode(), v.encode(), False) for k, v in kv]
    T = [(b'x-t', b'1', False)]
    bodies = [[], [5], [2, 3], [6], [3], [0], [5, 0]]
    # servers: requests with content-length
    cfg = t2.default_cfg(False)
    for cl in (None, '0', '5', ' 5 ', '05'):
        for body in bodies:
            for end in ('headers', 'data', 'trailers', 'padded'):
                hs = B((':method', 'POST'), (':path', '/'), (':scheme', 'https'), (':authority', 'a')) + (B(('content-length', cl)) if cl is not None else [])
                ops = [('Initiate',), RX(('Settings', False, []))]
                if end == 'headers':
                    if body:
                        continue
                    ops.append(RX(('Headers', 1, True, None, ('Decoded', hs))))
                else:
                    ops.append(RX(('Headers', 1, False, None, ('Decoded', hs))))
                    for j, b in enumerate(body):
                        last = j == len(body) - 1
                        ops.append(RX(('Data', 1, b, b + (4 if end == 'padded' else 0), last and end in ('data', 'padded'))))
                    if end == 'trailers':
                        ops.append(RX(('Headers', 1, True, None, ('Decoded', T))))
                    elif not body:
                        ops.append(RX(('Data', 1, 0, 0, True)))
                out.append((cfg, ops))
    # clients: responses by request method and status
    cfg = t2.default_cfg(True)
    for meth in ('GET', 'HEAD'):
        for req_trailers in (False, True):
            for status in ('200', '204', '304'):
                for cl in (None, '0', '10'):
                    for body in ([], [0], [10], [3]):
                        for end in ('headers', 'data', 'trailers'):
                            req = B((':method', meth), (':path', '/'), (':scheme', 'https'), (':authority', 'a'))
                            ops = [('Initiate',), RX(('Settings', False, [])), H(1, req, False)]
                            if req_trailers:
                                ops.append(H(1, T, True))
                            resp = B((':status', status)) + (B(('content-length', cl)) if cl is not None else [])
                            if end == 'headers':
                                if body:
                                    continue
                                ops.append(RX(('Headers', 1, True, None, ('Decoded', resp))))
                            else:
                                ops.append(RX(('Headers', 1, False, None, ('Decoded', t2.INFO))))
                                ops.append(RX(('Headers', 1, False, None, ('Decoded', resp))))
                                for j, b in enumerate(body):
                                    ops.append(RX(('Data', 1, b, b, j == len(body) - 1 and end == 'data')))
                                if end == 'trailers':
                                    ops.append(RX(('Headers', 1, True, None, ('Decoded', T))))
                                elif not body:
                                    continue
                            out.append((cfg, ops))
    # a content-length field in a 1xx block or in trailers must not influence the check of the final message
    for icl in (None, '0', '9'):
        for rcl in ('5', '3', None):
            for body in ([5], [9], [3], [2, 1]):
                for tcl in (None, '0', '7'):
                    req = B((':method', 'GET'), (':path', '/'), (':scheme', 'https'), (':authority', 'a'))
                    info = B((':status', '103')) + (B(('content-length', icl)) if icl else [])
                    resp = B((':status', '200')) + (B(('content-length', rcl)) if rcl else [])
                    ops = [('Initiate',), RX(('Settings', False, [])), H(1, req, True), RX(('Headers', 1, False, None, ('Decoded', info))),
                           RX(('Headers', 1, False, None, ('Decoded', resp)))]
                    for j, b in enumerate(body):
                        ops.append(RX(('Data', 1, b, b, tcl is None and j == len(body) - 1)))
                    if tcl is not None:
                        ops.append(RX(('Headers', 1, True, None, ('Decoded', T + B(('content-length', tcl))))))
                    out.append((cfg, ops))
    return out


SPEC = dict(parts=PARTS, weights=WEIGHTS, rf_weights=RF, n_quick=150, n_thorough=4000, n_ops=30, oracle=oracle, finding_of=finding_of,
            scenarios=scenarios,
            nontrivial=lambda p: any(op[0] == 'Receive' and any(e[0][0] == 'Data' for e in op[1]) for op in p['ops']),
            rule='directed programs over request method (GET / HEAD, with and without request trailers) x response status (200 / 204 / 304 after a 1xx) x content-length '
                 '(absent, 0, matching, mismatching, padded with spaces, leading zero) x DATA chunking (none, empty, one, two, too long, too short) x padding x END_STREAM '
                 'placement (HEADERS, DATA, empty DATA, trailers) for servers and clients, plus random data-heavy programs; compared with the model on result, stream state and '
                 'expected / actual content-length, and judged by an independent content-length oracle; non-trivial = a DATA frame was received',
            extra_obligations=3)


def check(run):
    with common.Lock():
        common.build(['Properties/C16_refuted.vo'])
    return _conn.conn_check(run, SPEC)


def replay(run, path):
    return _conn.conn_replay(run, path, oracle)
