"""C21 — Results do not depend on how bytes are split."""
import random

from harness import common, fb_corr, t2, t2check
from harness.props import _conn

PARTS = [0, 1, 3, 4, 5, 7]     # result, output, connection state, stream tables, stream ids, limits
WEIGHTS = dict(send_headers=6, send_data=2, end_stream=1, increment=1, push=1, ping=1, reset=1, close=0.2,
               update_settings=6, altsvc=0.3, prioritize=0.3, ack=1, probe=1, drain=3, receive=60)
RF = dict(headers=25, push=2, data=14, settings=12, window_update=4, ping=3, rst=3, priority=2, goaway=0.3,
          continuation=2, altsvc=1, unknown=3, bad=3)


# ---- chunkers: bytes -> list of chunks --------------------------------------------------------------
def one_byte(b):
    return [b[i:i + 1] for i in range(len(b))] or [b]


def mk_random(seed):
    def f(b):
        rnd = random.Random(seed * 7919 + len(b))
        if len(b) < 2:
            return [b]
        cuts = sorted(rnd.sample(range(1, len(b)), min(len(b) - 1, rnd.choice([1, 2, 3, 5]))))
        return [b[a:c] for a, c in zip([0] + cuts, cuts + [len(b)])]
    return f


def mk_at(k):
    """cut k bytes after the start of every frame-ish boundary: simply at k, 2k, 3k... with empty chunks in between"""
    def f(b):
        out = []
        for i in range(0, len(b), k):
            out.append(b[i:i + k])
            out.append(b'')
        return out or [b]
    return f


CHUNKERS = [('one byte at a time', one_byte), ('pieces of 9 bytes with empty calls in between', mk_at(9)),
            ('pieces of 10 bytes', mk_at(10)), ('random cuts', mk_random(1)), ('random cuts (2)', mk_random(2))]


def upto_first_receive_error(p):
    for i, (op, parts) in enumerate(zip(p['ops'], p['parts'])):
        if op[0] == 'Receive' and not _conn.ok(parts):
            return i + 1
    return len(p['ops'])


def oracle(p, chunkers=None):
    """The property on the implementation: the same program with every Receive fed in pieces gives the same
    events / exception, the same output and the same state at every step."""
    n = upto_first_receive_error(p)
    ops = p['ops'][:n]
    if not any(op[0] == 'Receive' for op in ops):
        return []
    base = t2check.rerun(p['cfg'], ops)
    bad = []
    for name, ch in (chunkers or CHUNKERS):
        q = t2check.rerun(p['cfg'], ops, chunker=ch)
        for i in range(n):
            if q['hashes'][i] != base['hashes'][i]:
                diff = [t2.PARTS[k] for k in range(len(t2.PARTS)) if q['hashes'][i][k] != base['hashes'][i][k]]
                bad.append({'rule': 'feeding the same bytes in pieces changes the result', 'step': i,
                            'detail': {'chunking': name, 'differs_in': diff, 'whole': base['parts'][i][0], 'pieces': q['parts'][i][0]}})
                break
    return bad


def scenarios(run):
    out = []
    RX = lambda *fs: ('Receive', [(f, None, {}) for f in fs])
    for client in (True, False):
        cfg = t2.default_cfg(client)
        z = list(t2.zoo(client))
        sid = 11
        # the acknowledged MAX_FRAME_SIZE changes between two frames of one byte string: raise then use, lower then exceed
        out.append((cfg, z + [('UpdateSettings', [(5, 20000)]), RX(('Settings', True, []), ('Data', sid, 18000, 18000, False))]))
        out.append((cfg, z + [('UpdateSettings', [(5, 20000)]), RX(('Settings', True, [])),
                              ('UpdateSettings', [(5, 16384)]), RX(('Data', sid, 17000, 17000, False), ('Settings', True, []), ('Data', sid, 17000, 17000, False))]))
        # header blocks in many CONTINUATION frames, then other frames
        hs = t2.REQ if not client else t2.RESP
        out.append((cfg, z + [('Receive', [(('Headers', 13 if not client else 11, False, None, ('Decoded', hs)), None, {'split': [1] * 6}),
                                           (('Ping', False, list(b'12345678')), None, {})])]))
    return out


def extra_stage(run):
    """FrameBuffer model against the real FrameBuffer (+ hyperframe) on chunked byte streams; data_to_send model against
    H2Connection.data_to_send; the chunking oracle on the real FrameBuffer."""
    cov = fb_corr.stage(run, 40 if run.tier == 'quick' else 600, 'chunk')
    # data_to_send
    dcov, dbad = fb_corr.data_to_send_corr(run.seed, 60 if run.tier == 'quick' else 600)
    cov.update(dcov)
    if dbad:
        if dbad[0].get('partition_broken'):
            run.violation({'kind': 'oracle', 'rule': 'data_to_send(amount) calls do not partition the output', 'data_to_send_case': dbad[0]})
        else:
            run.breaks.append({'kind': 'correspondence', 'what': 'Model/FrameBuffer.v reads / data_to_send against H2Connection.data_to_send', 'case': dbad[0]})
    return cov


SPEC = dict(parts=PARTS, weights=WEIGHTS, rf_weights=RF, n_quick=120, n_thorough=1500, n_ops=24, oracle=oracle, scenarios=scenarios,
            extra_stage=extra_stage,
            nontrivial=lambda p: sum(1 for op in p['ops'] if op[0] == 'Receive' and len(op[1]) >= 2) >= 1,
            rule='(a) programs with many frames per receive_data call, settings changes (MAX_FRAME_SIZE acknowledged between frames), header blocks split over '
                 'CONTINUATION frames and malformed frames, compared with the connection model; each program is then replayed on the real H2Connection with every '
                 'receive_data call cut one byte at a time, every 9 / 10 bytes with empty calls in between and at random places, and all 14 observation parts '
                 '(events or exception, output bytes, all state) must equal the uncut run at every step up to the first exception; '
                 '(b) byte streams (valid frames, 0..66 CONTINUATIONs, raw headers, byte mutations, client preface, limits 10 / 30 / 16384 / 2^24-1) fed to the real '
                 'FrameBuffer and to Model/FrameBuffer.v+Wire.v in 6 chunkings each; (c) data_to_send(amount) sequences against the model and the partition rule; '
                 'non-trivial = a receive_data call with at least two frames',
            extra_obligations=2)


def check(run):
    return _conn.conn_check(run, SPEC)


def replay(run, path):
    import json
    obj = json.load(open(path))
    if 'framebuffer_case' in obj:
        bad = fb_corr.replay_case('chunk', obj['framebuffer_case'])
        if bad:
            run.violation(obj)
        return run.finish('proof', {'replayed': path, 'still_fails': bool(bad)})
    if 'data_to_send_case' in obj:
        bad = fb_corr.data_to_send_one(obj['data_to_send_case']['buf_len'], obj['data_to_send_case']['amounts'])
        if bad:
            run.violation(obj)
        return run.finish('proof', {'replayed': path, 'still_fails': bool(bad)})
    return _conn.conn_replay(run, path, oracle)
