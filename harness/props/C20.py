"""C20 — Frames racing a local stream reset never break the connection."""
from harness import t2
from harness.props import _conn

PARTS = [0, 1, 3, 4, 6, 8]     # result, output, conn state, tables, connection flow control, stream FSMs
WEIGHTS = dict(send_headers=10, send_data=1, end_stream=1, increment=0.3, push=1, ping=0.2, reset=25, close=0.1,
               update_settings=1, altsvc=0.2, prioritize=0.3, ack=0.3, probe=2, drain=3, receive=55)
RF = dict(headers=25, push=10, data=25, settings=1, window_update=10, ping=0.3, rst=10, priority=2, goaway=0.05,
          continuation=0.5, altsvc=0.3, unknown=0.3, bad=0.2)

F1 = 'a frame on a stream whose push the library refused (RST_STREAM sent for the promised id) is a connection error'


def oracle(p):
    bad = []
    ours = set()        # streams we reset (and streams promised on them, which the library refuses)
    refused = set()
    frames = _conn.new_frames(p)
    prev = None
    for i, (op, parts) in enumerate(zip(p['ops'], p['parts'])):
        okk = _conn.ok(parts)

        def V(rule, detail):
            bad.append({'rule': rule, 'step': i, 'detail': detail})
        if op[0] == 'ResetStream' and okk:
            ours.add(op[1])
        if prev is not None and prev[3] in (1, 2) and op[0] == 'Receive' and len(op[1]) == 1:
            rf = op[1][0][0]
            k = rf[0]
            sid = rf[1] if k in ('Headers', 'Data', 'WindowUpdate', 'RstStream', 'PushPromise') else None
            decoded = k not in ('Headers', 'PushPromise') or rf[-1][0] == 'Decoded'
            # (a frame above MAX_FRAME_SIZE, or DATA beyond the connection window, is the peer's violation whatever the stream)
            # (a PUSH_PROMISE received by a server, or by a client that disabled push, is a connection error whatever the stream: C22)
            push_refused = k == 'PushPromise' and (not p['cfg']['client'] or any(kk == 2 and q[0] == [0] for kk, q in prev[11])
                                                   or rf[2] % 2 == 1 or rf[2] <= 0)      # ... or one that promises an odd / zero id (malformed)
            if sid in ours and decoded and not push_refused and not (k == 'Data' and (rf[3] > prev[6][1] or rf[3] > prev[7][1])):
                if parts[0][0] != 0:
                    V('a frame for a stream the application had reset caused an exception (connection error)', {'frame': k, 'stream': sid, 'outcome': parts[0]})
                else:
                    evs = [e for e in parts[0][1] if isinstance(e, list) and len(e) > 1 and e[0] in (1, 2, 3, 4, 5, 6, 10, 11, 12) and e[1] == sid]
                    if evs:
                        V('a frame for a stream the application had reset produced an event for it', {'frame': k, 'stream': sid, 'events': [e[0] for e in evs]})
                    if k == 'Data' and prev[6][1] + prev[6][3] != parts[6][1] + parts[6][3]:
                        V('DATA on a reset stream did not give its flow-controlled length back to the connection window', {'before': prev[6], 'after': parts[6]})
                    if k == 'PushPromise':
                        refused.add(rf[2])
            elif sid in refused and decoded:
                if parts[0][0] != 0:
                    V(F1, {'frame': k, 'stream': sid, 'outcome': parts[0]})
        prev = parts
    return bad


def finding_of(v):
    return 'F-C20-1' if v['rule'] == F1 else None


def scenarios(run):
    out = []
    RX = lambda *fs: ('Receive', [(f, None, {}) for f in fs])
    cfg = t2.default_cfg(True)
    z = list(t2.zoo(True))
    late = [('Headers', 13, True, None, ('Decoded', t2.INFO)),      # 1xx with END_STREAM on a reset stream (fix 415bf1d)
            ('Headers', 13, False, None, ('Decoded', t2.RESP)), ('Data', 13, 10, 10, False), ('Data', 13, 10, 14, True), ('WindowUpdate', 13, 5),
            ('RstStream', 13, 8), ('PushPromise', 13, 20, ('Decoded', t2.REQ)), ('Headers', 13, True, None, ('Decoded', t2.RESP))]
    for cleanup in (False, True):
        for f in late:
            ops = z + [('SendHeaders', 13, t2.REQ, 0, False, None, None, None), ('ResetStream', 13, 8)]
            if cleanup:
                ops += [('OpenOutbound',)]
            ops += [RX(f), RX(('Ping', False, list(b'12345678')))]
            out.append((cfg, ops))
        # several in-flight frames, then frames on the stream promised on the reset stream
        ops = z + [('SendHeaders', 13, t2.REQ, 0, False, None, None, None), ('ResetStream', 13, 8)] + ([('OpenOutbound',)] if cleanup else [])
        ops += [RX(f) for f in late[:4]] + [RX(('PushPromise', 13, 20, ('Decoded', t2.REQ))), RX(('Headers', 20, False, None, ('Decoded', t2.RESP))),
                                           RX(('Data', 20, 5, 5, True))]
        out.append((cfg, ops))
    cfg = t2.default_cfg(False)
    z = list(t2.zoo(False))
    for cleanup in (False, True):
        for f in (('Headers', 13, True, None, ('Decoded', [(b'x-t', b'1', False)])), ('Data', 13, 10, 10, False), ('WindowUpdate', 13, 5), ('RstStream', 13, 8)):
            ops = z + [RX(('Headers', 13, False, None, ('Decoded', t2.REQ_POST))), ('ResetStream', 13, 8)] + ([('OpenInbound',)] if cleanup else []) + [RX(f)]
            out.append((cfg, ops))
    return out


SPEC = dict(parts=PARTS, weights=WEIGHTS, rf_weights=RF, n_quick=200, n_thorough=5000, n_ops=32, oracle=oracle, finding_of=finding_of, scenarios=scenarios,
            nontrivial=lambda p: any(op[0] == 'ResetStream' and parts[0][0] == 0 for op, parts in zip(p['ops'], p['parts'])),
            rule='reset-heavy programs: the application resets a stream, then HEADERS / DATA (padded, with END_STREAM) / WINDOW_UPDATE / RST_STREAM / PUSH_PROMISE for it and frames for '
                 'streams promised on it arrive, before and after the closed stream was cleaned up (forced by the open-streams probes); compared with the model and judged: no exception, '
                 'no event for the stream, DATA credited back to the connection window; non-trivial = a successful reset_stream')


def check(run):
    return _conn.conn_check(run, SPEC)


def replay(run, path):
    return _conn.conn_replay(run, path, oracle)
