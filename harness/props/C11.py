"""C11 — Settings take effect exactly when acknowledged, one frame per ACK, in order."""
from harness import common, t2
from harness.props import _conn

PARTS = [0, 1, 7, 11, 12]   # result (events), output, limits, local settings, remote settings
WEIGHTS = dict(send_headers=6, send_data=2, end_stream=1, increment=0.5, push=1, ping=0.5, reset=1, close=0.2,
               update_settings=30, altsvc=0.3, prioritize=0.5, ack=0.5, probe=2, drain=4, receive=45)
RF = dict(headers=8, push=1, data=3, settings=70, window_update=2, ping=1, rst=1, priority=1, goaway=0.2,
          continuation=0.3, altsvc=0.3, unknown=0.5, bad=0.5)

R_EARLY = 'an acknowledgement applied or reported changes of a SETTINGS frame sent later (per-key queues)'
R_PARTIAL = 'an update_settings call that raised left part of its changes queued'
R_WIREID = 'a setting identifier above 255 was sent as a different identifier'


def current(deqs):
    return {k: (q[0][0] if q and q[0] else None) for k, q in deqs}


def oracle(p):
    """Reference semantics: one pending entry per SETTINGS frame sent (the initial frame included), an ACK pops the
    oldest and applies exactly it; received SETTINGS apply at once."""
    bad = []
    frames = _conn.new_frames(p)
    pending = []            # list of dicts, one per SETTINGS frame sent and not yet acknowledged
    prev = None
    valid = True
    for i, (op, parts) in enumerate(zip(p['ops'], p['parts'])):
        if op[0] in ('Initiate', 'InitiateUpgrade') and _conn.ok(parts):
            pending.append({})
        if op[0] == 'UpdateSettings':
            kvs = list(op[1])
            if _conn.ok(parts):
                pending.append(dict(kvs))
                sent = [fr for fr in frames[i] if fr[0] == 4 and fr[1] == 0]
                if sent and [list(x) for x in sent[0][2]] != [[k, v] for k, v in dict(kvs).items()]:
                    rule = R_WIREID if any(k > 255 for k, _ in kvs) else 'update_settings emitted a SETTINGS frame that differs from the call'
                    bad.append({'rule': rule, 'step': i, 'detail': {'call': kvs, 'frame': sent[0][2]}})
            elif prev is not None:
                if prev[11] != parts[11]:
                    bad.append({'rule': R_PARTIAL, 'step': i, 'detail': {'call': kvs, 'before': prev[11], 'after': parts[11]}})
                    valid = False
                if frames[i]:
                    bad.append({'rule': 'an update_settings call that raised emitted frames', 'step': i, 'detail': frames[i][:2]})
        if op[0] == 'Receive' and _conn.ok(parts):
            evs = parts[0][1]
            acks_in = [e for e in op[1] if e[0][0] == 'Settings' and e[0][1]]
            sets_in = [e for e in op[1] if e[0][0] == 'Settings' and not e[0][1]]
            ack_evs = [ev for ev in evs if ev[0] == 13]
            chg_evs = [ev for ev in evs if ev[0] == 7]
            if len(ack_evs) != len(acks_in) or len(chg_evs) != len(sets_in):
                bad.append({'rule': 'number of settings events differs from the number of SETTINGS frames received', 'step': i,
                            'detail': {'acks': len(acks_in), 'ack_events': len(ack_evs), 'settings': len(sets_in), 'changed_events': len(chg_evs)}})
            n_ack_frames = sum(1 for fr in frames[i] if fr[0] == 4 and fr[1] == 1)
            if n_ack_frames != len(sets_in) and not any(e[0][0] == 'GoAway' for e in op[1]):
                bad.append({'rule': 'received SETTINGS frames were not acknowledged exactly once each', 'step': i,
                            'detail': {'received': len(sets_in), 'acks_emitted': n_ack_frames}})
            for e, ev in zip(sets_in, chg_evs):
                want = dict(e[0][2])
                got = {c[0]: c[2] for c in ev[1]}
                if want != got:
                    bad.append({'rule': 'RemoteSettingsChanged does not report exactly the received values', 'step': i,
                                'detail': {'frame': e[0][2], 'event': ev[1]}})
            if sets_in:
                cur = current(parts[12])
                last = {}
                for e in sets_in:
                    last.update(dict(e[0][2]))
                wrong = {k: (v, cur.get(k)) for k, v in last.items() if cur.get(k) != v}
                if wrong:
                    bad.append({'rule': 'a received setting is not in force right after receive_data', 'step': i, 'detail': wrong})
            for ev in ack_evs:
                if not pending:
                    continue
                frame = pending.pop(0)
                got = {c[0]: c[2] for c in ev[1]}
                if valid and got != frame:
                    extra = {k: v for k, v in got.items() if k not in frame}
                    rule = R_EARLY if extra and any(k in f for f in pending for k in extra) else \
                        'SettingsAcknowledged does not report exactly the changes of the acknowledged frame'
                    # re-acknowledging a value already in force is reported by the code as a change old == new: not an error
                    if not (set(got) == set(frame) and all(got[k] == frame[k] for k in got)):
                        bad.append({'rule': rule, 'step': i, 'detail': {'frame': frame, 'event': ev[1], 'still_pending': pending[:3]}})
                    if rule == R_EARLY:
                        valid = False
        prev = parts
    return bad


def finding_of(v):
    return {R_EARLY: 'F-C11-1', R_PARTIAL: 'F-C11-2', R_WIREID: 'F-C11-3'}.get(v['rule'])


def scenarios(run):
    out = []
    ACK = ('Receive', [(('Settings', True, []), None, {})])
    for client in (True, False):
        cfg = t2.default_cfg(client)
        out.append((cfg, [('Initiate',), ('UpdateSettings', [(4, 1000)]), ('UpdateSettings', [(3, 5)]), ACK, ACK, ACK]))
        out.append((cfg, [('Initiate',), ('UpdateSettings', [(4, 100), (2, 5)]), ACK, ACK]))
        out.append((cfg, [('Initiate',), ('Drain',), ('UpdateSettings', [(258, 1)]), ACK, ACK]))
        out.append((cfg, [('Initiate',), ACK, ('UpdateSettings', [(4, 1000), (5, 20000), (6, 10)]), ACK,
                          ('UpdateSettings', [(4, 1000)]), ('UpdateSettings', [(4, 65535)]), ACK, ACK, ('RemoteWindow', 1)]))
        # one identifier in flight several times, a value repeated: each acknowledgement must report its own frame, in order
        for k, a, b in ((5, 65536, 16384), (4, 1000, 70000), (3, 7, 1), (1, 0, 4096), (6, 100, 200), (2, 0, 1) if client else (8, 1, 0)):
            out.append((cfg, [('Initiate',), ACK, ('UpdateSettings', [(k, a)]), ('UpdateSettings', [(k, a)]), ('UpdateSettings', [(k, b)]),
                              ACK, ACK, ACK]))
            out.append((cfg, [('Initiate',), ACK, ('UpdateSettings', [(k, a)]), ('UpdateSettings', [(k, b)]), ('UpdateSettings', [(k, b)]),
                              ('UpdateSettings', [(k, a)]), ACK, ACK, ACK, ACK]))
        out.append((cfg, list(t2.zoo(client)) + [('UpdateSettings', [(4, 70000), (3, 1)]), ACK,
                                                  ('Receive', [(('Settings', False, [(4, 10), (5, 16385), (3, 0), (99, 7)]), None, {})])]))
    return out


SPEC = dict(parts=PARTS, weights=WEIGHTS, rf_weights=RF, n_quick=300, n_thorough=8000, n_ops=30, oracle=oracle, finding_of=finding_of,
            scenarios=scenarios,
            nontrivial=lambda p: sum(1 for op in p['ops'] if op[0] == 'UpdateSettings') >= 2,
            rule='settings-heavy programs: several update_settings calls in flight (same and different identifiers, valid and invalid values in the middle '
                 'of a dict, unknown identifiers), acknowledgements arriving at arbitrary points, received SETTINGS with duplicate / unknown / invalid entries; '
                 'compared with the model on events, output, limits and both Settings objects (every queued value); non-trivial = at least two update_settings calls',
            extra_obligations=1)


def check(run):
    with common.Lock():
        common.build(['Properties/C11_refuted.vo'])
    return _conn.conn_check(run, SPEC)


def replay(run, path):
    return _conn.conn_replay(run, path, oracle)
