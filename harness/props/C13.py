"""C13 — Header compression state stays synchronised across all calls."""
from harness import common, t2
from harness.props import _conn

PARTS = [0, 1, 2, 3, 13]      # result, output structure, encoder log (what Encoder.encode consumed), connection state, emitted header lists
WEIGHTS = dict(send_headers=40, send_data=1, end_stream=2, increment=0.3, push=10, ping=0.2, reset=2, close=0.1,
               update_settings=1, altsvc=0.2, prioritize=0.5, ack=0.3, probe=0.3, drain=4, receive=25)
RF = dict(headers=30, push=2, data=3, settings=25, window_update=3, ping=0.3, rst=3, priority=1, goaway=0.1,
          continuation=0.3, altsvc=0.3, unknown=0.3, bad=0.3)

F1 = 'a header-carrying call that raised changed the dynamic table of the HPACK encoder'
F2 = 'an emitted header block cannot be decoded by the peer, or decodes to something else than the header list of the call (the encoder context is ahead of the peer\'s)'
CONN_HEADERS = {b'connection', b'proxy-connection', b'keep-alive', b'transfer-encoding', b'upgrade'}


def normalise(hs):
    out = []
    for n, v, _ in hs:
        n = bytes(n).lower().strip()
        v = bytes(v).strip()
        if n in CONN_HEADERS:
            continue
        out.append((n, v))
    return out


def oracle(p):
    """re-executes the program on the real connection, watching the encoder's dynamic table and decoding every emitted block as the peer would"""
    from harness.impl_driver import Impl
    impl = Impl(p['cfg'])
    bad = []
    polluted = False
    prev_hl = []
    for i, op in enumerate(p['ops']):
        if op[0] == 'Receive':
            op = ('Receive', [(e[0], None) + tuple(e[2:]) for e in op[1]])
        enc = impl.conn.encoder
        before = ([tuple(x) for x in enc.header_table.dynamic_entries], enc.header_table.maxsize)
        aop, parts = impl.apply(t2._clamp(op))
        after = ([tuple(x) for x in enc.header_table.dynamic_entries], enc.header_table.maxsize)
        okk = parts[0][0] == 0
        if op[0] in ('SendHeaders', 'PushStream') and not okk and before != after:
            # the listed finding: refused by header validation / the trailer rule / the priority arguments (plain ProtocolError or
            # RFC1122Error); any other exception after encoding is a different defect
            exc = (impl.last_exc or '').split(':')[0]
            known_cause = exc in ('ProtocolError', 'RFC1122Error') and 'stream ID' not in (impl.last_exc or '') and 'push' not in (impl.last_exc or '').lower()
            bad.append({'rule': F1 if known_cause else 'a header-carrying call that raised %s changed the dynamic table of the HPACK encoder' % exc, 'step': i, 'detail': {'op': op[0], 'stream': op[1], 'table_entries_before': len(before[0]), 'after': len(after[0])}})
            polluted = True
        hl = parts[13]
        new = hl[len(prev_hl):] if (op[0] != 'Drain' and not impl.cleared and hl[:len(prev_hl)] == prev_hl) else hl
        prev_hl = [] if op[0] == 'Drain' else hl
        for blk in new:
            undecodable = blk and blk[0] == [-1]
            mismatch = False
            if not undecodable and op[0] in ('SendHeaders', 'PushStream') and okk and p['cfg']['normalize_out'] and blk != [[-2]]:
                want = normalise(op[2] if op[0] == 'SendHeaders' else op[3])
                got = [(bytes(h[0]), bytes(h[1])) for h in blk]
                mismatch = want != got
            if undecodable or mismatch:
                bad.append({'rule': F2 if polluted else ('an emitted header block cannot be decoded by the peer' if undecodable else
                                                           'an emitted header block does not decode to the normalised header list of the call'),
                            'step': i, 'detail': {'op': op[0], 'decoded': str(blk)[:200]}})
    return bad


def finding_of(v):
    return 'F-C13-1' if v['rule'] in (F1, F2) else None


def explained(run, p, m):
    """a disagreement on the peer-decoded header lists only, at or after a failing call that polluted the encoder (F-C13-1)"""
    if not any(f['id'] == 'F-C13-1' for f in run.findings) or set(m['part_ids']) - {13}:
        return False
    return any(v['rule'] == F1 and v['step'] <= m['step'] for v in oracle(p))


def scenarios(run):
    out = []
    RX = lambda *fs: ('Receive', [(f, None, {}) for f in fs])
    H = lambda sid, hs, es=False, pw=None: ('SendHeaders', sid, hs, 0, es, pw, None, None)
    T = [(b'x-trailer', b'1', False)]
    X = [(b'x-custom-%d' % k, b'value-%d' % k, False) for k in range(3)]
    for client in (True, False):
        cfg = t2.default_cfg(client)
        z = list(t2.zoo(client))
        mine = t2.REQ if client else t2.RESP
        new = [13, 15, 17] if client else [1, 11, 4]
        for badh in t2.BAD[:8]:
            # a failing call with fresh fields, then valid calls on other streams: the peer must still decode them
            out.append((cfg, z + [H(new[0], list(badh) + X), H(new[1], list(mine) + X), H(new[2], list(mine) + X)]))
        out.append((cfg, z + [H(new[0], list(mine) + X), H(new[0], T + X, False), H(new[1], list(mine) + X), H(new[1], T + X, True)]))      # trailers without END_STREAM
        out.append((cfg, z + [H(new[0], list(mine) + X, False, 300), H(new[1], list(mine) + X)]))                                            # bad priority weight / server priority
        # peer HEADER_TABLE_SIZE changes between calls
        out.append((cfg, z + [H(new[0], list(mine) + X), RX(('Settings', False, [(1, 0)])), H(new[1], list(mine) + X), RX(('Settings', False, [(1, 4096)])),
                              H(new[2], list(mine) + X)]))
        if not client:
            # pushes refused because of the promised id / the parent, with fresh header fields, then a valid push
            out.append((cfg, z + [('PushStream', 1, 2, list(t2.REQ) + X, 0), ('PushStream', 1, 21, list(t2.REQ) + X, 0), ('PushStream', 2, 24, list(t2.REQ) + X, 0),
                                  ('PushStream', 1, 26, list(t2.REQ) + X, 0), H(26, list(t2.RESP) + X)]))
            out.append((cfg, z + [('PushStream', 1, 20, list(t2.BAD[5]) + X, 0), ('PushStream', 1, 22, list(t2.REQ) + X, 0), H(22, list(t2.RESP) + X)]))
    return out


SPEC = dict(parts=PARTS, weights=WEIGHTS, rf_weights=RF, n_quick=150, n_thorough=4000, n_ops=30, oracle=oracle, finding_of=finding_of,
            scenarios=scenarios, explained=explained,
            nontrivial=lambda p: sum(1 for op, parts in zip(p['ops'], p['parts']) if op[0] in ('SendHeaders', 'PushStream')) >= 3,
            rule='header-heavy programs: valid and invalid header lists (missing / duplicated pseudo-headers, forbidden fields, pseudo-headers after regular fields, trailers without '
                 'END_STREAM, bad priority, server priority) interleaved with valid blocks on other streams and peer HEADER_TABLE_SIZE changes; compared with the model on result, output, '
                 'the log of what Encoder.encode consumed and the header lists a peer-side HPACK decoder obtains from the emitted blocks; the oracle re-executes each program '
                 'watching the real encoder table across failing calls; non-trivial = at least three header-carrying calls',
            extra_obligations=2)


def check(run):
    with common.Lock():
        common.build(['Properties/C13_refuted.vo'])
    return _conn.conn_check(run, SPEC)


def replay(run, path):
    return _conn.conn_replay(run, path, oracle)
