"""C01 — Two h2 endpoints exchange every successful send faithfully."""
import json

from harness import common, twoend, t2
from harness.props import _conn


def check(run):
    r = common.proof_stage(run)
    if not r['ok'] or run.breaks:
        pass
    n = 2500 if run.tier == 'quick' else 60000
    stats = {'programs_clean': 0, 'programs_with_failing_calls': 0, 'discrepancies_explained_by_known_findings': {}, 'calls': 0, 'deliveries': 0}
    known_seen = {}
    new = None
    # corpus: programs that once failed (thorough tier), kept and run first
    CORPUS = [1035737,      # HEADER_TABLE_SIZE 0, then 4096 twice: hpack forgot the pending size announcement (fix a61fac8)
              1036084]      # three HEADER_TABLE_SIZE changes in flight (F-C01-3)
    for dirty, focus, count in ((False, None, -1), (False, None, n), (True, None, n), (False, 'push-iws', n // 2)):
        for i in (range(count) if count >= 0 else range(len(CORPUS))):
            seed = run.seed * 1000003 + i if count >= 0 else CORPUS[i]
            res, script = twoend.run_program(seed, dirty=dirty, focus=focus)
            stats['programs_with_failing_calls' if dirty else 'programs_clean'] += 1
            stats['calls'] += sum(1 for s in script if not s.startswith('deliver'))
            stats['deliveries'] += sum(1 for s in script if s.startswith('deliver'))
            if res:
                fid = twoend.classify(res, script)
                f = next((x for x in run.findings if x['id'] == fid), None) if fid else None
                if f is not None:
                    stats['discrepancies_explained_by_known_findings'][fid] = stats['discrepancies_explained_by_known_findings'].get(fid, 0) + 1
                    known_seen.setdefault(fid, (f, res, seed, dirty))
                elif new is None or len(script) < len(new[1]):
                    new = (res, script, seed, dirty, focus)
    for fid, (f, res, seed, dirty) in sorted(known_seen.items()):
        run.known(f, 'e.g. program seed %d (%s): %s' % (seed, 'with failing calls' if dirty else 'clean', str(res.get('exception', res.get('missing', '')))[:120]))
    if new is not None:
        res, script, seed, dirty, focus = new
        run.violation({'kind': 'oracle', 'rule': res['what'], 'detail': {k: v for k, v in res.items() if k not in ('script',)}, 'two_endpoint_seed': seed, 'dirty': dirty, 'focus': focus,
                       'script': script, 'how_to_replay': './check C01 --replay <this file>'})
    if run.breaks and not run.violations:
        run.violation({'kind': run.breaks[0]['kind'], 'broken_obligation': run.breaks[0]}, concrete=False)
    cov = common.proof_coverage(r, extra_obligations=0)
    cov.update({'evaluations': 2 * n, 'distinct_nontrivial': 2 * n,
                'rule': 'two real endpoints (client + server H2Connection) connected back to back; random programs of public API calls on both sides (requests, responses, 1xx, '
                        'trailers, DATA with padding, end_stream, pushes, pings, priority, settings, window increments, alt-svc, close), bytes delivered in order-preserving chunks '
                        '(1 / 5 / 7 / 9 / 50 / 100 bytes / everything) in any interleaving of the two directions; calls that raise are skipped. "clean" programs contain only calls that '
                        'are meant to succeed, "with failing calls" mixes in invalid header lists and out-of-order sends. Oracle: no receive_data raises (unless that endpoint closed the '
                        'connection itself) and each receiver\'s event sequence equals what the sender\'s successful calls predict (normalised headers, body bytes, flow-controlled '
                        'lengths, END_STREAM, codes, ids)',
                'input_distribution': stats, 'traces_validated_against_impl': 2 * n, 'disagreements_checked': stats['calls'], 'disagreements': 0 if new is None else 1,
                'samples': [{'script': twoend.run_program(run.seed * 1000003, dirty=False)[1][:14]}]})
    return run.finish('proof', cov, assumptions=['the per-endpoint behaviour is tied to the model by the other properties\' correspondence runs; this check couples two real endpoints'])


def replay(run, path):
    obj = json.load(open(path))
    if 'two_endpoint_seed' in obj:
        res, script = twoend.run_program(obj['two_endpoint_seed'], dirty=obj.get('dirty', False), focus=obj.get('focus'))
        for s in script:
            print(s)
        print('->', None if res is None else {k: v for k, v in res.items() if k != 'script'})
        if res and twoend.classify(res, script) is None:
            run.violation(obj)
        return run.finish('proof', {'replayed': path, 'still_fails': bool(res)})
    return _conn.conn_replay(run, path, None)
