"""C23 — Priority information round-trips and never changes stream state."""
from harness.props import _conn

PARTS = [0, 1, 4, 5, 6, 8, 9, 10]   # result, output, tables, ids, flow control, stream fsm / flow / bookkeeping
WEIGHTS = dict(send_headers=16, send_data=4, end_stream=3, increment=1, push=1, ping=0.5, reset=3, close=0.5,
               update_settings=1, altsvc=0.3, prioritize=18, ack=1, probe=2, drain=3, receive=45)
RF = dict(headers=25, push=1, data=8, settings=4, window_update=3, ping=1, rst=4, priority=45, goaway=0.5,
          continuation=0.5, altsvc=1, unknown=1, bad=1)


def oracle(p):
    bad = []
    frames = _conn.new_frames(p)
    prev = None
    for i, (op, parts) in enumerate(zip(p['ops'], p['parts'])):
        if op[0] == 'Receive' and prev is not None and all(e[0][0] == 'Priority' for e in op[1]):
            # a batch of PRIORITY frames only: every state probe must be unchanged (connection not closed before)
            if prev[3] != 3:
                for k in (4, 5, 6, 8, 9, 10, 11, 12):
                    if prev[k] != parts[k]:
                        bad.append({'rule': 'a received PRIORITY frame changed stream / flow-control / settings state', 'step': i,
                                    'detail': {'part': k, 'before': prev[k], 'after': parts[k]}})
                if _conn.ok(parts) and (prev[3] != parts[3] or prev[7] != parts[7]):
                    bad.append({'rule': 'a received PRIORITY frame changed the connection state or its limits', 'step': i,
                                'detail': {'state_before': prev[3], 'state_after': parts[3], 'limits_before': prev[7], 'limits_after': parts[7]}})
                if _conn.ok(parts):
                    want = [[14, e[0][1], e[0][2][1] + 1, e[0][2][0], 1 if e[0][2][2] else 0] for e in op[1]]
                    if parts[0][1] != want:
                        bad.append({'rule': 'PriorityUpdated events differ from the PRIORITY frames received', 'step': i,
                                    'detail': {'want': want, 'got': parts[0][1]}})
                    if frames[i]:
                        bad.append({'rule': 'a received PRIORITY frame emitted frames', 'step': i, 'detail': frames[i][:2]})
                elif not any(e[0][2][0] == e[0][1] for e in op[1]):
                    bad.append({'rule': 'a valid PRIORITY frame was refused', 'step': i, 'detail': parts[0]})
        if op[0] == 'Prioritize':
            sid, w, d, e = op[1], op[2], op[3], op[4]
            ok_args = (w is None or 1 <= w <= 256) and (d is None or d != sid)
            if not p['cfg']['client']:
                if _conn.err_name(parts) != 'RFC1122Error':
                    bad.append({'rule': 'a server was allowed to prioritise', 'step': i, 'detail': parts[0]})
            elif prev is not None and prev[3] != 3 and sid != 0:
                if ok_args and _conn.ok(parts):
                    want = [2, sid, [d or 0, (w - 1) if w is not None else 15, 1 if e else 0]]
                    if frames[i] != [want]:
                        bad.append({'rule': 'prioritize() did not emit exactly the requested PRIORITY frame', 'step': i,
                                    'detail': {'want': want, 'got': frames[i]}})
                if ok_args != _conn.ok(parts):
                    bad.append({'rule': 'prioritize() acceptance differs from: weight in 1..256 and no self-dependency', 'step': i,
                                'detail': {'args': [sid, w, d, e], 'outcome': parts[0]}})
        prev = parts
    return bad


def scenarios(run):
    # PRIORITY frames before anything else (the connection is still IDLE), then an ordinary exchange
    from harness import t2
    RX = lambda *fs: ('Receive', [(f, None, {}) for f in fs])
    out = []
    for client in (True, False):
        cfg = t2.default_cfg(client)
        first = ('SendHeaders', 1, t2.REQ, 0, False, None, None, None) if client else RX(('Headers', 1, False, None, ('Decoded', t2.REQ)))
        out.append((cfg, [('Initiate',), RX(('Priority', 3, (0, 15, False))), RX(('Priority', 1, (3, 255, True))), ('OpenInbound',), first,
                          RX(('Priority', 1, (0, 0, False))), RX(('Priority', 1, (1, 3, False)))]))
    return out


SPEC = dict(parts=PARTS, weights=WEIGHTS, rf_weights=RF, n_quick=250, n_thorough=6000, n_ops=28, oracle=oracle, scenarios=scenarios,
            nontrivial=lambda p: any(op[0] == 'Prioritize' or (op[0] == 'Receive' and any(e[0][0] == 'Priority' for e in op[1])) for op in p['ops']),
            rule='priority-heavy programs: prioritize() and send_headers priority arguments with weights 0/1/16/256/257, self / other dependencies, '
                 'PRIORITY frames on idle, open, closed and never-used ids; compared with the model on result, output and every stream / flow-control probe; '
                 'non-trivial = at least one priority call or PRIORITY frame',
            extra_obligations=3)


def check(run):
    return _conn.conn_check(run, SPEC)


def replay(run, path):
    return _conn.conn_replay(run, path, oracle)
