"""C29 — API misuse is reported only through documented exceptions and emits nothing."""
from harness import common, t2
from harness.props import _conn

PARTS = [0, 1, 4, 5, 8]
WEIGHTS = dict(send_headers=16, send_data=12, end_stream=10, increment=8, push=6, ping=3, reset=10, close=1,
               update_settings=4, altsvc=5, prioritize=5, ack=8, probe=10, drain=3, receive=25)
RF = dict(headers=30, push=3, data=10, settings=6, window_update=4, ping=1, rst=8, priority=2, goaway=0.3,
          continuation=0.5, altsvc=0.5, unknown=0.5, bad=0.5)

R_ASSERT_OUT = 'close_connection with additional data above the frame-size limit appended the GOAWAY and then raised AssertionError'
R_PRIO0 = 'prioritize(0) raised a hyperframe exception'
R_ALTSVC = 'advertise_alternative_service with neither origin nor stream raised TypeError'
R_HDR_PRIO = 'send_headers with priority information raised after its HEADERS frames were appended (RFC1122Error / size assertion)'
API = ('SendHeaders', 'SendData', 'EndStream', 'IncrementWindow', 'PushStream', 'Ping', 'ResetStream', 'CloseConnection',
       'UpdateSettings', 'AdvertiseAltSvc', 'Prioritize', 'Acknowledge', 'NextStreamId', 'LocalWindow', 'RemoteWindow',
       'OpenOutbound', 'OpenInbound')


def oracle(p):
    bad = []
    frames = _conn.new_frames(p)
    client = p['cfg']['client']
    prev = None
    for i, (op, parts) in enumerate(zip(p['ops'], p['parts'])):
        if op[0] in API:
            res = parts[0]
            if res[0] == 2:
                name = _conn.err_name(parts)
                documented = (
                    (op[0] == 'SendData' and name == 'ValueError' and op[4] is not None and not 0 <= op[4] <= 255) or
                    (op[0] == 'IncrementWindow' and name == 'ValueError' and not 1 <= op[1] <= 2**31 - 1) or
                    (op[0] == 'Ping' and name == 'ValueError' and len(bytes(op[1])) != 8) or
                    (op[0] == 'Acknowledge' and name == 'ValueError' and (op[2] <= 0 or op[1] < 0)) or
                    (op[0] == 'AdvertiseAltSvc' and name == 'ValueError' and (op[2] is None) == (op[3] is None)))     # both or neither (fix c0a4c40)
                if not documented:
                    rule = 'a public call raised an undocumented non-h2 exception'
                    if op[0] == 'CloseConnection' and name == 'AssertionError':
                        rule = R_ASSERT_OUT
                    elif op[0] == 'Prioritize' and op[1] == 0:
                        rule = R_PRIO0
                    elif op[0] == 'AdvertiseAltSvc' and op[2] is None and op[3] is None and name == 'TypeError':
                        rule = R_ALTSVC
                    elif op[0] == 'SendHeaders' and name == 'AssertionError' and any(x is not None for x in op[5:8]):
                        rule = R_HDR_PRIO
                    bad.append({'rule': rule, 'step': i, 'detail': {'op': repr(op)[:160], 'exception': name}})
            if res[0] != 0 and frames[i]:
                rule = 'a user call that raised added bytes to the output'
                if op[0] == 'CloseConnection' and _conn.err_name(parts) == 'AssertionError':
                    rule = R_ASSERT_OUT
                elif op[0] == 'SendHeaders' and any(x is not None for x in op[5:8]):
                    rule = R_HDR_PRIO
                bad.append({'rule': rule, 'step': i, 'detail': {'op': repr(op)[:160], 'outcome': res, 'frames': frames[i][:2]}})
            # stream-addressed calls on ids that are not in the stream table
            if prev is not None and prev[3] in (1, 2) and op[0] in ('EndStream', 'ResetStream', 'LocalWindow', 'RemoteWindow') or \
                    (prev is not None and prev[3] in (1, 2) and op[0] == 'IncrementWindow' and op[2] is not None and 1 <= op[1] <= 2**31 - 1):
                sid = op[2] if op[0] == 'IncrementWindow' else op[1]
                known = any(s[0] == sid for s in prev[8])
                if not known:
                    mine = sid % 2 == (1 if client else 0)
                    hi = prev[5][1] if mine else prev[5][0]
                    want = 'NoSuchStreamError' if sid > hi else 'StreamClosedError'
                    if _conn.err_name(parts) != want:
                        bad.append({'rule': 'a call on a stream that is not in the table did not raise %s' % want, 'step': i,
                                    'detail': {'op': repr(op)[:120], 'outcome': res, 'watermark': hi}})
        prev = parts
    return bad


def finding_of(v):
    return {R_ASSERT_OUT: 'F-C29-1', R_PRIO0: 'F-C29-2', R_HDR_PRIO: 'F-C29-4'}.get(v['rule'])     # R_ALTSVC (was F-C29-3) is fixed by c0a4c40


def scenarios(run):
    out = []
    for client in (True, False):
        cfg = t2.default_cfg(client)
        z = list(t2.zoo(client)) + [('OpenOutbound',), ('OpenInbound',)]
        probes = []
        for sid in (1, 2, 3, 4, 5, 7, 9, 11, 13, 6, 8, 101, 102):
            probes += [('EndStream', sid), ('ResetStream', sid, 8), ('IncrementWindow', 10, sid), ('SendData', sid, 5, False, None),
                       ('LocalWindow', sid), ('RemoteWindow', sid), ('Acknowledge', 5, sid), ('SendHeaders', sid, t2.TRAILERS, 0, True, None, None, None),
                       ('AdvertiseAltSvc', b'h2=":443"', None, sid)]
        out.append((cfg, z + probes))
        out.append((cfg, [('Initiate',), ('Drain',), ('CloseConnection', 0, None, 70000)]))
        out.append((cfg, [('Initiate',), ('Prioritize', 0, None, None, None), ('AdvertiseAltSvc', b'x', None, None),
                          ('SendHeaders', 1, [], 0, True, None, None, None), ('SendHeaders', 1, [], 0, True, None, None, None)]))
        out.append((cfg, [('Initiate',), ('SendHeaders', 1, t2.REQ, 0, False, 16, 0, False), ('SendHeaders', 3, t2.REQ, 0, False, 300, None, None),
                          ('SendHeaders', 3, t2.REQ, 0, False, 10, 3, None)]))
        # sends on a stream whose window the peer made negative (INITIAL_WINDOW_SIZE lowered after DATA was sent): empty and non-empty DATA
        RX = lambda *fs: ('Receive', [(f, None, {}) for f in fs])
        sid = 1
        opening = [('SendHeaders', 1, t2.REQ, 0, False, None, None, None)] if client else \
                  [RX(('Headers', 1, False, None, ('Decoded', t2.REQ))), ('SendHeaders', 1, t2.RESP, 0, False, None, None, None)]
        out.append((cfg, [('Initiate',), RX(('Settings', False, []))] + opening +
                         [('SendData', sid, 1000, False, None), RX(('Settings', False, [(4, 10)])), ('LocalWindow', sid),
                          ('SendData', sid, 0, False, None), ('SendData', sid, 1, False, None), ('SendData', sid, 0, True, None), ('EndStream', sid)]))
    return out


SPEC = dict(parts=PARTS, weights=WEIGHTS, rf_weights=RF, n_quick=300, n_thorough=8000, n_ops=34, oracle=oracle, finding_of=finding_of,
            scenarios=scenarios,
            nontrivial=lambda p: sum(1 for parts in p['parts'] if parts[0][0] != 0) >= 3,
            rule='every public call with arbitrary well-typed stream ids (live, closed, forgotten, never used, wrong parity, 0, above 2^31-1), sizes and flags '
                 'in every connection and stream state, including after streams were cleaned up; compared with the model on result, output, tables, ids and '
                 'stream state; non-trivial = at least three calls raised',
            extra_obligations=1,
            assumptions=['well-typed arguments: ints for ids / sizes / codes below 2^32, bytes / ASCII text header pairs, bool flags (DESIGN.md section 6)'])


def check(run):
    with common.Lock():
        common.build(['Properties/C29_refuted.vo'])
    return _conn.conn_check(run, SPEC)


def replay(run, path):
    return _conn.conn_replay(run, path, oracle)
