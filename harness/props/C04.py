"""C04 — Inbound flow control is enforced exactly at the advertised windows."""
from harness.props import _conn

PARTS = [0, 1, 6, 9]
WEIGHTS = dict(send_headers=12, send_data=2, end_stream=2, increment=16, push=1, ping=0.5, reset=2, close=0.2,
               update_settings=6, altsvc=0.3, prioritize=0.5, ack=18, probe=6, drain=3, receive=40)
RF = dict(headers=22, push=2, data=45, settings=12, window_update=3, ping=1, rst=3, priority=1, goaway=0.3,
          continuation=0.5, altsvc=0.5, unknown=1, bad=1)


def oracle(p):
    """Independent recomputation of the advertised connection window from the wire history
    (65535 + WINDOW_UPDATE(0) increments emitted - flow-controlled length of DATA received), and the
    call-level rules."""
    bad = []
    frames = _conn.new_frames(p)
    spec = 65535
    valid = True
    prev = None
    # per stream, recomputed from the wire: acknowledged INITIAL_WINDOW_SIZE now in force + WINDOW_UPDATE(sid) emitted - DATA received
    upd, got, skip, svalid = {}, {}, set(), True

    def acked_iws(settings_part):
        for k, q in settings_part:
            if k == 4:
                return 65535 if q[0] == [] else q[0][0]
        return 65535
    for i, (op, parts) in enumerate(zip(p['ops'], p['parts'])):
        if op[0] == 'Drain':
            prev = parts
            continue
        emitted = sum(fr[2] for fr in frames[i] if fr[0] == 8 and fr[1] == 0)
        for fr in frames[i]:
            if fr[0] == 8 and fr[1] != 0:
                upd[fr[1]] = upd.get(fr[1], 0) + fr[2]
        if op[0] == 'Receive':
            if _conn.ok(parts) and prev is not None and not any(e[0][0] == 'GoAway' for e in op[1]):
                pst = {e[0]: e[1] for e in prev[8]}
                for e in op[1]:
                    if e[0][0] == 'Data':
                        if pst.get(e[0][1]) in (3, 5) and len(op[1]) == 1:
                            got[e[0][1]] = got.get(e[0][1], 0) + e[0][3]
                        else:
                            skip.add(e[0][1])
            else:
                svalid = False
        if svalid and parts[3] != 3:
            iws = acked_iws(parts[11])
            st = {e[0]: e[1] for e in parts[8]}
            for srow in parts[9]:
                sid = srow[0]
                if sid in skip or st.get(sid) in (None, 6) or sid >= 2 ** 31:      # (ids above 2^31-1 go out under another wire id: F-C09-1)
                    continue
                want = iws + upd.get(sid, 0) - got.get(sid, 0)
                if srow[2] != want:
                    bad.append({'rule': 'advertised stream window differs from the acknowledged INITIAL_WINDOW_SIZE + WINDOW_UPDATEs emitted - DATA received',
                                'step': i, 'detail': {'stream': sid, 'state': st.get(sid), 'reported': srow[2], 'recomputed': want, 'op': repr(op)[:120]}})
                    skip.add(sid)
        if op[0] == 'Receive':
            if _conn.ok(parts) and not any(e[0][0] == 'GoAway' for e in op[1]):
                for e in op[1]:
                    if e[0][0] == 'Data':
                        spec -= e[0][3]
                spec += emitted
            else:
                # which frames of the batch were processed is not visible from outside: judge the error only
                if prev is not None and prev[3] != 3:
                    first_data = next((e for e in op[1] if e[0][0] == 'Data'), None)
                    only_data = all(e[0][0] == 'Data' for e in op[1])
                    if only_data and first_data is not None and _conn.err_name(parts) == 'FlowControlError':
                        total = 0
                        over = False
                        sw = {s[0]: s[2] for s in prev[9]}
                        for e in op[1]:
                            total += e[0][3]
                            if total > prev[6][1] or e[0][3] > sw.get(e[0][1], 1 << 62):
                                over = True
                        if not over and len({e[0][1] for e in op[1]}) == len(op[1]):
                            bad.append({'rule': 'DATA that fits every advertised window was refused with FlowControlError', 'step': i,
                                        'detail': {'conn_window': prev[6][1], 'frames': [e[0] for e in op[1]]}})
                valid = False
        else:
            spec += emitted
        if valid and parts[6][1] != spec:
            bad.append({'rule': 'advertised connection window differs from 65535 + WINDOW_UPDATEs emitted - DATA received', 'step': i,
                        'detail': {'reported': parts[6][1], 'recomputed': spec, 'op': repr(op)[:160]}})
            valid = False
        if prev is not None and op[0] in ('IncrementWindow', 'Acknowledge') and not _conn.ok(parts):
            if [x[2:] for x in prev[9]] != [x[2:] for x in parts[9]] or prev[6][1:] != parts[6][1:]:
                bad.append({'rule': 'a window-changing call that raised changed a window', 'step': i,
                            'detail': {'op': repr(op), 'before': [prev[6], prev[9]], 'after': [parts[6], parts[9]]}})
            if frames[i]:
                bad.append({'rule': 'a window-changing call that raised emitted frames', 'step': i, 'detail': frames[i][:2]})
        if op[0] == 'RemoteWindow' and _conn.ok(parts) and prev is not None:
            sw = {s[0]: s[2] for s in prev[9]}.get(op[1])
            if sw is not None and parts[0][1] != [min(prev[6][1], sw)]:
                bad.append({'rule': 'remote_flow_control_window is not the minimum of the two advertised windows', 'step': i,
                            'detail': {'answer': parts[0][1], 'conn': prev[6][1], 'stream': sw}})
        if op[0] == 'Receive' and prev is not None and prev[3] != 3 and op[1] and op[1][0][0][0] == 'Data':
            e = op[1][0][0]
            if e[3] > prev[6][1] and e[1] != 0 and e[3] <= 16384:
                if _conn.err_name(parts) != 'FlowControlError' or parts[0][2] != 3:
                    bad.append({'rule': 'DATA overrunning the advertised connection window was not a FLOW_CONTROL_ERROR', 'step': i,
                                'detail': {'fclen': e[3], 'conn_window': prev[6][1], 'outcome': parts[0]}})
        prev = parts
    return bad


def scenarios(run):
    """Directed programs: streams in every state, then a local INITIAL_WINDOW_SIZE change acknowledged by the
    peer, then probes, acknowledgements and DATA on every stream."""
    from harness import t2
    out = []
    for client in (True, False):
        for iws in (1000, 100000, 0, 65535 + 7):
            ops = list(t2.zoo(client))
            ops.append(('UpdateSettings', [(4, iws)]))
            ops.append(('Receive', [(('Settings', True, []), None, {})]))
            for sid in t2.ZOO_SIDS:
                ops.append(('RemoteWindow', sid))
            for sid in (1, 2, 4, 11):
                ops.append(('Receive', [(('Data', sid, min(iws, 900) + 1, min(iws, 900) + 1, False), None, {})]))
                ops.append(('Acknowledge', 600, sid))
                ops.append(('IncrementWindow', 5, sid))
            out.append((t2.default_cfg(client), ops))
    return out


SPEC = dict(parts=PARTS, weights=WEIGHTS, rf_weights=RF, n_quick=320, n_thorough=8000, n_ops=32, oracle=oracle, scenarios=scenarios,
            nontrivial=lambda p: any(op[0] == 'Receive' and any(e[0][0] == 'Data' for e in op[1]) for op in p['ops']),
            rule='DATA / increment_flow_control_window / acknowledge_received_data / local INITIAL_WINDOW_SIZE heavy programs (sizes at the live windows +-1, '
                 'overflowing increments, acknowledgements on live, closed and unknown streams); compared with the model on result, output and all '
                 'flow-control state; non-trivial = at least one DATA frame was received',
            extra_obligations=5)


def check(run):
    return _conn.conn_check(run, SPEC)


def replay(run, path):
    return _conn.conn_replay(run, path, oracle)
