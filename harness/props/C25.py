"""C25 — h2c upgrade hands over settings and stream 1 consistently."""
import random

from harness import t2
from harness.props import _conn

PARTS = [0, 1, 3, 4, 5, 7, 8, 11, 12]
WEIGHTS = dict(send_headers=14, send_data=8, end_stream=5, increment=1, push=3, ping=0.5, reset=2, close=0.1,
               update_settings=2, altsvc=0.5, prioritize=0.5, ack=1, probe=3, drain=3, receive=45)


def two_endpoints(run, n):
    """client settings -> HTTP2-Settings -> server, on the real objects"""
    import h2.connection
    import h2.config
    import h2.settings
    import h2.exceptions
    import h2.events
    from h2.settings import SettingCodes as SC
    rnd = random.Random(run.seed + 25)
    cov = {'upgrade_pairs': 0}
    REQ = [(':method', 'GET'), (':path', '/'), (':scheme', 'http'), (':authority', 'a')]
    for i in range(n):
        vals = {}
        if rnd.random() < 0.8:
            vals[SC.HEADER_TABLE_SIZE] = rnd.choice([0, 100, 4096, 65536])
        if rnd.random() < 0.8:
            vals[SC.ENABLE_PUSH] = rnd.choice([0, 1])
        if rnd.random() < 0.8:
            vals[SC.INITIAL_WINDOW_SIZE] = rnd.choice([0, 1, 65535, 2 ** 20, 2 ** 31 - 1])
        if rnd.random() < 0.8:
            vals[SC.MAX_FRAME_SIZE] = rnd.choice([16384, 20000, 2 ** 24 - 1])
        if rnd.random() < 0.6:
            vals[SC.MAX_CONCURRENT_STREAMS] = rnd.choice([0, 1, 100, 2 ** 31])
        if rnd.random() < 0.6:
            vals[SC.MAX_HEADER_LIST_SIZE] = rnd.choice([0, 100, 65536])
        if rnd.random() < 0.3:
            vals[SC.ENABLE_CONNECT_PROTOCOL] = rnd.choice([0, 1])
        c = h2.connection.H2Connection(config=h2.config.H2Configuration(client_side=True))
        c.local_settings = h2.settings.Settings(client=True, initial_values=vals)
        # configuring a client by replacing local_settings bypasses what an acknowledged HEADER_TABLE_SIZE does: tell the decoder
        # (otherwise a server that honours a size above 4096 is refused; masked until fix a61fac8 by the lost size announcement)
        if SC.HEADER_TABLE_SIZE in vals:
            c.decoder.max_allowed_table_size = vals[SC.HEADER_TABLE_SIZE]
        s = h2.connection.H2Connection(config=h2.config.H2Configuration(client_side=False))
        hdr = c.initiate_upgrade_connection()
        s.initiate_upgrade_connection(hdr)
        cov['upgrade_pairs'] += 1
        problems = []
        for k in list(SC):
            try:
                a = c.local_settings[k]
            except KeyError:
                a = None
            try:
                b = s.remote_settings[k]
            except KeyError:
                b = None
            if a != b:
                problems.append('setting %s: client local %r, server view %r' % (k.name, a, b))
        if c.streams[1].state_machine.state.name != 'HALF_CLOSED_LOCAL' or s.streams[1].state_machine.state.name != 'HALF_CLOSED_REMOTE':
            problems.append('stream 1 states: %s / %s' % (c.streams[1].state_machine.state.name, s.streams[1].state_machine.state.name))
        # the settings must be IN FORCE on the server at once (the 101 response is their acknowledgement, RFC 7540 3.2.1): the server
        # may answer stream 1 before it has read anything else from the client
        if s.max_outbound_frame_size != c.local_settings.max_frame_size:
            problems.append('server max_outbound_frame_size %r, client MAX_FRAME_SIZE %r' % (s.max_outbound_frame_size, c.local_settings.max_frame_size))
        if s.encoder.header_table_size != c.local_settings.header_table_size:
            problems.append('server encoder table size %r, client HEADER_TABLE_SIZE %r' % (s.encoder.header_table_size, c.local_settings.header_table_size))
        if s.local_flow_control_window(1) != min(65535, c.local_settings.initial_window_size):
            problems.append('server window for stream 1 is %r, client INITIAL_WINDOW_SIZE %r' % (s.local_flow_control_window(1), c.local_settings.initial_window_size))
        # the rest of the handshake and the first exchange (in half of the pairs the server answers before reading the client's preface)
        early = rnd.random() < 0.5
        try:
            if not early:
                evs = s.receive_data(c.data_to_send())
                c.receive_data(s.data_to_send())
            s.send_headers(1, [(':status', '200'), ('x-a', 'b' * 40)], end_stream=False)
            s.send_data(1, b'hello', end_stream=True)
            evs = c.receive_data(s.data_to_send())
            names = [type(e).__name__ for e in evs]
            if 'ResponseReceived' not in names or 'DataReceived' not in names or 'StreamEnded' not in names:
                problems.append('the client did not receive the response on stream 1: %s' % names)
        except h2.exceptions.FlowControlError:
            pass        # INITIAL_WINDOW_SIZE 0 / 1: the server may not send 5 bytes; not the property
        except Exception as e:  # noqa
            problems.append('first exchange failed: %r' % e)
        for conn, who in ((c, 'client'), (s, 'server')):
            if who == 'client':
                try:
                    conn.send_data(1, b'x')
                    problems.append('the client could send a request body on stream 1')
                except h2.exceptions.ProtocolError:
                    pass
                except Exception as e:  # noqa
                    problems.append('client send_data on stream 1 raised %r' % e)
        if c.get_next_available_stream_id() != 3 or s.get_next_available_stream_id() != 2:
            problems.append('next stream ids %d / %d' % (c.get_next_available_stream_id(), s.get_next_available_stream_id()))
        if problems:
            run.violation({'kind': 'oracle', 'rule': 'the h2c upgrade hand-over is inconsistent', 'client_settings': {int(k): v for k, v in vals.items()},
                           'problems': problems})
            break
    return cov


def oracle(p):
    bad = []
    if p['ops'] and p['ops'][0][0] == 'InitiateUpgrade' and _conn.ok(p['parts'][0]):
        parts = p['parts'][0]
        client = p['cfg']['client']
        st = next((e for e in parts[8] if e[0] == 1), None)
        want = 5 if client else 4
        if st is None or st[1] != want:
            bad.append({'rule': 'stream 1 is not half-closed (%s) after the upgrade' % ('local' if client else 'remote'), 'step': 0, 'detail': st})
        if parts[5] != ([0, 1] if client else [1, 0]):
            bad.append({'rule': 'the stream id watermarks after the upgrade are not those of stream 1', 'step': 0, 'detail': parts[5]})
        hdr = p['ops'][0][1]
        if not client and hdr:
            for k, v in hdr:
                cur = next((q[0] for kk, q in parts[12] if kk == k), None)
                if cur is not None and cur != [v]:
                    bad.append({'rule': 'the server\'s view of a client setting differs from the HTTP2-Settings value', 'step': 0, 'detail': {'setting': k, 'value': v, 'view': cur}})
    return bad


SPEC = dict(parts=PARTS, weights=WEIGHTS, n_quick=200, n_thorough=5000, n_ops=26, oracle=oracle, starts=('upgrade',),
            extra_stage=lambda run: two_endpoints(run, 300 if run.tier == 'quick' else 6000),
            nontrivial=lambda p: p['ops'][0][0] == 'InitiateUpgrade' and len(p['ops']) > 5,
            rule='(a) programs that start with initiate_upgrade_connection (clients; servers with and without an HTTP2-Settings payload) followed by arbitrary continuation programs, '
                 'compared with the model; (b) on the real objects: random client settings -> initiate_upgrade_connection() -> the header value -> the server\'s '
                 'initiate_upgrade_connection(value): every setting equal on both sides, stream 1 half-closed (local / remote), the response on stream 1 arrives, no request body '
                 'can be sent, next stream ids 3 and 2; non-trivial = an upgraded connection that went on for more than five operations')


def check(run):
    return _conn.conn_check(run, SPEC)


def replay(run, path):
    return _conn.conn_replay(run, path, oracle)
